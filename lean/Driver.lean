import Lean.Data.Json
import Std.Data.HashMap
import EduceModel.Spec.Eq
import EduceModel.Spec.Cmp
import EduceModel.Spec.Hash
import EduceModel.Spec.Clone
import EduceModel.Spec.Debug
import EduceModel.Spec.Deref
import EduceModel.Spec.Into
import EduceModel.Spec.Default
import EduceModel.Gen.Union
import EduceModel.DriverAttr
import EduceModel.Bridge
import EduceModel.Names
/-
  Line-protocol driver: one JSON array per line in, one JSON array per line out.
  The executable definitions it runs are exactly the ones the theorems are about
  (`Gen.*`, `Sem.*`, `Spec.*`); leaf behaviour comes from tables measured on the real leaf types.
-/
open Lean Educe

structure Rel where
  ne : Bool
  cmp : Ord3
  pcmp : Option Ord3
  deriving Inhabited

structure FieldJ where
  name : Educe.Ident
  ty : String
  eq : EqField
  ord : OrdField
  hash : HashField
  clone : CloneField
  debug : DbgField
  deref : DerefField
  derefMut : DerefField
  into : IntoField
  dflt : DefField
  deriving Inhabited

structure VariantJ where
  name : Educe.Ident
  shape : Shape
  fields : Array FieldJ
  disc : Option Int
  vname : NameCfg
  namedField : Option Bool
  dflag : Bool
  deriving Inhabited

structure DefJ where
  isEnum : Bool
  variants : Array VariantJ
  ordMode : String     -- "ord" | "partialord" | "both"
  name : Educe.Ident
  tname : NameCfg
  copy : Bool          -- Copy educed next to Clone
  isUnion : Bool
  defCfg : DefCfg
  uattr : UnionAttr
  -- end-to-end definitions (`defe2e`): configurations derived by the attribute-layer model from syn's records
  -- through `Bridge`; when present they replace what the generator wrote
  eqO : Option EqType := none
  ordO : Option OrdType := none
  hashO : Option HashType := none
  cloneO : Option CloneType := none
  dbgO : Option DbgType := none
  derefO : Option DerefType := none
  derefMutO : Option DerefType := none
  intoO : Option IntoType := none
  defO : Option DefType := none
  deriving Inhabited

structure St where
  rel : Std.HashMap (String × Nat × Nat) Rel := {}
  methB : Std.HashMap (String × Nat × Nat × Nat) Bool := {}   -- (kind, id, a, b) ↦ bool result
  methO : Std.HashMap (String × Nat × Nat × Nat) (Option Ord3) := {}
  hashV : Std.HashMap (String × Nat) (List String) := {}      -- (ty, a) ↦ writes of the leaf's own Hash
  methH : Std.HashMap (Nat × Nat) (List String) := {}         -- (id, a) ↦ writes of the hash method
  cloneV : Std.HashMap (String × Nat) Nat := {}               -- (ty, a) ↦ id of a.clone()
  cloneF : Std.HashMap (String × Nat × Nat) Nat := {}         -- (ty, dst, src) ↦ id of dst after clone_from
  methV : Std.HashMap (String × Nat × Nat) Nat := {}          -- (kind, id, a) ↦ id of m(a)
  exprV : Std.HashMap Nat String := {}                          -- expression id ↦ Debug of its value
  dfltV : Std.HashMap String String := {}                       -- type ↦ Debug of Default::default()
  texprV : Std.HashMap Nat (Val String) := {}                   -- type-level expression id ↦ value
  conv : Std.HashMap (Nat × Nat × Nat) Nat := {}               -- (from type id, target id, a) ↦ value
  dbgV : Std.HashMap (String × Nat) (String × String) := {}   -- (ty, a) ↦ ({:?}, {:#?}) of the leaf
  methD : Std.HashMap (Nat × Nat) (String × String) := {}     -- (id, a) ↦ output of the debug method
  defs : Std.HashMap Nat DefJ := {}

def jstr (j : Json) : String := (j.getStr?).toOption.getD ""
def jnat (j : Json) : Nat := (j.getNat?).toOption.getD 0
def jint (j : Json) : Int := (j.getInt?).toOption.getD 0
def jbool (j : Json) : Bool := (j.getBool?).toOption.getD false
def jarr (j : Json) : Array Json := (j.getArr?).toOption.getD #[]
def jfield (j : Json) (k : String) : Json := (j.getObjVal? k).toOption.getD Json.null
def jopt (j : Json) : Option Json := if j.isNull then none else some j

def parseOrd3 (s : String) : Option Ord3 :=
  if s == "lt" then some .lt else if s == "eq" then some .eq else if s == "gt" then some .gt else none

def parseShape (s : String) : Shape :=
  if s == "tuple" then .tuple else if s == "named" then .named else .unit

def parseNameCfg (j : Json) : NameCfg :=
  let k := jstr (jfield j "kind")
  if k == "disable" then .disable
  else if k == "custom" then .custom (jstr (jfield j "name")).toList
  else .default

def parseField (j : Json) : FieldJ :=
  let name := (jstr (jfield j "name")).toList
  let e := jfield j "eq"
  let o := jfield j "ord"
  let h := jfield j "hash"
  let c := jfield j "clone"
  let g := jfield j "debug"
  let dr := jfield j "deref"
  let dm := jfield j "derefmut"
  let io := jfield j "into"
  let df := jfield j "default"
  { name := name, ty := jstr (jfield j "ty"),
    eq := { name := name, ignore := jbool (jfield e "ignore"),
            method := (jopt (jfield e "method")).map jnat },
    ord := { name := name, ignore := jbool (jfield o "ignore"),
             method := (jopt (jfield o "method")).map jnat,
             rank := (jopt (jfield o "rank")).map jint },
    hash := { name := name, ignore := jbool (jfield h "ignore"), method := (jopt (jfield h "method")).map jnat },
    clone := { name := name, method := (jopt (jfield c "method")).map jnat },
    debug := { name := name, ignore := jbool (jfield g "ignore"), method := (jopt (jfield g "method")).map jnat,
               rename := (jopt (jfield g "rename")).map fun r => (jstr r).toList },
    deref := { name := name, flag := jbool (jfield dr "flag"), isRef := jbool (jfield dr "isRef") },
    derefMut := { name := name, flag := jbool (jfield dm "flag"), isRef := jbool (jfield dm "isRef") },
    into := { name := name, ty := jnat (jfield io "ty"),
              markers := (jarr (jfield io "markers")).toList.map fun p => (jnat (jarr p)[0]!, (jopt (jarr p)[1]!).map jnat) },
    dflt := { name := name, expr := (jopt (jfield df "expr")).map jnat, flag := jbool (jfield df "flag") } }

def parseDef (j : Json) : DefJ :=
  { isEnum := jstr (jfield j "kind") == "enum",
    ordMode := jstr (jfield j "ordmode"),
    copy := jbool (jfield j "copy"),
    name := (jstr (jfield j "name")).toList,
    tname := parseNameCfg (jfield j "tname"),
    isUnion := jstr (jfield j "kind") == "union",
    defCfg := { typeExpr := (jopt (jfield j "typeexpr")).map jnat, new := jbool (jfield j "new") },
    uattr := { hasUnsafe := jbool (jfield (jfield j "uattr") "unsafe"), name := parseNameCfg (jfield (jfield j "uattr") "name") },
    variants := (jarr (jfield j "variants")).map fun v =>
      { name := (jstr (jfield v "name")).toList, shape := parseShape (jstr (jfield v "shape")),
        disc := (jopt (jfield v "disc")).map jint,
        vname := parseNameCfg (jfield v "vname"),
        namedField := (jopt (jfield v "named_field")).map jbool,
        dflag := jbool (jfield v "dflag"),
        fields := (jarr (jfield v "fields")).map parseField } }

def DefJ.eqType (d : DefJ) : EqType :=
  if let some t := d.eqO then t else
  let mk (v : VariantJ) : EqVariant :=
    { name := v.name, shape := v.shape, fields := v.fields.toList.map (·.eq) }
  if d.isEnum then .enum (d.variants.toList.map mk)
  else .struct (mk (d.variants[0]!))

def DefJ.ordType (d : DefJ) : OrdType :=
  if let some t := d.ordO then t else
  let mk (v : VariantJ) : OrdVariant :=
    { name := v.name, shape := v.shape, fields := v.fields.toList.map (·.ord), disc := v.disc }
  if d.isEnum then .enum (d.variants.toList.map mk)
  else .struct (mk (d.variants[0]!))

def DefJ.hashType (d : DefJ) : HashType :=
  if let some t := d.hashO then t else
  let mk (v : VariantJ) : HashVariant :=
    { name := v.name, shape := v.shape, fields := v.fields.toList.map (·.hash) }
  if d.isEnum then .enum (d.variants.toList.map mk)
  else .struct (mk (d.variants[0]!))

def DefJ.cloneType (d : DefJ) : CloneType :=
  if let some t := d.cloneO then t else
  let mk (v : VariantJ) : CloneVariant :=
    { name := v.name, shape := v.shape, fields := v.fields.toList.map (·.clone) }
  if d.isUnion then .union
  else if d.isEnum then .enum (d.variants.toList.map mk)
  else .struct (mk (d.variants[0]!))

def DefJ.dbgType (d : DefJ) : DbgType :=
  if let some t := d.dbgO then t else
  let mk (v : VariantJ) : DbgVariant :=
    { name := v.name, shape := v.shape, fields := v.fields.toList.map (·.debug), vname := v.vname, namedField := v.namedField }
  if d.isEnum then .enum d.name (d.variants.toList.map mk) d.tname
  else .struct { mk (d.variants[0]!) with name := d.name } d.tname

def DefJ.derefType (d : DefJ) (mutable : Bool) : DerefType :=
  if let some t := (if mutable then d.derefMutO else d.derefO) then t else
  let mk (v : VariantJ) : DerefVariant :=
    { name := v.name, shape := v.shape, fields := v.fields.toList.map fun f => if mutable then f.derefMut else f.deref }
  if d.isEnum then .enum (d.variants.toList.map mk)
  else .struct (mk (d.variants[0]!))

def DefJ.intoType (d : DefJ) : IntoType :=
  if let some t := d.intoO then t else
  let mk (v : VariantJ) : IntoVariant :=
    { name := v.name, shape := v.shape, fields := v.fields.toList.map (·.into) }
  if d.isEnum then .enum (d.variants.toList.map mk)
  else .struct (mk (d.variants[0]!))

def DefJ.intoTyOf (d : DefJ) (p : Pos) : Nat :=
  match d.variants[p.variant]? with
  | some v => match v.fields[p.field]? with
    | some f => f.into.ty
    | none => 0
  | none => 0

def DefJ.defType (d : DefJ) : DefType :=
  if let some t := d.defO then t else
  let mk (v : VariantJ) : DefVariant :=
    { name := v.name, shape := v.shape, fields := v.fields.toList.map (·.dflt), flag := v.dflag }
  if d.isUnion then .union ((d.variants[0]!).fields.toList.map (·.dflt))
  else if d.isEnum then .enum (d.variants.toList.map mk)
  else .struct (mk (d.variants[0]!))

def DefJ.tyOf (d : DefJ) (p : Pos) : String :=
  match d.variants[p.variant]? with
  | some v => match v.fields[p.field]? with
    | some f => f.ty
    | none => "?"
  | none => "?"

def St.eqOps (st : St) (d : DefJ) : EqOps Nat :=
  { ne := fun p x y => ((st.rel.get? (d.tyOf p, x, y)).map (·.ne)).getD false,
    method := fun m x y => (st.methB.get? ("eq", m, x, y)).getD false }

def St.ordOps (st : St) (d : DefJ) : OrdOps Nat :=
  { cmp := fun p x y => ((st.rel.get? (d.tyOf p, x, y)).map (·.cmp)).getD .eq,
    pcmp := fun p x y => ((st.rel.get? (d.tyOf p, x, y)).map (·.pcmp)).getD none,
    cmpM := fun m x y => ((st.methO.get? ("cmp", m, x, y)).getD none).getD .eq,
    pcmpM := fun m x y => (st.methO.get? ("pcmp", m, x, y)).getD none }

def St.hashOps (st : St) (d : DefJ) : HashOps Nat String :=
  { hash := fun p x => (st.hashV.get? (d.tyOf p, x)).getD ["?"],
    method := fun m x => (st.methH.get? (m, x)).getD ["?"] }

def St.cloneOps (st : St) (d : DefJ) : CloneOps Nat :=
  { clone := fun p x => (st.cloneV.get? (d.tyOf p, x)).getD 999,
    cloneFrom := fun p x y => (st.cloneF.get? (d.tyOf p, x, y)).getD 999,
    method := fun m x => (st.methV.get? ("clone", m, x)).getD 999 }

/-- `wide`: the leaf texts measured under a format specification that also carries a width and a precision
    (`{:7.2?}` / `{:#7.2?}`): the builders of `core::fmt` hand the formatter, options included, to every value and write
    names, keys and punctuation with `write_str`, so the structure is the same and only the leaf texts differ. -/
def St.dbgOps (st : St) (d : DefJ) (wide : Bool := false) : DbgOps Nat :=
  { fmt := fun p alt x => match st.dbgV.get? (if wide then d.tyOf p ++ "@w" else d.tyOf p, x) with
      | some (c, pr) => if alt then pr else c
      | none => "?",
    method := fun m alt x => match st.methD.get? (if wide then m + 100000 else m, x) with
      | some (c, pr) => if alt then pr else c
      | none => "?" }

/-- the format selector of a `dbg` request: `false` = `{:?}`, `true` = `{:#?}`, `2` = `{:7.2?}`, `3` = `{:#7.2?}` → (alt, wide) -/
def fmtSpec (j : Json) : Bool × Bool :=
  match j.getBool? with
  | .ok b => (b, false)
  | .error _ => (jnat j == 3, true)

def showWrites (ws : List (Write String)) : Json :=
  Json.arr (ws.toArray.map fun w => match w with
    | .usize n => Json.str ("usize:" ++ toString n)
    | .leaf s => Json.str s)

def showVal (v : Val Nat) (calls : Nat) : Json :=
  Json.arr #[Json.num v.variant, Json.arr (v.fields.toArray.map fun (n : Nat) => Json.num n), Json.num calls]

/-- Number of instrumented (`K`- / `KC`-typed) fields of variant `k`: each is cloned by exactly one call. -/
def DefJ.countK (d : DefJ) (k : Nat) : Nat :=
  match d.variants[k]? with
  | some v => (v.fields.toList.filter fun f => f.ty == "K" || f.ty == "KC").length
  | none => 0

def showO3 : Ord3 → String
  | .lt => "lt" | .eq => "eq" | .gt => "gt"
def showOO3 : Option Ord3 → String
  | some o => showO3 o | none => "none"
def showModelCmp : Option (Option (Option Ord3)) → String   -- rejected / unbound / result
  | none => "rejected"
  | some none => "unbound"
  | some (some r) => showOO3 r

def showOB : Option Bool → String
  | some true => "true" | some false => "false" | none => "unbound"

def natList (j : Json) : List Nat := (jarr j).toList.map jnat

/-! ### end-to-end definitions: syn's records → attribute layer → `Bridge` → behavioural configuration -/

/-- Numbering of the custom methods: the generator's table maps the last path segment to the id the leaf tables use. -/
def methodNum (table : List (String × Nat)) (path : String) : Nat :=
  let seg := ((path.replace " " "").splitOn "::").getLast!
  ((table.find? fun p => p.1 == seg).map (·.2)).getD 999

/-- ["defe2e", id, def, record, methods] — `def` as for "def" (leaf types, discriminant values, names), `record` as for
    "expand". Every configuration the attributes determine is taken from the attribute-layer model. Returns an error
    string when the model does not accept the definition. -/
def defE2E (dj : DefJ) (rec : Json) (methods : Json) (types : Json) : Except String DefJ :=
  let d := DA.deriveInput rec
  let F := Educe.Attr.TraitId.all
  let table : List (String × Nat) := (jarr methods).toList.map fun p => (jstr (jarr p)[0]!, jnat (jarr p)[1]!)
  let num := methodNum table
  -- the value rustc gives a written discriminant: the generator computed it per variant
  let discPairs : List (String × Int) :=
    (d.variants.zip dj.variants.toList).filterMap fun (v, vj) => match v.disc, vj.disc with
      | some s, some n => some (s, n)
      | _, _ => none
  let discVal : String → Int := fun s => ((discPairs.find? fun p => p.1 == s).map (·.2)).getD 0
  match Educe.Attr.collectTopAttrs F d.attrs [] with
  | .diag e => .error ("collect: " ++ DA.showDiag e)
  | .panic s => .error ("collect: panic " ++ DA.showSite s)
  | .ok map =>
    let c := Educe.Bridge.ctxOf F map d
    let fail {α : Type} (what : String) (r : Educe.Attr.Res α) : Except String (Option α) :=
      match r with
      | .ok a => .ok (some a)
      | .diag e => .error (what ++ ": " ++ DA.showDiag e)
      | .panic s => .error (what ++ ": panic " ++ DA.showSite s)
    if d.kind == .union then .ok dj else do
    let eqO ← if c.traits .partialEq then
        (fail "PartialEq scan" (Educe.Bridge.cmpScan c (Educe.Bridge.mineEq c) Educe.Bridge.eqFlags)).map (·.map (Educe.Bridge.eqType num d.kind))
      else pure none
    let hashO ← if c.traits .hash then
        (fail "Hash scan" (Educe.Bridge.cmpScan c (· == .hash) Educe.Bridge.eqFlags)).map (·.map (Educe.Bridge.hashType num d.kind))
      else pure none
    let ordO ← if c.traits .ord then
        (fail "Ord scan" (Educe.Bridge.ordScan c (Educe.Bridge.mineOrd c))).map (·.map (Educe.Bridge.ordType num discVal d.kind))
      else if c.traits .partialOrd then
        (fail "PartialOrd scan" (Educe.Bridge.ordScan c (· == .partialOrd))).map (·.map (Educe.Bridge.ordType num discVal d.kind))
      else pure none
    let cloneO ← if c.traits .clone then
        (fail "Clone scan" (Educe.Bridge.cloneScan c (Educe.Bridge.cloneEnableMethod c))).map (·.map (Educe.Bridge.cloneType num d.kind))
      else pure none
    let firstMeta (t : Educe.Attr.TraitId) : Option Educe.Attr.TraitMeta := (map.find? fun p => p.1 == t).bind fun p => p.2.head?
    let dbgO ← if c.traits .debug then
        match firstMeta .debug with
        | some m => fail "Debug scan" (Educe.Bridge.dbgScan c m num)
        | none => pure none
      else pure none
    let derefO := if c.traits .deref then some (Educe.Bridge.derefType (Educe.Bridge.derefFieldFlag c .deref) d) else none
    let derefMutO := if c.traits .derefMut then some (Educe.Bridge.derefType (Educe.Bridge.derefFieldFlag c .derefMut) d) else none
    -- Into: the normalised type strings are numbered by their position in the generator's palette
    let tyNames : List String := (jarr types).toList.map fun j => (jstr j).replace " " ""
    let tnum : String → Nat := fun s => (tyNames.findIdx? fun n => n == s.replace " " "").getD (1000 + s.length)
    let intoO ← if c.traits .into then
        match map.find? fun p => p.1 == Educe.Attr.TraitId.into with
        | some (_, ms) => do
          let targets ← fail "Into targets" (Educe.Attr.intoTypeFromMetas true ms [])
          match targets with
          | some ts => (fail "Into scan" (Educe.Bridge.intoScan c ts)).map (·.map (Educe.Bridge.intoType tnum num d.kind))
          | none => pure none
        | none => pure none
      else pure none
    -- Default: the expressions are numbered through the generator's ids, matched by (printed text, wrapped in Into::into)
    let exprPairs : List ((String × Bool) × Nat) :=
      (d.variants.zip dj.variants.toList).flatMap fun (v, vj) =>
        (v.fields.zip vj.fields.toList).filterMap fun (f, fj) =>
          match Educe.Bridge.defFieldAttr c false true f, fj.dflt.expr with
          | .ok a, some id => a.expression.map fun e => (e, id)
          | _, _ => none
    let enum : String × Bool → Nat := fun e => ((exprPairs.find? fun p => p.1 == e).map (·.2)).getD 999
    let defR ← if c.traits .default then
        match firstMeta .default with
        | some m => do
          let ta ← fail "Default type attribute" (Educe.Attr.defaultTypeFromMeta { flag := true, new := true, expression := true, bound := true } m)
          pure (ta.map fun ta => (Educe.Bridge.defType c enum,
                  ({ typeExpr := match ta.expression with | some _ => dj.defCfg.typeExpr | none => none, new := ta.new } : DefCfg)))
        | none => pure none
      else pure none
    let ordMode := if c.traits .ord && c.traits .partialOrd then "both" else if c.traits .ord then "ord" else if c.traits .partialOrd then "partialord" else dj.ordMode
    pure { dj with eqO := eqO, hashO := hashO, ordO := ordO, cloneO := cloneO, dbgO := dbgO, derefO := derefO, derefMutO := derefMutO, intoO := intoO,
                   defO := defR.map (·.1), defCfg := match defR with | some r => r.2 | none => dj.defCfg,
                   copy := if c.traits .clone then c.traits .copy else dj.copy, ordMode := ordMode }

def handle (st : St) (j : Json) : St × Option Json :=
  let a := jarr j
  let op := jstr a[0]!
  if op == "rel" then
    -- ["rel", ty, a, b, ne, cmp, pcmp]
    let r : Rel := { ne := jbool a[4]!, cmp := (parseOrd3 (jstr a[5]!)).getD .eq, pcmp := parseOrd3 (jstr a[6]!) }
    ({ st with rel := st.rel.insert (jstr a[1]!, jnat a[2]!, jnat a[3]!) r }, none)
  else if op == "methb" then
    -- ["methb", kind, id, a, b, result]
    ({ st with methB := st.methB.insert (jstr a[1]!, jnat a[2]!, jnat a[3]!, jnat a[4]!) (jbool a[5]!) }, none)
  else if op == "def" then
    ({ st with defs := st.defs.insert (jnat a[1]!) (parseDef a[2]!) }, none)
  else if op == "defe2e" then
    match defE2E (parseDef a[2]!) a[3]! a[4]! (a[5]?.getD Json.null) with
    | .ok dj => ({ st with defs := st.defs.insert (jnat a[1]!) dj }, some (Json.arr #["defe2e", a[1]!, "ok"]))
    | .error e => (st, some (Json.arr #["defe2e", a[1]!, Json.str e]))
  else if op == "eq" then
    -- ["eq", def, va, [fa], vb, [fb]]  →  ["eq", def, va, [fa], vb, [fb], model, spec]
    match st.defs.get? (jnat a[1]!) with
    | none => (st, some (Json.arr #["error", "unknown def"]))
    | some d =>
      let t := d.eqType
      let x : Val Nat := ⟨jnat a[2]!, natList a[3]!⟩
      let y : Val Nat := ⟨jnat a[4]!, natList a[5]!⟩
      let ops := st.eqOps d
      let m := Sem.evalEq ops t (Gen.PartialEq.body t) x y
      let s := Spec.eq ops t x y
      (st, some (Json.arr #["eq", a[1]!, a[2]!, a[3]!, a[4]!, a[5]!, showOB m, showOB (some s)]))
  else if op == "ne" then
    match st.defs.get? (jnat a[1]!) with
    | none => (st, some (Json.arr #["error", "unknown def"]))
    | some d =>
      let t := d.eqType
      let x : Val Nat := ⟨jnat a[2]!, natList a[3]!⟩
      let y : Val Nat := ⟨jnat a[4]!, natList a[5]!⟩
      let ops := st.eqOps d
      -- the impl defines only `eq`; `ne` is the trait's default method `!eq`
      let m := (Sem.evalEq ops t (Gen.PartialEq.body t) x y).map (!·)
      let s := !Spec.eq ops t x y
      (st, some (Json.arr #["ne", a[1]!, a[2]!, a[3]!, a[4]!, a[5]!, showOB m, showOB (some s)]))
  else if op == "metho" then
    -- ["metho", kind, id, a, b, "lt|eq|gt|none"]
    ({ st with methO := st.methO.insert (jstr a[1]!, jnat a[2]!, jnat a[3]!, jnat a[4]!) (parseOrd3 (jstr a[5]!)) }, none)
  else if op == "cmp" || op == "pcmp" || op == "cmpw" || op == "pcmpw" then
    match st.defs.get? (jnat a[1]!) with
    | none => (st, some (Json.arr #["error", "unknown def"]))
    | some d =>
      let t := d.ordType
      let x : Val Nat := ⟨jnat a[2]!, natList a[3]!⟩
      let y : Val Nat := ⟨jnat a[4]!, natList a[5]!⟩
      let ops := st.ordOps d
      -- `cmp` is always the total body. `partial_cmp` is the partial body, except when Ord is
      -- educed too: then the Ord handler emits `Some(Ord::cmp(self, other))`.
      -- `cmpw`/`pcmpw`: the same comparison with the operands embedded next to other bytes;
      -- the model has no layout parameter, so the answer is the same by construction.
      let partial_ := (op == "pcmp" || op == "pcmpw") && d.ordMode != "both"
      let m := (Gen.Ord.body t).map fun bd => Sem.evalCmp ops partial_ t bd x y
      let s := Spec.cmp ops partial_ t x y
      (st, some (Json.arr #[op, a[1]!, a[2]!, a[3]!, a[4]!, a[5]!, showModelCmp m, showOO3 s]))
  else if op == "hashv" then
    ({ st with hashV := st.hashV.insert (jstr a[1]!, jnat a[2]!) ((jarr a[3]!).toList.map jstr) }, none)
  else if op == "methh" then
    ({ st with methH := st.methH.insert (jnat a[2]!, jnat a[3]!) ((jarr a[4]!).toList.map jstr) }, none)
  else if op == "clonev" then
    ({ st with cloneV := st.cloneV.insert (jstr a[1]!, jnat a[2]!) (jnat a[3]!) }, none)
  else if op == "clonef" then
    ({ st with cloneF := st.cloneF.insert (jstr a[1]!, jnat a[2]!, jnat a[3]!) (jnat a[4]!) }, none)
  else if op == "methv" then
    ({ st with methV := st.methV.insert (jstr a[1]!, jnat a[2]!, jnat a[3]!) (jnat a[4]!) }, none)
  else if op == "pickname" then
    -- ["pickname", "hasher" | "debugfield", type ident, [generic parameter names]] → the name the generated code picks
    let gens := (jarr a[3]!).toList.map fun j => (jstr j).toList
    let nm := if jstr a[1]! == "hasher" then Educe.Names.hasherName gens
              else Educe.Names.debugFieldName (jstr a[2]!).toList gens
    (st, some (Json.arr #["pickname", a[1]!, a[2]!, a[3]!, Json.str (String.ofList nm)]))
  else if op == "dbgv" then
    let st := { st with dbgV := st.dbgV.insert (jstr a[1]!, jnat a[2]!) (jstr a[3]!, jstr a[4]!) }
    (if a.size ≥ 7 then { st with dbgV := st.dbgV.insert (jstr a[1]! ++ "@w", jnat a[2]!) (jstr a[5]!, jstr a[6]!) } else st, none)
  else if op == "methd" then
    let st := { st with methD := st.methD.insert (jnat a[1]!, jnat a[2]!) (jstr a[3]!, jstr a[4]!) }
    (if a.size ≥ 7 then { st with methD := st.methD.insert (jnat a[1]! + 100000, jnat a[2]!) (jstr a[5]!, jstr a[6]!) } else st, none)
  else if op == "dbg" then
    -- ["dbg", def, va, [fa], alt] → output string
    match st.defs.get? (jnat a[1]!) with
    | none => (st, some (Json.arr #["error", "unknown def"]))
    | some d =>
      let t := d.dbgType
      let x : Val Nat := ⟨jnat a[2]!, natList a[3]!⟩
      let (alt, wide) := fmtSpec a[4]!
      let ops := st.dbgOps d wide
      let m : Json := match Gen.Debug.body t with
        | .error _ => Json.str "<rejected>"
        | .ok bd => match Sem.evalFmt ops t bd x alt with
          | some s => Json.str s
          | none => Json.str "<unbound>"
      let s : Json := match Spec.effectiveShape t x with
        | some sh => Json.str (sh.render ops alt)
        | none => Json.str "<nothing to show>"
      (st, some (Json.arr #["dbg", a[1]!, a[2]!, a[3]!, a[4]!, m, s]))
  else if op == "dbgd" then
    -- parameter-free definition printed next to its #[derive(Debug)] twin: equal output expected;
    -- model side: effective shape vs derive shape, both rendered
    match st.defs.get? (jnat a[1]!) with
    | none => (st, some (Json.arr #["error", "unknown def"]))
    | some d =>
      let t := d.dbgType
      let x : Val Nat := ⟨jnat a[2]!, natList a[3]!⟩
      let alt := jbool a[4]!
      let ops := st.dbgOps d
      let e := (Spec.effectiveShape t x).map fun sh => sh.render ops alt
      let dv := (Spec.deriveShape t x).map fun sh => sh.render ops alt
      (st, some (Json.arr #["dbgd", a[1]!, a[2]!, a[3]!, a[4]!, Json.bool (e == dv), Json.bool true]))
  else if op == "deref" || op == "derefmut" then
    -- ["deref", def, va, [fa]] → index of the field the returned reference designates
    match st.defs.get? (jnat a[1]!) with
    | none => (st, some (Json.arr #["error", "unknown def"]))
    | some d =>
      let t := d.derefType (op == "derefmut")
      let x : Val Nat := ⟨jnat a[2]!, natList a[3]!⟩
      let m : Json := match Gen.Deref.body t with
        | .error _ => Json.str "rejected"
        | .ok bd => match Sem.evalDeref t bd x with
          | some p => Json.num p.field
          | none => Json.str "unbound"
      let s : Json := match Spec.deref t x with
        | some p => Json.num p.field
        | none => Json.str "refused"
      (st, some (Json.arr #[op, a[1]!, a[2]!, a[3]!, m, s]))
  else if op == "write" then
    -- ["write", def, va, [fa]] → indices of the fields changed by `*(&mut *x) = fresh`
    match st.defs.get? (jnat a[1]!) with
    | none => (st, some (Json.arr #["error", "unknown def"]))
    | some d =>
      let t := d.derefType true
      let x : Val Nat := ⟨jnat a[2]!, natList a[3]!⟩
      let changed (y : Val Nat) : Json :=
        Json.arr ((List.range x.fields.length).filter (fun i => x.fields[i]? != y.fields[i]?) |>.toArray.map fun (i : Nat) => Json.num i)
      let m : Json := match Gen.Deref.body t with
        | .error _ => Json.str "rejected"
        | .ok bd => match Sem.evalDeref t bd x with
          | some p => changed (Sem.writeThrough x p 99)
          | none => Json.str "unbound"
      let s : Json := match Spec.deref t x with
        | some p => changed (Sem.writeThrough x p 99)
        | none => Json.str "refused"
      (st, some (Json.arr #[op, a[1]!, a[2]!, a[3]!, m, s]))
  else if op == "conv" then
    ({ st with conv := st.conv.insert (jnat a[1]!, jnat a[2]!, jnat a[3]!) (jnat a[4]!) }, none)
  else if op == "into" then
    -- ["into", def, target, va, [fa]] → value returned by Into::<target>::into
    match st.defs.get? (jnat a[1]!) with
    | none => (st, some (Json.arr #["error", "unknown def"]))
    | some d =>
      let ty := d.intoType
      let t := jnat a[2]!
      let x : Val Nat := ⟨jnat a[3]!, natList a[4]!⟩
      let ops : IntoOps Nat :=
        { conv := fun p t v => (st.conv.get? (d.intoTyOf p, t, v)).getD 999999,
          method := fun m v => (st.methV.get? ("into", m, v)).getD 999999 }
      let m : Json := match Gen.Into.item ty t with
        | .error _ => Json.str "rejected"
        | .ok it => match Sem.evalInto ops ty it x with
          | some v => Json.num v
          | none => Json.str "unbound"
      let s : Json := match Spec.into ops ty t x with
        | some v => Json.num v
        | none => Json.str "refused"
      (st, some (Json.arr #["into", a[1]!, a[2]!, a[3]!, a[4]!, m, s]))
  else if op == "expand" then (st, some (DA.handleExpand a))
  else if op == "uimg" then (st, none)
  else if op == "ueq" || op == "uhash" || op == "udbg" then
    match st.defs.get? (jnat a[1]!) with
    | none => (st, some (Json.arr #["error", "unknown def"]))
    | some d =>
      let bytes := natList a[2]!
      if op == "ueq" then
        let other := natList a[3]!
        let m : Json := match Gen.Union.bytewise d.uattr with
          | .error _ => Json.str "rejected"
          | .ok _ => Json.bool (Sem.evalUnionEq bytes other)
        (st, some (Json.arr #[op, a[1]!, a[2]!, a[3]!, m, Json.bool (bytes == other)]))
      else if op == "uhash" then
        let render (ws : List Sem.UWrite) : Json := Json.arr (ws.toArray.map fun w => match w with
          | .usize n => Json.str ("usize:" ++ toString n)
          | .bytes bs => Json.str ("bytes:[" ++ ", ".intercalate (bs.map toString) ++ "]"))
        let m : Json := match Gen.Union.bytewise d.uattr with
          | .error _ => Json.str "rejected"
          | .ok _ => render (Sem.evalUnionHash bytes)
        (st, some (Json.arr #[op, a[1]!, a[2]!, m, render [.usize bytes.length, .bytes bytes]]))
      else
        let alt := jbool a[3]!
        let m : Json := match Gen.Union.debug d.name d.uattr with
          | .error _ => Json.str "rejected"
          | .ok bd => Json.str (Sem.evalUnionDebug bd bytes alt)
        let inner : Fmt.Out := fun al => Fmt.debugList (bytes.map fun b => (fun _ => toString b)) al
        let s : String := match Spec.effName d.uattr.name d.name with
          | some n => Fmt.debugTuple (String.ofList n) [inner] alt
          | none => inner alt
        (st, some (Json.arr #[op, a[1]!, a[2]!, a[3]!, m, Json.str s]))
  else if op == "exprv" then ({ st with exprV := st.exprV.insert (jnat a[1]!) (jstr a[2]!) }, none)
  else if op == "dfltv" then ({ st with dfltV := st.dfltV.insert (jstr a[1]!) (jstr a[2]!) }, none)
  else if op == "texprv" then
    ({ st with texprV := st.texprV.insert (jnat a[1]!) ⟨jnat a[2]!, (jarr a[3]!).toList.map jstr⟩ }, none)
  else if op == "default" || op == "new" then
    -- ["default", def] → [variant (or union field index), [Debug of each field]]
    match st.defs.get? (jnat a[1]!) with
    | none => (st, some (Json.arr #["error", "unknown def"]))
    | some d =>
      let t := d.defType
      let ops : DefOps String :=
        { exprVal := fun e => (st.exprV.get? e).getD "?expr",
          dflt := fun p => (st.dfltV.get? (d.tyOf p)).getD "?dflt",
          typeExprVal := fun e => (st.texprV.get? e).getD ⟨0, ["?texpr"]⟩ }
      let show_ (v : Val String) : Json := Json.arr #[Json.num v.variant, Json.arr (v.fields.toArray.map Json.str)]
      let m : Json := match Gen.Default.body d.defCfg t with
        | .error _ => Json.str "rejected"
        | .ok bd => if op == "new" && !d.defCfg.new then Json.str "no new()" else show_ (Sem.evalDefault ops bd)
      let s : Json := match Spec.default ops d.defCfg t with
        | some v => show_ v
        | none => Json.str "refused"
      (st, some (Json.arr #[op, a[1]!, m, s]))
  else if op == "hash" then
    -- ["hash", def, va, [fa]] → fed data as a list of strings
    match st.defs.get? (jnat a[1]!) with
    | none => (st, some (Json.arr #["error", "unknown def"]))
    | some d =>
      let t := d.hashType
      let x : Val Nat := ⟨jnat a[2]!, natList a[3]!⟩
      let ops := st.hashOps d
      let m := match Sem.evalHash ops t (Gen.Hash.body t) x with
        | some ws => showWrites ws
        | none => Json.str "unbound"
      let s := showWrites (Spec.feed ops t x)
      (st, some (Json.arr #["hash", a[1]!, a[2]!, a[3]!, m, s]))
  else if op == "eqhash" then
    -- ["eqhash", def, va, fa, vb, fb]: a == b ⇒ identical fed data (PartialEq educed with the same ignore choices)
    match st.defs.get? (jnat a[1]!) with
    | none => (st, some (Json.arr #["error", "unknown def"]))
    | some d =>
      let x : Val Nat := ⟨jnat a[2]!, natList a[3]!⟩
      let y : Val Nat := ⟨jnat a[4]!, natList a[5]!⟩
      let te := d.eqType
      let th := d.hashType
      let e := (Sem.evalEq (st.eqOps d) te (Gen.PartialEq.body te) x y).getD false
      let hx := Sem.evalHash (st.hashOps d) th (Gen.Hash.body th) x
      let hy := Sem.evalHash (st.hashOps d) th (Gen.Hash.body th) y
      let m := !e || (hx == hy)
      (st, some (Json.arr #["eqhash", a[1]!, a[2]!, a[3]!, a[4]!, a[5]!, Json.bool m, Json.bool true]))
  else if op == "clone" then
    match st.defs.get? (jnat a[1]!) with
    | none => (st, some (Json.arr #["error", "unknown def"]))
    | some d =>
      let t := d.cloneType
      let x : Val Nat := ⟨jnat a[2]!, natList a[3]!⟩
      let ops := st.cloneOps d
      let bd := Gen.Clone.body d.copy t
      let calls := match bd with | .copySelf => 0 | _ => d.countK x.variant
      let m := match Sem.evalClone ops t bd x with
        | some v => showVal v calls
        | none => Json.str "unbound"
      let scalls := if Spec.bitwise d.copy t then 0 else d.countK x.variant
      (st, some (Json.arr #["clone", a[1]!, a[2]!, a[3]!, m, showVal (Spec.clone ops d.copy t x) scalls]))
  else if op == "clonefrom" then
    match st.defs.get? (jnat a[1]!) with
    | none => (st, some (Json.arr #["error", "unknown def"]))
    | some d =>
      let t := d.cloneType
      let x : Val Nat := ⟨jnat a[2]!, natList a[3]!⟩
      let y : Val Nat := ⟨jnat a[4]!, natList a[5]!⟩
      let ops := st.cloneOps d
      let bd := Gen.Clone.body d.copy t
      let calls := match bd with | .copySelf => 0 | _ => d.countK y.variant
      let m := match Sem.evalCloneFrom ops t bd x y with
        | some v => showVal v calls
        | none => Json.str "unbound"
      let scalls := if Spec.bitwise d.copy t then 0 else d.countK y.variant
      (st, some (Json.arr #["clonefrom", a[1]!, a[2]!, a[3]!, a[4]!, a[5]!, m, showVal (Spec.cloneFrom ops d.copy t x y) scalls]))
  else (st, some (Json.arr #["error", Json.str ("unknown op " ++ op)]))

partial def loop (h : IO.FS.Stream) (out : IO.FS.Stream) (st : St) : IO Unit := do
  let line ← h.getLine
  if line.isEmpty then return ()
  match Json.parse line with
  | .error e => out.putStrLn (Json.arr #["error", Json.str e]).compress; loop h out st
  | .ok j =>
    let (st', r) := handle st j
    match r with
    | some r => out.putStrLn r.compress
    | none => pure ()
    loop h out st'

def main : IO Unit := do
  let stdin ← IO.getStdin
  let stdout ← IO.getStdout
  loop stdin stdout {}
