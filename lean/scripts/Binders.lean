import EduceModel.Generated.Templates
open Educe Educe.Names Educe.Generated
/-- names bound by the templates (locals, parameters, generic parameters of generated items) -/
def main : IO Unit := do
  let b := (binderSet templates).eraseDups
  IO.println (String.intercalate " " (b.map fun n => identNames.getD n "?"))
#eval main
