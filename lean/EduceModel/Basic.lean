/-
  Basic vocabulary of the model: identifiers, generated binder names (rendered the way
  `format_ident!` renders them), run-time values, environments built by pattern matching.

  Import-free on purpose: everything the driver executes lives in import-free files so that
  the driver links as a `lean_exe`.
-/
namespace Educe

abbrev Ident := List Char

/-- Three-valued ordering (`core::cmp::Ordering`). -/
inductive Ord3 | lt | eq | gt
  deriving DecidableEq, Repr, Inhabited

inductive Shape | unit | tuple | named
  deriving DecidableEq, Repr, Inhabited

/-- A position inside a type definition: variant index (0 for structs) and field index.
    It stands for the *static type* of that field, on which trait dispatch happens. -/
structure Pos where
  variant : Nat
  field : Nat
  deriving DecidableEq, Repr, Inhabited

/-- A run-time value of a modelled struct/enum: which variant, and its fields in declaration order. -/
structure Val (V : Type) where
  variant : Nat
  fields : List V
  deriving Repr, DecidableEq

/-- `TypeName` of debug/models/type_attribute.rs. -/
inductive NameCfg | disable | default | custom (n : Ident)
  deriving Repr, Inhabited, DecidableEq

def NameCfg.toIdent (c : NameCfg) (own : Ident) : Option Ident :=
  match c with
  | .disable => none
  | .default => some own
  | .custom n => some n


/-! ### Decimal rendering (what `format_ident!("_{}", index)` does to the index) -/

def digitChar (n : Nat) : Char :=
  match n with
  | 0 => '0' | 1 => '1' | 2 => '2' | 3 => '3' | 4 => '4'
  | 5 => '5' | 6 => '6' | 7 => '7' | 8 => '8' | _ => '9'

/-- Structurally recursive (fuel) so that the kernel can evaluate it; `natDigits` supplies
    enough fuel. -/
def natDigitsFuel : Nat → Nat → List Nat
  | 0, n => [n % 10]
  | fuel + 1, n => if n < 10 then [n] else natDigitsFuel fuel (n / 10) ++ [n % 10]

def natDigits (n : Nat) : List Nat := natDigitsFuel n n

def digits (n : Nat) : List Char := (natDigits n).map digitChar

/-! ### Generated binder names -/

/-- `format_ident!("_{}", i)` -/
def tupSelf (i : Nat) : Ident := '_' :: digits i
/-- `format_ident!("_{}", format_ident!("_{}", i))` -/
def tupOther (i : Nat) : Ident := '_' :: '_' :: digits i
/-- `format_ident!("_s_{}", f)` -/
def namedSelf (f : Ident) : Ident := '_' :: 's' :: '_' :: f
/-- `format_ident!("_o_{}", f)` -/
def namedOther (f : Ident) : Ident := '_' :: 'o' :: '_' :: f
/-- `format_ident!("_d_{}", f)` -/
def namedDst (f : Ident) : Ident := '_' :: 'd' :: '_' :: f
/-- `format_ident!("v_{}", f)` -/
def namedV (f : Ident) : Ident := 'v' :: '_' :: f
/-- `format_ident!("_{}", f)` -/
def namedUnderscore (f : Ident) : Ident := '_' :: f

/-! ### Environments -/

/-- A bound variable carries the position it was bound from (its static type) and its value. -/
abbrev Env (V : Type) := List (Ident × (Pos × V))

def Env.look {V : Type} (E : Env V) (x : Ident) : Option (Pos × V) :=
  match E with
  | [] => none
  | (y, pv) :: rest => if y = x then some pv else Env.look rest x

/-- One element of a tuple or struct pattern: `_` or a fresh binding. -/
inductive Pat | wild | bind (x : Ident)
  deriving DecidableEq, Repr, Inhabited

/-- Environment produced by matching a tuple pattern `(p0, p1, …)` against the fields of
    variant `k`, starting at field index `i`. Later fields are pushed in front (innermost). -/
def matchTuple {V : Type} (k : Nat) : Nat → List Pat → List V → Env V
  | _, [], _ => []
  | _, _, [] => []
  | i, Pat.wild :: ps, _ :: vs => matchTuple k (i + 1) ps vs
  | i, Pat.bind x :: ps, v :: vs => matchTuple k (i + 1) ps vs ++ [(x, (⟨k, i⟩, v))]

/-- Index of a field name in the declared field-name list. -/
def fieldIndex (names : List Ident) (f : Ident) : Option Nat :=
  match names with
  | [] => none
  | n :: rest => if n = f then some 0 else (fieldIndex rest f).map (· + 1)

/-- Environment produced by matching a struct pattern `{ f: p, … }` against a value whose fields
    carry the declared names `names`. Each element is looked up *by field name*. -/
def matchNamed {V : Type} (k : Nat) (names : List Ident) (vals : List V) :
    List (Ident × Pat) → Env V
  | [] => []
  | (_, Pat.wild) :: ps => matchNamed k names vals ps
  | (f, Pat.bind x) :: ps =>
      match fieldIndex names f with
      | some i =>
        match vals[i]? with
        | some v => matchNamed k names vals ps ++ [(x, (⟨k, i⟩, v))]
        | none => matchNamed k names vals ps
      | none => matchNamed k names vals ps

/-! ### Pattern construction shared by all per-field generators

`bind i c` says which binder (if any) the generator introduces for the field at index `i`
with per-field configuration `c` — `none` renders as `_` (ignored field). -/

def optPat : Option Ident → Pat
  | some x => Pat.bind x
  | none => Pat.wild

/-- Tuple pattern elements, one per field, in declaration order (`pattern_token_stream`). -/
def tuplePatsOf {C : Type} (bind : Nat → C → Option Ident) : Nat → List C → List Pat
  | _, [] => []
  | i, c :: cs => optPat (bind i c) :: tuplePatsOf bind (i + 1) cs

/-- Struct pattern elements `field: binder` / `field: _`, one per field, in declaration order. -/
def namedPatsOf {C : Type} (fname : C → Ident) (bind : Nat → C → Option Ident) :
    Nat → List C → List (Ident × Pat)
  | _, [] => []
  | i, c :: cs => (fname c, optPat (bind i c)) :: namedPatsOf fname bind (i + 1) cs

/-- The canonical environment: field `i` bound to `bind i c` when that is `some`. Both pattern
    forms are proved to produce exactly this. -/
def envOf {V C : Type} (k : Nat) (bind : Nat → C → Option Ident) : Nat → List C → List V → Env V
  | _, [], _ => []
  | _, _, [] => []
  | i, c :: cs, v :: vs =>
    match bind i c with
    | some x => envOf k bind (i + 1) cs vs ++ [(x, (⟨k, i⟩, v))]
    | none => envOf k bind (i + 1) cs vs

end Educe
