import EduceModel.Basic
/-
  Helper lemmas: decimal rendering is injective, generated binder names are injective and
  pairwise disjoint across prefixes, pattern matching produces the canonical environment,
  lookup in the canonical environment is correct.
-/
namespace Educe

/-! ### digits -/

theorem natDigitsFuel_indep : ∀ (n f₁ f₂ : Nat), n ≤ f₁ → n ≤ f₂ →
    natDigitsFuel f₁ n = natDigitsFuel f₂ n := by
  intro n
  induction n using Nat.strongRecOn with
  | _ n ih =>
    intro f₁ f₂ h1 h2
    cases f₁ with
    | zero =>
      have : n = 0 := by omega
      subst this
      cases f₂ <;> simp [natDigitsFuel]
    | succ f₁ =>
      cases f₂ with
      | zero =>
        have : n = 0 := by omega
        subst this
        simp [natDigitsFuel]
      | succ f₂ =>
        simp only [natDigitsFuel]
        split
        · rfl
        · rw [ih (n / 10) (by omega) f₁ f₂ (by omega) (by omega)]

theorem natDigits_small {n : Nat} (h : n < 10) : natDigits n = [n] := by
  unfold natDigits
  cases n with
  | zero => simp [natDigitsFuel]
  | succ m => simp [natDigitsFuel, h]

theorem natDigits_big {n : Nat} (h : ¬ n < 10) : natDigits n = natDigits (n / 10) ++ [n % 10] := by
  unfold natDigits
  cases n with
  | zero => omega
  | succ m =>
    simp only [natDigitsFuel, h, if_false]
    rw [natDigitsFuel_indep ((m + 1) / 10) m ((m + 1) / 10) (by omega) (by omega)]

theorem natDigits_ne_nil (n : Nat) : natDigits n ≠ [] := by
  by_cases h : n < 10
  · rw [natDigits_small h]; simp
  · rw [natDigits_big h]; simp

theorem natDigits_lt (n : Nat) : ∀ d ∈ natDigits n, d < 10 := by
  induction n using Nat.strongRecOn with
  | _ n ih =>
    by_cases h : n < 10
    · rw [natDigits_small h]; intro d hd; simp at hd; omega
    · rw [natDigits_big h]
      intro d hd
      simp at hd
      rcases hd with hd | hd
      · exact ih (n / 10) (by omega) d hd
      · omega

theorem natDigits_length_pos (n : Nat) : 0 < (natDigits n).length := by
  cases h : natDigits n with
  | nil => exact absurd h (natDigits_ne_nil n)
  | cons _ _ => simp

theorem natDigits_inj : ∀ a b : Nat, natDigits a = natDigits b → a = b := by
  intro a
  induction a using Nat.strongRecOn with
  | _ a ih =>
    intro b h
    by_cases ha : a < 10
    · by_cases hb : b < 10
      · rw [natDigits_small ha, natDigits_small hb] at h; simpa using h
      · rw [natDigits_small ha, natDigits_big hb] at h
        have hl := congrArg List.length h
        have := natDigits_length_pos (b / 10)
        simp only [List.length_append, List.length_cons, List.length_nil] at hl
        omega
    · by_cases hb : b < 10
      · rw [natDigits_big ha, natDigits_small hb] at h
        have hl := congrArg List.length h
        have := natDigits_length_pos (a / 10)
        simp only [List.length_append, List.length_cons, List.length_nil] at hl
        omega
      · rw [natDigits_big ha, natDigits_big hb] at h
        have h' := List.append_inj' h (by simp)
        have h1 := ih (a / 10) (by omega) (b / 10) h'.1
        have h2 : a % 10 = b % 10 := by simpa using h'.2
        omega

theorem digitChar_inj {a b : Nat} (ha : a < 10) (hb : b < 10) (h : digitChar a = digitChar b) : a = b := by
  have : ∀ n, n < 10 → (n = 0 ∨ n = 1 ∨ n = 2 ∨ n = 3 ∨ n = 4 ∨ n = 5 ∨ n = 6 ∨ n = 7 ∨ n = 8 ∨ n = 9) := by
    intro n hn; omega
  rcases this a ha with rfl|rfl|rfl|rfl|rfl|rfl|rfl|rfl|rfl|rfl <;>
  rcases this b hb with rfl|rfl|rfl|rfl|rfl|rfl|rfl|rfl|rfl|rfl <;>
  first | rfl | (exfalso; revert h; decide)

theorem map_digitChar_inj : ∀ (l₁ l₂ : List Nat), (∀ d ∈ l₁, d < 10) → (∀ d ∈ l₂, d < 10) →
    l₁.map digitChar = l₂.map digitChar → l₁ = l₂
  | [], [], _, _, _ => rfl
  | [], _ :: _, _, _, h => by simp at h
  | _ :: _, [], _, _, h => by simp at h
  | a :: l₁, b :: l₂, h1, h2, h => by
    simp only [List.map_cons, List.cons.injEq] at h
    have hab := digitChar_inj (h1 a (by simp)) (h2 b (by simp)) h.1
    have := map_digitChar_inj l₁ l₂ (fun d hd => h1 d (by simp [hd])) (fun d hd => h2 d (by simp [hd])) h.2
    simp [hab, this]

theorem digits_inj {a b : Nat} (h : digits a = digits b) : a = b :=
  natDigits_inj a b (map_digitChar_inj _ _ (natDigits_lt a) (natDigits_lt b) h)

theorem digitChar_ne_underscore (n : Nat) : digitChar n ≠ '_' := by
  unfold digitChar; split <;> decide

theorem digits_head_ne_underscore (n : Nat) : ∀ c rest, digits n = c :: rest → c ≠ '_' := by
  intro c rest h
  unfold digits at h
  cases hd : natDigits n with
  | nil => exact absurd hd (natDigits_ne_nil n)
  | cons d ds =>
    rw [hd] at h
    simp at h
    rw [← h.1]; exact digitChar_ne_underscore d

/-! ### binder names -/

theorem tupSelf_inj {i j : Nat} (h : tupSelf i = tupSelf j) : i = j := by
  unfold tupSelf at h; exact digits_inj (List.cons.inj h).2

theorem tupOther_inj {i j : Nat} (h : tupOther i = tupOther j) : i = j := by
  unfold tupOther at h; exact digits_inj (List.cons.inj (List.cons.inj h).2).2

theorem tupSelf_ne_tupOther (i j : Nat) : tupSelf i ≠ tupOther j := by
  unfold tupSelf tupOther
  intro h
  have h2 := (List.cons.inj h).2
  cases hd : digits i with
  | nil =>
    unfold digits at hd
    exact natDigits_ne_nil i (List.map_eq_nil_iff.mp hd)
  | cons c rest =>
    rw [hd] at h2
    have := digits_head_ne_underscore i c rest hd
    exact this (List.cons.inj h2).1

theorem namedSelf_inj {f g : Ident} (h : namedSelf f = namedSelf g) : f = g := by
  unfold namedSelf at h; simpa using h
theorem namedOther_inj {f g : Ident} (h : namedOther f = namedOther g) : f = g := by
  unfold namedOther at h; simpa using h
theorem namedDst_inj {f g : Ident} (h : namedDst f = namedDst g) : f = g := by
  unfold namedDst at h; simpa using h
theorem namedV_inj {f g : Ident} (h : namedV f = namedV g) : f = g := by
  unfold namedV at h; simpa using h
theorem namedUnderscore_inj {f g : Ident} (h : namedUnderscore f = namedUnderscore g) : f = g := by
  unfold namedUnderscore at h; simpa using h
theorem namedSelf_ne_namedOther (f g : Ident) : namedSelf f ≠ namedOther g := by
  unfold namedSelf namedOther; simp
theorem namedSelf_ne_namedDst (f g : Ident) : namedSelf f ≠ namedDst g := by
  unfold namedSelf namedDst; simp

/-! ### lookup -/

theorem look_append {V : Type} (E₁ E₂ : Env V) (x : Ident) :
    Env.look (E₁ ++ E₂) x = match Env.look E₁ x with
                            | some r => some r
                            | none => Env.look E₂ x := by
  induction E₁ with
  | nil => simp [Env.look]
  | cons p rest ih =>
    obtain ⟨y, pv⟩ := p
    simp only [List.cons_append, Env.look]
    split <;> simp_all

/-- Every name bound by `envOf` comes from `bind j c` for some later index. -/
theorem look_envOf_none {V C : Type} (k : Nat) (bind : Nat → C → Option Ident) (x : Ident) :
    ∀ (cs : List C) (vs : List V) (i : Nat),
      (∀ j c, cs[j]? = some c → bind (i + j) c ≠ some x) →
      Env.look (envOf k bind i cs vs) x = none := by
  intro cs
  induction cs with
  | nil => intro vs i _; simp [envOf, Env.look]
  | cons c cs ih =>
    intro vs i h
    cases vs with
    | nil => simp [envOf, Env.look]
    | cons v vs =>
      have h0 := h 0 c (by simp)
      have hrest : ∀ j c', cs[j]? = some c' → bind (i + 1 + j) c' ≠ some x := by
        intro j c' hj
        have := h (j + 1) c' (by simpa using hj)
        rwa [show i + (j + 1) = i + 1 + j by omega] at this
      unfold envOf
      cases hb : bind i c with
      | none => simpa using ih vs (i + 1) hrest
      | some y =>
        simp only
        rw [look_append, ih vs (i + 1) hrest]
        simp only [Env.look]
        have : y ≠ x := by
          intro e; apply h0; simpa [e] using hb
        simp [this]

/-- Lookup in the canonical environment, for a `bind` that is injective on the field list. -/
theorem look_envOf {V C : Type} (k : Nat) (bind : Nat → C → Option Ident) :
    ∀ (cs : List C) (vs : List V) (i : Nat),
      (∀ j₁ j₂ c₁ c₂ x, cs[j₁]? = some c₁ → cs[j₂]? = some c₂ →
          bind (i + j₁) c₁ = some x → bind (i + j₂) c₂ = some x → j₁ = j₂) →
      ∀ j c v x, cs[j]? = some c → vs[j]? = some v → bind (i + j) c = some x →
        Env.look (envOf k bind i cs vs) x = some (⟨k, i + j⟩, v) := by
  intro cs
  induction cs with
  | nil => intro vs i _ j c v x hc; simp at hc
  | cons c0 cs ih =>
    intro vs i hinj j c v x hc hv hb
    cases vs with
    | nil => simp at hv
    | cons v0 vs =>
      have hinj' : ∀ j₁ j₂ c₁ c₂ x, cs[j₁]? = some c₁ → cs[j₂]? = some c₂ →
          bind (i + 1 + j₁) c₁ = some x → bind (i + 1 + j₂) c₂ = some x → j₁ = j₂ := by
        intro j₁ j₂ c₁ c₂ x h1 h2 b1 b2
        have := hinj (j₁ + 1) (j₂ + 1) c₁ c₂ x (by simpa using h1) (by simpa using h2)
          (by rwa [show i + (j₁ + 1) = i + 1 + j₁ by omega])
          (by rwa [show i + (j₂ + 1) = i + 1 + j₂ by omega])
        omega
      cases j with
      | zero =>
        simp at hc hv
        subst hc; subst hv
        have hnone : Env.look (envOf k bind (i + 1) cs vs) x = none := by
          apply look_envOf_none
          intro j c' hj hb'
          have := hinj 0 (j + 1) c0 c' x (by simp) (by simpa using hj) (by simpa using hb)
            (by rwa [show i + (j + 1) = i + 1 + j by omega])
          omega
        unfold envOf
        simp only [Nat.add_zero] at hb
        rw [hb]
        simp only
        rw [look_append, hnone]
        simp [Env.look]
      | succ j =>
        simp at hc hv
        have hb' : bind (i + 1 + j) c = some x := by
          rwa [show i + (j + 1) = i + 1 + j by omega] at hb
        have := ih vs (i + 1) hinj' j c v x hc hv hb'
        rw [show i + 1 + j = i + (j + 1) by omega] at this
        unfold envOf
        cases hb0 : bind i c0 with
        | none => simp only; rw [this]
        | some y =>
          simp only
          rw [look_append, this]

/-! ### patterns produce the canonical environment -/

theorem matchTuple_eq_envOf {V C : Type} (k : Nat) (bind : Nat → C → Option Ident) :
    ∀ (cs : List C) (vs : List V) (i : Nat),
      matchTuple k i (tuplePatsOf bind i cs) vs = envOf k bind i cs vs := by
  intro cs
  induction cs with
  | nil => intro vs i; simp [tuplePatsOf, matchTuple, envOf]
  | cons c cs ih =>
    intro vs i
    cases vs with
    | nil => cases h : bind i c <;> simp [tuplePatsOf, matchTuple, envOf, optPat, h]
    | cons v vs =>
      cases h : bind i c <;> simp [tuplePatsOf, matchTuple, envOf, optPat, h, ih]

theorem fieldIndex_map_get {C : Type} (fname : C → Ident) :
    ∀ (cs : List C) (j : Nat) (c : C), (cs.map fname).Nodup → cs[j]? = some c →
      fieldIndex (cs.map fname) (fname c) = some j := by
  intro cs
  induction cs with
  | nil => intro j c _ h; simp at h
  | cons c0 cs ih =>
    intro j c hnd h
    simp only [List.map_cons, List.nodup_cons] at hnd
    cases j with
    | zero => simp at h; subst h; simp [fieldIndex]
    | succ j =>
      simp at h
      have hne : fname c0 ≠ fname c := by
        intro e
        apply hnd.1
        rw [e]
        exact List.mem_map.mpr ⟨c, List.mem_of_getElem? h, rfl⟩
      simp [fieldIndex, hne, ih j c hnd.2 h]

/-- Matching a struct pattern built from the field list against a value with those field names,
    generalised over a suffix of the pattern (elements `off ..`) so that the induction goes through. -/
theorem matchNamed_eq_envOf_aux {V C : Type} (k : Nat) (fname : C → Ident)
    (bind : Nat → C → Option Ident) (all : List C) (vals : List V)
    (hnd : (all.map fname).Nodup) (hlen : vals.length = all.length) :
    ∀ (cs : List C) (off : Nat), all.drop off = cs →
      matchNamed k (all.map fname) vals (namedPatsOf fname bind off cs)
        = envOf k bind off cs (vals.drop off) := by
  intro cs
  induction cs with
  | nil => intro off _; simp [namedPatsOf, matchNamed, envOf]
  | cons c cs ih =>
    intro off hdrop
    have hoff : all[off]? = some c := by
      have := congrArg (fun l => l[0]?) hdrop
      simpa using this
    have hlt : off < all.length := by
      have := List.getElem?_eq_some_iff.mp hoff; exact this.1
    have hdrop' : all.drop (off + 1) = cs := by
      have := congrArg List.tail hdrop
      simpa using this
    have hv : ∃ v, vals[off]? = some v := ⟨vals[off]'(by omega), by simp [List.getElem?_eq_getElem (show off < vals.length by omega)]⟩
    obtain ⟨v, hv⟩ := hv
    have hvd : vals.drop off = v :: vals.drop (off + 1) := by
      have h1 : off < vals.length := by omega
      rw [List.drop_eq_getElem_cons h1]
      congr 1
      have := List.getElem?_eq_getElem h1
      rw [this] at hv; exact Option.some.inj hv
    rw [hvd]
    have hidx := fieldIndex_map_get fname all off c hnd hoff
    cases hb : bind off c with
    | none => simp [namedPatsOf, matchNamed, envOf, optPat, hb, ih (off + 1) hdrop']
    | some x => simp [namedPatsOf, matchNamed, envOf, optPat, hb, hidx, hv, ih (off + 1) hdrop']

theorem matchNamed_eq_envOf {V C : Type} (k : Nat) (fname : C → Ident)
    (bind : Nat → C → Option Ident) (cs : List C) (vals : List V)
    (hnd : (cs.map fname).Nodup) (hlen : vals.length = cs.length) :
    matchNamed k (cs.map fname) vals (namedPatsOf fname bind 0 cs) = envOf k bind 0 cs vals := by
  have := matchNamed_eq_envOf_aux k fname bind cs vals hnd hlen cs 0 (by simp)
  simpa using this

theorem nodup_map_index {C : Type} (f : C → Ident) :
    ∀ (cs : List C) (j₁ j₂ : Nat) (c₁ c₂ : C), (cs.map f).Nodup →
      cs[j₁]? = some c₁ → cs[j₂]? = some c₂ → f c₁ = f c₂ → j₁ = j₂ := by
  intro cs j₁ j₂ c₁ c₂ hnd h1 h2 hf
  have a := fieldIndex_map_get f cs j₁ c₁ hnd h1
  have b := fieldIndex_map_get f cs j₂ c₂ hnd h2
  rw [hf] at a
  rw [a] at b
  exact Option.some.inj b


/-- What an arm block needs from its environment: the two binders of every non-ignored field
    resolve to that field of the left and of the right operand. Generic in the per-field
    configuration `C` (`ign` says which fields the generator skips). -/
def EnvOK {V C : Type} (E : Env V) (k : Nat) (ign : C → Bool) (bs bo : Nat → C → Option Ident)
    (i : Nat) (cs : List C) (xs ys : List V) : Prop :=
  ∀ j c x y, cs[j]? = some c → xs[j]? = some x → ys[j]? = some y → ign c = false →
    ∃ s o, bs (i + j) c = some s ∧ bo (i + j) c = some o ∧
      E.look s = some (⟨k, i + j⟩, x) ∧ E.look o = some (⟨k, i + j⟩, y)

theorem EnvOK_tail {V C : Type} {E : Env V} {k : Nat} {ign : C → Bool}
    {bs bo : Nat → C → Option Ident}
    {i : Nat} {c : C} {cs : List C} {x y : V} {xs ys : List V}
    (h : EnvOK E k ign bs bo i (c :: cs) (x :: xs) (y :: ys)) :
    EnvOK E k ign bs bo (i + 1) cs xs ys := by
  intro j c' x' y' hc hx hy hig
  have := h (j + 1) c' x' y' (by simpa using hc) (by simpa using hx) (by simpa using hy) hig
  rwa [show i + (j + 1) = i + 1 + j by omega] at this

/-- The environment built by the two patterns satisfies `EnvOK`, given that the self/other binder
    functions are injective over the field list and never produce a common name. -/
theorem envOK_of_envOf {V C : Type} (k : Nat) (ign : C → Bool) (bs bo : Nat → C → Option Ident)
    (cs : List C) (xs ys : List V)
    (hs_inj : ∀ j₁ j₂ c₁ c₂ x, cs[j₁]? = some c₁ → cs[j₂]? = some c₂ →
        bs (0 + j₁) c₁ = some x → bs (0 + j₂) c₂ = some x → j₁ = j₂)
    (ho_inj : ∀ j₁ j₂ c₁ c₂ x, cs[j₁]? = some c₁ → cs[j₂]? = some c₂ →
        bo (0 + j₁) c₁ = some x → bo (0 + j₂) c₂ = some x → j₁ = j₂)
    (hdisj : ∀ j₁ j₂ c₁ c₂ x, bs j₁ c₁ = some x → bo j₂ c₂ ≠ some x)
    (hsome : ∀ j c, ign c = false → (bs j c).isSome ∧ (bo j c).isSome) :
    EnvOK (envOf k bo 0 cs ys ++ envOf k bs 0 cs xs) k ign bs bo 0 cs xs ys := by
  intro j c x y hc hx hy hig
  obtain ⟨h1, h2⟩ := hsome (0 + j) c hig
  obtain ⟨s, hs⟩ := Option.isSome_iff_exists.mp h1
  obtain ⟨o, ho⟩ := Option.isSome_iff_exists.mp h2
  refine ⟨s, o, hs, ho, ?_, ?_⟩
  · rw [look_append]
    have hnone : Env.look (envOf k bo 0 cs ys) s = none := by
      apply look_envOf_none
      intro j' c' _ hb
      exact hdisj (0 + j) (0 + j') c c' s hs hb
    rw [hnone]
    exact look_envOf k bs cs xs 0 hs_inj j c x s hc hx hs
  · rw [look_append]
    rw [look_envOf k bo cs ys 0 ho_inj j c y o hc hy ho]

/-- Single-pattern version (Hash, Debug): every non-ignored field's binder resolves to it. -/
def EnvOK1 {V C : Type} (E : Env V) (k : Nat) (ign : C → Bool) (bs : Nat → C → Option Ident)
    (i : Nat) (cs : List C) (xs : List V) : Prop :=
  ∀ j c x, cs[j]? = some c → xs[j]? = some x → ign c = false →
    ∃ s, bs (i + j) c = some s ∧ E.look s = some (⟨k, i + j⟩, x)

theorem EnvOK1_tail {V C : Type} {E : Env V} {k : Nat} {ign : C → Bool}
    {bs : Nat → C → Option Ident} {i : Nat} {c : C} {cs : List C} {x : V} {xs : List V}
    (h : EnvOK1 E k ign bs i (c :: cs) (x :: xs)) : EnvOK1 E k ign bs (i + 1) cs xs := by
  intro j c' x' hc hx hig
  have := h (j + 1) c' x' (by simpa using hc) (by simpa using hx) hig
  rwa [show i + (j + 1) = i + 1 + j by omega] at this

theorem envOK1_of_envOf {V C : Type} (k : Nat) (ign : C → Bool) (bs : Nat → C → Option Ident)
    (cs : List C) (xs : List V)
    (hs_inj : ∀ j₁ j₂ c₁ c₂ x, cs[j₁]? = some c₁ → cs[j₂]? = some c₂ →
        bs (0 + j₁) c₁ = some x → bs (0 + j₂) c₂ = some x → j₁ = j₂)
    (hsome : ∀ j c, ign c = false → (bs j c).isSome) :
    EnvOK1 (envOf k bs 0 cs xs) k ign bs 0 cs xs := by
  intro j c x hc hx hig
  obtain ⟨s, hs⟩ := Option.isSome_iff_exists.mp (hsome (0 + j) c hig)
  exact ⟨s, hs, look_envOf k bs cs xs 0 hs_inj j c x s hc hx hs⟩

end Educe
