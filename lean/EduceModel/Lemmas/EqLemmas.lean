import EduceModel.Lemmas.Env
import EduceModel.Spec.Eq
/-
  Helper lemmas for C02: the struct chain and the arm block compute `Spec.fieldsEq`.
-/
namespace Educe
open Gen.PartialEq

/-- The struct body: statements refer to `self.i` / `other.i` of the whole value. -/
theorem evalEqStmts_struct {V : Type} (ops : EqOps V) (a b : List V) :
    ∀ (cs : List EqField) (i : Nat), a.length = i + cs.length → b.length = i + cs.length →
      Sem.evalEqStmts ops [] a b (structStmts i cs)
        = some (Spec.fieldsEq ops 0 i cs (a.drop i) (b.drop i)) := by
  intro cs
  induction cs with
  | nil => intro i _ _; simp [structStmts, Sem.evalEqStmts, Spec.fieldsEq]
  | cons c cs ih =>
    intro i ha hb
    simp only [List.length_cons] at ha hb
    have hia : i < a.length := by omega
    have hib : i < b.length := by omega
    have hda : a.drop i = a[i] :: a.drop (i + 1) := List.drop_eq_getElem_cons hia
    have hdb : b.drop i = b[i] :: b.drop (i + 1) := List.drop_eq_getElem_cons hib
    have ih' := ih (i + 1) (by omega) (by omega)
    rw [hda, hdb]
    unfold structStmts
    by_cases hig : c.ignore = true
    · simp [hig, Spec.fieldsEq, ih']
    · simp only [hig, Bool.false_eq_true, if_false]
      unfold stmt
      cases hm : c.method with
      | some m =>
        simp only [Sem.evalEqStmts, evalRef, List.getElem?_eq_getElem hia,
          List.getElem?_eq_getElem hib, Option.map_some, Spec.fieldsEq, Spec.fieldEq, hm, ih']
        cases ops.method m a[i] b[i] <;> simp [hig]
      | none =>
        simp only [Sem.evalEqStmts, evalRef, List.getElem?_eq_getElem hia,
          List.getElem?_eq_getElem hib, Option.map_some, Spec.fieldsEq, Spec.fieldEq, hm, ih']
        cases ops.ne ⟨0, i⟩ a[i] b[i] <;> simp [hig]

theorem evalEqStmts_arm {V : Type} (ops : EqOps V) (E : Env V) (k : Nat)
    (bs bo : Nat → EqField → Option Ident)
    (hign : ∀ i c, c.ignore = true → bs i c = none) :
    ∀ (cs : List EqField) (i : Nat) (xs ys : List V),
      xs.length = cs.length → ys.length = cs.length → EnvOK E k EqField.ignore bs bo i cs xs ys →
      Sem.evalEqStmts ops E [] [] (armStmts bs bo i cs) = some (Spec.fieldsEq ops k i cs xs ys) := by
  intro cs
  induction cs with
  | nil => intro i xs ys _ _ _; simp [armStmts, Sem.evalEqStmts, Spec.fieldsEq]
  | cons c cs ih =>
    intro i xs ys hx hy hok
    cases xs with
    | nil => simp at hx
    | cons x xs =>
    cases ys with
    | nil => simp at hy
    | cons y ys =>
      have ih' := ih (i + 1) xs ys (by simpa using hx) (by simpa using hy) (EnvOK_tail hok)
      unfold armStmts
      by_cases hig : c.ignore = true
      · simp [hign i c hig, Spec.fieldsEq, hig, ih']
      · have hig' : c.ignore = false := by simpa using hig
        obtain ⟨s, o, hs, ho, ls, lo⟩ := hok 0 c x y (by simp) (by simp) (by simp) hig'
        simp only [Nat.add_zero] at hs ho ls lo
        simp only [hs, ho]
        unfold stmt
        cases hm : c.method with
        | some m =>
          simp only [Sem.evalEqStmts, evalRef, ls, lo, Spec.fieldsEq, Spec.fieldEq, hm, ih', hig']
          cases ops.method m x y <;> simp
        | none =>
          simp only [Sem.evalEqStmts, evalRef, ls, lo, Spec.fieldsEq, Spec.fieldEq, hm, ih', hig']
          cases ops.ne ⟨k, i⟩ x y <;> simp

end Educe
