import EduceModel.Lemmas.Env
import EduceModel.Spec.Eq
/-
  Helper lemmas for C02: the struct chain and the arm block compute `Spec.fieldsEq`.
-/
namespace Educe
open Gen.PartialEq

theorem nodup_map_index {C : Type} (f : C → Ident) :
    ∀ (cs : List C) (j₁ j₂ : Nat) (c₁ c₂ : C), (cs.map f).Nodup →
      cs[j₁]? = some c₁ → cs[j₂]? = some c₂ → f c₁ = f c₂ → j₁ = j₂ := by
  intro cs j₁ j₂ c₁ c₂ hnd h1 h2 hf
  have a := fieldIndex_map_get f cs j₁ c₁ hnd h1
  have b := fieldIndex_map_get f cs j₂ c₂ hnd h2
  rw [hf] at a
  rw [a] at b
  exact Option.some.inj b

/-- The struct body: statements refer to `self.i` / `other.i` of the whole value. -/
theorem evalEqStmts_struct {V : Type} (ops : EqOps V) (a b : List V) :
    ∀ (cs : List EqField) (i : Nat), a.length = i + cs.length → b.length = i + cs.length →
      Sem.evalEqStmts ops [] a b (structStmts i cs)
        = some (Spec.fieldsEq ops 0 i cs (a.drop i) (b.drop i)) := by
  intro cs
  induction cs with
  | nil => intro i _ _; simp [structStmts, Sem.evalEqStmts, Spec.fieldsEq]
  | cons c cs ih =>
    intro i ha hb
    simp only [List.length_cons] at ha hb
    have hia : i < a.length := by omega
    have hib : i < b.length := by omega
    have hda : a.drop i = a[i] :: a.drop (i + 1) := List.drop_eq_getElem_cons hia
    have hdb : b.drop i = b[i] :: b.drop (i + 1) := List.drop_eq_getElem_cons hib
    have ih' := ih (i + 1) (by omega) (by omega)
    rw [hda, hdb]
    unfold structStmts
    by_cases hig : c.ignore = true
    · simp [hig, Spec.fieldsEq, ih']
    · simp only [hig, Bool.false_eq_true, if_false]
      unfold stmt
      cases hm : c.method with
      | some m =>
        simp only [Sem.evalEqStmts, evalRef, List.getElem?_eq_getElem hia,
          List.getElem?_eq_getElem hib, Option.map_some, Spec.fieldsEq, Spec.fieldEq, hm, ih']
        cases ops.method m a[i] b[i] <;> simp [hig]
      | none =>
        simp only [Sem.evalEqStmts, evalRef, List.getElem?_eq_getElem hia,
          List.getElem?_eq_getElem hib, Option.map_some, Spec.fieldsEq, Spec.fieldEq, hm, ih']
        cases ops.ne ⟨0, i⟩ a[i] b[i] <;> simp [hig]

/-- What the arm block needs from its environment: the two binders of every compared field
    resolve to that field of the left and of the right operand. -/
def EnvOK {V : Type} (E : Env V) (k : Nat) (bs bo : Nat → EqField → Option Ident)
    (i : Nat) (cs : List EqField) (xs ys : List V) : Prop :=
  ∀ j c x y, cs[j]? = some c → xs[j]? = some x → ys[j]? = some y → c.ignore = false →
    ∃ s o, bs (i + j) c = some s ∧ bo (i + j) c = some o ∧
      E.look s = some (⟨k, i + j⟩, x) ∧ E.look o = some (⟨k, i + j⟩, y)

theorem EnvOK_tail {V : Type} {E : Env V} {k : Nat} {bs bo : Nat → EqField → Option Ident}
    {i : Nat} {c : EqField} {cs : List EqField} {x y : V} {xs ys : List V}
    (h : EnvOK E k bs bo i (c :: cs) (x :: xs) (y :: ys)) :
    EnvOK E k bs bo (i + 1) cs xs ys := by
  intro j c' x' y' hc hx hy hig
  have := h (j + 1) c' x' y' (by simpa using hc) (by simpa using hx) (by simpa using hy) hig
  rwa [show i + (j + 1) = i + 1 + j by omega] at this

theorem evalEqStmts_arm {V : Type} (ops : EqOps V) (E : Env V) (k : Nat)
    (bs bo : Nat → EqField → Option Ident)
    (hign : ∀ i c, c.ignore = true → bs i c = none) :
    ∀ (cs : List EqField) (i : Nat) (xs ys : List V),
      xs.length = cs.length → ys.length = cs.length → EnvOK E k bs bo i cs xs ys →
      Sem.evalEqStmts ops E [] [] (armStmts bs bo i cs) = some (Spec.fieldsEq ops k i cs xs ys) := by
  intro cs
  induction cs with
  | nil => intro i xs ys _ _ _; simp [armStmts, Sem.evalEqStmts, Spec.fieldsEq]
  | cons c cs ih =>
    intro i xs ys hx hy hok
    cases xs with
    | nil => simp at hx
    | cons x xs =>
    cases ys with
    | nil => simp at hy
    | cons y ys =>
      have ih' := ih (i + 1) xs ys (by simpa using hx) (by simpa using hy) (EnvOK_tail hok)
      unfold armStmts
      by_cases hig : c.ignore = true
      · simp [hign i c hig, Spec.fieldsEq, hig, ih']
      · have hig' : c.ignore = false := by simpa using hig
        obtain ⟨s, o, hs, ho, ls, lo⟩ := hok 0 c x y (by simp) (by simp) (by simp) hig'
        simp only [Nat.add_zero] at hs ho ls lo
        simp only [hs, ho]
        unfold stmt
        cases hm : c.method with
        | some m =>
          simp only [Sem.evalEqStmts, evalRef, ls, lo, Spec.fieldsEq, Spec.fieldEq, hm, ih', hig']
          cases ops.method m x y <;> simp
        | none =>
          simp only [Sem.evalEqStmts, evalRef, ls, lo, Spec.fieldsEq, Spec.fieldEq, hm, ih', hig']
          cases ops.ne ⟨k, i⟩ x y <;> simp

/-- The environment built by the two patterns satisfies `EnvOK`, given that the self/other binder
    functions are injective over the field list and never produce a common name. -/
theorem envOK_of_envOf {V : Type} (k : Nat) (bs bo : Nat → EqField → Option Ident)
    (cs : List EqField) (xs ys : List V)
    (hs_inj : ∀ j₁ j₂ c₁ c₂ x, cs[j₁]? = some c₁ → cs[j₂]? = some c₂ →
        bs (0 + j₁) c₁ = some x → bs (0 + j₂) c₂ = some x → j₁ = j₂)
    (ho_inj : ∀ j₁ j₂ c₁ c₂ x, cs[j₁]? = some c₁ → cs[j₂]? = some c₂ →
        bo (0 + j₁) c₁ = some x → bo (0 + j₂) c₂ = some x → j₁ = j₂)
    (hdisj : ∀ j₁ j₂ c₁ c₂ x, bs j₁ c₁ = some x → bo j₂ c₂ ≠ some x)
    (hsome : ∀ j c, c.ignore = false → (bs j c).isSome ∧ (bo j c).isSome) :
    EnvOK (envOf k bo 0 cs ys ++ envOf k bs 0 cs xs) k bs bo 0 cs xs ys := by
  intro j c x y hc hx hy hig
  obtain ⟨h1, h2⟩ := hsome (0 + j) c hig
  obtain ⟨s, hs⟩ := Option.isSome_iff_exists.mp h1
  obtain ⟨o, ho⟩ := Option.isSome_iff_exists.mp h2
  refine ⟨s, o, hs, ho, ?_, ?_⟩
  · rw [look_append]
    have hnone : Env.look (envOf k bo 0 cs ys) s = none := by
      apply look_envOf_none
      intro j' c' _ hb
      exact hdisj (0 + j) (0 + j') c c' s hs hb
    rw [hnone]
    exact look_envOf k bs cs xs 0 hs_inj j c x s hc hx hs
  · rw [look_append]
    rw [look_envOf k bo cs ys 0 ho_inj j c y o hc hy ho]

end Educe
