import EduceModel.Lemmas.Env
import EduceModel.Spec.Cmp
/-
  Helper lemmas for C03/C04: the BTreeMap model is a sorted insertion, its iteration order is
  the merge-sorted order of the reference semantics, and the statement chain computes `lexCmp`.
-/
namespace Educe
open Gen.Ord

abbrev Ranked := List (Int × (Nat × OrdField))

def KeySorted {α : Type} (l : List (Int × α)) : Prop := l.Pairwise fun p q => p.1 < q.1

theorem btInsert_spec {α : Type} (k : Int) (v : α) :
    ∀ (l l' : List (Int × α)), KeySorted l → btInsert k v l = some l' →
      KeySorted l' ∧ l'.Perm ((k, v) :: l) := by
  intro l
  induction l with
  | nil =>
    intro l' _ h
    simp [btInsert] at h; subst h
    exact ⟨by simp [KeySorted], List.Perm.refl _⟩
  | cons p rest ih =>
    intro l' hs h
    obtain ⟨k', v'⟩ := p
    simp only [btInsert] at h
    split at h
    · rename_i hlt
      simp at h; subst h
      refine ⟨?_, List.Perm.refl _⟩
      unfold KeySorted at hs ⊢
      rw [List.pairwise_cons]
      refine ⟨?_, hs⟩
      intro q hq
      rw [List.mem_cons] at hq
      rcases hq with rfl | hq
      · exact hlt
      · have := (List.pairwise_cons.mp hs).1 q hq
        simp at this ⊢; omega
    · split at h
      · simp at h
      · rename_i hnlt hne
        cases hr : btInsert k v rest with
        | none => simp [hr] at h
        | some r =>
          simp [hr] at h; subst h
          have hs' : KeySorted rest := (List.pairwise_cons.mp hs).2
          obtain ⟨hsr, hperm⟩ := ih r hs' hr
          refine ⟨?_, ?_⟩
          · unfold KeySorted
            rw [List.pairwise_cons]
            refine ⟨?_, hsr⟩
            intro q hq
            have hq' := hperm.subset hq
            rw [List.mem_cons] at hq'
            rcases hq' with rfl | hq'
            · simp; omega
            · exact (List.pairwise_cons.mp hs).1 q hq'
          · exact (List.Perm.cons _ hperm).trans (List.Perm.swap _ _ _)

/-- Entries the field loop is expected to add for the fields `cs` starting at index `i`. -/
def expectedEntries : Nat → List OrdField → Ranked
  | _, [] => []
  | i, c :: cs => if c.ignore then expectedEntries (i + 1) cs
                  else (effRank i c, (i, c)) :: expectedEntries (i + 1) cs

theorem rankFields_spec :
    ∀ (cs : List OrdField) (i : Nat) (acc r : Ranked), KeySorted acc →
      rankFields i cs acc = some r → KeySorted r ∧ r.Perm (acc ++ expectedEntries i cs) := by
  intro cs
  induction cs with
  | nil =>
    intro i acc r hs h
    simp [rankFields] at h; subst h
    simp [expectedEntries, hs]
  | cons c cs ih =>
    intro i acc r hs h
    simp only [rankFields] at h
    by_cases hig : c.ignore = true
    · simp only [hig, if_true] at h
      simpa [expectedEntries, hig] using ih (i + 1) acc r hs h
    · simp only [hig, Bool.false_eq_true, if_false] at h
      cases hb : btInsert (effRank i c) (i, c) acc with
      | none => simp [hb] at h
      | some acc' =>
        simp only [hb] at h
        obtain ⟨hs', hp'⟩ := btInsert_spec _ _ acc acc' hs hb
        obtain ⟨hsr, hpr⟩ := ih (i + 1) acc' r hs' h
        refine ⟨hsr, ?_⟩
        simp only [expectedEntries, hig, Bool.false_eq_true, if_false]
        refine hpr.trans ?_
        refine (List.Perm.append_right _ hp').trans ?_
        simp only [List.cons_append]
        exact (List.perm_middle).symm

theorem expectedEntries_eq (cs : List OrdField) (i : Nat) :
    (expectedEntries i cs).map Prod.snd = (Spec.indexed i cs).filter fun p => !p.2.ignore := by
  induction cs generalizing i with
  | nil => simp [expectedEntries, Spec.indexed]
  | cons c cs ih =>
    simp only [expectedEntries, Spec.indexed]
    by_cases hig : c.ignore = true
    · simp [hig, ih]
    · simp [hig, ih]

theorem effRank_eq_rankOf (i : Nat) (c : OrdField) : effRank i c = Spec.rankOf i c := by
  unfold effRank Spec.rankOf isizeMin
  cases c.rank <;> simp

theorem expectedEntries_key (cs : List OrdField) (i : Nat) :
    ∀ e ∈ expectedEntries i cs, e.1 = Spec.rankOf e.2.1 e.2.2 := by
  induction cs generalizing i with
  | nil => simp [expectedEntries]
  | cons c cs ih =>
    intro e he
    simp only [expectedEntries] at he
    split at he
    · exact ih (i + 1) e he
    · rw [List.mem_cons] at he
      rcases he with rfl | he
      · simp [effRank_eq_rankOf]
      · exact ih (i + 1) e he

theorem eq_of_mem_pairwise_lt {α : Type} (key : α → Int) :
    ∀ (l : List α), l.Pairwise (fun p q => key p < key q) →
      ∀ a b, a ∈ l → b ∈ l → key a = key b → a = b := by
  intro l
  induction l with
  | nil => intro _ a b ha; simp at ha
  | cons x xs ih =>
    intro hp a b ha hb hk
    rw [List.pairwise_cons] at hp
    rw [List.mem_cons] at ha hb
    rcases ha with rfl | ha <;> rcases hb with rfl | hb
    · rfl
    · have := hp.1 b hb; omega
    · have := hp.1 a ha; omega
    · exact ih hp.2 a b ha hb hk

/-- The iteration order of the BTreeMap model is the reference visiting order. -/
theorem rankFields_eq_visitOrder (cs : List OrdField) (r : Ranked)
    (h : rankFields 0 cs [] = some r) : r.map Prod.snd = Spec.visitOrder cs := by
  obtain ⟨hs, hp⟩ := rankFields_spec cs 0 [] r (by simp [KeySorted]) h
  simp only [List.nil_append] at hp
  have hkey : ∀ e ∈ r, e.1 = Spec.rankOf e.2.1 e.2.2 :=
    fun e he => expectedEntries_key cs 0 e (hp.subset he)
  -- strict order on the payloads
  have hs2 : (r.map Prod.snd).Pairwise fun p q => Spec.rankOf p.1 p.2 < Spec.rankOf q.1 q.2 := by
    rw [List.pairwise_map]
    refine List.Pairwise.imp_of_mem ?_ hs
    intro a b ha hb hab
    rw [← hkey a ha, ← hkey b hb]; exact hab
  have hperm : (r.map Prod.snd).Perm ((Spec.indexed 0 cs).filter fun p => !p.2.ignore) := by
    rw [← expectedEntries_eq]; exact hp.map _
  unfold Spec.visitOrder
  let le : Nat × OrdField → Nat × OrdField → Bool := fun p q => decide (Spec.rankOf p.1 p.2 ≤ Spec.rankOf q.1 q.2)
  have hms := List.mergeSort_perm ((Spec.indexed 0 cs).filter fun p => !p.2.ignore) le
  have hsorted := List.pairwise_mergeSort (le := le)
    (by intro a b c; simp only [le, decide_eq_true_eq]; omega)
    (by intro a b; simp only [le, Bool.or_eq_true, decide_eq_true_eq]; omega)
    ((Spec.indexed 0 cs).filter fun p => !p.2.ignore)
  apply List.Perm.eq_of_pairwise (le := fun p q => le p q = true) ?_ ?_ hsorted (hperm.trans hms.symm)
  · intro a b ha hb hab hba
    have hb' : b ∈ r.map Prod.snd := (hperm.trans hms.symm).symm.subset hb
    simp only [le, decide_eq_true_eq] at hab hba
    have heq : Spec.rankOf a.1 a.2 = Spec.rankOf b.1 b.2 := by omega
    exact eq_of_mem_pairwise_lt (fun p : Nat × OrdField => Spec.rankOf p.1 p.2) _ hs2 a b ha hb' heq
  · exact hs2.imp (by intro p q h; simp only [le, decide_eq_true_eq]; omega)

end Educe

namespace Educe
open Gen.Ord

theorem expectedEntries_mem (cs : List OrdField) (i : Nat) :
    ∀ e ∈ expectedEntries i cs, ∃ j, e.2.1 = i + j ∧ cs[j]? = some e.2.2 ∧ e.2.2.ignore = false := by
  induction cs generalizing i with
  | nil => simp [expectedEntries]
  | cons c cs ih =>
    intro e he
    simp only [expectedEntries] at he
    split at he
    · obtain ⟨j, h1, h2, h3⟩ := ih (i + 1) e he
      exact ⟨j + 1, by omega, by simpa using h2, h3⟩
    · rename_i hig
      rw [List.mem_cons] at he
      rcases he with rfl | he
      · exact ⟨0, by simp, by simp, by simpa using hig⟩
      · obtain ⟨j, h1, h2, h3⟩ := ih (i + 1) e he
        exact ⟨j + 1, by omega, by simpa using h2, h3⟩

/-- Every entry the field loop produced is a non-ignored field of the list, at its own index. -/
theorem rankFields_mem (cs : List OrdField) (r : Ranked) (h : rankFields 0 cs [] = some r) :
    ∀ e ∈ r, cs[e.2.1]? = some e.2.2 ∧ e.2.2.ignore = false := by
  obtain ⟨_, hp⟩ := rankFields_spec cs 0 [] r (by simp [KeySorted]) h
  intro e he
  obtain ⟨j, h1, h2, h3⟩ := expectedEntries_mem cs 0 e (by simpa using hp.subset he)
  simp only [Nat.zero_add] at h1
  rw [h1]; exact ⟨h2, h3⟩

theorem callCmp_eq_fieldCmp {V : Type} (ops : OrdOps V) (p : Bool) (k i : Nat) (c : OrdField) (x y : V) :
    Sem.callCmp ops p (cmpFn c) ⟨k, i⟩ x y = Spec.fieldCmp ops p k i c x y := by
  unfold cmpFn Sem.callCmp Spec.fieldCmp
  cases c.method <;> cases p <;> rfl

theorem evalCmpStmts_struct {V : Type} (ops : OrdOps V) (p : Bool) (a b : List V) :
    ∀ (r : Ranked), (∀ e ∈ r, e.2.1 < a.length ∧ e.2.1 < b.length) →
      Sem.evalCmpStmts ops p [] a b (structStmts r) = some (Spec.lexCmp ops p 0 a b (r.map Prod.snd)) := by
  intro r
  induction r with
  | nil => intro _; simp [structStmts, Sem.evalCmpStmts, Spec.lexCmp]
  | cons e r ih =>
    intro h
    obtain ⟨key, i, c⟩ := e
    have hi := h (key, i, c) (by simp)
    simp only at hi
    have ih' := ih (fun e he => h e (by simp [he]))
    simp only [structStmts, List.map_cons, Sem.evalCmpStmts, evalRef,
      List.getElem?_eq_getElem hi.1, List.getElem?_eq_getElem hi.2, Option.map_some, Spec.lexCmp,
      callCmp_eq_fieldCmp]
    simp only [structStmts] at ih'
    cases hf : Spec.fieldCmp ops p 0 i c a[i] b[i] with
    | none => simp
    | some o => cases o <;> simp [ih']

theorem evalCmpStmts_arm {V : Type} (ops : OrdOps V) (p : Bool) (E : Env V) (k : Nat)
    (bs bo : Nat → OrdField → Option Ident) (cs : List OrdField) (xs ys : List V)
    (hx : xs.length = cs.length) (hy : ys.length = cs.length)
    (hok : EnvOK E k OrdField.ignore bs bo 0 cs xs ys) :
    ∀ (r : Ranked), (∀ e ∈ r, cs[e.2.1]? = some e.2.2 ∧ e.2.2.ignore = false) →
      Sem.evalCmpStmts ops p E [] [] (armStmts bs bo r) = some (Spec.lexCmp ops p k xs ys (r.map Prod.snd)) := by
  intro r
  induction r with
  | nil => intro _; simp [armStmts, Sem.evalCmpStmts, Spec.lexCmp]
  | cons e r ih =>
    intro h
    obtain ⟨key, i, c⟩ := e
    obtain ⟨hc, hig⟩ := h (key, i, c) (by simp)
    simp only at hc hig
    have ih' := ih (fun e he => h e (by simp [he]))
    have hi : i < cs.length := (List.getElem?_eq_some_iff.mp hc).1
    have hxi : xs[i]? = some xs[i] := List.getElem?_eq_getElem (by omega)
    have hyi : ys[i]? = some ys[i] := List.getElem?_eq_getElem (by omega)
    obtain ⟨s, o, hs, ho, ls, lo⟩ := hok i c xs[i] ys[i] hc hxi hyi hig
    simp only [Nat.zero_add] at hs ho ls lo
    simp only [armStmts, List.filterMap_cons, hs, ho, List.map_cons, Sem.evalCmpStmts, evalRef, ls, lo,
      Spec.lexCmp, hxi, hyi, callCmp_eq_fieldCmp]
    simp only [armStmts] at ih'
    cases hf : Spec.fieldCmp ops p k i c xs[i] ys[i] with
    | none => simp
    | some o => cases o <;> simp [ih']

theorem evalDisc_discArms : ∀ (vs : List OrdVariant) (base : Option Int) (off : Nat),
    (discArms base off vs).map Sem.evalDisc = Spec.discValues (base.getD 0 + off) vs := by
  intro vs
  induction vs with
  | nil => intro _ _; simp [discArms, Spec.discValues]
  | cons v vs ih =>
    intro base off
    simp only [discArms, Spec.discValues]
    cases hd : v.disc with
    | some d =>
      simp only [List.map_cons, Sem.evalDisc, Option.getD_some]
      have := ih (some d) 1
      simp only [Option.getD_some] at this
      simp [this]
    | none =>
      simp only [List.map_cons, Sem.evalDisc]
      have := ih base (off + 1)
      rw [this]
      have e : base.getD 0 + ((off + 1 : Nat) : Int) = base.getD 0 + (off : Int) + 1 := by
        simp; omega
      rw [e]

theorem cmp_arms_get : ∀ (vs : List OrdVariant) (as : List CmpArm), arms vs = some as →
    as.length = vs.length ∧ ∀ (k : Nat) (v : OrdVariant), vs[k]? = some v → ∃ a, arm v = some a ∧ as[k]? = some a := by
  intro vs
  induction vs with
  | nil => intro as h; simp [arms] at h; subst h; simp
  | cons v vs ih =>
    intro as h
    simp only [arms] at h
    cases ha : arm v with
    | none => simp [ha] at h
    | some a =>
      cases hr : arms vs with
      | none => simp [ha, hr] at h
      | some as' =>
        simp [ha, hr] at h; subst h
        obtain ⟨hl, hg⟩ := ih as' hr
        refine ⟨by simp [hl], ?_⟩
        intro k v' hk
        cases k with
        | zero => simp at hk; subst hk; exact ⟨a, ha, by simp⟩
        | succ k => simp at hk; simpa using hg k v' hk

end Educe
