import EduceModel.Sem.Debug
/-
  Reference semantics of C06: the *effective shape*, computed from the attributes alone.
-/
namespace Educe
namespace Spec

/-- Effective name of a type or variant: its own, a replacement, or none. -/
def effName (c : NameCfg) (own : Ident) : Option Ident :=
  match c with
  | .disable => none
  | .default => some own
  | .custom n => some n

/-- Shown fields in declaration order: effective key, formatter, value. -/
def shownFields {V : Type} (k : Nat) (positionalKey : Bool) : Nat → List DbgField → List V → List (Ident × Formatter × V)
  | i, c :: cs, x :: xs =>
    let rest := shownFields k positionalKey (i + 1) cs xs
    if c.ignore then rest
    else
      let own := if positionalKey then '_' :: digits i else c.name
      let key := match c.rename with | some r => r | none => own
      let fm := match c.method with | some m => Formatter.method m | none => Formatter.own ⟨k, i⟩
      (key, fm, x) :: rest
  | _, _, _ => []

def styleOf (named : Bool) (name : Option Ident) : Builder :=
  if named then (match name with | some n => .struct n | none => .map)
  else .tuple (match name with | some n => n | none => [])

/-- `Enum::Variant` when both names are shown, otherwise whichever is. -/
def fullName (en vn : Option Ident) : Option Ident :=
  match en, vn with
  | some e, some w => some (e ++ "::".toList ++ w)
  | some e, none => some e
  | none, some w => some w
  | none, none => none

/-- The effective shape of a value; `none` = nothing to show and no name (refused). -/
def effectiveShape {V : Type} (t : DbgType) (a : Val V) : Option (DbgShape V) :=
  match t with
  | .struct v tname =>
    let name := effName tname v.name
    let named := match v.namedField with | some b => b | none => v.shape != .tuple
    let fs := shownFields 0 (v.shape == .tuple) 0 v.fields a.fields
    some ⟨styleOf named name, fs⟩
  | .enum ename vs tname =>
    match vs[a.variant]? with
    | none => none
    | some v =>
      let en := effName tname ename
      let vn := effName v.vname v.name
      let name : Option Ident := fullName en vn
      match v.shape with
      | .unit => name.map fun n => ⟨.writeStr n, []⟩
      | .tuple =>
        let named := match v.namedField with | some b => b | none => false
        some ⟨styleOf named name, shownFields a.variant true 0 v.fields a.fields⟩
      | .named =>
        let named := match v.namedField with | some b => b | none => true
        some ⟨styleOf named name, shownFields a.variant false 0 v.fields a.fields⟩

/-- What `#[derive(Debug)]` shows: the type / variant name, all fields under their own names,
    struct style for named fields and tuple style for positional ones. -/
def deriveShape {V : Type} (t : DbgType) (a : Val V) : Option (DbgShape V) :=
  let plain (k : Nat) (v : DbgVariant) : DbgShape V :=
    let fs := (indexedV 0 v.fields a.fields).map fun (i, c, x) => (c.name, Formatter.own ⟨k, i⟩, x)
    match v.shape with
    | .unit => ⟨.struct v.name, []⟩
    | .tuple => ⟨.tuple v.name, fs⟩
    | .named => ⟨.struct v.name, fs⟩
  match t with
  | .struct v _ => some (plain 0 v)
  | .enum _ vs _ => (vs[a.variant]?).map (plain a.variant)
where
  indexedV : Nat → List DbgField → List V → List (Nat × DbgField × V)
    | i, c :: cs, x :: xs => (i, c, x) :: indexedV (i + 1) cs xs
    | _, _, _ => []

end Spec
end Educe
