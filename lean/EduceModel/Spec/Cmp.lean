import EduceModel.Sem.Cmp
/-
  Reference semantics of C03 / C04.
-/
namespace Educe
namespace Spec

/-- Comparison of one field as the property defines it. -/
def fieldCmp {V : Type} (ops : OrdOps V) (partial_ : Bool) (k i : Nat) (c : OrdField) (x y : V) : Option Ord3 :=
  match c.method, partial_ with
  | some m, false => some (ops.cmpM m x y)
  | some m, true => ops.pcmpM m x y
  | none, false => some (ops.cmp ⟨k, i⟩ x y)
  | none, true => ops.pcmp ⟨k, i⟩ x y

/-- The rank of a field: explicit, otherwise `isize::MIN + declaration position`. -/
def rankOf (i : Nat) (c : OrdField) : Int :=
  match c.rank with
  | some r => r
  | none => -9223372036854775808 + i

def indexed {α : Type} : Nat → List α → List (Nat × α)
  | _, [] => []
  | i, c :: cs => (i, c) :: indexed (i + 1) cs

/-- Non-ignored fields in ascending rank. -/
def visitOrder (cs : List OrdField) : List (Nat × OrdField) :=
  ((indexed 0 cs).filter fun p => !p.2.ignore).mergeSort fun p q => rankOf p.1 p.2 ≤ rankOf q.1 q.2

/-- First non-Equal result in visiting order; `none` when an incomparable field is reached first. -/
def lexCmp {V : Type} (ops : OrdOps V) (partial_ : Bool) (k : Nat) (xs ys : List V) :
    List (Nat × OrdField) → Option Ord3
  | [] => some .eq
  | (i, c) :: rest =>
    match xs[i]?, ys[i]? with
    | some x, some y =>
      match fieldCmp ops partial_ k i c x y with
      | some .eq => lexCmp ops partial_ k xs ys rest
      | r => r
    | _, _ => some .eq

/-- Declared discriminant values: explicit where written, otherwise previous + 1 (from 0). -/
def discValues : Int → List OrdVariant → List Int
  | _, [] => []
  | next, v :: vs =>
    match v.disc with
    | some d => d :: discValues (d + 1) vs
    | none => next :: discValues (next + 1) vs

def variantsOf : OrdType → List OrdVariant
  | .struct v => [v]
  | .enum vs => vs

/-- C03/C04: different variants order by declared discriminant; same variant by fields alone. -/
def cmp {V : Type} (ops : OrdOps V) (partial_ : Bool) (t : OrdType) (a b : Val V) : Option Ord3 :=
  if a.variant = b.variant then
    match (variantsOf t)[a.variant]? with
    | some v => lexCmp ops partial_ a.variant a.fields b.fields (visitOrder v.fields)
    | none => some .eq
  else
    let ds := discValues 0 (variantsOf t)
    match ds[a.variant]?, ds[b.variant]? with
    | some da, some db => some (compareInt da db)
    | _, _ => some .eq

end Spec
end Educe
