import EduceModel.Sem.Deref
/-
  Reference semantics of C09.
-/
namespace Educe
namespace Spec

def flagged : Nat → List DerefField → List Nat
  | _, [] => []
  | i, c :: cs => if c.flag then i :: flagged (i + 1) cs else flagged (i + 1) cs

/-- The designated field: the sole field, else the one marked — `none` when that is not unique. -/
def designated (fields : List DerefField) : Option Nat :=
  if fields.length = 1 then some 0
  else match flagged 0 fields with
    | [i] => some i
    | _ => none

def deref {V : Type} (t : DerefType) (a : Val V) : Option Place :=
  match (Sem.variantsOfDeref t)[a.variant]? with
  | some v => (designated v.fields).map fun i => ⟨a.variant, i⟩
  | none => none

end Spec
end Educe
