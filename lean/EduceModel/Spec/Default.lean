import EduceModel.Sem.Default
/-
  Reference semantics of C08.
-/
namespace Educe
namespace Spec

def fieldDefault {V : Type} (ops : DefOps V) (k i : Nat) (c : DefField) : V :=
  match c.expr with
  | some e => ops.exprVal e
  | none => ops.dflt ⟨k, i⟩

def fieldDefaults {V : Type} (ops : DefOps V) (k : Nat) : Nat → List DefField → List V
  | _, [] => []
  | i, c :: cs => fieldDefault ops k i c :: fieldDefaults ops k (i + 1) cs

def marked {α : Type} (p : α → Bool) : Nat → List α → List Nat
  | _, [] => []
  | i, x :: xs => if p x then i :: marked p (i + 1) xs else marked p (i + 1) xs

/-- The unique marked one, else the only one. -/
def designatedBy {α : Type} (p : α → Bool) (xs : List α) : Option Nat :=
  match xs with
  | [_] => some 0
  | _ => match marked p 0 xs with
    | [i] => some i
    | _ => none

/-- C08: the value `T::default()` builds; `none` when the designation is missing or ambiguous. -/
def default {V : Type} (ops : DefOps V) (cfg : DefCfg) (t : DefType) : Option (Val V) :=
  match cfg.typeExpr with
  | some e => some (ops.typeExprVal e)
  | none =>
    match t with
    | .struct v => some ⟨0, fieldDefaults ops 0 0 v.fields⟩
    | .enum vs =>
      match designatedBy (·.flag) vs with
      | none => none
      | some k => (vs[k]?).map fun v => ⟨k, fieldDefaults ops k 0 v.fields⟩
    | .union fs =>
      match designatedBy (fun c => c.expr.isSome || c.flag) fs with
      | none => none
      | some i => (fs[i]?).map fun c => ⟨i, [fieldDefault ops 0 i c]⟩

/-- The literal's natural type: where a bare literal needs no conversion. A suffixed numeric
    literal has exactly the suffix type; an unsuffixed one fits every primitive integer
    (resp. float) type. -/
def natural (lit : Gen.Default.LitKind) (ty : Option Gen.Default.TyShape) : Prop :=
  match lit, ty with
  | .int sfx, some (.path s) => sfx = s ∨ (sfx = "" ∧ s ∈ Gen.Default.intTypes)
  | .float sfx, some (.path s) => sfx = s ∨ (sfx = "" ∧ s ∈ Gen.Default.floatTypes)
  | .str, some (.refTo (.path s)) => s = "str"
  | .bool, some (.path s) => s = "bool"
  | .char, some (.path s) => s = "char"
  | .byte, some (.path s) => s = "u8"
  | .byteStr, some (.refTo (.arrayOf (.path s))) => s = "u8"
  | _, _ => False

end Spec
end Educe
