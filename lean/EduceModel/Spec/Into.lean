import EduceModel.Sem.Into
/-
  Reference semantics of C10.
-/
namespace Educe
namespace Spec

def hasMarker (t : Nat) (c : IntoField) : Bool := c.markers.any fun p => p.1 == t

def methodOf (t : Nat) (c : IntoField) : Option Nat :=
  match c.markers.find? fun p => p.1 == t with
  | some (_, m) => m
  | none => none

def indicesWhere (p : IntoField → Bool) : Nat → List IntoField → List Nat
  | _, [] => []
  | i, c :: cs => if p c then i :: indicesWhere p (i + 1) cs else indicesWhere p (i + 1) cs

/-- The field designated for target `t`: the sole field; else the one marked `Into(t)`; else the
    unique field whose declared type is `t`. `none` when missing or ambiguous. -/
def designatedFor (t : Nat) (fields : List IntoField) : Option Nat :=
  match fields with
  | [_] => some 0
  | _ =>
    match indicesWhere (hasMarker t) 0 fields with
    | [i] => some i
    | _ :: _ :: _ => none
    | [] =>
      match indicesWhere (fun c => c.ty == t) 0 fields with
      | [i] => some i
      | _ => none

/-- What becomes of the designated field: through the marker's method, unchanged when its type is
    already `t`, converted with `Into<t>` otherwise. -/
def resultOf {V : Type} (ops : IntoOps V) (t : Nat) (c : IntoField) (p : Pos) (x : V) : V :=
  match methodOf t c with
  | some m => ops.method m x
  | none => if c.ty = t then x else ops.conv p t x

/-- The value `x.into()` returns for target `t`. -/
def into {V : Type} (ops : IntoOps V) (ty : IntoType) (t : Nat) (a : Val V) : Option V :=
  match (Sem.variantsOfInto ty)[a.variant]? with
  | none => none
  | some v =>
    match designatedFor t v.fields with
    | none => none
    | some i =>
      match v.fields[i]?, a.fields[i]? with
      | some c, some x => some (resultOf ops t c ⟨a.variant, i⟩ x)
      | _, _ => none

end Spec
end Educe
