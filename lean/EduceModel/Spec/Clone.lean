import EduceModel.Sem.Clone
/-
  Reference semantics of C07.
-/
namespace Educe
namespace Spec

def cloneAt {V : Type} (ops : CloneOps V) (k i : Nat) (c : CloneField) (x : V) : V :=
  match c.method with
  | some m => ops.method m x
  | none => ops.clone ⟨k, i⟩ x

def cloneFields {V : Type} (ops : CloneOps V) (k : Nat) : Nat → List CloneField → List V → List V
  | i, c :: cs, x :: xs => cloneAt ops k i c x :: cloneFields ops k (i + 1) cs xs
  | _, _, _ => []

def cfAt {V : Type} (ops : CloneOps V) (k i : Nat) (c : CloneField) (x y : V) : V :=
  match c.method with
  | some m => ops.method m y
  | none => ops.cloneFrom ⟨k, i⟩ x y

def cfFields {V : Type} (ops : CloneOps V) (k : Nat) : Nat → List CloneField → List V → List V → List V
  | i, c :: cs, x :: xs, y :: ys => cfAt ops k i c x y :: cfFields ops k (i + 1) cs xs ys
  | _, _, _, _ => []

def cloneVariantOf (t : CloneType) (k : Nat) : Option CloneVariant :=
  match t with
  | .struct v => if k = 0 then some v else none
  | .enum vs => vs[k]?
  | .union => none

/-- Is `clone` a bitwise copy: unions always; with Copy educed, structs always and enums unless a
    custom clone method is in use. -/
def bitwise (copy : Bool) : CloneType → Bool
  | .union => true
  | .struct _ => copy
  | .enum vs => copy && !(vs.any fun v => v.fields.any fun c => c.method.isSome)

/-- C07: same variant, every field through its method or its own `Clone::clone`, once. -/
def clone {V : Type} (ops : CloneOps V) (copy : Bool) (t : CloneType) (a : Val V) : Val V :=
  if bitwise copy t then a
  else match cloneVariantOf t a.variant with
    | some v => ⟨a.variant, cloneFields ops a.variant 0 v.fields a.fields⟩
    | none => a

/-- C07: `a.clone_from(&b)` — field by field when the variants coincide, a fresh clone otherwise. -/
def cloneFrom {V : Type} (ops : CloneOps V) (copy : Bool) (t : CloneType) (a b : Val V) : Val V :=
  if bitwise copy t then b
  else if a.variant = b.variant then
    match cloneVariantOf t a.variant with
    | some v => ⟨a.variant, cfFields ops a.variant 0 v.fields a.fields b.fields⟩
    | none => b
  else clone ops copy t b

end Spec
end Educe
