import EduceModel.Sem.Eq
/-
  Reference semantics of C02, written without IR, binders or templates.
-/
namespace Educe
namespace Spec

/-- Are the two values of one field "equal" as the property defines it: by the custom method
    (left operand first) or by the field type's own comparison. -/
def fieldEq {V : Type} (ops : EqOps V) (k i : Nat) (c : EqField) (x y : V) : Bool :=
  match c.method with
  | some m => ops.method m x y
  | none => !ops.ne ⟨k, i⟩ x y

/-- Every non-ignored field is equal. -/
def fieldsEq {V : Type} (ops : EqOps V) (k : Nat) : Nat → List EqField → List V → List V → Bool
  | i, c :: cs, x :: xs, y :: ys =>
    (c.ignore || fieldEq ops k i c x y) && fieldsEq ops k (i + 1) cs xs ys
  | _, _, _, _ => true

def variantOf (t : EqType) (k : Nat) : Option EqVariant :=
  match t with
  | .struct v => if k = 0 then some v else none
  | .enum vs => vs[k]?

/-- C02: same variant and every compared field equal. -/
def eq {V : Type} (ops : EqOps V) (t : EqType) (a b : Val V) : Bool :=
  a.variant == b.variant &&
    match variantOf t a.variant with
    | some v => fieldsEq ops a.variant 0 v.fields a.fields b.fields
    | none => true

end Spec
end Educe
