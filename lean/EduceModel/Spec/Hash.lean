import EduceModel.Sem.Hash
import EduceModel.Spec.Eq
/-
  Reference semantics of C05.
-/
namespace Educe
namespace Spec

def feedAt {V W : Type} (ops : HashOps V W) (k i : Nat) (c : HashField) (x : V) : List W :=
  match c.method with
  | some m => ops.method m x
  | none => ops.hash ⟨k, i⟩ x

/-- The non-ignored fields, in declaration order, each fed through its method or own Hash. -/
def feedFields {V W : Type} (ops : HashOps V W) (k : Nat) : Nat → List HashField → List V → List (Write W)
  | i, c :: cs, x :: xs =>
    (if c.ignore then [] else (feedAt ops k i c x).map Write.leaf) ++ feedFields ops k (i + 1) cs xs
  | _, _, _ => []

/-- C05: structs feed their fields; every enum value feeds its variant index first. -/
def feed {V W : Type} (ops : HashOps V W) (t : HashType) (a : Val V) : List (Write W) :=
  match t with
  | .struct v => feedFields ops 0 0 v.fields a.fields
  | .enum vs =>
    match vs[a.variant]? with
    | some v => Write.usize a.variant :: feedFields ops a.variant 0 v.fields a.fields
    | none => []

end Spec
end Educe
