import EduceModel.Attr.Values
/-
  Model of the 24 `models/{type,field}_attribute.rs` builders: the `enable_*` switches, the
  parameter loop with its "given twice" check, the `Trait = value` shorthands, and the attribute
  scan (`build_from_attributes`) with unknown / unused / repeated trait detection.
-/
namespace Educe.Attr

/-- The feature set: which trait names `Trait::from_path` knows. -/
abbrev Features := List TraitId

def traitOfName (F : Features) (n : String) : Option TraitId :=
  (TraitId.all.find? fun t => t.name == n).bind fun t => if F.contains t then some t else none

/-- `Trait::from_path`: only single-identifier paths of enabled traits. -/
def traitOf (F : Features) (m : TraitMeta) : Option TraitId :=
  match m.ident with
  | some n => traitOfName F n
  | none => none

/-- `meta.path().get_ident().unwrap()` inside an error constructor. -/
def identOrPanic {α : Type} (m : TraitMeta) (d : Diag) : Res α :=
  match m.ident with
  | some _ => .diag d
  | none => .panic .getIdentUnwrap

/-! ### The parameter loop -/

/-- One parameter the closure answers to. `key` identifies its `*_is_set` flag. -/
structure PSpec (σ : Type) where
  names : List String
  key : String
  enabled : Bool
  apply : Form → σ → Res σ        -- parse the value (errors first), then store it

def findSpec {σ : Type} (specs : List (PSpec σ)) (n : String) : Option (PSpec σ) :=
  specs.find? fun s => s.names.contains n

/-- `for p in result { if !handler(p)? { return Err(incorrect_format) } }` -/
def runParams {σ : Type} (m : TraitMeta) (specs : List (PSpec σ)) : List Param → List String → σ → Res σ
  | [], _, st => .ok st
  | p :: ps, seen, st =>
    match p.ident with
    | none => identOrPanic m .incorrectFormat
    | some n =>
      match findSpec specs n with
      | none => identOrPanic m .incorrectFormat
      | some s =>
        if !s.enabled then identOrPanic m .incorrectFormat
        else
          match s.apply p.form st with
          | .diag d => .diag d
          | .panic x => .panic x
          | .ok st' =>
            if seen.contains s.key then .diag .parameterReset
            else runParams m specs ps (s.key :: seen) st'

/-! ### The attribute scan -/

/-- `traits` is the set of educed traits; every handler uses it only through membership
    (`traits.contains(..)` in the code), so the model carries the membership test itself.

    `build_from_attributes`: all `#[educe(...)]` list attributes of one position are scanned; metas
    of other traits are only validated; `mine` selects this builder's metas (incl. synonyms). -/
def scanMetas {α : Type} (F : Features) (traits : TraitId → Bool) (mine : TraitId → Bool)
    (build : TraitMeta → Res α) : List TraitMeta → Option α → Res (Option α)
  | [], out => .ok out
  | m :: ms, out =>
    match traitOf F m with
    | none => .diag .unsupportedTrait
    | some t =>
      if !traits t then identOrPanic m .traitNotUsed
      else if mine t then
        match out with
        | some _ => identOrPanic m .reuseTrait
        | none =>
          match build m with
          | .ok a => scanMetas F traits mine build ms (some a)
          | .diag d => .diag d
          | .panic s => .panic s
      else scanMetas F traits mine build ms out

def scanAttrs {α : Type} (F : Features) (traits : TraitId → Bool) (mine : TraitId → Bool)
    (build : TraitMeta → Res α) : List Attribute → Option α → Res (Option α)
  | [], out => .ok out
  | a :: as, out =>
    if a.isEduce && a.isList then
      match a.metas with
      | none => .diag .badValue
      | some ms =>
        match scanMetas F traits mine build ms out with
        | .ok out' => scanAttrs F traits mine build as out'
        | .diag d => .diag d
        | .panic s => .panic s
    else scanAttrs F traits mine build as out

def fromAttrs {α : Type} (F : Features) (traits : TraitId → Bool) (mine : TraitId → Bool)
    (build : TraitMeta → Res α) (dflt : α) (attrs : List Attribute) : Res α :=
  match scanAttrs F traits mine build attrs none with
  | .ok (some a) => .ok a
  | .ok none => .ok dflt
  | .diag d => .diag d
  | .panic s => .panic s

/-- Into: all `Into(..)` metas of one position are collected first (no repeat check). -/
def collectMetas (F : Features) (traits : TraitId → Bool) (t0 : TraitId) : List TraitMeta → List TraitMeta → Res (List TraitMeta)
  | [], acc => .ok acc
  | m :: ms, acc =>
    match traitOf F m with
    | none => .diag .unsupportedTrait
    | some t =>
      if !traits t then identOrPanic m .traitNotUsed
      else collectMetas F traits t0 ms (if t == t0 then acc ++ [m] else acc)

def collectAttrs (F : Features) (traits : TraitId → Bool) (t0 : TraitId) : List Attribute → List TraitMeta → Res (List TraitMeta)
  | [], acc => .ok acc
  | a :: as, acc =>
    if a.isEduce && a.isList then
      match a.metas with
      | none => .diag .badValue
      | some ms =>
        match collectMetas F traits t0 ms acc with
        | .ok acc' => collectAttrs F traits t0 as acc'
        | .diag d => .diag d
        | .panic s => .panic s
    else collectAttrs F traits t0 as acc

/-! ### Plain list access -/

def plainParams (m : TraitMeta) : Res (Option (List Param)) :=
  match m.form with
  | .list (some ps) _ _ => .ok (some ps)
  | .list none _ _ => .diag .badValue
  | _ => .ok none

/-! ### ignore / method / rank fields (PartialEq, Eq-synonym, PartialOrd, Ord, Hash) -/

structure CmpFieldAttr where
  ignore : Bool := false
  method : Option String := none
  rank : Option Int := none
  deriving Repr, Inhabited, DecidableEq

structure CmpFieldFlags where
  ignore : Bool
  method : Bool
  rank : Bool
  deriving Repr, Inhabited, DecidableEq

def cmpFieldSpecs (fl : CmpFieldFlags) : List (PSpec CmpFieldAttr) :=
  [ { names := ["ignore"], key := "ignore", enabled := fl.ignore
      apply := fun f st => do let v ← meta2BoolAllowPath f; pure { st with ignore := v } },
    { names := ["method"], key := "method", enabled := fl.method
      apply := fun f st => do let v ← meta2Path f; pure { st with method := some v } },
    { names := ["rank"], key := "rank", enabled := fl.rank
      apply := fun f st => do let v ← meta2Isize f; pure { st with rank := some v } } ]

/-- `build_from_{partial_eq,ord,partial_ord,hash}_meta` of a field. -/
def cmpFieldFromMeta (fl : CmpFieldFlags) (m : TraitMeta) : Res CmpFieldAttr :=
  match m.form with
  | .path => identOrPanic m .incorrectFormat
  | .nv v =>
    if fl.ignore then do let b ← nv2Bool v; pure { ignore := !b }
    else identOrPanic m .incorrectFormat
  | .list none _ _ => .diag .badValue
  | .list (some ps) _ _ => runParams m (cmpFieldSpecs fl) ps [] {}

/-! ### type-level attributes with only `bound` (and `unsafe`): PartialEq, Hash, Eq, Copy, Clone, PartialOrd, Ord -/

structure BoundTypeAttr where
  hasUnsafe : Bool := false
  bound : Bound := .auto
  deriving Repr, Inhabited, DecidableEq

structure BoundTypeFlags where
  flag : Bool
  unsafe_ : Bool
  bound : Bool
  deriving Repr, Inhabited, DecidableEq

def boundSpec {σ : Type} (enabled : Bool) (set : Bound → σ → σ) : PSpec σ :=
  { names := ["bound"], key := "bound", enabled := enabled
    apply := fun f st => do let v ← meta2Bound f; pure (set v st) }

def boundTypeFromMeta (fl : BoundTypeFlags) (m : TraitMeta) : Res BoundTypeAttr :=
  match m.form with
  | .path => if fl.flag then .ok {} else identOrPanic m .incorrectFormat
  | .nv _ => identOrPanic m .incorrectFormat
  | .list plain uns _ =>
    if fl.unsafe_ then
      match uns with
      | none => .diag .badValue
      | some (has, ps) => runParams m [boundSpec fl.bound fun b st => { st with bound := b }] ps [] { hasUnsafe := has }
    else
      match plain with
      | none => .diag .badValue
      | some ps => runParams m [boundSpec fl.bound fun b st => { st with bound := b }] ps [] {}

/-! ### Debug -/

structure DebugTypeAttr where
  hasUnsafe : Bool := false
  name : NameCfg := .default
  namedField : Bool := false
  namedFieldSet : Bool := false
  bound : Bound := .auto
  deriving Repr, Inhabited, DecidableEq

structure DebugTypeFlags where
  flag : Bool
  unsafe_ : Bool
  name : Bool
  namedField : Bool
  bound : Bool
  nameDefault : NameCfg
  namedFieldDefault : Bool
  deriving Repr, Inhabited, DecidableEq

def nameOfIdentOrBool : IdentOrBool → NameCfg
  | .ident i => .custom i.toList
  | .bool true => .default
  | .bool false => .disable

def debugTypeSpecs (fl : DebugTypeFlags) : List (PSpec DebugTypeAttr) :=
  [ { names := ["name", "rename"], key := "name", enabled := fl.name
      apply := fun f st => do let v ← meta2IdentOrBool f; pure { st with name := nameOfIdentOrBool v } },
    { names := ["named_field"], key := "named_field", enabled := fl.namedField
      apply := fun f st => do let v ← meta2Bool f; pure { st with namedField := v, namedFieldSet := true } },
    boundSpec fl.bound fun b st => { st with bound := b } ]

def debugTypeFromMeta (fl : DebugTypeFlags) (m : TraitMeta) : Res DebugTypeAttr :=
  let init : DebugTypeAttr := { name := fl.nameDefault, namedField := fl.namedFieldDefault }
  match m.form with
  | .path => if fl.flag then .ok init else identOrPanic m .incorrectFormat
  | .nv v =>
    if !fl.name then identOrPanic m .incorrectFormat
    else do let i ← nv2Ident v; pure { init with name := .custom i.toList }
  | .list plain uns _ =>
    if fl.unsafe_ then
      match uns with
      | none => .diag .badValue
      | some (has, ps) => runParams m (debugTypeSpecs fl) ps [] { init with hasUnsafe := has }
    else
      match plain with
      | none => .diag .badValue
      | some ps => runParams m (debugTypeSpecs fl) ps [] init

structure DebugFieldAttr where
  name : Option String := none
  ignore : Bool := false
  method : Option String := none
  deriving Repr, Inhabited, DecidableEq

structure DebugFieldFlags where
  name : Bool
  ignore : Bool
  method : Bool
  deriving Repr, Inhabited, DecidableEq

def debugFieldSpecs (fl : DebugFieldFlags) : List (PSpec DebugFieldAttr) :=
  [ { names := ["name", "rename"], key := "name", enabled := fl.name
      apply := fun f st => do let v ← meta2Ident f; pure { st with name := some v } },
    { names := ["ignore"], key := "ignore", enabled := fl.ignore
      apply := fun f st => do let v ← meta2BoolAllowPath f; pure { st with ignore := v } },
    { names := ["method"], key := "method", enabled := fl.method
      apply := fun f st => do let v ← meta2Path f; pure { st with method := some v } } ]

def debugFieldFromMeta (fl : DebugFieldFlags) (m : TraitMeta) : Res DebugFieldAttr :=
  match m.form with
  | .path => identOrPanic m .incorrectFormat
  | .nv v =>
    if fl.name then
      if fl.ignore then do
        match ← nv2IdentOrBool v with
        | .ident i => pure { name := some i }
        | .bool b => pure { ignore := !b }
      else do let i ← nv2Ident v; pure { name := some i }
    else if fl.ignore then do let b ← nv2Bool v; pure { ignore := !b }
    else identOrPanic m .incorrectFormat
  | .list none _ _ => .diag .badValue
  | .list (some ps) _ _ => runParams m (debugFieldSpecs fl) ps [] {}

/-! ### Clone field (method only) -/

structure CloneFieldAttr where
  method : Option String := none
  deriving Repr, Inhabited, DecidableEq

def cloneFieldFromMeta (enableMethod : Bool) (m : TraitMeta) : Res CloneFieldAttr :=
  match m.form with
  | .path | .nv _ => identOrPanic m .incorrectFormat
  | .list none _ _ => .diag .badValue
  | .list (some ps) _ _ =>
    runParams m [ { names := ["method"], key := "method", enabled := enableMethod
                    apply := fun f (st : CloneFieldAttr) => do let v ← meta2Path f; pure { st with method := some v } } ] ps [] {}

/-- Copy / Eq field attributes: nothing is accepted at a field. -/
def noFieldAttrFromMeta (m : TraitMeta) : Res Unit := identOrPanic m .incorrectFormat

/-! ### Default -/

structure DefaultTypeAttr where
  flag : Bool := false
  new : Bool := false
  expression : Option (String × Bool) := none     -- text, wrapped in `Into::into`
  bound : Bound := .auto
  deriving Repr, Inhabited, DecidableEq

structure DefaultTypeFlags where
  flag : Bool
  new : Bool
  expression : Bool
  bound : Bool
  deriving Repr, Inhabited, DecidableEq

/-- `auto_adjust_expr` on the attribute layer's view of the literal and the field type. -/
def keepsBare (l : LitV) (ty : Option TyShape) : Bool :=
  match l, ty with
  | .int _ sfx, some (.path s) => sfx == s || (sfx.isEmpty && ["u8", "u16", "u32", "u64", "u128", "usize", "i8", "i16", "i32", "i64", "i128", "isize"].contains s)
  | .float sfx, some (.path s) => sfx == s || (sfx.isEmpty && ["f32", "f64"].contains s)
  | .str _, some (.refTo (.path s)) => s == "str"
  | .bool _, some (.path s) => s == "bool"
  | .char, some (.path s) => s == "char"
  | .byte, some (.path s) => s == "u8"
  | .byteStr, some (.refTo (.arrayOf (.path s))) => s == "u8"
  | _, _ => false

def adjust (e : String × Option LitV) (ty : Option TyShape) : String × Bool :=
  match e.2 with
  | none => (e.1, false)
  | some l => (e.1, !keepsBare l ty)

def defaultTypeSpecs (fl : DefaultTypeFlags) : List (PSpec DefaultTypeAttr) :=
  [ { names := ["new"], key := "new", enabled := fl.new
      apply := fun f st => do let v ← meta2BoolAllowPath f; pure { st with new := v } },
    { names := ["expression", "expr"], key := "expression", enabled := fl.expression
      apply := fun f st => do let v ← meta2Expr f; pure { st with expression := some (adjust v none) } },
    boundSpec fl.bound fun b st => { st with bound := b } ]

def defaultTypeFromMeta (fl : DefaultTypeFlags) (m : TraitMeta) : Res DefaultTypeAttr :=
  match m.form with
  | .path => if fl.flag then .ok { flag := true } else identOrPanic m .incorrectFormat
  | .nv _ => identOrPanic m .incorrectFormat
  | .list none _ _ => .diag .badValue
  | .list (some ps) _ _ => runParams m (defaultTypeSpecs fl) ps [] {}

structure DefaultFieldAttr where
  flag : Bool := false
  expression : Option (String × Bool) := none
  deriving Repr, Inhabited, DecidableEq

def defaultFieldFromMeta (enableFlag enableExpr : Bool) (ty : TyShape) (m : TraitMeta) : Res DefaultFieldAttr :=
  match m.form with
  | .path => if enableFlag then .ok { flag := true } else identOrPanic m .incorrectFormat
  | .nv v =>
    if !enableExpr then identOrPanic m .incorrectFormat
    else .ok { expression := some (adjust (v.text, match v.tok with | .lit l => some l | _ => none) (some ty)) }
  | .list none _ _ => .diag .badValue
  | .list (some ps) _ _ =>
    runParams m [ { names := ["expression", "expr"], key := "expression", enabled := enableExpr
                    apply := fun f (st : DefaultFieldAttr) => do
                      let v ← meta2Expr f; pure { st with expression := some (adjust v (some ty)) } } ] ps [] {}

/-! ### Deref / DerefMut (flags only) -/

def flagTypeFromMeta (enableFlag : Bool) (m : TraitMeta) : Res Bool :=
  match m.form with
  | .path => if enableFlag then .ok true else identOrPanic m .incorrectFormat
  | _ => identOrPanic m .incorrectFormat

/-! ### Into -/

/-- `build_from_into_meta` of the type: target ↦ bound, rejecting a repeated target. -/
def intoTypeFromMetas (enableTypes : Bool) : List TraitMeta → List (String × Bound) → Res (List (String × Bound))
  | [], acc => .ok acc
  | m :: ms, acc =>
    match m.form with
    | .path | .nv _ => identOrPanic m .incorrectFormat
    | .list _ _ typed =>
      if !enableTypes then identOrPanic m .incorrectFormat
      else match typed with
        | none => .diag .badValue
        | some (ty, ps) =>
          match runParams m [boundSpec true fun b (_ : Bound) => b] ps [] Bound.auto with
          | .diag d => .diag d
          | .panic s => .panic s
          | .ok b =>
            if acc.any fun p => p.1 == ty then .diag .resetType
            else intoTypeFromMetas enableTypes ms (acc ++ [(ty, b)])

def intoFieldFromMetas (enableTypes : Bool) : List TraitMeta → List (String × Option String) → Res (List (String × Option String))
  | [], acc => .ok acc
  | m :: ms, acc =>
    match m.form with
    | .path | .nv _ => identOrPanic m .incorrectFormat
    | .list _ _ typed =>
      if !enableTypes then identOrPanic m .incorrectFormat
      else match typed with
        | none => .diag .badValue
        | some (ty, ps) =>
          match runParams m [ { names := ["method"], key := "method", enabled := true
                                apply := fun f (_ : Option String) => do let v ← meta2Path f; pure (some v) } ] ps [] none with
          | .diag d => .diag d
          | .panic s => .panic s
          | .ok meth =>
            if acc.any fun p => p.1 == ty then .diag .resetType
            else intoFieldFromMetas enableTypes ms (acc ++ [(ty, meth)])

end Educe.Attr
