import EduceModel.Attr.Syntax
/-!
# The three list parsers of educe

`Trait( .. )` is read by one of three parsers, depending on trait and position:

* `parse_terminated(Meta::parse, Token![,])` - metas separated by commas, a trailing comma allowed;
* `UnsafePunctuatedMeta` (`common/unsafe_punctuated_meta.rs`) - an optional leading `unsafe`, then (after a comma) metas;
* `TypeWithPunctuatedMeta` (`common/type.rs`) - a type, then (after a comma) metas.

The serializer cuts the argument list into the elements these parsers step over with syn's own element parsers
(`Seg`); how elements may follow each other - educe's part - is modelled here.
-/
namespace Educe.Attr

/-- One element of the argument list of `Trait( .. )`. -/
inductive Seg
  | comma
  | kwUnsafe                                  -- the bare keyword `unsafe` (which `Meta::parse` reads as the path `unsafe`)
  | item (p : Param) (asType : Option Ty)     -- parses as a `Meta` up to the next comma / the end (and maybe as a type, too)
  | unsafeItem (p : Param)                    -- a `Meta` that begins with the keyword and goes on: `unsafe = 1`, `unsafe(x)`
  | ty (t : Ty)                               -- parses as a `Type` up to there, not as a `Meta`
  | other                                     -- anything else; ends the list
  deriving Inhabited

/-- `unsafe` read as a `Meta` -/
def unsafeParam : Param := { ident := some "unsafe", pathStr := "unsafe", form := .path }

/-- the element as `Meta::parse` reads it -/
def Seg.param? : Seg → Option Param
  | .item p _ => some p
  | .kwUnsafe => some unsafeParam
  | .unsafeItem p => some p
  | _ => none

/-- `Punctuated::<Meta, Token![,]>::parse_terminated`: `( Meta ( , Meta )* ,? )?` -/
def parseTerminated : List Seg → Option (List Param)
  | [] => some []
  | [e] => e.param?.map ([·])
  | e :: .comma :: rest => match e.param? with
    | some p => (parseTerminated rest).map (p :: ·)
    | none => none
  | _ => none

/-- `UnsafePunctuatedMeta::parse`: `unsafe`? then nothing, or (after the comma that `unsafe` requires) the metas. -/
def parseUnsafe : List Seg → Option (Bool × List Param)
  | [] => some (false, [])
  | [.kwUnsafe] => some (true, [])
  | .kwUnsafe :: .comma :: rest => (parseTerminated rest).map (true, ·)
  | .kwUnsafe :: _ => none
  | .unsafeItem _ :: _ => none                -- the keyword is taken, a comma must follow
  | segs => (parseTerminated segs).map (false, ·)

/-- `TypeWithPunctuatedMeta::parse` on the result of `input.parse::<Type>()` at the head (`none` = no type there) and
    the elements behind the type. -/
def parseTyped (head : Option (Ty × List Seg)) : Option (Ty × List Param) :=
  match head with
  | none => none
  | some (t, []) => some (t, [])
  | some (t, .comma :: rest) => (parseTerminated rest).map (t, ·)
  | some _ => none

end Educe.Attr
