import EduceModel.Basic
/-
  Input of the macro-time function: an abstract `syn::DeriveInput`.

  syn is not under verification. Every attribute argument is represented by an *oracle record*:
  the result each syn parser educe may invoke returns on it (`ValTok`), for the three nesting
  levels educe ever inspects: `educe(Trait(param(value)))`. Theorems quantify over all records,
  a superset of what real token streams produce.
-/
namespace Educe.Attr

inductive TraitId
  | debug | clone | copy | partialEq | eq | partialOrd | ord | hash | default | deref | derefMut | into
  deriving DecidableEq, Repr, Inhabited

def TraitId.all : List TraitId :=
  [.debug, .clone, .copy, .partialEq, .eq, .partialOrd, .ord, .hash, .default, .deref, .derefMut, .into]

def TraitId.name : TraitId → String
  | .debug => "Debug" | .clone => "Clone" | .copy => "Copy" | .partialEq => "PartialEq" | .eq => "Eq"
  | .partialOrd => "PartialOrd" | .ord => "Ord" | .hash => "Hash" | .default => "Default"
  | .deref => "Deref" | .derefMut => "DerefMut" | .into => "Into"

/-- What the parsers applied to the *content of a string literal* return. -/
structure StrInfo where
  asIdent : Option String := none          -- `lit.parse::<Ident>()`
  asPath : Option String := none           -- `lit.parse::<Path>()` (printed)
  asPreds : Option (List String) := none   -- `parse_with(WherePredicates::parse_terminated)`
  asIsize : Option Int := none             -- `lit.value().parse::<isize>()`
  isEmpty : Bool := false
  deriving Repr, Inhabited, DecidableEq

inductive LitV
  | bool (b : Bool)
  | str (s : StrInfo)
  | int (asIsize : Option Int) (suffix : String)     -- `base10_parse::<isize>()`
  | float (suffix : String)
  | char | byte | byteStr | other
  deriving Repr, Inhabited, DecidableEq

/-- The value position of `param = v` (an expression) or `param(v)` (a token list). -/
inductive ValTok
  | lit (l : LitV)
  | ident (i : String)
  | path                                   -- a path that is not a single identifier
  | neg (asIsize : Option Int)             -- name-value only: `-N` with `N` an integer literal
  | star                                   -- list only: `*`
  | preds (ps : List String)               -- list only: where-predicates (empty content = `[]`)
  | expr                                   -- any other expression
  | empty                                  -- list only: no tokens
  | litIdent (l : LitV) (i : String)       -- list only: a literal followed by one identifier
  | bad                                    -- list only: nothing educe's parsers accept
  deriving Repr, Inhabited, DecidableEq

structure Val where
  tok : ValTok := .bad
  text : String := ""                      -- printed tokens (payload of paths / expressions)
  exprLit : Option LitV := none            -- list only: the content, parsed as an expression, is this literal
  deriving Repr, Inhabited, DecidableEq

inductive Form
  | path
  | nv (v : Val)
  | list (v : Val)
  deriving Repr, Inhabited, DecidableEq

structure Param where
  ident : Option String := none            -- `meta.path().get_ident()`
  pathStr : String := ""
  form : Form := .path
  deriving Repr, Inhabited, DecidableEq

inductive MetaForm
  | path
  | nv (v : Val)
  | list (plain : Option (List Param))                 -- `parse_terminated(Meta::parse, ',')`
         (uns : Option (Bool × List Param))            -- `UnsafePunctuatedMeta`
         (typed : Option (String × List Param))        -- `TypeWithPunctuatedMeta` (normalised type string)
  deriving Repr, Inhabited, DecidableEq

structure TraitMeta where
  ident : Option String := none
  pathStr : String := ""
  raw : String := ""                       -- printed form of the whole meta (input data, not computed)
  form : MetaForm := .path
  deriving Repr, Inhabited, DecidableEq

structure Attribute where
  isEduce : Bool := false
  isRepr : Bool := false
  isList : Bool := false
  metas : Option (List TraitMeta) := none  -- `None` = the list does not parse as metas
  reprOk : Bool := true                    -- `parse_nested_meta` with the tolerant callback succeeds
  reprIdents : List String := []
  deriving Repr, Inhabited, DecidableEq

/-- A field or target type as far as educe looks into it: the kind of the outermost node, its printed tokens, and the
    type below it (the referent of a reference, the element of an array, the content of an invisible group - the form in
    which a `$t:ty` fragment of a `macro_rules!` macro reaches a derive). -/
inductive TyKind | path | ref | array | group | other
  deriving Repr, Inhabited, DecidableEq

inductive Ty
  | mk (kind : TyKind) (text : String) (child : Option Ty)
  deriving Repr, Inhabited

def Ty.kind : Ty → TyKind | .mk k _ _ => k
def Ty.text : Ty → String | .mk _ t _ => t
def Ty.child : Ty → Option Ty | .mk _ _ c => c

def Ty.size : Ty → Nat
  | .mk _ _ none => 1
  | .mk _ _ (some c) => c.size + 1

/-- `common/type.rs::ungroup`: through every invisible group. -/
def Ty.ungroup : Ty → Ty
  | .mk .group _ (some c) => c.ungroup
  | t => t

theorem Ty.ungroup_size_le : ∀ t : Ty, t.ungroup.size ≤ t.size
  | .mk .group _ (some c) => by
    simp only [Ty.ungroup, Ty.size]
    exact Nat.le_succ_of_le (Ty.ungroup_size_le c)
  | .mk .path _ _ | .mk .ref _ _ | .mk .array _ _ | .mk .other _ _ | .mk .group _ none => by
    simp [Ty.ungroup]

/-- Is the type, looked at through invisible groups, a reference? (`dereference_changed(ty).1`) -/
def Ty.isRef (t : Ty) : Bool :=
  match t.ungroup with
  | .mk .ref _ (some _) => true
  | _ => false

/-- `common/type.rs::dereference`: every reference layer (each looked at through invisible groups) is stripped; a type
    that is not a reference is returned as it is. -/
def Ty.dereference (t : Ty) : Ty :=
  match h : t.ungroup with
  | .mk .ref _ (some c) => c.dereference
  | _ => t
termination_by t.size
decreasing_by
  have := Ty.ungroup_size_le t
  rw [h] at this
  simp only [Ty.size] at this
  omega

/-- `into/common.rs::to_hash_type`, printed: a reference type is normalised to `&'static` + its fully dereferenced type. -/
def Ty.hashTy (t : Ty) : String :=
  if t.isRef then "& 'static " ++ t.dereference.text else t.text

/-- What `auto_adjust_expr` sees of a field type. -/
inductive TyShape
  | path (s : String) | refTo (inner : TyShape) | arrayOf (elem : TyShape) | other
  deriving Repr, Inhabited, DecidableEq

/-- The view `auto_adjust_expr` takes: invisible groups are looked through at the three places it inspects. -/
def Ty.shape (t : Ty) : TyShape :=
  match t.ungroup with
  | .mk .path s _ => .path s
  | .mk .ref _ (some c) =>
    .refTo (match c.ungroup with
      | .mk .path s _ => .path s
      | .mk .array _ (some e) => .arrayOf (match e.ungroup with | .mk .path s _ => .path s | _ => .other)
      | _ => .other)
  | _ => .other

structure Field where
  name : Option String := none
  ty : String := ""              -- printed type
  hashTy : String := ""          -- `to_hash_type`
  isRef : Bool := false
  derefTy : String := ""         -- printed `dereference(ty)`
  shape : TyShape := .other
  attrs : List Attribute := []
  deriving Repr, Inhabited, DecidableEq

/-- The four views of a field's type the handlers use, computed from its tree by the model of the type helpers. -/
def Field.withTy (f : Field) (t : Ty) : Field :=
  { f with ty := t.text, hashTy := t.hashTy, isRef := t.isRef, derefTy := t.dereference.text, shape := t.shape }

structure Variant where
  name : String := ""
  shape : Shape := .unit
  fields : List Field := []
  attrs : List Attribute := []
  disc : Option String := none
  deriving Repr, Inhabited, DecidableEq

inductive Kind | struct | enum | union
  deriving Repr, Inhabited, DecidableEq

inductive GKind | lifetime | type | const
  deriving Repr, Inhabited, DecidableEq

structure Generics where
  params : List (GKind × String) := []
  implParams : List String := []   -- as `split_for_impl().0` prints them (defaults dropped)
  tyGenerics : String := ""
  whereC : List String := []
  deriving Repr, Inhabited, DecidableEq

structure DeriveInput where
  name : String := ""
  kind : Kind := .struct
  generics : Generics := {}
  attrs : List Attribute := []
  variants : List Variant := []     -- structs and unions: exactly one
  deriving Repr, Inhabited, DecidableEq

end Educe.Attr
