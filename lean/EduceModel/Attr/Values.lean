import EduceModel.Attr.Syntax
/-
  Model of `src/common/{ident_bool,int,path,expr,where_predicates_bool,bound}.rs`: one function per
  `meta_2_*` helper, over the oracle records. Outcome type with explicit panic sites.
-/
namespace Educe.Attr

/-- Diagnostic classes: one per error builder of `src/panic.rs` and `*/panic.rs`, plus `badValue`
    for errors raised by syn parsers and by the `expected ...` messages of the value helpers. -/
inductive Diag
  | badValue | unsupportedTrait | reuseTrait | educeFormat | traitNotUsed | incorrectFormat | parameterReset
  | notSetUp | unionWithoutUnsafe | notSupportUnion | unitVariant | reuseRank
  | unitStructNeedName | unitVariantNeedName | unitEnumNeedName
  | noDefaultVariant | multipleDefaultVariants | noDefaultField | multipleDefaultFields
  | noDerefField | multipleDerefFields
  | resetType | noIntoField | noIntoImpl | multipleIntoFields | reprError
  deriving Repr, Inhabited, DecidableEq

/-- A place in the source where the code would panic (C17). -/
inductive PanicSite
  | getIdentUnwrap          -- `path.get_ident().unwrap()` on a path that is not an identifier
  | unionSuggestion         -- the length-indexed string edit / `unreachable!()` of `union_without_unsafe`
  | metaIndex0              -- `meta[0]` on an empty vector
  | fieldIdentUnwrap        -- `field.ident.as_ref().unwrap()` on a positional field
  deriving Repr, Inhabited, DecidableEq

inductive Res (α : Type)
  | ok (a : α)
  | diag (d : Diag)
  | panic (s : PanicSite)
  deriving Repr, Inhabited

instance : Monad Res where
  pure := Res.ok
  bind r f := match r with
    | .ok a => f a
    | .diag d => .diag d
    | .panic s => .panic s

def Res.isPanic {α : Type} : Res α → Bool
  | .panic _ => true
  | _ => false

/-- `Bound` of common/bound.rs. -/
inductive Bound
  | disabled | auto | custom (preds : List String) | all
  deriving Repr, Inhabited, DecidableEq

/-- A parsed `name`/`rename` value. -/
inductive IdentOrBool | ident (i : String) | bool (b : Bool)
  deriving Repr, Inhabited, DecidableEq

/-! ### name-value helpers (`meta_name_value_2_*`) -/

def nv2Bool (v : Val) : Res Bool :=
  match v.tok with
  | .lit (.bool b) => .ok b
  | _ => .diag .badValue

def nv2Ident (v : Val) : Res String :=
  match v.tok with
  | .lit (.str s) => match s.asIdent with | some i => .ok i | none => .diag .badValue
  | .ident i => .ok i
  | _ => .diag .badValue

def strIdentOrBool (s : StrInfo) : Res IdentOrBool :=
  match s.asIdent with
  | some i => .ok (.ident i)
  | none => if s.isEmpty then .ok (.bool false) else .diag .badValue

def nv2IdentOrBool (v : Val) : Res IdentOrBool :=
  match v.tok with
  | .lit (.str s) => strIdentOrBool s
  | .lit (.bool b) => .ok (.bool b)
  | .ident i => .ok (.ident i)
  | _ => .diag .badValue

def nv2Isize (v : Val) : Res Int :=
  match v.tok with
  | .lit (.str s) => match s.asIsize with | some n => .ok n | none => .diag .badValue
  | .lit (.int (some n) _) => .ok n
  | .neg (some n) => .ok n
  | _ => .diag .badValue

def nv2Path (v : Val) : Res String :=
  match v.tok with
  | .lit (.str s) => match s.asPath with | some p => .ok p | none => .diag .badValue
  | .ident _ => .ok v.text
  | .path => .ok v.text
  | _ => .diag .badValue

def litBound (l : LitV) : Res Bound :=
  match l with
  | .bool b => .ok (if b then .auto else .disabled)
  | .str s =>
    match s.asPreds with
    | some ps => .ok (.custom ps)
    | none => if s.isEmpty then .ok .disabled else .diag .badValue
  | _ => .diag .badValue

def nv2Bound (v : Val) : Res Bound :=
  match v.tok with
  | .lit l => litBound l
  | _ => .diag .badValue

/-! ### `meta_2_*` (all three forms) -/

def meta2Bool (f : Form) : Res Bool :=
  match f with
  | .path => .diag .badValue
  | .nv v => nv2Bool v
  | .list v => match v.tok with | .lit (.bool b) => .ok b | _ => .diag .badValue     -- `parse_args::<LitBool>()`

def meta2BoolAllowPath (f : Form) : Res Bool :=
  match f with
  | .path => .ok true
  | _ => meta2Bool f

def meta2Ident (f : Form) : Res String :=
  match f with
  | .path => .diag .badValue
  | .nv v => nv2Ident v
  | .list v =>
    match v.tok with
    | .lit (.str s) => match s.asIdent with | some i => .ok i | none => .diag .badValue
    | .ident i => .ok i
    | _ => .diag .badValue

/-- `IdentOrBool::parse`: a literal first (bool / string), otherwise an identifier — after a
    literal of another kind the identifier is parsed from what follows it. -/
def meta2IdentOrBool (f : Form) : Res IdentOrBool :=
  match f with
  | .path => .diag .badValue
  | .nv v => nv2IdentOrBool v
  | .list v =>
    match v.tok with
    | .lit (.bool b) => .ok (.bool b)
    | .lit (.str s) => strIdentOrBool s
    | .ident i => .ok (.ident i)
    | .litIdent (.bool _) _ => .diag .badValue
    | .litIdent (.str _) _ => .diag .badValue
    | .litIdent _ i => .ok (.ident i)
    | _ => .diag .badValue

def meta2Isize (f : Form) : Res Int :=
  match f with
  | .path => .diag .badValue
  | .nv v => nv2Isize v
  | .list v =>
    match v.tok with
    | .lit (.str s) => match s.asIsize with | some n => .ok n | none => .diag .badValue
    | .lit (.int (some n) _) => .ok n
    | _ => .diag .badValue

def meta2Path (f : Form) : Res String :=
  match f with
  | .path => .diag .badValue
  | .nv v => nv2Path v
  | .list v =>
    match v.tok with
    | .lit (.str s) => match s.asPath with | some p => .ok p | none => .diag .badValue
    | .ident _ => .ok v.text
    | .path => .ok v.text
    | _ => .diag .badValue

/-- An expression: its printed text and, when it is a bare literal, the literal (for `auto_adjust_expr`). -/
def meta2Expr (f : Form) : Res (String × Option LitV) :=
  match f with
  | .path => .diag .badValue
  | .nv v => .ok (v.text, match v.tok with | .lit l => some l | _ => none)
  | .list v =>
    match v.tok with
    -- (the list content is parsed as an expression: `-5`, which `Lit::parse` accepts as a literal, is a negation there)
    | .lit _ | .ident _ | .path | .expr => .ok (v.text, v.exprLit)
    | _ => .diag .badValue

def meta2Bound (f : Form) : Res Bound :=
  match f with
  | .path => .diag .badValue
  | .nv v => nv2Bound v
  | .list v =>
    match v.tok with
    | .lit l => litBound l
    | .star => .ok .all
    | .preds ps => .ok (.custom ps)
    | .empty => .ok (.custom [])
    | _ => .diag .badValue

end Educe.Attr
