import EduceModel.Attr.Builders
/-
  Model of `src/lib.rs::derive_input_handler` and of every `trait_meta_handler` at the level of
  (a) accept / diagnose / panic, (b) the per-trait configuration the body depends on, and
  (c) the impl header: which predicates are appended to the type's where-clause.
-/
namespace Educe.Attr

/-- What one generated impl depends on. Equality of `Item`s is the model's notion of "same code". -/
structure Item where
  trait : String                       -- "Debug", "Clone", …, "Into<T>", "new"
  preds : List String                  -- predicates appended to the user's where-clause
  head : List String := []             -- type-level configuration
  variants : List (String × Shape × List String × List (List String)) := []   -- per variant / per field configuration
  deriving Repr, Inhabited, DecidableEq

structure Ctx where
  F : Features
  traits : TraitId → Bool      -- membership in the set of educed traits (the code only ever asks `contains`)
  d : DeriveInput

def noSpace (s : String) : String := s.replace " " ""

def typeParams (g : Generics) : List String :=
  g.params.filterMap fun p => if p.1 == .type then some p.2 else none

/-- `Bound::into_where_predicates_by_generic_parameters_check_types` (printed, spaces removed). -/
def boundPreds (b : Bound) (g : Generics) (traitPath : String) (types : List String) (supers : List String) : List String :=
  match b with
  | .disabled => []
  | .auto => types.map (fun t => noSpace t ++ ":" ++ traitPath) ++ supers.map (fun s => "Self:" ++ s)
  | .custom ps => ps.map noSpace
  | .all => (typeParams g).map fun p => p ++ ":" ++ traitPath

def showBool (b : Bool) : String := if b then "true" else "false"
def showOpt (o : Option String) : String := match o with | some s => "some:" ++ noSpace s | none => "none"
def showName : NameCfg → String
  | .disable => "disable" | .default => "default" | .custom n => "custom:" ++ String.ofList n

def fname (f : Field) : String := f.name.getD ""

/-- Fold over a list with early exit on diagnostics. -/
def mapRes {α β : Type} (f : α → Res β) : List α → Res (List β)
  | [] => .ok []
  | x :: xs =>
    match f x with
    | .ok y => match mapRes f xs with
      | .ok ys => .ok (y :: ys)
      | .diag d => .diag d
      | .panic s => .panic s
    | .diag d => .diag d
    | .panic s => .panic s

def notUnion (m : TraitMeta) : Res (List Item) := identOrPanic m .notSupportUnion

/-- Variant-level attributes of a trait that accepts none there: `TypeAttributeBuilder { all false }`. -/
def variantNoAttr (c : Ctx) (mine : TraitId → Bool) (v : Variant) : Res Unit := do
  let _ ← fromAttrs c.F c.traits mine (boundTypeFromMeta { flag := false, unsafe_ := false, bound := false }) {} v.attrs
  pure ()

/-! ### PartialEq / Hash (same structure) -/

def cmpFieldCfg (f : Field) (a : CmpFieldAttr) : List String :=
  [fname f, showBool a.ignore, showOpt a.method, match a.rank with | some r => toString r | none => "none"]

/-- The primary impl and, when its partner trait is educed, the companion marker impl — under the
    same predicates (they share `impl_generics`, `ty_generics` and `where_clause` in the code). -/
def withCompanion (primary : Item) (companion : Option (TraitId × String)) (traits : TraitId → Bool) : List Item :=
  match companion with
  | some (t, name) => if traits t then [primary, { primary with trait := name }] else [primary]
  | none => [primary]

def eqLikeHandler (c : Ctx) (m : TraitMeta) (me : TraitId) (mine : TraitId → Bool) (traitPath : String)
    (companion : Option (TraitId × String)) : Res (List Item) := do
  let d := c.d
  let fieldFlags : CmpFieldFlags := { ignore := true, method := true, rank := false }
  match d.kind with
  | .union =>
    let ta ← boundTypeFromMeta { flag := true, unsafe_ := true, bound := false } m
    if !ta.hasUnsafe then .diag .unionWithoutUnsafe
    else do
      let _ ← mapRes (fun f => fromAttrs c.F c.traits mine (cmpFieldFromMeta { ignore := false, method := false, rank := false }) {} f.attrs)
        ((d.variants.headD {}).fields)
      pure (withCompanion { trait := me.name, preds := [], head := ["union"] } companion c.traits)
  | _ =>
    let ta ← boundTypeFromMeta { flag := true, unsafe_ := false, bound := true } m
    let vs ← mapRes (fun v => do
        if d.kind == .enum then variantNoAttr c mine v
        let fas ← mapRes (fun f => do
            let a ← fromAttrs c.F c.traits mine (cmpFieldFromMeta fieldFlags) {} f.attrs
            pure (f, a)) v.fields
        pure (v, fas)) d.variants
    let types := vs.flatMap fun (_, fas) => fas.filterMap fun (f, a) => if a.ignore || a.method.isSome then none else some f.ty
    let preds := boundPreds ta.bound d.generics traitPath types []
    let cfg := vs.map fun (v, fas) => (v.name, v.shape, ([] : List String), fas.map fun (f, a) => cmpFieldCfg f a)
    pure (withCompanion { trait := me.name, preds := preds, variants := cfg } companion c.traits)

/-! ### Eq / Copy standing alone (marker impls) -/

def markerHandler (c : Ctx) (m : TraitMeta) (me partner : TraitId) (boundTrait superTrait : String)
    (scanWithPartner : Bool) : Res (List Item) := do
  let d := c.d
  let hasPartner := c.traits partner
  let ta ← boundTypeFromMeta { flag := true, unsafe_ := false, bound := !hasPartner } m
  -- `Eq` next to `PartialEq` leaves the variant and field attributes to the `PartialEq` scan (which reads `Eq`
  -- attributes as its own); `Copy` next to `Clone` still refuses a `Copy` attribute on a variant or a field.
  if hasPartner && !scanWithPartner then pure []
  else do
    let _ ← mapRes (fun v => do
        if d.kind == .enum then variantNoAttr c (· == me) v
        let _ ← mapRes (fun f => fromAttrs c.F c.traits (· == me) noFieldAttrFromMeta () f.attrs) v.fields
        pure ()) d.variants
    if hasPartner then pure []
    else
      let types := d.variants.flatMap fun v => v.fields.map (·.ty)
      pure [{ trait := me.name, preds := boundPreds ta.bound d.generics boundTrait types [superTrait] }]

/-! ### Clone -/

def cloneHandler (c : Ctx) (m : TraitMeta) : Res (List Item) := do
  let d := c.d
  let ta ← boundTypeFromMeta { flag := true, unsafe_ := false, bound := true } m
  let hasCopy := c.traits .copy
  let enableMethod := match d.kind with | .struct => !hasCopy | .enum => true | .union => false
  let vs ← mapRes (fun v => do
      if d.kind == .enum then variantNoAttr c (· == .clone) v
      let fas ← mapRes (fun f => do
          let a ← fromAttrs c.F c.traits (· == .clone) (cloneFieldFromMeta enableMethod) {} f.attrs
          pure (f, a)) v.fields
      pure (v, fas)) d.variants
  let hasMethod := vs.any fun (_, fas) => fas.any fun (_, a) => a.method.isSome
  let useCopy := match d.kind with | .struct => hasCopy | .enum => hasCopy && !hasMethod | .union => true
  let types := vs.flatMap fun (_, fas) => fas.filterMap fun (f, a) => if a.method.isSome then none else some f.ty
  let preds := boundPreds ta.bound d.generics (if useCopy then "::core::marker::Copy" else "::core::clone::Clone") types []
  let cfg := vs.map fun (v, fas) => (v.name, v.shape, ([] : List String), fas.map fun (f, a) => [fname f, showOpt a.method])
  let head := [showBool useCopy]
  -- The `Copy` impl shares the `Clone` header; when a custom method keeps `Clone` from being a bitwise copy
  -- (enums only) it additionally asks every field type (automatic mode) / every type parameter (`bound(*)`) to be `Copy`.
  let copyExtra : List String :=
    if hasCopy && !useCopy then
      match ta.bound with
      | .auto => boundPreds .auto d.generics "::core::marker::Copy" (d.variants.flatMap fun v => v.fields.map (·.ty)) []
      | .all => boundPreds .all d.generics "::core::marker::Copy" [] []
      | _ => []
    else []
  let primary : Item := { trait := "Clone", preds := preds, head := head, variants := cfg }
  pure (if hasCopy then [primary, { primary with trait := "Copy", preds := preds ++ copyExtra }] else [primary])

/-! ### Ord / PartialOrd -/

def insertRank (k : Int) (x : Field × CmpFieldAttr) : List (Int × (Field × CmpFieldAttr)) → Option (List (Int × (Field × CmpFieldAttr)))
  | [] => some [(k, x)]
  | (k', y) :: rest =>
    if k < k' then some ((k, x) :: (k', y) :: rest)
    else if k = k' then none
    else (insertRank k x rest).map ((k', y) :: ·)

def rankLoop : Nat → List (Field × CmpFieldAttr) → List (Int × (Field × CmpFieldAttr)) → Option (List (Int × (Field × CmpFieldAttr)))
  | _, [], acc => some acc
  | i, (f, a) :: rest, acc =>
    if a.ignore then rankLoop (i + 1) rest acc
    else match insertRank (a.rank.getD (-9223372036854775808 + i)) (f, a) acc with
      | none => none
      | some acc' => rankLoop (i + 1) rest acc'

/-- `DiscriminantType::from_ast`: the first primitive integer named by a `#[repr]`, else `isize`. -/
def discriminantType (d : DeriveInput) : Res String :=
  let ints := ["i8", "i16", "i32", "i64", "i128", "isize", "u8", "u16", "u32", "u64", "u128", "usize"]
  let rec go : List Attribute → Option String → Res String
    | [], acc => .ok (acc.getD "isize")
    | a :: as, acc =>
      if a.isRepr && a.isList then
        if !a.reprOk then .diag .reprError
        else go as (match acc with | some t => some t | none => a.reprIdents.find? ints.contains)
      else go as acc
  go d.attrs none

def ordLikeHandler (c : Ctx) (m : TraitMeta) (me : TraitId) (mine : TraitId → Bool) (traitPath : String)
    (supers : List String) (companion : Bool) : Res (List Item) := do
  let d := c.d
  match d.kind with
  | .union => notUnion m
  | _ =>
    let ta ← boundTypeFromMeta { flag := true, unsafe_ := false, bound := true } m
    let dty ← if d.kind == .enum then discriminantType d else pure ""
    let vs ← mapRes (fun v => do
        if d.kind == .enum then variantNoAttr c mine v
        let fas ← mapRes (fun f => do
            let a ← fromAttrs c.F c.traits mine (cmpFieldFromMeta { ignore := true, method := true, rank := true }) {} f.attrs
            pure (f, a)) v.fields
        match rankLoop 0 fas [] with
        | none => Res.diag .reuseRank
        | some ranked => pure (v, fas, ranked)) d.variants
    let types := vs.flatMap fun (_, _, ranked) => ranked.filterMap fun (_, (f, a)) => if a.method.isSome then none else some f.ty
    let preds := boundPreds ta.bound d.generics traitPath types supers
    let cfg := vs.map fun (v, fas, _) => (v.name, v.shape, [v.disc.getD ""], fas.map fun (f, a) => cmpFieldCfg f a)
    pure ([{ trait := me.name, preds := preds, head := [dty], variants := cfg }] ++
          (if companion then [{ trait := "PartialOrd", preds := preds, head := ["Some(Ord::cmp)"] }] else []))

/-! ### Debug -/

def debugHandler (c : Ctx) (m : TraitMeta) : Res (List Item) := do
  let d := c.d
  let mine : TraitId → Bool := (· == .debug)
  match d.kind with
  | .union =>
    let ta ← debugTypeFromMeta { flag := true, unsafe_ := true, name := true, namedField := false, bound := false,
                                 nameDefault := .default, namedFieldDefault := false } m
    if !ta.hasUnsafe then .diag .unionWithoutUnsafe
    else do
      let _ ← mapRes (fun f => fromAttrs c.F c.traits mine (debugFieldFromMeta { name := false, ignore := false, method := false }) {} f.attrs)
        ((d.variants.headD {}).fields)
      pure [{ trait := "Debug", preds := [], head := ["union", showName ta.name] }]
  | .struct =>
    let v := d.variants.headD {}
    let isTuple := v.shape == .tuple
    let ta ← debugTypeFromMeta { flag := true, unsafe_ := false, name := true, namedField := true, bound := true,
                                 nameDefault := .default, namedFieldDefault := !isTuple } m
    let fas ← mapRes (fun f => do
        let a ← fromAttrs c.F c.traits mine (debugFieldFromMeta { name := ta.namedField, ignore := true, method := true }) {} f.attrs
        pure (f, a)) v.fields
    let shown := fas.filter fun (_, a) => !a.ignore
    if shown.isEmpty && ta.name == .disable then .diag .unitStructNeedName
    else
      let types := shown.filterMap fun (f, a) => if a.method.isSome then none else some f.ty
      pure [{ trait := "Debug", preds := boundPreds ta.bound d.generics "::core::fmt::Debug" types [],
              head := [showName ta.name, showBool ta.namedField],
              variants := [(v.name, v.shape, [], fas.map fun (f, a) => [fname f, showBool a.ignore, showOpt a.method, showOpt a.name])] }]
  | .enum =>
    let ta ← debugTypeFromMeta { flag := true, unsafe_ := false, name := true, namedField := false, bound := true,
                                 nameDefault := .disable, namedFieldDefault := false } m
    let vs ← mapRes (fun v => do
        let va ← fromAttrs c.F c.traits mine
          (debugTypeFromMeta { flag := false, unsafe_ := false, name := true, namedField := true, bound := false,
                               nameDefault := .default, namedFieldDefault := v.shape == .named })
          { name := .default, namedField := v.shape == .named } v.attrs
        let hasName := ta.name != .disable || va.name != .disable
        match v.shape with
        | .unit =>
          if !hasName then Res.diag .unitVariantNeedName else pure (v, va, ([] : List (Field × DebugFieldAttr)))
        | _ =>
          let fas ← mapRes (fun f => do
              let a ← fromAttrs c.F c.traits mine (debugFieldFromMeta { name := va.namedField, ignore := true, method := true }) {} f.attrs
              pure (f, a)) v.fields
          if (fas.all fun (_, a) => a.ignore) && !hasName then Res.diag .unitStructNeedName else pure (v, va, fas)) d.variants
    if vs.isEmpty && ta.name == .disable then .diag .unitEnumNeedName
    else
      let types := vs.flatMap fun (_, _, fas) => fas.filterMap fun (f, a) => if a.ignore || a.method.isSome then none else some f.ty
      pure [{ trait := "Debug", preds := boundPreds ta.bound d.generics "::core::fmt::Debug" types [],
              head := [showName ta.name],
              variants := vs.map fun (v, va, fas) => (v.name, v.shape, [showName va.name, showBool va.namedField],
                fas.map fun (f, a) => [fname f, showBool a.ignore, showOpt a.method, showOpt a.name]) }]

/-! ### Default -/

def showExpr (e : Option (String × Bool)) : String :=
  match e with | some (t, w) => (if w then "into:" else "expr:") ++ noSpace t | none => "none"

/-- Several variants: exactly one carries `#[educe(Default)]`; the others may not carry Default attributes on fields. -/
def defaultVariantLoop (fieldAttr : Bool → Bool → Field → Res (Field × DefaultFieldAttr)) (variantAttr : Bool → Variant → Res DefaultTypeAttr) :
    Nat → List Variant → Option (Nat × Variant) → Res (Option (Nat × Variant))
  | _, [], acc => .ok acc
  | k, v :: rest, acc => do
    let va ← variantAttr true v
    if va.flag then
      match acc with
      | some _ => Res.diag .multipleDefaultVariants
      | none => defaultVariantLoop fieldAttr variantAttr (k + 1) rest (some (k, v))
    else do
      let _ ← mapRes (fieldAttr false false) v.fields
      defaultVariantLoop fieldAttr variantAttr (k + 1) rest acc

def defaultFieldLoop (fieldAttr : Bool → Bool → Field → Res (Field × DefaultFieldAttr)) :
    Nat → List Field → Option (Nat × Field × DefaultFieldAttr) → Res (Option (Nat × Field × DefaultFieldAttr))
  | _, [], acc => .ok acc
  | i, f :: rest, acc => do
    let (_, a) ← fieldAttr true true f
    if a.flag || a.expression.isSome then
      match acc with
      | some _ => Res.diag .multipleDefaultFields
      | none => defaultFieldLoop fieldAttr (i + 1) rest (some (i, f, a))
    else defaultFieldLoop fieldAttr (i + 1) rest acc

/-- The default variant of an enum: a sole variant with or without marker, else the marked one;
    its fields are then scanned for `Default` attributes. -/
def defaultPickVariant (fieldAttr : Bool → Bool → Field → Res (Field × DefaultFieldAttr)) (variantAttr : Bool → Variant → Res DefaultTypeAttr)
    (vs : List Variant) : Res (Nat × Variant × List (Field × DefaultFieldAttr)) :=
  match vs with
  | [v] => do
    let _ ← variantAttr true v
    let fas ← mapRes (fieldAttr false true) v.fields
    pure (0, v, fas)
  | vs =>
    do match ← defaultVariantLoop fieldAttr variantAttr 0 vs none with
       | none => Res.diag .noDefaultVariant
       | some (k, v) =>
         let fas ← mapRes (fieldAttr false true) v.fields
         pure (k, v, fas)

/-- The initialised field of a union: a sole field with or without marker, else the marked one. -/
def defaultPickField (fieldAttr : Bool → Bool → Field → Res (Field × DefaultFieldAttr)) (fs : List Field) :
    Res (Nat × Field × DefaultFieldAttr) :=
  match fs with
  | [f] => do
    let (_, a) ← fieldAttr true true f
    pure (0, f, a)
  | _ =>
    do match ← defaultFieldLoop fieldAttr 0 fs none with
       | none => Res.diag .noDefaultField
       | some r => pure r

def defaultHandler (c : Ctx) (m : TraitMeta) : Res (List Item) := do
  let d := c.d
  let mine : TraitId → Bool := (· == .default)
  let ta ← defaultTypeFromMeta { flag := true, new := true, expression := true, bound := true } m
  let fieldAttr (flag expr : Bool) (f : Field) : Res (Field × DefaultFieldAttr) := do
    let a ← fromAttrs c.F c.traits mine (defaultFieldFromMeta flag expr f.shape) {} f.attrs
    pure (f, a)
  let variantAttr (flag : Bool) (v : Variant) : Res DefaultTypeAttr :=
    fromAttrs c.F c.traits mine (defaultTypeFromMeta { flag := flag, new := false, expression := false, bound := false }) {} v.attrs
  let finish (head : List String) (chosen : List (Field × DefaultFieldAttr)) (dfltTypes : List String) : Res (List Item) :=
    let preds := boundPreds ta.bound d.generics "::core::default::Default" dfltTypes []
    let it : Item := { trait := "Default", preds := preds, head := head,
                       variants := [("", .unit, [], chosen.map fun (f, a) => [fname f, showExpr a.expression])] }
    pure ([it] ++ (if ta.new then [{ trait := "new", preds := preds }] else []))
  match ta.expression with
  | some e =>
    -- a type-level expression: no Default attribute may appear below
    let _ ← mapRes (fun v => do
        if d.kind == .enum then let _ ← variantAttr false v
        let _ ← mapRes (fieldAttr false false) v.fields
        pure ()) d.variants
    finish ["typeexpr", showExpr (some e)] [] []
  | none =>
    match d.kind with
    | .struct =>
      let v := d.variants.headD {}
      let fas ← mapRes (fieldAttr false true) v.fields
      finish ["struct"] fas (fas.filterMap fun (f, a) => if a.expression.isSome then none else some f.ty)
    | .enum =>
      let (k, _, fas) ← defaultPickVariant fieldAttr variantAttr d.variants
      finish ["variant", toString k] fas (fas.filterMap fun (f, a) => if a.expression.isSome then none else some f.ty)
    | .union =>
      let (i, f, a) ← defaultPickField fieldAttr (d.variants.headD {}).fields
      finish ["unionfield", toString i] [(f, a)] (if a.expression.isSome then [] else [f.ty])

/-! ### Deref / DerefMut -/

/-- The designated field among several: the only one carrying the marker. -/
def derefLoop (fieldFlag : Field → Res Bool) : Nat → List Field → Option (Nat × Field) → Res (Option (Nat × Field))
  | _, [], acc => .ok acc
  | i, f :: rest, acc => do
    let fl ← fieldFlag f
    if fl then
      match acc with
      | some _ => Res.diag .multipleDerefFields
      | none => derefLoop fieldFlag (i + 1) rest (some (i, f))
    else derefLoop fieldFlag (i + 1) rest acc

/-- A sole field is designated with or without marker (its attributes are still validated). -/
def derefPick (fieldFlag : Field → Res Bool) (fs : List Field) : Res (Nat × Field) :=
  match fs with
  | [f] => do let _ ← fieldFlag f; pure (0, f)
  | _ =>
    do match ← derefLoop fieldFlag 0 fs none with
       | none => Res.diag .noDerefField
       | some r => pure r

def derefHandler (c : Ctx) (m : TraitMeta) (me : TraitId) : Res (List Item) := do
  let d := c.d
  let mine : TraitId → Bool := (· == me)
  match d.kind with
  | .union => notUnion m
  | _ =>
    let _ ← flagTypeFromMeta true m
    let fieldFlag (f : Field) : Res Bool :=
      fromAttrs c.F c.traits mine (flagTypeFromMeta true) false f.attrs
    match d.kind with
    | .struct =>
      let v := d.variants.headD {}
      let (i, f) ← derefPick fieldFlag v.fields
      pure [{ trait := me.name, preds := [], head := [toString i, noSpace f.derefTy, showBool f.isRef] }]
    | _ =>
      let vs ← mapRes (fun v => do
          let _ ← fromAttrs c.F c.traits mine (flagTypeFromMeta false) false v.attrs
          if v.shape == .unit then Res.diag .unitVariant
          else do
            let (i, f) ← derefPick fieldFlag v.fields
            pure (v, i, f)) d.variants
      match vs with
      | [] => .diag .noDerefField
      | (_, _, f0) :: _ =>
        pure [{ trait := me.name, preds := [], head := [noSpace f0.derefTy],
                variants := vs.map fun (v, i, _) => (v.name, v.shape, [toString i], []) }]

/-! ### Into -/

/-- Lexicographic order on code points — the order of Rust's `str` (UTF-8 preserves it). -/
def lexLt : List Nat → List Nat → Bool
  | [], [] => false
  | [], _ :: _ => true
  | _ :: _, [] => false
  | a :: as, b :: bs => if a < b then true else if a = b then lexLt as bs else false

def keyOf (s : String) : List Nat := s.toList.map Char.toNat

def sortedInsert (x : String × Bound) : List (String × Bound) → List (String × Bound)
  | [] => [x]
  | y :: ys => if lexLt (keyOf x.1) (keyOf y.1) then x :: y :: ys else y :: sortedInsert x ys

/-- First loop of the field selection for target `t`: the field carrying a marker for `t`; a second one is refused. -/
def intoLoop (t : String) : Nat → List (Field × List (String × Option String)) → Option (Nat × Field × Option String) →
    Res (Option (Nat × Field × Option String))
  | _, [], acc => .ok acc
  | i, (f, marks) :: rest, acc =>
    match marks.find? fun p => p.1 == t with
    | some p =>
      match acc with
      | some _ => .diag .multipleIntoFields
      | none => intoLoop t (i + 1) rest (some (i, f, p.2))
    | none => intoLoop t (i + 1) rest acc

/-- Second loop ("search the same type"): the unique field whose normalised type is `t`; several → none. -/
def intoSame (t : String) : Nat → List (Field × List (String × Option String)) → Option (Nat × Field × Option String) →
    Option (Nat × Field × Option String)
  | _, [], acc => acc
  | i, (f, _) :: rest, acc =>
    if f.hashTy == t then
      match acc with
      | some _ => none
      | none => intoSame t (i + 1) rest (some (i, f, none))
    else intoSame t (i + 1) rest acc

/-- The field designated for target `t` among the fields of one struct / variant, with the marker's method. -/
def intoSelect (t : String) (fas : List (Field × List (String × Option String))) : Res (Nat × Field × Option String) :=
  match fas with
  | [(f, marks)] => .ok (0, f, ((marks.find? fun p => p.1 == t).map Prod.snd).getD none)
  | _ =>
    match intoLoop t 0 fas none with
    | .diag e => .diag e
    | .panic s => .panic s
    | .ok (some r) => .ok r
    | .ok none =>
      match intoSame t 0 fas none with
      | some r => .ok r
      | none => .diag .noIntoField

def intoHandler (c : Ctx) (ms : List TraitMeta) : Res (List Item) := do
  let d := c.d
  match ms with
  | [] => .panic .metaIndex0
  | m0 :: _ =>
  match d.kind with
  | .union => notUnion m0
  | _ =>
    let targets ← intoTypeFromMetas true ms []
    let vs ← mapRes (fun v => do
        if d.kind == .enum then
          let vm ← collectAttrs c.F c.traits .into v.attrs []
          if !vm.isEmpty then let _ ← intoTypeFromMetas false vm []
        let fas ← mapRes (fun f => do
            let fm ← collectAttrs c.F c.traits .into f.attrs []
            let marks ← if fm.isEmpty then pure [] else intoFieldFromMetas true fm []
            match marks.find? fun p => !(targets.any fun t => t.1 == p.1) with
            | some _ => Res.diag .noIntoImpl
            | none => pure (f, marks)) v.fields
        pure (v, fas)) d.variants
    -- targets are emitted in the order of the (ordered) target map
    let ordered := targets.foldl (fun acc t => sortedInsert t acc) []
    mapRes (fun (tb : String × Bound) => do
        let t := tb.1
        let chosen ← mapRes (fun (v, fas) => do
            if d.kind == .enum && v.shape == .unit then Res.diag .unitVariant
            else do
              let (i, f, meth) ← intoSelect t fas
              pure (v, i, f, meth)) vs
        if chosen.isEmpty then Res.diag .noIntoField
        else
          let types := chosen.filterMap fun (_, _, f, meth) => if meth.isSome || f.hashTy == t then none else some f.ty
          pure { trait := "Into<" ++ noSpace t ++ ">",
                 preds := boundPreds tb.2 d.generics ("::core::convert::Into<" ++ noSpace t ++ ">") types [],
                 variants := chosen.map fun (v, i, f, meth) =>
                   (v.name, v.shape, [toString i, showOpt meth, showBool (f.hashTy == t)], []) }) ordered

/-! ### lib.rs -/

/-- The trait → metas map built from the type's `#[educe(...)]` attributes. -/
def collectTop (F : Features) : List TraitMeta → List (TraitId × List TraitMeta) → Res (List (TraitId × List TraitMeta))
  | [], acc => .ok acc
  | m :: ms, acc =>
    match traitOf F m with
    | none => .diag .unsupportedTrait
    | some t =>
      if acc.any fun p => p.1 == t then
        if t == .into then collectTop F ms (acc.map fun p => if p.1 == t then (p.1, p.2 ++ [m]) else p)
        else identOrPanic m .reuseTrait
      else collectTop F ms (acc ++ [(t, [m])])

def collectTopAttrs (F : Features) : List Attribute → List (TraitId × List TraitMeta) → Res (List (TraitId × List TraitMeta))
  | [], acc => .ok acc
  | a :: as, acc =>
    if a.isEduce then
      if a.isList then
        match a.metas with
        | none => .diag .badValue
        | some ms =>
          match collectTop F ms acc with
          | .ok acc' => collectTopAttrs F as acc'
          | .diag d => .diag d
          | .panic s => .panic s
      else .diag .educeFormat
    else collectTopAttrs F as acc

def handlerFor (c : Ctx) (t : TraitId) (ms : List TraitMeta) : Res (List Item) :=
  match ms with
  | [] => .panic .metaIndex0
  | m :: _ =>
    match t with
    | .debug => debugHandler c m
    | .clone => cloneHandler c m
    | .copy => markerHandler c m .copy .clone "::core::marker::Copy" "::core::clone::Clone" true
    | .partialEq =>
      eqLikeHandler c m .partialEq (fun t => t == .partialEq || (c.traits .eq && t == .eq))
        "::core::cmp::PartialEq" (some (.eq, "Eq"))
    | .eq => markerHandler c m .eq .partialEq "::core::cmp::PartialEq" "::core::cmp::PartialEq" false
    | .partialOrd =>
      if c.traits .ord then do
        let _ ← boundTypeFromMeta { flag := true, unsafe_ := false, bound := false } m
        pure []
      else ordLikeHandler c m .partialOrd (· == .partialOrd) "::core::cmp::PartialOrd" ["::core::cmp::PartialEq"] false
    | .ord =>
      ordLikeHandler c m .ord (fun t => t == .ord || (c.traits .partialOrd && t == .partialOrd)) "::core::cmp::Ord"
        (["::core::cmp::Eq"] ++ (if c.traits .partialOrd then [] else ["::core::cmp::PartialOrd"]))
        (c.traits .partialOrd)
    | .hash => eqLikeHandler c m .hash (· == .hash) "::core::hash::Hash" none
    | .default => defaultHandler c m
    | .deref => derefHandler c m .deref
    | .derefMut => derefHandler c m .derefMut
    | .into => intoHandler c ms

/-- Handlers run in the fixed source order, whatever the map's iteration order. -/
def dispatch (c : Ctx) (map : List (TraitId × List TraitMeta)) : List TraitId → Res (List Item)
  | [] => .ok []
  | t :: ts =>
    match map.find? fun p => p.1 == t with
    | none => dispatch c map ts
    | some (_, ms) =>
      match handlerFor c t ms with
      | .ok items =>
        match dispatch c map ts with
        | .ok rest => .ok (items ++ rest)
        | .diag d => .diag d
        | .panic s => .panic s
      | .diag d => .diag d
      | .panic s => .panic s

/-- `derive_input_handler`. `F` = enabled trait features. -/
def expand (F : Features) (d : DeriveInput) : Res (List Item) :=
  match collectTopAttrs F d.attrs [] with
  | .diag e => .diag e
  | .panic s => .panic s
  | .ok map =>
    let c : Ctx := { F := F, traits := fun t => map.any fun p => p.1 == t, d := d }
    match dispatch c map (TraitId.all.filter F.contains) with
    | .ok [] => .diag .notSetUp
    | r => r

end Educe.Attr
