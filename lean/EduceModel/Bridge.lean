import EduceModel.Expand
import EduceModel.Gen.PartialEq
import EduceModel.Gen.Ord
import EduceModel.Gen.Hash
import EduceModel.Gen.Clone
import EduceModel.Gen.Debug
import EduceModel.Gen.Default
import EduceModel.Gen.Deref
import EduceModel.Gen.Into
/-
  The bridge between the two hand-written layers.

  * The attribute layer (`Attr/*`, `Expand`) reads the `#[educe(..)]` attributes of a definition, as syn's oracle
    records, and produces per trait an `Item` (predicates + the configuration the body depends on).
  * The behavioural layer (`Gen/*`, `Sem/*`, `Spec/*`) takes a *typed* per-field configuration and produces / evaluates
    the body.

  Here the attribute layer's scans are given names (`cmpScan`, `ordScan`, `cloneScan`, …: literally the terms the handlers
  of `Expand.lean` run, so that "the handler accepted" can be inverted into "the scan returned `vs`") and their results
  are converted into the behavioural layer's configuration types (`eqType`, `ordType`, `hashType`, `cloneType`, …).
  `Props/E2E.lean` composes the correctness theorems of the behavioural layer through this bridge: from the attributes
  (as records) of an accepted definition to the behaviour of the generated body.

  The only parameters are what neither layer models: `num`, a numbering of the user functions named by `method(..)`
  (any function `String → Nat`), and `discVal`, the value rustc computes for a written discriminant expression.
-/
namespace Educe.Bridge
open Educe.Attr

/-- The context `expand` builds: membership in the set of educed traits is read off the collected map. -/
def ctxOf (F : Features) (map : List (TraitId × List TraitMeta)) (d : DeriveInput) : Ctx :=
  { F := F, traits := fun t => map.any fun p => p.1 == t, d := d }

/-! ### the scans of the handlers, by name -/

abbrev CmpScan := List (Variant × List (Field × CmpFieldAttr))

/-- The variant / field scan of `eqLikeHandler` (PartialEq, Hash) on structs and enums. -/
def cmpScan (c : Ctx) (mine : TraitId → Bool) (fl : CmpFieldFlags) : Res CmpScan :=
  mapRes (fun v => do
      if c.d.kind == .enum then variantNoAttr c mine v
      let fas ← mapRes (fun f => do
          let a ← fromAttrs c.F c.traits mine (cmpFieldFromMeta fl) {} f.attrs
          pure (f, a)) v.fields
      pure (v, fas)) c.d.variants

abbrev OrdScan := List (Variant × List (Field × CmpFieldAttr) × List (Int × (Field × CmpFieldAttr)))

/-- The scan of `ordLikeHandler` (Ord, PartialOrd): fields, then the rank map of every variant. -/
def ordScan (c : Ctx) (mine : TraitId → Bool) : Res OrdScan :=
  mapRes (fun v => do
      if c.d.kind == .enum then variantNoAttr c mine v
      let fas ← mapRes (fun f => do
          let a ← fromAttrs c.F c.traits mine (cmpFieldFromMeta { ignore := true, method := true, rank := true }) {} f.attrs
          pure (f, a)) v.fields
      match rankLoop 0 fas [] with
      | none => Res.diag .reuseRank
      | some ranked => pure (v, fas, ranked)) c.d.variants

abbrev CloneScan := List (Variant × List (Field × CloneFieldAttr))

def cloneScan (c : Ctx) (enableMethod : Bool) : Res CloneScan :=
  mapRes (fun v => do
      if c.d.kind == .enum then variantNoAttr c (· == .clone) v
      let fas ← mapRes (fun f => do
          let a ← fromAttrs c.F c.traits (· == .clone) (cloneFieldFromMeta enableMethod) {} f.attrs
          pure (f, a)) v.fields
      pure (v, fas)) c.d.variants

/-- `enable_method` of the Clone field builder, per kind and presence of Copy. -/
def cloneEnableMethod (c : Ctx) : Bool :=
  match c.d.kind with | .struct => !c.traits .copy | .enum => true | .union => false

/-- `mine` of the PartialEq handler: its own attributes and, when `Eq` is educed too, `Eq(..)` as a synonym. -/
def mineEq (c : Ctx) : TraitId → Bool := fun t => t == .partialEq || (c.traits .eq && t == .eq)

/-- The switches of the PartialEq / Hash field builders. -/
def eqFlags : CmpFieldFlags := { ignore := true, method := true, rank := false }

/-- `mine` of the Ord handler: `Ord(..)` and, when PartialOrd is educed too, `PartialOrd(..)` carry the field attributes. -/
def mineOrd (c : Ctx) : TraitId → Bool := fun t => t == .ord || (c.traits .partialOrd && t == .partialOrd)

/-- The attribute layer's "Clone is a bitwise copy" (`head` of the Clone item, which also selects `Copy` as the bound
    trait) computed from the scan. -/
def useCopyOf (c : Ctx) (vs : CloneScan) : Bool :=
  match c.d.kind with
  | .struct => c.traits .copy
  | .enum => c.traits .copy && !(vs.any fun (_, fas) => fas.any fun (_, a) => a.method.isSome)
  | .union => true

/-! ### conversion into the behavioural layer's configuration -/

def identOf (s : String) : Ident := s.toList

def eqField (num : String → Nat) (fa : Field × CmpFieldAttr) : EqField :=
  { name := identOf (fname fa.1), ignore := fa.2.ignore, method := fa.2.method.map num }

def eqVariant (num : String → Nat) (p : Variant × List (Field × CmpFieldAttr)) : EqVariant :=
  { name := identOf p.1.name, shape := p.1.shape, fields := p.2.map (eqField num) }

def eqType (num : String → Nat) (k : Kind) (vs : CmpScan) : EqType :=
  match k with
  | .enum => .enum (vs.map (eqVariant num))
  | _ => .struct ((vs.map (eqVariant num)).headD {})

def hashField (num : String → Nat) (fa : Field × CmpFieldAttr) : HashField :=
  { name := identOf (fname fa.1), ignore := fa.2.ignore, method := fa.2.method.map num }

def hashVariant (num : String → Nat) (p : Variant × List (Field × CmpFieldAttr)) : HashVariant :=
  { name := identOf p.1.name, shape := p.1.shape, fields := p.2.map (hashField num) }

def hashType (num : String → Nat) (k : Kind) (vs : CmpScan) : HashType :=
  match k with
  | .enum => .enum (vs.map (hashVariant num))
  | _ => .struct ((vs.map (hashVariant num)).headD {})

def ordField (num : String → Nat) (fa : Field × CmpFieldAttr) : OrdField :=
  { name := identOf (fname fa.1), ignore := fa.2.ignore, method := fa.2.method.map num, rank := fa.2.rank }

def ordVariant (num : String → Nat) (discVal : String → Int)
    (p : Variant × List (Field × CmpFieldAttr) × List (Int × (Field × CmpFieldAttr))) : OrdVariant :=
  { name := identOf p.1.name, shape := p.1.shape, fields := p.2.1.map (ordField num), disc := p.1.disc.map discVal }

def ordType (num : String → Nat) (discVal : String → Int) (k : Kind) (vs : OrdScan) : OrdType :=
  match k with
  | .enum => .enum (vs.map (ordVariant num discVal))
  | _ => .struct ((vs.map (ordVariant num discVal)).headD {})

def cloneField (num : String → Nat) (fa : Field × CloneFieldAttr) : CloneField :=
  { name := identOf (fname fa.1), method := fa.2.method.map num }

def cloneVariant (num : String → Nat) (p : Variant × List (Field × CloneFieldAttr)) : CloneVariant :=
  { name := identOf p.1.name, shape := p.1.shape, fields := p.2.map (cloneField num) }

def cloneType (num : String → Nat) (k : Kind) (vs : CloneScan) : CloneType :=
  match k with
  | .enum => .enum (vs.map (cloneVariant num))
  | .struct => .struct ((vs.map (cloneVariant num)).headD {})
  | .union => .union

/-! ### Deref / DerefMut: the marker of every field, read by the handler's own `fieldFlag` -/

/-- `fieldFlag` of `derefHandler`. -/
def derefFieldFlag (c : Ctx) (me : TraitId) (f : Field) : Res Bool :=
  fromAttrs c.F c.traits (· == me) (flagTypeFromMeta true) false f.attrs

def derefField (g : Field → Res Bool) (f : Field) : DerefField :=
  { name := identOf (fname f), flag := (match g f with | .ok b => b | _ => false), isRef := f.isRef }

def derefVariant (g : Field → Res Bool) (v : Variant) : DerefVariant :=
  { name := identOf v.name, shape := v.shape, fields := v.fields.map (derefField g) }

def derefType (g : Field → Res Bool) (d : DeriveInput) : DerefType :=
  match d.kind with
  | .enum => .enum (d.variants.map (derefVariant g))
  | _ => .struct (derefVariant g (d.variants.headD {}))

/-! ### Debug -/

def dbgField (num : String → Nat) (fa : Field × DebugFieldAttr) : DbgField :=
  { name := identOf (fname fa.1), ignore := fa.2.ignore, method := fa.2.method.map num, rename := fa.2.name.map identOf }

/-- The flags of the type-level Debug builder on a struct (`named_field` defaults by shape). -/
def dbgStructFlags (v : Variant) : DebugTypeFlags :=
  { flag := true, unsafe_ := false, name := true, namedField := true, bound := true,
    nameDefault := .default, namedFieldDefault := !(v.shape == .tuple) }

def dbgFieldScan (c : Ctx) (namedField : Bool) (fs : List Field) : Res (List (Field × DebugFieldAttr)) :=
  mapRes (fun f => do
      let a ← fromAttrs c.F c.traits (· == .debug) (debugFieldFromMeta { name := namedField, ignore := true, method := true }) {} f.attrs
      pure (f, a)) fs

def dbgStructType (num : String → Nat) (d : DeriveInput) (v : Variant) (ta : DebugTypeAttr) (fas : List (Field × DebugFieldAttr)) : DbgType :=
  .struct { name := identOf d.name, shape := v.shape, fields := fas.map (dbgField num), namedField := some ta.namedField } ta.name

/-- The flags of the type-level Debug builder on an enum and of the variant-level builder. -/
def dbgEnumFlags : DebugTypeFlags :=
  { flag := true, unsafe_ := false, name := true, namedField := false, bound := true, nameDefault := .disable, namedFieldDefault := false }

def dbgVariantFlags (v : Variant) : DebugTypeFlags :=
  { flag := false, unsafe_ := false, name := true, namedField := true, bound := false,
    nameDefault := .default, namedFieldDefault := v.shape == .named }

def dbgVariantAttr (c : Ctx) (v : Variant) : Res DebugTypeAttr :=
  fromAttrs c.F c.traits (· == .debug) (debugTypeFromMeta (dbgVariantFlags v)) { name := .default, namedField := v.shape == .named } v.attrs

def dbgVariant (num : String → Nat) (p : Variant × DebugTypeAttr × List (Field × DebugFieldAttr)) : DbgVariant :=
  { name := identOf p.1.name, shape := p.1.shape, fields := p.2.2.map (dbgField num), vname := p.2.1.name, namedField := some p.2.1.namedField }

def dbgEnumType (num : String → Nat) (d : DeriveInput) (ta : DebugTypeAttr)
    (vs : List (Variant × DebugTypeAttr × List (Field × DebugFieldAttr))) : DbgType :=
  .enum (identOf d.name) (vs.map (dbgVariant num)) ta.name

/-- The Debug configuration of a struct or enum, computed by the same steps as `debugHandler` (type-level attribute, then
    per variant its attribute, then per field under the `name` switch the `named_field` in force dictates). `Props/E2E.lean`
    (`dbgScan_of_handler`) shows that it succeeds, with the configuration of the end-to-end theorems, whenever the handler accepts. -/
def dbgScan (c : Ctx) (m : TraitMeta) (num : String → Nat) : Res DbgType :=
  match c.d.kind with
  | .struct => do
    let v := c.d.variants.headD {}
    let ta ← debugTypeFromMeta (dbgStructFlags v) m
    let fas ← dbgFieldScan c ta.namedField v.fields
    pure (dbgStructType num c.d v ta fas)
  | .enum => do
    let ta ← debugTypeFromMeta dbgEnumFlags m
    let vs ← mapRes (fun v => do
        let va ← dbgVariantAttr c v
        let fas ← if v.shape == .unit then pure [] else dbgFieldScan c va.namedField v.fields
        pure (v, va, fas)) c.d.variants
    pure (dbgEnumType num c.d ta vs)
  | .union => .diag .notSupportUnion

/-! ### Into -/

abbrev IntoScan := List (Variant × List (Field × List (String × Option String)))

/-- The variant / field scan of `intoHandler`: every field's `Into(T[, method(m)])` markers, each of which must name a
    target requested on the type. -/
def intoScan (c : Ctx) (targets : List (String × Bound)) : Res IntoScan :=
  mapRes (fun v => do
      if c.d.kind == .enum then
        let vm ← collectAttrs c.F c.traits .into v.attrs []
        if !vm.isEmpty then let _ ← intoTypeFromMetas false vm []
      let fas ← mapRes (fun f => do
          let fm ← collectAttrs c.F c.traits .into f.attrs []
          let marks ← if fm.isEmpty then pure [] else intoFieldFromMetas true fm []
          match marks.find? fun p => !(targets.any fun t => t.1 == p.1) with
          | some _ => Res.diag .noIntoImpl
          | none => pure (f, marks)) v.fields
      pure (v, fas)) c.d.variants

/-- `tnum` numbers the normalised type strings (`to_hash_type`), `mnum` the custom methods. -/
def intoField (tnum mnum : String → Nat) (fa : Field × List (String × Option String)) : IntoField :=
  { name := identOf (fname fa.1), ty := tnum fa.1.hashTy, markers := fa.2.map fun p => (tnum p.1, p.2.map mnum) }

def intoVariant (tnum mnum : String → Nat) (p : Variant × List (Field × List (String × Option String))) : IntoVariant :=
  { name := identOf p.1.name, shape := p.1.shape, fields := p.2.map (intoField tnum mnum) }

def intoType (tnum mnum : String → Nat) (k : Kind) (vs : IntoScan) : IntoType :=
  match k with
  | .enum => .enum (vs.map (intoVariant tnum mnum))
  | _ => .struct ((vs.map (intoVariant tnum mnum)).headD {})

/-! ### Default -/

/-- `fieldAttr` of `defaultHandler` (without the pairing): a field's Default attribute under the given switches. -/
def defFieldAttr (c : Ctx) (flag expr : Bool) (f : Field) : Res DefaultFieldAttr :=
  fromAttrs c.F c.traits (· == .default) (defaultFieldFromMeta flag expr f.shape) {} f.attrs

/-- `variantAttr` of `defaultHandler`. -/
def defVariantAttr (c : Ctx) (flag : Bool) (v : Variant) : Res DefaultTypeAttr :=
  fromAttrs c.F c.traits (· == .default) (defaultTypeFromMeta { flag := flag, new := false, expression := false, bound := false }) {} v.attrs

/-- `enum` numbers the (adjusted) default expressions: printed text and whether it is wrapped in `Into::into`. -/
def defField (enum : String × Bool → Nat) (f : Field) (a : DefaultFieldAttr) : DefField :=
  { name := identOf (fname f), expr := a.expression.map enum, flag := a.flag }

/-- A field of a struct / enum variant, read the way the handler reads the fields of the value it builds: marker off,
    expression on. -/
def defFieldOf (c : Ctx) (enum : String × Bool → Nat) (f : Field) : DefField :=
  match defFieldAttr c false true f with
  | .ok a => defField enum f a
  | _ => { name := identOf (fname f) }

def defVariantOf (c : Ctx) (enum : String × Bool → Nat) (v : Variant) : DefVariant :=
  { name := identOf v.name, shape := v.shape, fields := v.fields.map (defFieldOf c enum),
    flag := match defVariantAttr c true v with | .ok va => va.flag | _ => false }

/-- The Default configuration of a struct or enum (unions are not bridged). -/
def defType (c : Ctx) (enum : String × Bool → Nat) : DefType :=
  match c.d.kind with
  | .enum => .enum (c.d.variants.map (defVariantOf c enum))
  | _ => .struct (defVariantOf c enum (c.d.variants.headD {}))

/-! ### what Rust guarantees about the definition itself -/

/-- Field names of a struct-like variant are pairwise distinct; unit variants have no fields. -/
def VariantWF (v : Variant) : Prop :=
  (v.shape = .named → (v.fields.map fname).Nodup) ∧ (v.shape = .unit → v.fields = [])

/-- Every variant is well-formed; a struct or union is represented by exactly one "variant". -/
def InputWF (d : DeriveInput) : Prop :=
  (∀ v ∈ d.variants, VariantWF v) ∧ (d.kind ≠ .enum → ∃ v, d.variants = [v])

end Educe.Bridge
