import EduceModel.IR
/-
  Model of `into/into_{struct,enum}.rs` at configuration level. Types are compared the way the
  code compares them: by the normalised token string (`to_hash_type`), here an opaque id.
-/
namespace Educe

structure IntoField where
  name : Ident := []
  ty : Nat := 0                                   -- `to_hash_type(field.ty)`
  markers : List (Nat × Option Nat) := []         -- field-level `Into(T[, method(m)])`: (T, m)
  deriving Repr, Inhabited

structure IntoVariant where
  name : Ident := []
  shape : Shape := .unit
  fields : List IntoField := []
  deriving Repr, Inhabited

inductive IntoType
  | struct (v : IntoVariant)
  | enum (vs : List IntoVariant)
  deriving Repr, Inhabited

inductive IntoDiag
  | noIntoImpl (t : Nat)          -- a field names a target the type does not request
  | multipleFields (t : Nat)
  | noField (t : Nat)
  | unitVariant (k : Nat)
  deriving Repr, Inhabited, DecidableEq

/-- What is done with the chosen field. -/
inductive IntoExpr
  | method (m : Nat)     -- `m(field)`
  | identity             -- `field`
  | into                 -- `Into::into(field)`
  deriving Repr, Inhabited, DecidableEq

structure IntoArm where
  variant : Ident
  pat : ArmPat
  result : Ident
  expr : IntoExpr
  deriving Repr, Inhabited

inductive IntoBody
  | struct (index : Nat) (expr : IntoExpr)
  | enum (arms : List IntoArm)
  deriving Repr, Inhabited

structure IntoItem where
  target : Nat
  body : IntoBody
  deriving Repr, Inhabited

namespace Gen.Into

def markerFor (t : Nat) (c : IntoField) : Option (Option Nat) :=
  (c.markers.find? fun p => p.1 == t).map Prod.snd

/-- First loop: fields carrying a marker for `t`; a second one is the "multiple" diagnostic. -/
def markerLoop (t : Nat) : Nat → List IntoField → Option (Nat × Option Nat) → Option (Nat × Option Nat) × Bool
  | _, [], acc => (acc, false)
  | i, c :: cs, acc =>
    match markerFor t c with
    | some m =>
      match acc with
      | some _ => (acc, true)
      | none => markerLoop t (i + 1) cs (some (i, m))
    | none => markerLoop t (i + 1) cs acc

/-- Second loop ("search the same type"): the unique field whose type is `t`; several → none. -/
def sameTypeLoop (t : Nat) : Nat → List IntoField → Option Nat → Option Nat
  | _, [], acc => acc
  | i, c :: cs, acc =>
    if c.ty = t then
      match acc with
      | some _ => none
      | none => sameTypeLoop t (i + 1) cs (some i)
    else sameTypeLoop t (i + 1) cs acc

/-- Field selection for target `t` (into_struct.rs:52-114): index and the marker's method. -/
def select (t : Nat) (fields : List IntoField) : Except IntoDiag (Nat × Option Nat) :=
  match fields with
  | [c] => .ok (0, (markerFor t c).getD none)
  | _ =>
    match markerLoop t 0 fields none with
    | (_, true) => .error (.multipleFields t)
    | (some r, false) => .ok r
    | (none, false) =>
      match sameTypeLoop t 0 fields none with
      | some i => .ok (i, none)
      | none => .error (.noField t)

def exprFor (t : Nat) (c : IntoField) (m : Option Nat) : IntoExpr :=
  match m with
  | some m => .method m
  | none => if c.ty = t then .identity else .into

def arm (t : Nat) (k : Nat) (v : IntoVariant) : Except IntoDiag IntoArm :=
  if v.shape = .unit then .error (.unitVariant k)
  else match select t v.fields with
    | .error e => .error e
    | .ok (idx, m) =>
      match v.fields[idx]? with
      | none => .error (.noField t)
      | some f =>
        if v.shape = .tuple then
          .ok { variant := v.name, result := tupSelf idx, expr := exprFor t f m
                pat := .tupleRest (List.replicate idx Pat.wild ++ [Pat.bind (tupSelf idx)]) }
        else
          .ok { variant := v.name, result := f.name, expr := exprFor t f m
                pat := .namedRest [(f.name, Pat.bind f.name)] }

def arms (t : Nat) : Nat → List IntoVariant → Except IntoDiag (List IntoArm)
  | _, [] => .ok []
  | k, v :: vs =>
    match arm t k v with
    | .error e => .error e
    | .ok a =>
      match arms t (k + 1) vs with
      | .error e => .error e
      | .ok as => .ok (a :: as)

def item (ty : IntoType) (t : Nat) : Except IntoDiag IntoItem :=
  match ty with
  | .struct v =>
    match select t v.fields with
    | .error e => .error e
    | .ok (idx, m) =>
      match v.fields[idx]? with
      | none => .error (.noField t)
      | some f => .ok { target := t, body := .struct idx (exprFor t f m) }
  | .enum vs =>
    match arms t 0 vs with
    | .error e => .error e
    | .ok [] => .error (.noField t)
    | .ok as => .ok { target := t, body := .enum as }

def allFields : IntoType → List IntoField
  | .struct v => v.fields
  | .enum vs => vs.flatMap (·.fields)

/-- Every field-level target must be requested on the type (`no_into_impl`). -/
def strayMarker (targets : List Nat) (ty : IntoType) : Option Nat :=
  ((allFields ty).flatMap fun c => c.markers.map Prod.fst).find? fun t => !targets.contains t

/-- One impl per requested target, in the iteration order of the target map. -/
def items (ty : IntoType) : List Nat → Except IntoDiag (List IntoItem)
  | [] => .ok []
  | t :: ts =>
    match item ty t with
    | .error e => .error e
    | .ok it =>
      match items ty ts with
      | .error e => .error e
      | .ok its => .ok (it :: its)

def expandInto (ty : IntoType) (targets : List Nat) : Except IntoDiag (List IntoItem) :=
  match strayMarker targets ty with
  | some t => .error (.noIntoImpl t)
  | none => items ty targets

end Gen.Into
end Educe
