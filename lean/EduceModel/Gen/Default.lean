import EduceModel.IR
/-
  Model of `default/default_{struct,enum,union}.rs` at configuration level, and of
  `common/expr.rs::auto_adjust_expr` (when a bare literal is wrapped in `Into::into`).
-/
namespace Educe

structure DefField where
  name : Ident := []
  expr : Option Nat := none      -- id of the field's (already adjusted) default expression
  flag : Bool := false           -- `#[educe(Default)]` on a union field
  deriving Repr, Inhabited

structure DefVariant where
  name : Ident := []
  shape : Shape := .unit
  fields : List DefField := []
  flag : Bool := false           -- `#[educe(Default)]` on the variant
  deriving Repr, Inhabited

inductive DefType
  | struct (v : DefVariant)
  | enum (vs : List DefVariant)
  | union (fields : List DefField)
  deriving Repr, Inhabited

structure DefCfg where
  typeExpr : Option Nat := none  -- `Default(expression = ...)` on the type
  new : Bool := false
  deriving Repr, Inhabited

inductive DefDiag
  | attrNotAllowed               -- a Default attribute where the handler disabled it
  | noDefaultVariant | multipleDefaultVariants
  | noDefaultField | multipleDefaultFields
  deriving Repr, Inhabited, DecidableEq

inductive Init
  | expr (e : Nat)               -- the user's expression
  | dflt (p : Pos)               -- `<FieldTy as Default>::default()`
  deriving Repr, Inhabited, DecidableEq

inductive DefBody
  | typeExpr (e : Nat)
  | construct (variant : Nat) (inits : List Init)
  | unionField (idx : Nat) (init : Init)
  deriving Repr, Inhabited

namespace Gen.Default

def hasAttr (c : DefField) : Bool := c.expr.isSome || c.flag

def inits (k : Nat) : Nat → List DefField → List Init
  | _, [] => []
  | i, c :: cs => (match c.expr with | some e => Init.expr e | none => Init.dflt ⟨k, i⟩) :: inits k (i + 1) cs

/-- The variant loop of default_enum.rs: remembers the marked variant; a second one is the
    "multiple" diagnostic; unmarked variants must carry no field attributes. -/
def variantLoop : Nat → List DefVariant → Option Nat → Except DefDiag (Option Nat)
  | _, [], acc => .ok acc
  | k, v :: vs, acc =>
    if v.flag then
      match acc with
      | some _ => .error .multipleDefaultVariants
      | none => variantLoop (k + 1) vs (some k)
    else if v.fields.any hasAttr then .error .attrNotAllowed
    else variantLoop (k + 1) vs acc

def fieldLoop : Nat → List DefField → Option Nat → Except DefDiag (Option Nat)
  | _, [], acc => .ok acc
  | i, c :: cs, acc =>
    if hasAttr c then
      match acc with
      | some _ => .error .multipleDefaultFields
      | none => fieldLoop (i + 1) cs (some i)
    else fieldLoop (i + 1) cs acc

def body (cfg : DefCfg) : DefType → Except DefDiag DefBody
  | .struct v =>
    match cfg.typeExpr with
    | some e => if v.fields.any hasAttr then .error .attrNotAllowed else .ok (.typeExpr e)
    | none => if v.fields.any (·.flag) then .error .attrNotAllowed else .ok (.construct 0 (inits 0 0 v.fields))
  | .enum vs =>
    match cfg.typeExpr with
    | some e =>
      if vs.any fun v => v.flag || v.fields.any hasAttr then .error .attrNotAllowed else .ok (.typeExpr e)
    | none =>
      match vs with
      | [v] => if v.fields.any (·.flag) then .error .attrNotAllowed else .ok (.construct 0 (inits 0 0 v.fields))
      | _ =>
        match variantLoop 0 vs none with
        | .error e => .error e
        | .ok none => .error .noDefaultVariant
        | .ok (some k) =>
          match vs[k]? with
          | none => .error .noDefaultVariant
          | some v => if v.fields.any (·.flag) then .error .attrNotAllowed else .ok (.construct k (inits k 0 v.fields))
  | .union fs =>
    match cfg.typeExpr with
    | some e => if fs.any hasAttr then .error .attrNotAllowed else .ok (.typeExpr e)
    | none =>
      match fs with
      | [c] => .ok (.unionField 0 (match c.expr with | some e => .expr e | none => .dflt ⟨0, 0⟩))
      | _ =>
        match fieldLoop 0 fs none with
        | .error e => .error e
        | .ok none => .error .noDefaultField
        | .ok (some i) =>
          match fs[i]? with
          | none => .error .noDefaultField
          | some c => .ok (.unionField i (match c.expr with | some e => .expr e | none => .dflt ⟨0, i⟩))

/-! ### `auto_adjust_expr` -/

inductive LitKind
  | int (suffix : String) | float (suffix : String) | str | bool | char | byte | byteStr | other
  deriving Repr, Inhabited, DecidableEq

/-- What `auto_adjust_expr` looks at in the field type. -/
inductive TyShape
  | path (s : String)              -- `Type::Path`, by its token string
  | refTo (inner : TyShape)        -- `&T`
  | arrayOf (elem : TyShape)       -- `[T; N]`
  | other
  deriving Repr, Inhabited, DecidableEq

def intTypes : List String := ["u8", "u16", "u32", "u64", "u128", "usize", "i8", "i16", "i32", "i64", "i128", "isize"]
def floatTypes : List String := ["f32", "f64"]

/-- `true` = the literal is emitted bare ("don't call into"). `ty = none` for the type-level expression. -/
def keepsBare (lit : LitKind) (ty : Option TyShape) : Bool :=
  match lit, ty with
  | .int sfx, some (.path s) => sfx == s || (sfx.isEmpty && intTypes.contains s)
  | .float sfx, some (.path s) => sfx == s || (sfx.isEmpty && floatTypes.contains s)
  | .str, some (.refTo (.path s)) => s == "str"
  | .bool, some (.path s) => s == "bool"
  | .char, some (.path s) => s == "char"
  | .byte, some (.path s) => s == "u8"
  | .byteStr, some (.refTo (.arrayOf (.path s))) => s == "u8"
  | _, _ => false

/-- Is the expression wrapped in `Into::into(..)`: only bare literals, and only when not kept bare. -/
def wrapsInto (lit : Option LitKind) (ty : Option TyShape) : Bool :=
  match lit with
  | none => false
  | some l => !keepsBare l ty

end Gen.Default
end Educe
