import EduceModel.IR
/-
  Model of `hash/hash_{struct,enum}.rs` at configuration level.
-/
namespace Educe

structure HashField where
  name : Ident := []
  ignore : Bool := false
  method : Option Nat := none
  deriving Repr, Inhabited

structure HashVariant where
  name : Ident := []
  shape : Shape := .unit
  fields : List HashField := []
  deriving Repr, Inhabited

inductive HashType
  | struct (v : HashVariant)
  | enum (vs : List HashVariant)
  deriving Repr, Inhabited

/-- `Hash::hash(r, state);` / `m(r, state);` -/
inductive HashStmt
  | builtin (r : Ref)
  | method (m : Nat) (r : Ref)
  deriving Repr, Inhabited

structure HashArm where
  variant : Ident
  index : Nat                -- `Hash::hash(&#variant_index, state)` comes first in every arm
  pat : ArmPat
  block : List HashStmt
  deriving Repr, Inhabited

inductive HashBody
  | struct (stmts : List HashStmt)
  | enum (arms : List HashArm)
  deriving Repr, Inhabited

namespace Gen.Hash

def stmt (c : HashField) (r : Ref) : HashStmt :=
  match c.method with
  | some m => .method m r
  | none => .builtin r

def structStmts : Nat → List HashField → List HashStmt
  | _, [] => []
  | i, c :: cs =>
    if c.ignore then structStmts (i + 1) cs
    else stmt c (.selfField i) :: structStmts (i + 1) cs

def bindTup (i : Nat) (c : HashField) : Option Ident := if c.ignore then none else some (tupSelf i)
def bindNamed (_ : Nat) (c : HashField) : Option Ident := if c.ignore then none else some (namedV c.name)

def armStmts (bs : Nat → HashField → Option Ident) : Nat → List HashField → List HashStmt
  | _, [] => []
  | i, c :: cs =>
    match bs i c with
    | some x => stmt c (.var x) :: armStmts bs (i + 1) cs
    | none => armStmts bs (i + 1) cs

def arm (index : Nat) (v : HashVariant) : HashArm :=
  match v.shape with
  | .unit => { variant := v.name, index := index, pat := .unit, block := [] }
  | .tuple => { variant := v.name, index := index
                pat := .tuple (tuplePatsOf bindTup 0 v.fields)
                block := armStmts bindTup 0 v.fields }
  | .named => { variant := v.name, index := index
                pat := .named (namedPatsOf HashField.name bindNamed 0 v.fields)
                block := armStmts bindNamed 0 v.fields }

def arms : Nat → List HashVariant → List HashArm
  | _, [] => []
  | i, v :: vs => arm i v :: arms (i + 1) vs

def body : HashType → HashBody
  | .struct v => .struct (structStmts 0 v.fields)
  | .enum vs => .enum (arms 0 vs)

end Gen.Hash
end Educe
