import EduceModel.IR
/-
  Model of `deref/deref_{struct,enum}.rs` and `deref_mut/deref_mut_{struct,enum}.rs`
  (same generator; each trait has its own field marker).
-/
namespace Educe

structure DerefField where
  name : Ident := []
  flag : Bool := false        -- `#[educe(Deref)]` / `#[educe(DerefMut)]` on the field
  isRef : Bool := false       -- the field's type is a reference (`Type::Reference`)
  deriving Repr, Inhabited

structure DerefVariant where
  name : Ident := []
  shape : Shape := .unit
  fields : List DerefField := []
  deriving Repr, Inhabited

inductive DerefType
  | struct (v : DerefVariant)
  | enum (vs : List DerefVariant)
  deriving Repr, Inhabited

inductive DerefDiag
  | noField | multipleFields
  | noFieldOfVariant (k : Nat) | multipleFieldsOfVariant (k : Nat)
  | unitVariant (k : Nat)
  deriving Repr, Inhabited, DecidableEq

/-- Struct body: `&self.f` / `&mut self.f`, or `self.f` when the field is itself a reference. -/
structure DerefStructBody where
  index : Nat
  borrow : Bool
  deriving Repr, Inhabited

structure DerefArm where
  variant : Ident
  pat : ArmPat
  result : Ident           -- the arm's value is this binder
  deriving Repr, Inhabited

inductive DerefBody
  | struct (b : DerefStructBody)
  | enum (arms : List DerefArm)
  deriving Repr, Inhabited

namespace Gen.Deref

/-- The marker loop over several fields: the first marked field is remembered, a second one is
    the "multiple" diagnostic (`true`). -/
def pickLoop : Nat → List DerefField → Option Nat → Option Nat × Bool
  | _, [], acc => (acc, false)
  | i, c :: cs, acc =>
    if c.flag then
      match acc with
      | some _ => (acc, true)
      | none => pickLoop (i + 1) cs (some i)
    else pickLoop (i + 1) cs acc

/-- Designated field of a field list: the sole field, else the unique marked one. -/
def pick (fields : List DerefField) (noneD multD : DerefDiag) : Except DerefDiag Nat :=
  if fields.length = 1 then .ok 0
  else match pickLoop 0 fields none with
    | (_, true) => .error multD
    | (some i, false) => .ok i
    | (none, false) => .error noneD

def arm (k : Nat) (v : DerefVariant) : Except DerefDiag DerefArm :=
  if v.shape = .unit then .error (.unitVariant k)
  else match pick v.fields (.noFieldOfVariant k) (.multipleFieldsOfVariant k) with
    | .error e => .error e
    | .ok idx =>
      match v.fields[idx]? with
      | none => .error (.noFieldOfVariant k)
      | some f =>
        if v.shape = .tuple then
          .ok { variant := v.name, result := tupSelf idx
                pat := .tupleRest (List.replicate idx Pat.wild ++ [Pat.bind (tupSelf idx)]) }
        else
          .ok { variant := v.name, result := f.name, pat := .namedRest [(f.name, Pat.bind f.name)] }

def arms : Nat → List DerefVariant → Except DerefDiag (List DerefArm)
  | _, [] => .ok []
  | k, v :: vs =>
    match arm k v with
    | .error e => .error e
    | .ok a =>
      match arms (k + 1) vs with
      | .error e => .error e
      | .ok as => .ok (a :: as)

def body : DerefType → Except DerefDiag DerefBody
  | .struct v =>
    match pick v.fields .noField .multipleFields with
    | .error e => .error e
    | .ok idx =>
      match v.fields[idx]? with
      | none => .error .noField
      | some f => .ok (.struct { index := idx, borrow := !f.isRef })
  | .enum vs =>
    match arms 0 vs with
    | .error e => .error e
    | .ok [] => .error .noField
    | .ok as => .ok (.enum as)

end Gen.Deref
end Educe
