import EduceModel.Gen.Debug
import EduceModel.Sem.Hash
import EduceModel.Sem.FmtBuilders
import EduceModel.Spec.Debug
/-
  Model of `debug/debug_union.rs`, `partial_eq/partial_eq_union.rs`, `hash/hash_union.rs`:
  the value is viewed as `size_of::<Self>()` raw bytes; generated only behind `unsafe`.
-/
namespace Educe

/-- Result of the type-level attribute layer for a union. -/
structure UnionAttr where
  hasUnsafe : Bool := false
  name : NameCfg := .default          -- Debug only
  deriving Repr, Inhabited

inductive UnionDiag | withoutUnsafe
  deriving Repr, Inhabited, DecidableEq

inductive UnionDebugBody
  | tupleOfBytes (name : Ident)       -- `f.debug_tuple(name).field(&bytes).finish()`
  | bareBytes                         -- `Debug::fmt(bytes, f)`
  deriving Repr, Inhabited, DecidableEq

namespace Gen.Union

def debug (own : Ident) (a : UnionAttr) : Except UnionDiag UnionDebugBody :=
  if !a.hasUnsafe then .error .withoutUnsafe
  else match a.name.toIdent own with
    | some n => .ok (.tupleOfBytes n)
    | none => .ok .bareBytes

/-- PartialEq / Hash: the byte-wise body is emitted only with the `unsafe` marker. -/
def bytewise (a : UnionAttr) : Except UnionDiag Unit :=
  if !a.hasUnsafe then .error .withoutUnsafe else .ok ()

end Gen.Union

namespace Sem

def byteOut (b : Nat) : Fmt.Out := fun _ => toString b

/-- `Debug` of the `&[u8]` view. -/
def bytesDebug (bytes : List Nat) : Fmt.Out := fun alt => Fmt.debugList (bytes.map byteOut) alt

def evalUnionDebug (body : UnionDebugBody) (bytes : List Nat) (alt : Bool) : String :=
  match body with
  | .tupleOfBytes n => Fmt.debugTuple (String.ofList n) [bytesDebug bytes] alt
  | .bareBytes => bytesDebug bytes alt

/-- `PartialEq::eq(self_bytes, other_bytes)` on `&[u8]`. -/
def evalUnionEq (a b : List Nat) : Bool := a == b

/-- `Hash::hash(bytes: &[u8], state)`: the length prefix, then the bytes as one slice. -/
inductive UWrite | usize (n : Nat) | bytes (bs : List Nat)
  deriving Repr, DecidableEq

def evalUnionHash (bytes : List Nat) : List UWrite := [.usize bytes.length, .bytes bytes]

end Sem
end Educe
