import EduceModel.IR
/-
  Model of `ord/ord_{struct,enum}.rs` and `partial_ord/partial_ord_{struct,enum}.rs`
  (the two pairs are the same generator up to the result type; `partial` selects which).
-/
namespace Educe

def isizeMin : Int := -9223372036854775808

structure OrdField where
  name : Ident := []
  ignore : Bool := false
  method : Option Nat := none
  rank : Option Int := none          -- explicit `rank = n`; default is `isize::MIN + index`
  deriving Repr, Inhabited

structure OrdVariant where
  name : Ident := []
  shape : Shape := .unit
  fields : List OrdField := []
  disc : Option Int := none          -- explicit `= n` discriminant
  deriving Repr, Inhabited

inductive OrdType
  | struct (v : OrdVariant)
  | enum (vs : List OrdVariant)
  deriving Repr, Inhabited

inductive CmpFn | builtin | method (m : Nat)
  deriving Repr, Inhabited, DecidableEq

/-- `match f(a, b) { Equal => (), other => return other }` (with the `Some`/`None` arms when partial). -/
structure CmpStmt where
  f : CmpFn
  a : Ref
  b : Ref
  deriving Repr, Inhabited

structure CmpArm where
  variant : Ident
  isUnit : Bool                       -- unit arm: `return Equal`
  selfPat : ArmPat
  otherPat : ArmPat
  block : List CmpStmt
  deriving Repr, Inhabited

/-- How the generated code obtains a variant's discriminant: the written expression, or the last
    written expression plus an offset, or the offset alone. -/
structure DiscArm where
  base : Option Int
  offset : Nat
  deriving Repr, Inhabited

inductive CmpBody
  | struct (stmts : List CmpStmt)
  | enum (discs : List DiscArm) (allUnit : Bool) (arms : List CmpArm)
  deriving Repr, Inhabited

namespace Gen.Ord

def effRank (i : Nat) (c : OrdField) : Int := c.rank.getD (isizeMin + i)

/-- `BTreeMap<isize, _>`: `contains_key` check followed by `insert`; kept ascending by key. -/
def btInsert {α : Type} (k : Int) (v : α) : List (Int × α) → Option (List (Int × α))
  | [] => some [(k, v)]
  | (k', v') :: rest =>
    if k < k' then some ((k, v) :: (k', v') :: rest)
    else if k = k' then none
    else (btInsert k v rest).map ((k', v') :: ·)

/-- The field loop: skip ignored fields, insert the others under their rank; `none` = the
    `reuse_a_rank` diagnostic. -/
def rankFields : Nat → List OrdField → List (Int × (Nat × OrdField)) → Option (List (Int × (Nat × OrdField)))
  | _, [], acc => some acc
  | i, c :: cs, acc =>
    if c.ignore then rankFields (i + 1) cs acc
    else match btInsert (effRank i c) (i, c) acc with
      | none => none
      | some acc' => rankFields (i + 1) cs acc'

def cmpFn (c : OrdField) : CmpFn :=
  match c.method with
  | some m => .method m
  | none => .builtin

def structStmts (ranked : List (Int × (Nat × OrdField))) : List CmpStmt :=
  ranked.map fun (_, (i, c)) => { f := cmpFn c, a := .selfField i, b := .otherField i }

def bindTupSelf (i : Nat) (c : OrdField) : Option Ident := if c.ignore then none else some (tupSelf i)
def bindTupOther (i : Nat) (c : OrdField) : Option Ident := if c.ignore then none else some (tupOther i)
def bindNamedSelf (_ : Nat) (c : OrdField) : Option Ident := if c.ignore then none else some (namedSelf c.name)
def bindNamedOther (_ : Nat) (c : OrdField) : Option Ident := if c.ignore then none else some (namedOther c.name)

def armStmts (bs bo : Nat → OrdField → Option Ident) (ranked : List (Int × (Nat × OrdField))) : List CmpStmt :=
  ranked.filterMap fun (_, (i, c)) =>
    match bs i c, bo i c with
    | some x, some y => some { f := cmpFn c, a := .var x, b := .var y }
    | _, _ => none

def arm (v : OrdVariant) : Option CmpArm :=
  match v.shape with
  | .unit => some { variant := v.name, isUnit := true, selfPat := .unit, otherPat := .unit, block := [] }
  | .tuple =>
    (rankFields 0 v.fields []).map fun ranked =>
      { variant := v.name, isUnit := false
        selfPat := .tuple (tuplePatsOf bindTupSelf 0 v.fields)
        otherPat := .tuple (tuplePatsOf bindTupOther 0 v.fields)
        block := armStmts bindTupSelf bindTupOther ranked }
  | .named =>
    (rankFields 0 v.fields []).map fun ranked =>
      { variant := v.name, isUnit := false
        selfPat := .named (namedPatsOf OrdField.name bindNamedSelf 0 v.fields)
        otherPat := .named (namedPatsOf OrdField.name bindNamedOther 0 v.fields)
        block := armStmts bindNamedSelf bindNamedOther ranked }

def arms : List OrdVariant → Option (List CmpArm)
  | [] => some []
  | v :: vs =>
    match arm v, arms vs with
    | some a, some as => some (a :: as)
    | _, _ => none

/-- One discriminant arm per variant: the written value, else the last written value plus the
    number of variants since, else the position. -/
def discArms : Option Int → Nat → List OrdVariant → List DiscArm
  | _, _, [] => []
  | base, off, v :: vs =>
    match v.disc with
    | some d => { base := some d, offset := 0 } :: discArms (some d) 1 vs
    | none => { base := base, offset := off } :: discArms base (off + 1) vs

/-- The body of `cmp` / `partial_cmp`; `none` = the duplicate-rank diagnostic. -/
def body : OrdType → Option CmpBody
  | .struct v => (rankFields 0 v.fields []).map fun ranked => .struct (structStmts ranked)
  | .enum vs =>
    (arms vs).map fun as =>
      .enum (discArms none 0 vs) (vs.all fun v => v.shape == .unit) as

end Gen.Ord
end Educe
