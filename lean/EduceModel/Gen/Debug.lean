import EduceModel.IR
/-
  Model of `debug/debug_{struct,enum}.rs` at configuration level.
-/
namespace Educe

structure DbgField where
  name : Ident := []               -- declared name ([] for tuple fields)
  ignore : Bool := false
  method : Option Nat := none
  rename : Option Ident := none    -- `FieldName::Custom`
  deriving Repr, Inhabited

structure DbgVariant where
  name : Ident := []
  shape : Shape := .unit
  fields : List DbgField := []
  vname : NameCfg := .default      -- variant-level `name`
  namedField : Option Bool := none -- explicit `named_field`; default by shape
  deriving Repr, Inhabited

inductive DbgType
  | struct (v : DbgVariant) (tname : NameCfg)       -- builder default: `TypeName::Default`
  | enum (name : Ident) (vs : List DbgVariant) (tname : NameCfg)   -- builder default: `TypeName::Disable`
  deriving Repr, Inhabited

/-- The value handed to a builder: the field itself or the `Educe__DebugField` wrapper that
    forwards to the user's method. -/
inductive DbgArg
  | field (r : Ref)
  | wrapped (m : Nat) (r : Ref)
  deriving Repr, Inhabited

inductive Builder
  | struct (name : Ident)          -- `f.debug_struct(name)`, entries via `.field(key, v)`
  | tuple (name : Ident)           -- `f.debug_tuple(name)`, entries via `.field(v)`  (`[]` = `""`)
  | map                            -- `f.debug_map()`, entries via `.entry(&RawString(key), v)`
  | writeStr (s : Ident)           -- `f.write_str(name)` (unit variant / empty enum)
  deriving Repr, Inhabited

structure DbgEntry where
  key : Ident                      -- unused by the tuple builder
  arg : DbgArg
  deriving Repr, Inhabited

structure DbgArm where
  variant : Ident
  pat : ArmPat
  builder : Builder
  entries : List DbgEntry
  deriving Repr, Inhabited

inductive DbgBody
  | struct (builder : Builder) (entries : List DbgEntry)
  | enum (arms : List DbgArm)
  | emptyEnum (name : Ident)
  deriving Repr, Inhabited

/-- The diagnostics of debug/panic.rs that depend on the configuration. -/
inductive DbgDiag | unitStructNeedName | unitVariantNeedName | unitEnumNeedName
  deriving Repr, Inhabited, DecidableEq

namespace Gen.Debug

def arg (c : DbgField) (r : Ref) : DbgArg :=
  match c.method with
  | some m => .wrapped m r
  | none => .field r

/-- Key under which a field is shown by the struct / map builders. -/
def keyOf (i : Nat) (c : DbgField) (own : Ident) : Ident :=
  match c.rename with
  | some k => k
  | none => own

/-- debug_struct.rs: entries, in declaration order, skipping ignored fields. Tuple positions shown
    as named get the key `_i`. -/
def structEntries (isTupleShape : Bool) : Nat → List DbgField → List DbgEntry
  | _, [] => []
  | i, c :: cs =>
    if c.ignore then structEntries isTupleShape (i + 1) cs
    else { key := keyOf i c (if isTupleShape then tupSelf i else c.name), arg := arg c (.selfField i) }
         :: structEntries isTupleShape (i + 1) cs

def bindTup (i : Nat) (c : DbgField) : Option Ident := if c.ignore then none else some (tupSelf i)
def bindNamed (_ : Nat) (c : DbgField) : Option Ident := if c.ignore then none else some (namedUnderscore c.name)

def armEntries (bs : Nat → DbgField → Option Ident) (own : Nat → DbgField → Ident) : Nat → List DbgField → List DbgEntry
  | _, [] => []
  | i, c :: cs =>
    match bs i c with
    | some x => { key := keyOf i c (own i c), arg := arg c (.var x) } :: armEntries bs own (i + 1) cs
    | none => armEntries bs own (i + 1) cs

/-- `Enum::Variant`, `Enum`, `Variant` or nothing (debug_enum.rs:48-62). -/
def nameString (tname : Option Ident) (vname : Option Ident) : Option Ident :=
  match tname, vname with
  | some t, some v => some (t ++ [':', ':'] ++ v)
  | some t, none => some t
  | none, some v => some v
  | none, none => none

def builderOf (named : Bool) (name : Option Ident) : Builder :=
  if named then
    match name with
    | some n => .struct n
    | none => .map
  else .tuple (name.getD [])      -- a nameless tuple prints as `(v, ..)`: empty name string

def structBody (v : DbgVariant) (tname : NameCfg) : Except DbgDiag DbgBody :=
  let isTuple := v.shape == .tuple
  let named := v.namedField.getD (!isTuple)
  let name := tname.toIdent v.name
  let entries := structEntries isTuple 0 v.fields
  if entries.isEmpty && name.isNone then .error .unitStructNeedName
  else .ok (.struct (builderOf named name) entries)

def arm (tname : Option Ident) (v : DbgVariant) : Except DbgDiag DbgArm :=
  let ns := nameString tname (v.vname.toIdent v.name)
  match v.shape with
  | .unit =>
    match ns with
    | none => .error .unitVariantNeedName
    | some s => .ok { variant := v.name, pat := .unit, builder := .writeStr s, entries := [] }
  | .tuple =>
    let named := v.namedField.getD false
    let entries := armEntries bindTup (fun i _ => tupSelf i) 0 v.fields
    if entries.isEmpty && ns.isNone then .error .unitStructNeedName
    else .ok { variant := v.name, pat := .tuple (tuplePatsOf bindTup 0 v.fields),
               builder := builderOf named ns, entries := entries }
  | .named =>
    let named := v.namedField.getD true
    let entries := armEntries bindNamed (fun _ c => c.name) 0 v.fields
    if entries.isEmpty && ns.isNone then .error .unitStructNeedName
    else .ok { variant := v.name, pat := .named (namedPatsOf DbgField.name bindNamed 0 v.fields),
               builder := builderOf named ns, entries := entries }

def arms (tname : Option Ident) : List DbgVariant → Except DbgDiag (List DbgArm)
  | [] => .ok []
  | v :: vs =>
    match arm tname v with
    | .error e => .error e
    | .ok a =>
      match arms tname vs with
      | .error e => .error e
      | .ok as => .ok (a :: as)

def body : DbgType → Except DbgDiag DbgBody
  | .struct v tname => structBody v tname
  | .enum ename vs tname =>
    let name := tname.toIdent ename
    match arms name vs with
    | .error e => .error e
    | .ok [] =>
      match name with
      | some n => .ok (.emptyEnum n)
      | none => .error .unitEnumNeedName
    | .ok as => .ok (.enum as)

end Gen.Debug
end Educe
