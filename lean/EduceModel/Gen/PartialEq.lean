import EduceModel.IR
/-
  Model of `src/trait_handlers/partial_eq/partial_eq_{struct,enum}.rs` at configuration level:
  input is the per-field result of the attribute layer (ignore / method), output is the body of
  `fn eq(&self, other: &Self) -> bool`.
-/
namespace Educe

structure EqField where
  name : Ident := []            -- declared field name (`[]` for tuple fields)
  ignore : Bool := false
  method : Option Nat := none   -- id of the user function named by `method(...)`
  deriving Repr, Inhabited

structure EqVariant where
  name : Ident := []
  shape : Shape := .unit
  fields : List EqField := []
  deriving Repr, Inhabited

inductive EqType
  | struct (v : EqVariant)
  | enum (vs : List EqVariant)
  deriving Repr, Inhabited

/-- `if ne(a, b) { return false; }` / `if !m(a, b) { return false; }` -/
inductive EqStmt
  | ifNe (a b : Ref)
  | ifNotMethod (m : Nat) (a b : Ref)
  deriving Repr, Inhabited

structure EqArm where
  variant : Ident
  selfPat : ArmPat
  otherPat : ArmPat
  block : List EqStmt
  deriving Repr, Inhabited

/-- Body of `eq`. The trailing `true` is implicit. -/
inductive EqBody
  | struct (stmts : List EqStmt)
  | enum (arms : List EqArm)     -- `match self { arms }` when non-empty, nothing otherwise
  deriving Repr, Inhabited

namespace Gen.PartialEq

def stmt (c : EqField) (a b : Ref) : EqStmt :=
  match c.method with
  | some m => .ifNotMethod m a b
  | none => .ifNe a b

/-- partial_eq_struct.rs:30-63 — one statement per non-ignored field, in declaration order. -/
def structStmts : Nat → List EqField → List EqStmt
  | _, [] => []
  | i, c :: cs =>
    if c.ignore then structStmts (i + 1) cs
    else stmt c (.selfField i) (.otherField i) :: structStmts (i + 1) cs

def bindTupSelf (i : Nat) (c : EqField) : Option Ident := if c.ignore then none else some (tupSelf i)
def bindTupOther (i : Nat) (c : EqField) : Option Ident := if c.ignore then none else some (tupOther i)
def bindNamedSelf (_ : Nat) (c : EqField) : Option Ident := if c.ignore then none else some (namedSelf c.name)
def bindNamedOther (_ : Nat) (c : EqField) : Option Ident := if c.ignore then none else some (namedOther c.name)

/-- Statements of one arm: each non-ignored field compares its two binders. -/
def armStmts (bs bo : Nat → EqField → Option Ident) : Nat → List EqField → List EqStmt
  | _, [] => []
  | i, c :: cs =>
    match bs i c, bo i c with
    | some x, some y => stmt c (.var x) (.var y) :: armStmts bs bo (i + 1) cs
    | _, _ => armStmts bs bo (i + 1) cs

/-- partial_eq_enum.rs:35-172 — one arm per variant. -/
def arm (v : EqVariant) : EqArm :=
  match v.shape with
  | .unit => { variant := v.name, selfPat := .unit, otherPat := .unit, block := [] }
  | .tuple =>
    { variant := v.name
      selfPat := .tuple (tuplePatsOf bindTupSelf 0 v.fields)
      otherPat := .tuple (tuplePatsOf bindTupOther 0 v.fields)
      block := armStmts bindTupSelf bindTupOther 0 v.fields }
  | .named =>
    { variant := v.name
      selfPat := .named (namedPatsOf EqField.name bindNamedSelf 0 v.fields)
      otherPat := .named (namedPatsOf EqField.name bindNamedOther 0 v.fields)
      block := armStmts bindNamedSelf bindNamedOther 0 v.fields }

def body : EqType → EqBody
  | .struct v => .struct (structStmts 0 v.fields)
  | .enum vs => .enum (vs.map arm)

end Gen.PartialEq
end Educe
