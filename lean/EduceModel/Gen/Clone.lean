import EduceModel.IR
/-
  Model of `clone/clone_{struct,enum,union}.rs` at configuration level.
-/
namespace Educe

structure CloneField where
  name : Ident := []
  method : Option Nat := none
  deriving Repr, Inhabited

structure CloneVariant where
  name : Ident := []
  shape : Shape := .unit
  fields : List CloneField := []
  deriving Repr, Inhabited

inductive CloneType
  | struct (v : CloneVariant)
  | enum (vs : List CloneVariant)
  | union
  deriving Repr, Inhabited

/-- One field of the constructor expression: `Clone::clone(r)` / `m(r)` — exactly one call. -/
inductive CloneExpr
  | builtin (r : Ref)
  | method (m : Nat) (r : Ref)
  deriving Repr, Inhabited

/-- One statement of `clone_from`: `Clone::clone_from(dst, src);` / `*dst = m(src);` -/
inductive CFStmt
  | builtin (dst src : Ref)
  | assign (dst : Ref) (m : Nat) (src : Ref)
  deriving Repr, Inhabited

structure CloneArm where
  variant : Ident
  srcPat : ArmPat            -- clone: `Self::V(srcPat) => Self::V(fields)`
  fields : List CloneExpr
  dstPat : ArmPat            -- clone_from: `Self::V(dstPat) => if let Self::V(cfSrcPat) = source { block }`
  cfSrcPat : ArmPat          --             `else { *self = Clone::clone(source) }`
  cfBlock : List CFStmt
  deriving Repr, Inhabited

inductive CloneBody
  | copySelf                                              -- `*self`; `clone_from` not overridden
  | struct (fields : List CloneExpr) (cf : List CFStmt)
  | enum (arms : List CloneArm)
  deriving Repr, Inhabited

namespace Gen.Clone

def expr (c : CloneField) (r : Ref) : CloneExpr :=
  match c.method with
  | some m => .method m r
  | none => .builtin r

def cfStmt (c : CloneField) (dst src : Ref) : CFStmt :=
  match c.method with
  | some m => .assign dst m src
  | none => .builtin dst src

def structExprs : Nat → List CloneField → List CloneExpr
  | _, [] => []
  | i, c :: cs => expr c (.selfField i) :: structExprs (i + 1) cs

def structCF : Nat → List CloneField → List CFStmt
  | _, [] => []
  | i, c :: cs => cfStmt c (.selfField i) (.otherField i) :: structCF (i + 1) cs

def bindTupSelf (i : Nat) (_ : CloneField) : Option Ident := some (tupSelf i)
def bindTupOther (i : Nat) (_ : CloneField) : Option Ident := some (tupOther i)
def bindNamedSrc (_ : Nat) (c : CloneField) : Option Ident := some (namedSelf c.name)
def bindNamedDst (_ : Nat) (c : CloneField) : Option Ident := some (namedDst c.name)

def armExprs (bs : Nat → CloneField → Option Ident) : Nat → List CloneField → List CloneExpr
  | _, [] => []
  | i, c :: cs =>
    match bs i c with
    | some x => expr c (.var x) :: armExprs bs (i + 1) cs
    | none => armExprs bs (i + 1) cs

def armCF (bd bs : Nat → CloneField → Option Ident) : Nat → List CloneField → List CFStmt
  | _, [] => []
  | i, c :: cs =>
    match bd i c, bs i c with
    | some d, some s => cfStmt c (.var d) (.var s) :: armCF bd bs (i + 1) cs
    | _, _ => armCF bd bs (i + 1) cs

/-- clone_enum.rs:80-219. Tuple variants: `_i` names the field of `self` (the source in `clone`,
    the destination in `clone_from`), `__i` the field of `source`. Named variants: `_s_f` is the
    source in both, `_d_f` the destination. -/
def arm (v : CloneVariant) : CloneArm :=
  match v.shape with
  | .unit => { variant := v.name, srcPat := .unit, fields := [], dstPat := .unit, cfSrcPat := .unit, cfBlock := [] }
  | .tuple =>
    { variant := v.name
      srcPat := .tuple (tuplePatsOf bindTupSelf 0 v.fields)
      fields := armExprs bindTupSelf 0 v.fields
      dstPat := .tuple (tuplePatsOf bindTupSelf 0 v.fields)
      cfSrcPat := .tuple (tuplePatsOf bindTupOther 0 v.fields)
      cfBlock := armCF bindTupSelf bindTupOther 0 v.fields }
  | .named =>
    { variant := v.name
      srcPat := .named (namedPatsOf CloneField.name bindNamedSrc 0 v.fields)
      fields := armExprs bindNamedSrc 0 v.fields
      dstPat := .named (namedPatsOf CloneField.name bindNamedDst 0 v.fields)
      cfSrcPat := .named (namedPatsOf CloneField.name bindNamedSrc 0 v.fields)
      cfBlock := armCF bindNamedDst bindNamedSrc 0 v.fields }

def hasMethod (vs : List CloneVariant) : Bool :=
  vs.any fun v => v.fields.any fun c => c.method.isSome

/-- `copy` = Copy is educed on the type as well. -/
def body (copy : Bool) : CloneType → CloneBody
  | .union => .copySelf
  | .struct v => if copy then .copySelf else .struct (structExprs 0 v.fields) (structCF 0 v.fields)
  | .enum vs => if copy && !hasMethod vs then .copySelf else .enum (vs.map arm)

end Gen.Clone
end Educe
