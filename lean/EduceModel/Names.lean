/-
  Name-resolution model for C19 (i): which identifiers of a `quote!` template are *free
  references*, i.e. resolved in the scope where the derive is used rather than by the template.

  Tokens come from the translator with identifiers interned (`id n`) and Rust keywords already
  separated (`kw`): the analysis below only compares numbers, so the kernel can evaluate it.
-/
namespace Educe.Names

inductive Tok
  | id (n : Nat)          -- a non-keyword identifier
  | kw                    -- a keyword (incl. `self`, `Self`, `_`)
  | bkw                   -- a keyword that introduces a name: `let`, `fn`, `struct`, `type`, `ref`
  | kwmut                 -- `mut`
  | p (c : Nat)           -- punctuation, by code point
  | lit | hole
  | open (c : Nat) | close (c : Nat)
  deriving DecidableEq, Repr, Inhabited

def isP (t : Tok) (c : Char) : Bool := t == .p c.toNat

/-- Identifiers in *binding* position: after `let`/`let mut`/`fn`/`struct` (all keywords, so:
    an identifier directly after a keyword that is followed by something other than `::`),
    directly before a single `:` (parameters, struct-literal and pattern fields, generic
    parameters with bounds), and the generic parameters of a `struct X<A, B>` declaration. -/
def binders : Tok → Tok → List Tok → List Nat
  | _, _, [] => []
  | pp, prev, t :: rest =>
    let tl := binders prev t rest
    match t with
    | .id n =>
      let next := rest.headD .lit
      let next2 := (rest.drop 1).headD .lit
      let next3 := (rest.drop 2).headD .lit
      -- `let x: ::core::..` (a type annotation that starts with an absolute path) binds `x`; `let X::V(..) = ..` does not
      let pathHead := isP next ':' && isP next2 ':' && !isP next3 ':'
      let afterKw := (prev == .bkw || (prev == .kwmut && pp == .bkw)) && !pathHead && !(isP next '!')
      let beforeColon := isP next ':' && !isP next2 ':' && !(isP prev ':')
      let genericParam := (isP prev '<' || isP prev ',') && (isP next ',' || isP next '>') && pp != .lit && false
      if afterKw || beforeColon || genericParam then n :: tl else tl
    | _ => tl

/-- Generic parameters `A, B` of `struct X<A, B>`: identifiers between `<` and `>` right after a
    struct name. -/
def structGenerics : List Tok → List Nat
  | .bkw :: .id _ :: .p 60 :: rest => takeParams rest ++ structGenerics rest
  | .bkw :: .hole :: .p 60 :: rest => takeParams rest ++ structGenerics rest   -- `struct #name<A, B>`
  | _ :: rest => structGenerics rest
  | [] => []
where
  takeParams : List Tok → List Nat
    | .id n :: rest => n :: takeParams rest
    | .p 44 :: rest => takeParams rest
    | _ => []

/-- Identifiers in *reference* position: not after `.`, not after `::`, not a lifetime, and not
    inside an attribute `#[ ... ]` (`skip` = bracket depth inside the attribute being skipped). -/
def refsAux : Nat → Tok → Tok → List Tok → List Nat
  | _, _, _, [] => []
  | skip + 1, _, _, t :: rest =>
    match t with
    | .open _ => refsAux (skip + 2) .lit .lit rest
    | .close _ => refsAux skip .lit .lit rest
    | _ => refsAux (skip + 1) .lit .lit rest
  | 0, pp, prev, t :: rest =>
    match t with
    | .open 91 => if isP prev '#' then refsAux 1 .lit .lit rest else refsAux 0 prev t rest
    | .id n =>
      let cont := isP prev '.' || (isP prev ':' && isP pp ':') || isP prev '\''
      if cont then refsAux 0 prev t rest else n :: refsAux 0 prev t rest
    | _ => refsAux 0 prev t rest

def refs (t : List Tok) : List Nat := refsAux 0 .lit .lit t

/-- Method-call expressions `recv.name(..)` / `recv.name::<..>(..)` of a template: (token before the dot, name).
    Method-call syntax is the one place where Rust resolves a name by the *type of the receiver* (inherent methods
    first), so it is the one place where a path cannot pin the meaning of a call. -/
def methodCalls : Tok → List Tok → List (Tok × Nat)
  | _, [] => []
  | prev, t :: rest =>
    match t, rest with
    | .p 46, .id n :: .open 40 :: _ => (prev, n) :: methodCalls t rest
    | .p 46, .id n :: .p 58 :: .p 58 :: .p 60 :: _ => (prev, n) :: methodCalls t rest
    | _, _ => methodCalls t rest

def binderSet (templates : List (List Tok)) : List Nat :=
  templates.flatMap fun t => binders .lit .lit t ++ structGenerics t

/-- Free references of one template: referenced, and bound by no template. -/
def openIdents (bound : List Nat) (t : List Tok) : List Nat :=
  (refs t).filter fun n => !bound.contains n

def allOpen (templates : List (List Tok)) : List Nat :=
  let b := binderSet templates
  (templates.flatMap (openIdents b)).eraseDups

/-! ### What closedness buys: resolution does not depend on the environment -/

/-- An environment maps a free name to whatever the derive site has in scope under it. -/
abbrev Env := Nat → Nat

/-- Resolution of the references of a template: a bound name resolves to the template's own
    binder (`none`), a free one to what the environment says. -/
def resolve (bound : List Nat) (E : Env) (t : List Tok) : List (Option Nat) :=
  (refs t).map fun n => if bound.contains n then none else some (E n)

end Educe.Names

namespace Educe.Names

/-- Binders of the templates of one handler (group): templates of different handlers are never
    spliced into each other, so a binder of one handler does not bind in another. -/
def groupBinders (groups : List Nat) (templates : List (List Tok)) (g : Nat) : List Nat :=
  ((groups.zip templates).filter fun p => p.1 == g).flatMap fun p => binders .lit .lit p.2 ++ structGenerics p.2

def openInGroup (groups : List Nat) (templates : List (List Tok)) (g : Nat) : List Nat :=
  let b := groupBinders groups templates g
  ((groups.zip templates).filter fun p => p.1 == g).flatMap fun p => openIdents b p.2

/-- Free references of all templates, binders taken per handler. -/
def allOpenGrouped (groups : List Nat) (templates : List (List Tok)) : List Nat :=
  (groups.eraseDups.flatMap (openInGroup groups templates)).eraseDups

/-- What a reference in a template resolves to: a binder the generated code introduces itself
    (`none`), or whatever the derive site's environment `env` says the name means there. -/
def resolveAll {α : Type} (bound : List Nat) (env : Nat → α) (t : List Tok) : List (Nat × Option α) :=
  (refs t).map fun n => if bound.contains n then (n, none) else (n, some (env n))

/-! ## names the generated code picks for itself (`hasher_ident`, `debug_field_ident`) -/

def candidate (base : List Char) (k : Nat) : List Char := base ++ List.replicate k '_'

/-- the loop: `fuel` iterations, each of which stops at a free candidate or appends one `_` -/
def pickName (base : List Char) (taken : List (List Char)) : Nat → Nat → List Char
  | 0, k => candidate base k
  | fuel + 1, k => if taken.contains (candidate base k) then pickName base taken fuel (k + 1) else candidate base k

/-- The hasher type parameter: `H`, `H_`, `H__`, … — the first that is not a generic parameter of the type
    (`hasher_ident`: one step per generic parameter). -/
def hasherName (generics : List (List Char)) : List Char := pickName ['H'] generics generics.length 0

/-- The wrapper struct of a custom Debug method: `Educe__DebugField`, `Educe__DebugField_`, … — the first that is
    neither the type's own name nor one of its generic parameters (`debug_field_ident`: one step more than there are
    generic parameters). -/
def debugFieldBase : List Char := "Educe__DebugField".toList

def debugFieldName (ident : List Char) (generics : List (List Char)) : List Char :=
  pickName debugFieldBase (ident :: generics) (generics.length + 1) 0

end Educe.Names
