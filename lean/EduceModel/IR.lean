import EduceModel.Basic
/-
  The emitted code, as structured programs with *named* binders (not tokens).
  Shared pieces: references to operands and match-arm patterns.
-/
namespace Educe

/-- An operand of a generated comparison / hash / clone call. -/
inductive Ref
  | selfField (i : Nat)    -- `&self.f` / `&self.0`
  | otherField (i : Nat)   -- `&other.f`
  | var (x : Ident)        -- a binder introduced by an enclosing pattern
  deriving DecidableEq, Repr, Inhabited

/-- The pattern of one match arm / `if let`. -/
inductive ArmPat
  | unit
  | tuple (ps : List Pat)
  | named (ps : List (Ident × Pat))
  | tupleRest (ps : List Pat)               -- `(p0, p1, ..)`
  | namedRest (ps : List (Ident × Pat))     -- `{ f: p, .. }`
  deriving Repr, Inhabited

/-- Matching an arm pattern of variant `k` (declared field names `names`) against field values. -/
def matchArm {V : Type} (k : Nat) (names : List Ident) (vals : List V) : ArmPat → Env V
  | .unit => []
  | .tuple ps => matchTuple k 0 ps vals
  | .named ps => matchNamed k names vals ps
  | .tupleRest ps => matchTuple k 0 ps vals
  | .namedRest ps => matchNamed k names vals ps

/-- Operand evaluation. In struct bodies operands are `self.i` / `other.i` (variant 0);
    in enum arms they are binders. `none` = unbound name or missing field (ill-scoped code). -/
def evalRef {V : Type} (E : Env V) (a b : List V) : Ref → Option (Pos × V)
  | .selfField i => (a[i]?).map fun v => (⟨0, i⟩, v)
  | .otherField i => (b[i]?).map fun v => (⟨0, i⟩, v)
  | .var x => E.look x

end Educe
