import EduceModel.Gen.Debug
import EduceModel.Sem.FmtBuilders
/-
  Semantics of the `fmt` body: which builder calls are made with which resolved operands
  (`Shape`), then the builders' output.
-/
namespace Educe

structure DbgOps (V : Type) where
  fmt : Pos → Bool → V → String       -- `<FieldTy as Debug>::fmt`, by alternate flag
  method : Nat → Bool → V → String    -- user functions named by `method(...)`

/-- How one shown field is formatted. -/
inductive Formatter | own (p : Pos) | method (m : Nat)
  deriving Repr, DecidableEq

/-- The calls a `fmt` body makes, with operands resolved to values. -/
structure DbgShape (V : Type) where
  builder : Builder
  entries : List (Ident × Formatter × V)

def identStr (i : Ident) : String := String.ofList i

/-- How one entry prints, by alternate flag. -/
def DbgOps.out {V : Type} (ops : DbgOps V) (e : Ident × Formatter × V) : Fmt.Out := fun a =>
  match e.2.1 with
  | .own p => ops.fmt p a e.2.2
  | .method m => ops.method m a e.2.2

/-- The output of the builder calls. -/
def DbgShape.render {V : Type} (ops : DbgOps V) (s : DbgShape V) (alt : Bool) : String :=
  match s.builder with
  | .struct n => Fmt.debugStruct (identStr n) (s.entries.map fun e => (identStr e.1, ops.out e)) alt
  | .tuple n => Fmt.debugTuple (identStr n) (s.entries.map ops.out) alt
  | .map => Fmt.debugMap (s.entries.map fun e => (identStr e.1, ops.out e)) alt
  | .writeStr n => identStr n

namespace Sem

def resolveEntries {V : Type} (E : Env V) (a : List V) : List DbgEntry → Option (List (Ident × Formatter × V))
  | [] => some []
  | e :: es =>
    let r := match e.arg with
      | .field r => (evalRef E a [] r).map fun (p, x) => (e.key, Formatter.own p, x)
      | .wrapped m r => (evalRef E a [] r).map fun (_, x) => (e.key, Formatter.method m, x)
    match r, resolveEntries E a es with
    | some x, some xs => some (x :: xs)
    | _, _ => none

def dbgNames (v : DbgVariant) : List Ident := v.fields.map DbgField.name

def variantsOfDbg : DbgType → List DbgVariant
  | .struct v _ => [v]
  | .enum _ vs _ => vs

def shapeOf {V : Type} (t : DbgType) (body : DbgBody) (a : Val V) : Option (DbgShape V) :=
  match body with
  | .struct b es => (resolveEntries [] a.fields es).map fun r => ⟨b, r⟩
  | .emptyEnum n => some ⟨.writeStr n, []⟩
  | .enum arms =>
    match arms[a.variant]?, (variantsOfDbg t)[a.variant]? with
    | some arm, some v =>
      let E := matchArm a.variant (dbgNames v) a.fields arm.pat
      (resolveEntries E [] arm.entries).map fun r => ⟨arm.builder, r⟩
    | _, _ => none

def evalFmt {V : Type} (ops : DbgOps V) (t : DbgType) (body : DbgBody) (a : Val V) (alt : Bool) : Option String :=
  (shapeOf t body a).map fun s => s.render ops alt

end Sem
end Educe
