import EduceModel.Gen.Default
namespace Educe

structure DefOps (V : Type) where
  exprVal : Nat → V              -- value of a field-level expression (after adjustment)
  dflt : Pos → V                 -- `<FieldTy as Default>::default()`
  typeExprVal : Nat → Val V      -- value of the type-level expression

namespace Sem

def evalInit {V : Type} (ops : DefOps V) : Init → V
  | .expr e => ops.exprVal e
  | .dflt p => ops.dflt p

/-- `T::default()`. For unions the result records which field was initialised (as the variant). -/
def evalDefault {V : Type} (ops : DefOps V) : DefBody → Val V
  | .typeExpr e => ops.typeExprVal e
  | .construct k inits => ⟨k, inits.map (evalInit ops)⟩
  | .unionField i init => ⟨i, [evalInit ops init]⟩

end Sem
end Educe
