import EduceModel.Gen.Deref
/-
  Semantics of `deref` / `deref_mut`: *which storage* the returned reference designates.
-/
namespace Educe

/-- The field (of the value's current variant) a reference points into. For a reference-typed
    field the result designates that field's referent. -/
structure Place where
  variant : Nat
  field : Nat
  deriving Repr, DecidableEq

namespace Sem

def derefNames (v : DerefVariant) : List Ident := v.fields.map DerefField.name

def variantsOfDeref : DerefType → List DerefVariant
  | .struct v => [v]
  | .enum vs => vs

def evalDeref {V : Type} (t : DerefType) (body : DerefBody) (a : Val V) : Option Place :=
  match body with
  | .struct b => if b.index < a.fields.length then some ⟨0, b.index⟩ else none
  | .enum arms =>
    match arms[a.variant]?, (variantsOfDeref t)[a.variant]? with
    | some arm, some v =>
      let E := matchArm a.variant (derefNames v) a.fields arm.pat
      (E.look arm.result).map fun (p, _) => ⟨p.variant, p.field⟩
    | _, _ => none

/-- Writing through the reference returned by `deref_mut`. -/
def writeThrough {V : Type} (a : Val V) (p : Place) (x : V) : Val V := ⟨a.variant, a.fields.set p.field x⟩

end Sem
end Educe
