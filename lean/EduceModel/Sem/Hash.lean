import EduceModel.Gen.Hash
/-
  Semantics of the `hash` body: the sequence of data fed to the hasher. What a leaf type feeds is
  an arbitrary list of opaque writes `W`; the variant index is fed as a `usize`.
-/
namespace Educe

inductive Write (W : Type)
  | usize (n : Nat)
  | leaf (w : W)
  deriving Repr, DecidableEq

structure HashOps (V W : Type) where
  hash : Pos → V → List W          -- `<FieldTy as Hash>::hash`
  method : Nat → V → List W        -- user functions named by `method(...)`

namespace Sem

def evalHashStmts {V W : Type} (ops : HashOps V W) (E : Env V) (a : List V) : List HashStmt → Option (List (Write W))
  | [] => some []
  | .builtin r :: rest =>
    match evalRef E a [] r with
    | some (p, x) => (evalHashStmts ops E a rest).map fun ws => (ops.hash p x).map Write.leaf ++ ws
    | none => none
  | .method m r :: rest =>
    match evalRef E a [] r with
    | some (_, x) => (evalHashStmts ops E a rest).map fun ws => (ops.method m x).map Write.leaf ++ ws
    | none => none

def hashNames (v : HashVariant) : List Ident := v.fields.map HashField.name

def evalHash {V W : Type} (ops : HashOps V W) (t : HashType) (body : HashBody) (a : Val V) : Option (List (Write W)) :=
  match body with
  | .struct stmts => evalHashStmts ops [] a.fields stmts
  | .enum arms =>
    if arms.isEmpty then some []
    else match t with
    | .struct _ => none
    | .enum vs =>
      match arms[a.variant]?, vs[a.variant]? with
      | some arm, some v =>
        let E := matchArm a.variant (hashNames v) a.fields arm.pat
        (evalHashStmts ops E [] arm.block).map fun ws => Write.usize arm.index :: ws
      | _, _ => none

end Sem
end Educe
