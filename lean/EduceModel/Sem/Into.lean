import EduceModel.Gen.Into
namespace Educe

structure IntoOps (V : Type) where
  conv : Pos → Nat → V → V       -- `<FieldTy as Into<T>>::into`
  method : Nat → V → V           -- user functions named by `method(...)`

namespace Sem

def intoNames (v : IntoVariant) : List Ident := v.fields.map IntoField.name

def variantsOfInto : IntoType → List IntoVariant
  | .struct v => [v]
  | .enum vs => vs

def applyInto {V : Type} (ops : IntoOps V) (t : Nat) (e : IntoExpr) (p : Pos) (x : V) : V :=
  match e with
  | .method m => ops.method m x
  | .identity => x
  | .into => ops.conv p t x

def evalInto {V : Type} (ops : IntoOps V) (ty : IntoType) (it : IntoItem) (a : Val V) : Option V :=
  match it.body with
  | .struct idx e => (a.fields[idx]?).map fun x => applyInto ops it.target e ⟨0, idx⟩ x
  | .enum arms =>
    match arms[a.variant]?, (variantsOfInto ty)[a.variant]? with
    | some arm, some v =>
      let E := matchArm a.variant (intoNames v) a.fields arm.pat
      (E.look arm.result).map fun (p, x) => applyInto ops it.target arm.expr p x
    | _, _ => none

end Sem
end Educe
