import EduceModel.Gen.PartialEq
/-
  Semantics of the `eq` body. Leaf behaviour is an arbitrary record `EqOps`; trait dispatch of
  `PartialEq::ne(a, b)` is on the static type of `a`, i.e. on the position its binder came from.
-/
namespace Educe

structure EqOps (V : Type) where
  ne : Pos → V → V → Bool          -- `<FieldTy as PartialEq>::ne`
  method : Nat → V → V → Bool      -- user functions named by `method(...)`, left operand first

namespace Sem

/-- Run the `if .. { return false }` chain; `some true` when it falls through to `true`. -/
def evalEqStmts {V : Type} (ops : EqOps V) (E : Env V) (a b : List V) : List EqStmt → Option Bool
  | [] => some true
  | .ifNe r s :: rest =>
    match evalRef E a b r, evalRef E a b s with
    | some (p, x), some (_, y) => if ops.ne p x y then some false else evalEqStmts ops E a b rest
    | _, _ => none
  | .ifNotMethod m r s :: rest =>
    match evalRef E a b r, evalRef E a b s with
    | some (_, x), some (_, y) => if !ops.method m x y then some false else evalEqStmts ops E a b rest
    | _, _ => none

/-- Field names of a variant as declared (used by struct patterns). -/
def eqNames (v : EqVariant) : List Ident := v.fields.map EqField.name

/-- `a == b` as computed by the generated body for type `t`.
    Arms are positional: arm `k` is the arm of variant `k` (variant names are distinct in Rust). -/
def evalEq {V : Type} (ops : EqOps V) (t : EqType) (body : EqBody) (a b : Val V) : Option Bool :=
  match body with
  | .struct stmts => evalEqStmts ops [] a.fields b.fields stmts
  | .enum arms =>
    if arms.isEmpty then some true      -- no `match` is emitted for an enum without variants
    else match t with
    | .struct _ => none
    | .enum vs =>
      match arms[a.variant]?, vs[a.variant]? with
      | some arm, some v =>
        let Es := matchArm a.variant (eqNames v) a.fields arm.selfPat
        if b.variant = a.variant then
          -- `if let Self::V(pattern2) = other { block }`; inner bindings shadow outer ones
          let Eo := matchArm a.variant (eqNames v) b.fields arm.otherPat
          evalEqStmts ops (Eo ++ Es) [] [] arm.block
        else some false
      | _, _ => none

end Sem
end Educe
