import EduceModel.Gen.Ord
/-
  Semantics of the `cmp` / `partial_cmp` bodies. One evaluator for both: a field comparison
  yields `Option Ord3` (`none` = incomparable, never produced in total mode).
-/
namespace Educe

structure OrdOps (V : Type) where
  cmp : Pos → V → V → Ord3                 -- `<FieldTy as Ord>::cmp`
  pcmp : Pos → V → V → Option Ord3         -- `<FieldTy as PartialOrd>::partial_cmp`
  cmpM : Nat → V → V → Ord3                -- user methods for Ord, left operand first
  pcmpM : Nat → V → V → Option Ord3        -- user methods for PartialOrd

def compareInt (a b : Int) : Ord3 := if a < b then .lt else if a = b then .eq else .gt

namespace Sem

def callCmp {V : Type} (ops : OrdOps V) (partial_ : Bool) (f : CmpFn) (p : Pos) (x y : V) : Option Ord3 :=
  match f, partial_ with
  | .builtin, false => some (ops.cmp p x y)
  | .builtin, true => ops.pcmp p x y
  | .method m, false => some (ops.cmpM m x y)
  | .method m, true => ops.pcmpM m x y

/-- Outer `Option`: `none` = an operand did not resolve (ill-scoped code).
    Inner: the returned `Option<Ordering>` (`some _` always in total mode). -/
def evalCmpStmts {V : Type} (ops : OrdOps V) (partial_ : Bool) (E : Env V) (a b : List V) :
    List CmpStmt → Option (Option Ord3)
  | [] => some (some .eq)
  | s :: rest =>
    match evalRef E a b s.a, evalRef E a b s.b with
    | some (p, x), some (_, y) =>
      match callCmp ops partial_ s.f p x y with
      | some .eq => evalCmpStmts ops partial_ E a b rest
      | r => some r
    | _, _ => none

def ordNames (v : OrdVariant) : List Ident := v.fields.map OrdField.name

def evalDisc (d : DiscArm) : Int := d.base.getD 0 + d.offset

def evalCmp {V : Type} (ops : OrdOps V) (partial_ : Bool) (t : OrdType) (body : CmpBody) (a b : Val V) :
    Option (Option Ord3) :=
  match body with
  | .struct stmts => evalCmpStmts ops partial_ [] a.fields b.fields stmts
  | .enum discs allUnit arms =>
    if arms.isEmpty then some (some .eq)
    else match t with
    | .struct _ => none
    | .enum vs =>
      match discs[a.variant]?, discs[b.variant]? with
      | some da, some db =>
        match compareInt (evalDisc da) (evalDisc db) with
        | .lt => some (some .lt)
        | .gt => some (some .gt)
        | .eq =>
          if allUnit then some (some .eq)
          else match arms[a.variant]?, vs[a.variant]? with
            | some arm, some v =>
              if arm.isUnit then some (some .eq)
              else
                let Es := matchArm a.variant (ordNames v) a.fields arm.selfPat
                if b.variant = a.variant then
                  let Eo := matchArm a.variant (ordNames v) b.fields arm.otherPat
                  evalCmpStmts ops partial_ (Eo ++ Es) [] [] arm.block
                else some (some .eq)      -- `if let` fails, falls through to `Equal`
            | _, _ => none
      | _, _ => none

end Sem
end Educe
