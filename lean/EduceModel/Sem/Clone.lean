import EduceModel.Gen.Clone
/-
  Semantics of the `clone` / `clone_from` bodies.
-/
namespace Educe

structure CloneOps (V : Type) where
  clone : Pos → V → V              -- `<FieldTy as Clone>::clone`
  cloneFrom : Pos → V → V → V      -- `<FieldTy as Clone>::clone_from(dst, src)`: the new `dst`
  method : Nat → V → V             -- user functions named by `method(...)`

namespace Sem

def evalCloneExpr {V : Type} (ops : CloneOps V) (E : Env V) (a : List V) : CloneExpr → Option V
  | .builtin r => (evalRef E a [] r).map fun (p, x) => ops.clone p x
  | .method m r => (evalRef E a [] r).map fun (_, x) => ops.method m x

def evalCloneExprs {V : Type} (ops : CloneOps V) (E : Env V) (a : List V) : List CloneExpr → Option (List V)
  | [] => some []
  | e :: es =>
    match evalCloneExpr ops E a e, evalCloneExprs ops E a es with
    | some v, some vs => some (v :: vs)
    | _, _ => none

/-- One `clone_from` statement: which field of `self` it overwrites and with what. The destination
    operands of one body are disjoint `&mut` borrows, so each reads the original field value. -/
def evalCFStmt {V : Type} (ops : CloneOps V) (E : Env V) (self src : List V) : CFStmt → Option (Nat × V)
  | .builtin d s =>
    match evalRef E self src d, evalRef E self src s with
    | some (p, x), some (_, y) => some (p.field, ops.cloneFrom p x y)
    | _, _ => none
  | .assign d m s =>
    match evalRef E self src d, evalRef E self src s with
    | some (p, _), some (_, y) => some (p.field, ops.method m y)
    | _, _ => none

def evalCFStmts {V : Type} (ops : CloneOps V) (E : Env V) (self src : List V) : List CFStmt → Option (List (Nat × V))
  | [] => some []
  | s :: ss =>
    match evalCFStmt ops E self src s, evalCFStmts ops E self src ss with
    | some u, some us => some (u :: us)
    | _, _ => none

def applyUpdates {V : Type} (fields : List V) : List (Nat × V) → List V
  | [] => fields
  | (i, v) :: us => applyUpdates (fields.set i v) us

def cloneNames (v : CloneVariant) : List Ident := v.fields.map CloneField.name

def evalClone {V : Type} (ops : CloneOps V) (t : CloneType) (body : CloneBody) (a : Val V) : Option (Val V) :=
  match body with
  | .copySelf => some a
  | .struct es _ => (evalCloneExprs ops [] a.fields es).map fun fs => ⟨a.variant, fs⟩
  | .enum arms =>
    match t with
    | .enum vs =>
      match arms[a.variant]?, vs[a.variant]? with
      | some arm, some v =>
        let E := matchArm a.variant (cloneNames v) a.fields arm.srcPat
        (evalCloneExprs ops E [] arm.fields).map fun fs => ⟨a.variant, fs⟩
      | _, _ => none
    | _ => none

/-- `a.clone_from(&b)`: the new value of `a`. -/
def evalCloneFrom {V : Type} (ops : CloneOps V) (t : CloneType) (body : CloneBody) (a b : Val V) : Option (Val V) :=
  match body with
  | .copySelf => some b                    -- default `clone_from`: `*self = source.clone()`, and `clone` is `*source`
  | .struct _ cf =>
    (evalCFStmts ops [] a.fields b.fields cf).map fun us => ⟨a.variant, applyUpdates a.fields us⟩
  | .enum arms =>
    match t with
    | .enum vs =>
      match arms[a.variant]?, vs[a.variant]? with
      | some arm, some v =>
        if b.variant = a.variant then
          let Ed := matchArm a.variant (cloneNames v) a.fields arm.dstPat
          let Es := matchArm a.variant (cloneNames v) b.fields arm.cfSrcPat
          (evalCFStmts ops (Es ++ Ed) [] [] arm.cfBlock).map fun us => ⟨a.variant, applyUpdates a.fields us⟩
        else evalClone ops t body b        -- `*self = Clone::clone(source)`
      | _, _ => none
    | _ => none

end Sem
end Educe
