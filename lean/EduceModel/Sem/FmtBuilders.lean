/-
  Model of `core::fmt`'s `DebugStruct`, `DebugTuple`, `DebugMap` and `PadAdapter`, in compact
  (`{:?}`) and alternate (`{:#?}`) mode. A value's own `Debug` is a function of the alternate flag.
  Validated against std by the C06 correspondence runs (it is on both sides of the C06 theorem,
  but not of the diff against the real output).
-/
namespace Educe.Fmt

/-- `PadAdapter`: four spaces after every newline (state = "at start of line"). -/
def padChars : Bool → List Char → List Char
  | _, [] => []
  | onNl, c :: cs => (if onNl then [' ', ' ', ' ', ' '] else []) ++ c :: padChars (c == '\n') cs

def pad (s : String) : String := String.ofList (padChars true s.toList)

/-- How a value prints, by alternate flag. -/
abbrev Out := Bool → String

def debugStruct (name : String) (fields : List (String × Out)) (alt : Bool) : String :=
  match fields with
  | [] => name
  | _ =>
    if alt then
      name ++ " {\n" ++ String.join (fields.map fun (k, v) => pad (k ++ ": " ++ v true ++ ",\n")) ++ "}"
    else
      name ++ " { " ++ ", ".intercalate (fields.map fun (k, v) => k ++ ": " ++ v false) ++ " }"

def debugTuple (name : String) (fields : List Out) (alt : Bool) : String :=
  match fields with
  | [] => name
  | _ =>
    if alt then
      name ++ "(\n" ++ String.join (fields.map fun v => pad (v true ++ ",\n")) ++ ")"
    else
      name ++ "(" ++ ", ".intercalate (fields.map fun v => v false)
        ++ (if fields.length == 1 && name.isEmpty then "," else "") ++ ")"

/-- `DebugMap` with keys printed raw (the generated `Educe__RawString` wrapper). -/
def debugMap (entries : List (String × Out)) (alt : Bool) : String :=
  match entries with
  | [] => "{}"
  | _ =>
    if alt then
      "{\n" ++ String.join (entries.map fun (k, v) => pad (k ++ ": " ++ v true ++ ",\n")) ++ "}"
    else
      "{" ++ ", ".intercalate (entries.map fun (k, v) => k ++ ": " ++ v false) ++ "}"

/-- `DebugList` (what a slice prints as). -/
def debugList (items : List Out) (alt : Bool) : String :=
  match items with
  | [] => "[]"
  | _ =>
    if alt then "[\n" ++ String.join (items.map fun v => pad (v true ++ ",\n")) ++ "]"
    else "[" ++ ", ".intercalate (items.map fun v => v false) ++ "]"

end Educe.Fmt
