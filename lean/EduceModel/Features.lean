/-! Feature-gate conditions (`#[cfg(..)]`) as propositional formulas over cfg variables.
    A configuration is a bit mask: variable `i` is on iff bit `i` of the mask is set. -/
namespace Educe.Features

inductive Cond where
  | tt | ff
  | var (i : Nat)
  | not (c : Cond)
  | and (a b : Cond)
  | or (a b : Cond)
  deriving Repr, DecidableEq, Inhabited

def Cond.eval (m : Nat) : Cond → Bool
  | .tt => true
  | .ff => false
  | .var i => m.testBit i
  | .not c => !(c.eval m)
  | .and a b => a.eval m && b.eval m
  | .or a b => a.eval m || b.eval m

/-- every obligation holds in configuration `m` -/
def obligationsHold (obs : List (Cond × Cond)) (m : Nat) : Bool :=
  obs.all fun o => !(o.1.eval m) || o.2.eval m

/-- every listed gated module has an enabled user whenever it is compiled -/
def modulesUsed (mods : List (String × Cond × List Cond)) (m : Nat) : Bool :=
  mods.all fun x => !(x.2.1.eval m) || x.2.2.any (·.eval m)

def allConfigs (n : Nat) (p : Nat → Bool) : Bool := (List.range (2 ^ n)).all p

theorem allConfigs_spec {n : Nat} {p : Nat → Bool} (h : allConfigs n p = true) :
    ∀ m, m < 2 ^ n → p m = true := by
  intro m hm
  unfold allConfigs at h
  rw [List.all_eq_true] at h
  exact h m (List.mem_range.mpr hm)

end Educe.Features
