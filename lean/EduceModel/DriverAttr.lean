import Lean.Data.Json
import EduceModel.Expand
import EduceModel.Attr.ListParse
/-
  JSON (vtool's oracle records) → `Attr.DeriveInput`, and the `expand` request of the driver.
-/
open Lean Educe Educe.Attr

namespace DA

def str (j : Json) : String := (j.getStr?).toOption.getD ""
def nat (j : Json) : Nat := (j.getNat?).toOption.getD 0
def bool (j : Json) : Bool := (j.getBool?).toOption.getD false
def arr (j : Json) : List Json := ((j.getArr?).toOption.getD #[]).toList
def fld (j : Json) (k : String) : Json := (j.getObjVal? k).toOption.getD Json.null
def opt (j : Json) : Option Json := if j.isNull then none else some j
def optStr (j : Json) : Option String := (opt j).map str
def optInt (j : Json) : Option Int := (opt j).bind fun x => (str x).toInt?

partial def tyTree (j : Json) : Ty :=
  let k := str (fld j "k")
  let kind : TyKind := if k == "path" then .path else if k == "ref" then .ref else if k == "array" then .array
                       else if k == "group" then .group else .other
  .mk kind (str (fld j "t")) ((opt (fld j "c")).map tyTree)

def lit (j : Json) : LitV :=
  let k := str (fld j "k")
  if k == "bool" then .bool (bool (fld j "b"))
  else if k == "str" then
    .str { asIdent := optStr (fld j "ident"), asPath := optStr (fld j "path"),
           asPreds := (opt (fld j "preds")).map fun p => (arr p).map str,
           asIsize := optInt (fld j "isize"), isEmpty := bool (fld j "empty") }
  else if k == "int" then .int (optInt (fld j "isize")) (str (fld j "suffix"))
  else if k == "float" then .float (str (fld j "suffix"))
  else if k == "char" then .char
  else if k == "byte" then .byte
  else if k == "bytestr" then .byteStr
  else .other

def isLitKind (k : String) : Bool :=
  ["bool", "str", "int", "float", "char", "byte", "bytestr", "otherlit"].contains k

def val (j : Json) : Val :=
  let k := str (fld j "k")
  let tok : ValTok :=
    if isLitKind k then .lit (lit j)
    else if k == "ident" then .ident (str (fld j "i"))
    else if k == "path" then .path
    else if k == "neg" then .neg (optInt (fld j "isize"))
    else if k == "star" then .star
    else if k == "preds" then .preds ((arr (fld j "preds")).map str)
    else if k == "expr" then .expr
    else if k == "empty" then .empty
    else if k == "lit_ident" then .litIdent (lit (fld j "lit")) (str (fld j "i"))
    else .bad
  { tok := tok, text := str (fld j "t"), exprLit := (opt (fld j "exprlit")).map lit }

def form (j : Json) : Form :=
  let f := str (fld j "form")
  if f == "nv" then .nv (val (fld j "v")) else if f == "list" then .list (val (fld j "v")) else .path

def param (j : Json) : Param :=
  { ident := optStr (fld j "ident"), pathStr := str (fld j "path"), form := form j }

def params (j : Json) : List Param := (arr j).map param

def seg (j : Json) : Seg :=
  let k := str (fld j "k")
  if k == "comma" then .comma
  else if k == "unsafe" then .kwUnsafe
  else if k == "unsafe_meta" then .unsafeItem (param (fld j "m"))
  else if k == "meta" then .item (param (fld j "m")) ((opt (fld j "as_type")).map tyTree)
  else if k == "type" then .ty (tyTree (fld j "t"))
  else .other

/-- The three readings of `Trait( .. )` are computed by the model of educe's list parsers (`Attr/ListParse.lean`) from
    the elements of the list; the serializer only cuts the list into elements with syn's `Meta` / `Type` parsers. -/
def listForm (j : Json) : MetaForm :=
  let segs := (arr (fld j "segs")).map seg
  let head : Option (Ty × List Seg) := (opt (fld j "head_type")).map fun h => (tyTree (fld h "t"), (arr (fld h "rest")).map seg)
  .list (parseTerminated segs) (parseUnsafe segs) ((parseTyped head).map fun (t, ps) => (t.hashTy, ps))

def traitMeta (j : Json) : TraitMeta :=
  let f := str (fld j "form")
  let mf : MetaForm :=
    if f == "nv" then .nv (val (fld j "v"))
    else if f == "list" && (opt (fld j "segs")).isSome then listForm j
    else if f == "list" then
      .list ((opt (fld j "plain")).map params)
            ((opt (fld j "unsafe")).map fun u => (bool (fld u "has"), params (fld u "params")))
            ((opt (fld j "typed")).map fun t =>
              ((match opt (fld t "ty_tree") with | some tt => (tyTree tt).hashTy | none => str (fld t "ty")), params (fld t "params")))
    else .path
  { ident := optStr (fld j "ident"), pathStr := str (fld j "path"), raw := str (fld j "raw"), form := mf }

def attr (j : Json) : Attribute :=
  { isEduce := bool (fld j "educe"), isRepr := bool (fld j "repr"), isList := bool (fld j "list"),
    metas := (opt (fld j "metas")).map fun m => (arr m).map traitMeta,
    reprOk := (opt (fld j "repr_ok")).map bool |>.getD true,
    reprIdents := (arr (fld j "repr_idents")).map str }

partial def tyShape (j : Json) : TyShape :=
  let k := str (fld j "k")
  if k == "path" then .path (str (fld j "s"))
  else if k == "ref" then .refTo (tyShape (fld j "inner"))
  else if k == "array" then .arrayOf (tyShape (fld j "elem"))
  else .other

/-- The type views of a field (`hashTy`, `isRef`, `derefTy`, `shape`) are computed by the model of educe's type helpers
    (`Ty.hashTy`, `Ty.isRef`, `Ty.dereference`, `Ty.shape`) from the type's tree; the serializer only prints the nodes. -/
def field (j : Json) : Field :=
  let base : Field := { name := optStr (fld j "name"), attrs := (arr (fld j "attrs")).map attr }
  match opt (fld j "ty_tree") with
  | some t => base.withTy (tyTree t)
  | none => { base with ty := str (fld j "ty"), hashTy := str (fld j "hash_ty"), isRef := bool (fld j "is_ref"),
                        derefTy := str (fld j "deref_ty"), shape := tyShape (fld j "tyshape") }

def shape (s : String) : Shape := if s == "tuple" then .tuple else if s == "named" then .named else .unit

def variant (j : Json) : Variant :=
  { name := str (fld j "name"), shape := shape (str (fld j "shape")), fields := (arr (fld j "fields")).map field,
    attrs := (arr (fld j "attrs")).map attr, disc := optStr (fld j "disc") }

def deriveInput (j : Json) : DeriveInput :=
  let g := fld j "generics"
  let k := str (fld j "kind")
  { name := str (fld j "name"),
    kind := if k == "enum" then .enum else if k == "union" then .union else .struct,
    generics := { params := (arr (fld g "params")).map fun p =>
                    (let kk := str (fld p "kind"); if kk == "lifetime" then GKind.lifetime else if kk == "const" then .const else .type,
                     str (fld p "name")),
                  implParams := (arr (fld g "impl_params")).map str, tyGenerics := str (fld g "ty_generics"),
                  whereC := (arr (fld g "where")).map str },
    attrs := (arr (fld j "attrs")).map attr,
    variants := (arr (fld j "variants")).map variant }

def features (j : Json) : Features :=
  match opt j with
  | none => TraitId.all
  | some a => TraitId.all.filter fun t => (arr a).any fun x => str x == t.name

def showDiag (d : Diag) : String := (reprStr d).replace "Educe.Attr.Diag." ""
def showSite (s : PanicSite) : String := (reprStr s).replace "Educe.Attr.PanicSite." ""

def showShape : Shape → String | .unit => "unit" | .tuple => "tuple" | .named => "named"

def itemJson (it : Item) : Json :=
  Json.mkObj [("trait", it.trait), ("preds", Json.arr (it.preds.toArray.map Json.str)),
    ("digest", Json.str (toString (repr (it.head, it.variants.map fun (a, b, c, d) => (a, showShape b, c, d))))),
    ("head", Json.arr (it.head.toArray.map Json.str)),
    ("variants", Json.arr (it.variants.toArray.map fun (a, b, c, d) =>
      Json.mkObj [("name", a), ("shape", showShape b), ("cfg", Json.arr (c.toArray.map Json.str)),
                  ("fields", Json.arr (d.toArray.map fun f => Json.arr (f.toArray.map Json.str)))]))]

/-- ["expand", id, record, features?] → ["expand", id, outcome, [items]] -/
def handleExpand (a : Array Json) : Json :=
  let d := deriveInput a[2]!
  let F := features (a[3]?.getD Json.null)
  match expand F d with
  | .ok items => Json.arr #["expand", a[1]!, "ok", Json.arr (items.toArray.map itemJson)]
  | .diag e => Json.arr #["expand", a[1]!, Json.str ("diag:" ++ showDiag e), Json.arr #[]]
  | .panic s => Json.arr #["expand", a[1]!, Json.str ("panic:" ++ showSite s), Json.arr #[]]

end DA
