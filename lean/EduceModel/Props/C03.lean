import EduceModel.Lemmas.CmpLemmas
import EduceModel.Generated.Templates
/-
  C03 — ordering is lexicographic over non-ignored fields in rank order.
  (C04, the cross-variant half of the same generated body, is in Props/C04.lean.)
-/
namespace Educe
open Gen.Ord

def OrdVariant.WF (v : OrdVariant) : Prop :=
  (v.shape = .named → (v.fields.map OrdField.name).Nodup) ∧ (v.shape = .unit → v.fields = [])

def OrdType.WF : OrdType → Prop
  | .struct v => v.WF
  | .enum vs => ∀ v ∈ vs, v.WF

def OrdType.Inhabits {V : Type} (t : OrdType) (a : Val V) : Prop :=
  ∃ v, (Spec.variantsOf t)[a.variant]? = some v ∧ a.fields.length = v.fields.length

/-- The visiting order of the generated code is the reference order: the BTreeMap model iterates
    the non-ignored fields in ascending rank (explicit, else `isize::MIN + index`). -/
theorem visit_order_is_rank_order (cs : List OrdField) (r : Ranked)
    (h : rankFields 0 cs [] = some r) : r.map Prod.snd = Spec.visitOrder cs :=
  rankFields_eq_visitOrder cs r h

/-- The generator refuses (duplicate-rank diagnostic) exactly when two non-ignored fields share
    a rank; when it accepts, ranks are pairwise distinct. -/
theorem accepted_ranks_distinct (cs : List OrdField) (r : Ranked)
    (h : rankFields 0 cs [] = some r) :
    (Spec.visitOrder cs).Pairwise fun p q => Spec.rankOf p.1 p.2 < Spec.rankOf q.1 q.2 := by
  obtain ⟨hs, hp⟩ := rankFields_spec cs 0 [] r (by simp [KeySorted]) h
  rw [← rankFields_eq_visitOrder cs r h, List.pairwise_map]
  refine List.Pairwise.imp_of_mem ?_ hs
  intro a b ha hb hab
  have ka := expectedEntries_key cs 0 a (by simpa using hp.subset ha)
  have kb := expectedEntries_key cs 0 b (by simpa using hp.subset hb)
  rw [← ka, ← kb]; exact hab

theorem cmp_arm_correct {V : Type} (ops : OrdOps V) (p : Bool) (k : Nat) (v : OrdVariant) (hv : v.WF)
    (a : CmpArm) (ha : arm v = some a) (hnu : v.shape ≠ .unit)
    (xs ys : List V) (hx : xs.length = v.fields.length) (hy : ys.length = v.fields.length) :
    Sem.evalCmpStmts ops p
        (matchArm k (Sem.ordNames v) ys a.otherPat ++ matchArm k (Sem.ordNames v) xs a.selfPat)
        [] [] a.block
      = some (Spec.lexCmp ops p k xs ys (Spec.visitOrder v.fields)) := by
  unfold arm at ha
  cases hsh : v.shape with
  | unit => exact absurd hsh hnu
  | tuple =>
    simp only [hsh] at ha
    cases hr : rankFields 0 v.fields [] with
    | none => simp [hr] at ha
    | some r =>
      simp [hr] at ha; subst ha
      simp only [matchArm]
      rw [matchTuple_eq_envOf, matchTuple_eq_envOf, ← rankFields_eq_visitOrder v.fields r hr]
      apply evalCmpStmts_arm ops p _ k bindTupSelf bindTupOther v.fields xs ys hx hy ?_ r
        (rankFields_mem v.fields r hr)
      apply envOK_of_envOf _ OrdField.ignore
      · intro j₁ j₂ c₁ c₂ x _ _ h1 h2
        unfold bindTupSelf at h1 h2
        split at h1 <;> split at h2 <;> simp_all
        have := tupSelf_inj (h1.trans h2.symm); omega
      · intro j₁ j₂ c₁ c₂ x _ _ h1 h2
        unfold bindTupOther at h1 h2
        split at h1 <;> split at h2 <;> simp_all
        have := tupOther_inj (h1.trans h2.symm); omega
      · intro j₁ j₂ c₁ c₂ x h1 h2
        unfold bindTupSelf at h1; unfold bindTupOther at h2
        split at h1 <;> split at h2 <;> simp_all
        exact tupSelf_ne_tupOther j₁ j₂ (h1.trans h2.symm)
      · intro j c h; simp [bindTupSelf, bindTupOther, h]
  | named =>
    simp only [hsh] at ha
    have hnd := hv.1 hsh
    cases hr : rankFields 0 v.fields [] with
    | none => simp [hr] at ha
    | some r =>
      simp [hr] at ha; subst ha
      simp only [matchArm, Sem.ordNames]
      rw [matchNamed_eq_envOf k OrdField.name bindNamedSelf v.fields xs hnd hx,
          matchNamed_eq_envOf k OrdField.name bindNamedOther v.fields ys hnd hy,
          ← rankFields_eq_visitOrder v.fields r hr]
      apply evalCmpStmts_arm ops p _ k bindNamedSelf bindNamedOther v.fields xs ys hx hy ?_ r
        (rankFields_mem v.fields r hr)
      apply envOK_of_envOf _ OrdField.ignore
      · intro j₁ j₂ c₁ c₂ x g1 g2 h1 h2
        unfold bindNamedSelf at h1 h2
        split at h1 <;> split at h2 <;> simp_all
        exact nodup_map_index OrdField.name v.fields j₁ j₂ c₁ c₂ hnd g1 g2 (namedSelf_inj (h1.trans h2.symm))
      · intro j₁ j₂ c₁ c₂ x g1 g2 h1 h2
        unfold bindNamedOther at h1 h2
        split at h1 <;> split at h2 <;> simp_all
        exact nodup_map_index OrdField.name v.fields j₁ j₂ c₁ c₂ hnd g1 g2 (namedOther_inj (h1.trans h2.symm))
      · intro j₁ j₂ c₁ c₂ x h1 h2
        unfold bindNamedSelf at h1; unfold bindNamedOther at h2
        split at h1 <;> split at h2 <;> simp_all
        exact namedSelf_ne_namedOther _ _ (h1.trans h2.symm)
      · intro j c h; simp [bindNamedSelf, bindNamedOther, h]

theorem visitOrder_nil : Spec.visitOrder [] = [] := by
  simp [Spec.visitOrder, Spec.indexed]

theorem discValues_length : ∀ (vs : List OrdVariant) (n : Int), (Spec.discValues n vs).length = vs.length := by
  intro vs
  induction vs with
  | nil => intro n; simp [Spec.discValues]
  | cons v vs ih => intro n; simp only [Spec.discValues]; cases v.disc <;> simp [ih]

/-- **C03/C04, main theorem.** Whenever the generator accepts (no duplicate rank), for every
    leaf behaviour, both result types (`partial_ = false`: `cmp`, `true`: `partial_cmp`) and every
    pair of values: the body evaluates (all binders resolve) and returns the reference result —
    different variants by declared discriminant, same variant by the first non-Equal field in
    ascending rank, `None` when an incomparable field comes first. -/
theorem cmp_correct {V : Type} (ops : OrdOps V) (p : Bool) (t : OrdType) (ht : t.WF)
    (bd : CmpBody) (hbd : body t = some bd)
    (a b : Val V) (ha : t.Inhabits a) (hb : t.Inhabits b) :
    Sem.evalCmp ops p t bd a b = some (Spec.cmp ops p t a b) := by
  obtain ⟨va, hva, hla⟩ := ha
  obtain ⟨vb, hvb, hlb⟩ := hb
  cases t with
  | struct v =>
    simp only [Spec.variantsOf] at hva hvb
    have ha0 : a.variant = 0 := by
      cases h : a.variant with
      | zero => rfl
      | succ n => rw [h] at hva; simp at hva
    have hb0 : b.variant = 0 := by
      cases h : b.variant with
      | zero => rfl
      | succ n => rw [h] at hvb; simp at hvb
    rw [ha0] at hva; rw [hb0] at hvb
    simp at hva hvb; subst hva; subst hvb
    simp only [body] at hbd
    cases hr : rankFields 0 v.fields [] with
    | none => simp [hr] at hbd
    | some r =>
      simp [hr] at hbd; subst hbd
      simp only [Sem.evalCmp, Spec.cmp, ha0, hb0, Spec.variantsOf, List.getElem?_cons_zero, if_true]
      rw [evalCmpStmts_struct ops p a.fields b.fields r ?_, rankFields_eq_visitOrder v.fields r hr]
      intro e he
      have := (rankFields_mem v.fields r hr e he).1
      have := (List.getElem?_eq_some_iff.mp this).1
      omega
  | enum vs =>
    obtain ⟨ka, xs⟩ := a
    obtain ⟨kb, ys⟩ := b
    simp only [Spec.variantsOf] at hva hvb
    simp only at hla hlb
    simp only [body] at hbd
    cases has : arms vs with
    | none => simp [has] at hbd
    | some as =>
      simp [has] at hbd; subst hbd
      obtain ⟨hlen, hget⟩ := cmp_arms_get vs as has
      have hka : ka < vs.length := (List.getElem?_eq_some_iff.mp hva).1
      have hkb : kb < vs.length := (List.getElem?_eq_some_iff.mp hvb).1
      have hne : as.isEmpty = false := by
        cases as with
        | nil => simp at hlen; omega
        | cons _ _ => rfl
      have hdm : (discArms none 0 vs).map Sem.evalDisc = Spec.discValues 0 vs := by
        have := evalDisc_discArms vs none 0
        simpa using this
      have hdl : (discArms none 0 vs).length = vs.length := by
        have h1 := congrArg List.length hdm
        simp only [List.length_map] at h1
        rw [h1]
        exact discValues_length vs 0
      obtain ⟨da, hda⟩ : ∃ d, (discArms none 0 vs)[ka]? = some d :=
        ⟨_, List.getElem?_eq_getElem (by omega)⟩
      obtain ⟨db, hdb⟩ : ∃ d, (discArms none 0 vs)[kb]? = some d :=
        ⟨_, List.getElem?_eq_getElem (by omega)⟩
      have hva' : (Spec.discValues 0 vs)[ka]? = some (Sem.evalDisc da) := by
        rw [← hdm, List.getElem?_map, hda]; rfl
      have hvb' : (Spec.discValues 0 vs)[kb]? = some (Sem.evalDisc db) := by
        rw [← hdm, List.getElem?_map, hdb]; rfl
      obtain ⟨arma, harma, hasa⟩ := hget ka va hva
      simp only [Sem.evalCmp, hne, hda, hdb, hasa, hva, Spec.cmp, Spec.variantsOf, hva', hvb']
      by_cases hab : ka = kb
      · -- same variant
        subst hab
        have hvb2 : vb = va := by rw [hva] at hvb; exact (Option.some.inj hvb).symm
        subst hvb2
        have hdab : db = da := by rw [hda] at hdb; exact (Option.some.inj hdb).symm
        subst hdab
        have hmem : vb ∈ vs := List.mem_of_getElem? hva
        have hwf := ht vb hmem
        have hcmp : compareInt (Sem.evalDisc db) (Sem.evalDisc db) = .eq := by
          simp [compareInt]
        simp only [hcmp, if_true, hva]
        by_cases hu : vb.shape = .unit
        · have hf := hwf.2 hu
          have harm_unit : arma.isUnit = true := by
            unfold arm at harma; simp [hu] at harma; subst harma; rfl
          simp [hf, visitOrder_nil, Spec.lexCmp, harm_unit]
        · have hall : (vs.all fun v => v.shape == .unit) = false := by
            rw [List.all_eq_false]
            exact ⟨vb, hmem, by simpa using hu⟩
          have harm_nu : arma.isUnit = false := by
            unfold arm at harma
            cases hsh : vb.shape with
            | unit => exact absurd hsh hu
            | tuple =>
              simp only [hsh] at harma
              cases hr : rankFields 0 vb.fields [] <;> simp [hr] at harma
              subst harma; rfl
            | named =>
              simp only [hsh] at harma
              cases hr : rankFields 0 vb.fields [] <;> simp [hr] at harma
              subst harma; rfl
          simp only [hall, harm_nu, Bool.false_eq_true, if_false, if_true]
          exact cmp_arm_correct ops p ka vb hwf arma harma hu xs ys hla hlb
      · -- different variants: the discriminants decide; on a tie every path returns `Equal`
        simp only [hab, if_false]
        cases hc : compareInt (Sem.evalDisc da) (Sem.evalDisc db) with
        | lt => rfl
        | gt => rfl
        | eq =>
          simp only
          split
          · rfl
          · split
            · rfl
            · have : ¬ kb = ka := fun h => hab h.symm
              simp [this]

/-- When both Ord and PartialOrd are educed, the Ord handler emits
    `partial_cmp(a, b) = Some(Ord::cmp(a, b))`: by construction `partial_cmp = Some ∘ cmp`. -/
def Sem.evalCompanionPartialCmp {V : Type} (ops : OrdOps V) (t : OrdType) (bd : CmpBody) (a b : Val V) :
    Option (Option Ord3) :=
  Sem.evalCmp ops false t bd a b        -- `Some(Ord::cmp(self, other))`; the inner option is the `Some`

theorem both_educed_partial_cmp_is_some_cmp {V : Type} (ops : OrdOps V) (t : OrdType) (ht : t.WF)
    (bd : CmpBody) (hbd : body t = some bd)
    (a b : Val V) (ha : t.Inhabits a) (hb : t.Inhabits b) :
    Sem.evalCompanionPartialCmp ops t bd a b = some (Spec.cmp ops false t a b) ∧
      (Spec.cmp ops false t a b).isSome = true := by
  refine ⟨cmp_correct ops false t ht bd hbd a b ha hb, ?_⟩
  -- total mode never yields `None`
  have hlex : ∀ (k : Nat) (xs ys : List V) (l : List (Nat × OrdField)),
      (Spec.lexCmp ops false k xs ys l).isSome = true := by
    intro k xs ys l
    induction l with
    | nil => simp [Spec.lexCmp]
    | cons e l ih =>
      obtain ⟨i, c⟩ := e
      simp only [Spec.lexCmp]
      split
      · unfold Spec.fieldCmp
        cases c.method <;> simp only <;> split <;> simp_all
      · rfl
  unfold Spec.cmp
  split
  · split
    · exact hlex _ _ _ _
    · rfl
  · simp only; split <;> rfl

/-! ### Total-order laws of the reference comparison within one variant -/

def flip3 : Ord3 → Ord3 | .lt => .gt | .eq => .eq | .gt => .lt

/-- Antisymmetry: if each compared leaf comparison is antisymmetric (`cmp y x = flip (cmp x y)`),
    so is the lexicographic comparison. -/
theorem lexCmp_antisymm {V : Type} (ops : OrdOps V) (k : Nat) (xs ys : List V) :
    ∀ (l : List (Nat × OrdField)),
      (∀ e ∈ l, ∀ x y, Spec.fieldCmp ops false k e.1 e.2 y x = (Spec.fieldCmp ops false k e.1 e.2 x y).map flip3) →
      Spec.lexCmp ops false k ys xs l = (Spec.lexCmp ops false k xs ys l).map flip3 := by
  intro l
  induction l with
  | nil => intro _; simp [Spec.lexCmp, flip3]
  | cons e l ih =>
    intro h
    obtain ⟨i, c⟩ := e
    have ih' := ih (fun e he => h e (by simp [he]))
    simp only [Spec.lexCmp]
    cases hx : xs[i]? <;> cases hy : ys[i]? <;> simp only [Option.map_some, flip3]
    rename_i x y
    have := h (i, c) (by simp) x y
    simp only at this
    rw [this]
    cases hf : Spec.fieldCmp ops false k i c x y with
    | none => simp
    | some o => cases o <;> simp [flip3, ih']

/-- Reflexivity: `cmp(a, a) = Equal` when every compared leaf is reflexive. -/
theorem lexCmp_refl {V : Type} (ops : OrdOps V) (k : Nat) (xs : List V) :
    ∀ (l : List (Nat × OrdField)),
      (∀ e ∈ l, ∀ x, Spec.fieldCmp ops false k e.1 e.2 x x = some .eq) →
      Spec.lexCmp ops false k xs xs l = some .eq := by
  intro l
  induction l with
  | nil => intro _; simp [Spec.lexCmp]
  | cons e l ih =>
    intro h
    obtain ⟨i, c⟩ := e
    simp only [Spec.lexCmp]
    cases hx : xs[i]? with
    | none => rfl
    | some x =>
      simp only
      rw [h (i, c) (by simp) x]
      exact ih (fun e he => h e (by simp [he]))

/-- Transitivity of `Less` (and of `Equal`) when every compared leaf is a lawful total order. -/
theorem lexCmp_trans {V : Type} (ops : OrdOps V) (k : Nat) (xs ys zs : List V) :
    ∀ (l : List (Nat × OrdField)),
      (∀ e ∈ l, ∃ x y z, xs[e.1]? = some x ∧ ys[e.1]? = some y ∧ zs[e.1]? = some z) →
      (∀ e ∈ l, ∀ x y z o, Spec.fieldCmp ops false k e.1 e.2 x y = some o →
          Spec.fieldCmp ops false k e.1 e.2 y z = some o → Spec.fieldCmp ops false k e.1 e.2 x z = some o) →
      (∀ e ∈ l, ∀ x y z o, Spec.fieldCmp ops false k e.1 e.2 x y = some .eq →
          Spec.fieldCmp ops false k e.1 e.2 y z = some o → Spec.fieldCmp ops false k e.1 e.2 x z = some o) →
      (∀ e ∈ l, ∀ x y z o, Spec.fieldCmp ops false k e.1 e.2 x y = some o →
          Spec.fieldCmp ops false k e.1 e.2 y z = some .eq → Spec.fieldCmp ops false k e.1 e.2 x z = some o) →
      ∀ o, Spec.lexCmp ops false k xs ys l = some o → Spec.lexCmp ops false k ys zs l = some o →
        Spec.lexCmp ops false k xs zs l = some o := by
  intro l
  induction l with
  | nil => intro _ _ _ _ o h1 _; simpa [Spec.lexCmp] using h1
  | cons e l ih =>
    intro hin htr hel her o h1 h2
    obtain ⟨i, c⟩ := e
    obtain ⟨x, y, z, hx, hy, hz⟩ := hin (i, c) (by simp)
    simp only at hx hy hz
    have ih' := ih (fun e he => hin e (by simp [he])) (fun e he => htr e (by simp [he]))
      (fun e he => hel e (by simp [he])) (fun e he => her e (by simp [he])) o
    simp only [Spec.lexCmp, hx, hy, hz] at h1 h2 ⊢
    have T := htr (i, c) (by simp) x y z
    have EL := hel (i, c) (by simp) x y z
    have ER := her (i, c) (by simp) x y z
    simp only at T EL ER
    cases hxy : Spec.fieldCmp ops false k i c x y with
    | none => simp [hxy] at h1
    | some o1 =>
      cases hyz : Spec.fieldCmp ops false k i c y z with
      | none => simp [hyz] at h2
      | some o2 =>
        rw [hxy] at h1; rw [hyz] at h2
        cases o1 <;> cases o2 <;> simp only at h1 h2 <;>
          first
          | (have e1 := Option.some.inj h1; have e2 := Option.some.inj h2; subst e1
             first
             | (rw [T _ hxy hyz])
             | (exact absurd e2 (by decide)))
          | (have e1 := Option.some.inj h1; subst e1; rw [ER _ hxy hyz])
          | (have e2 := Option.some.inj h2; subst e2; rw [EL _ hxy hyz])
          | (rw [T _ hxy hyz]; exact ih' h1 h2)

/-! ### Non-vacuity -/

def exOrdType : OrdType := .enum
  [ { name := "A".toList, shape := .unit },
    { name := "B".toList, shape := .tuple, disc := some 7,
      fields := [ { rank := some 5 }, { ignore := true }, { method := some 0, rank := some (-3) } ] },
    { name := "C".toList, shape := .named,
      fields := [ { name := "x".toList, rank := some 10 }, { name := "y".toList, rank := some (-7) } ] } ]

def exOrdOps : OrdOps Nat :=
  { cmp := fun _ x y => if x < y then .lt else if x = y then .eq else .gt
    pcmp := fun _ x y => if x = 9 ∨ y = 9 then none else some (if x < y then .lt else if x = y then .eq else .gt)
    cmpM := fun _ x y => if y < x then .lt else if x = y then .eq else .gt
    pcmpM := fun _ x y => some (if y < x then .lt else if x = y then .eq else .gt) }

example : exOrdType.WF := by
  intro v hv
  simp [exOrdType] at hv
  rcases hv with rfl | rfl | rfl <;> simp [OrdVariant.WF]

-- accepted (distinct ranks), and refused when an explicit rank meets another field's default rank
example : (body exOrdType).isSome = true := by decide
example : (body (.struct { shape := .tuple, fields := [ { rank := some (isizeMin + 1) }, {} ] })).isSome = false := by decide
-- field 2 (rank -3, reversed method) is visited before field 0 (rank 5)
example : (body exOrdType).bind (fun bd => Sem.evalCmp exOrdOps false exOrdType bd ⟨1, [1, 0, 5]⟩ ⟨1, [2, 0, 6]⟩)
    = some (some .gt) := by decide
example : (body exOrdType).bind (fun bd => Sem.evalCmp exOrdOps true exOrdType bd ⟨2, [9, 4]⟩ ⟨2, [1, 4]⟩)
    = some none := by decide
example : (body exOrdType).bind (fun bd => Sem.evalCmp exOrdOps true exOrdType bd ⟨2, [9, 3]⟩ ⟨2, [1, 4]⟩)
    = some (some .lt) := by decide


/-! ## What the generated code calls

The absolute paths (`::core::..`) named by the `quote!` templates of the handler, regenerated from /repo/src on every run
(`vtool extract`): the functions, traits and types the generated code can reach are exactly these - a call of anything
else (`::core::ptr::eq`, `::core::fmt::Display::fmt`, `::core::convert::From::from`, ...) is a change of what the
implementation does and has to be looked at. -/

theorem generated_calls_unchanged_ord :
    Generated.paths_trait_handlers_ord =
      ["::core::cmp::Eq", "::core::cmp::Ord", "::core::cmp::Ord::cmp", "::core::cmp::Ordering", "::core::cmp::Ordering::Equal", "::core::cmp::Ordering::Greater", "::core::cmp::Ordering::Less", "::core::cmp::PartialOrd", "::core::option::Option", "::core::option::Option::Some", "::core::primitive"] := by
  decide +kernel

theorem generated_calls_unchanged_partial_ord :
    Generated.paths_trait_handlers_partial_ord =
      ["::core::cmp::Ord", "::core::cmp::Ordering", "::core::cmp::Ordering::Equal", "::core::cmp::Ordering::Greater", "::core::cmp::Ordering::Less", "::core::cmp::PartialEq", "::core::cmp::PartialOrd", "::core::cmp::PartialOrd::partial_cmp", "::core::option::Option", "::core::option::Option::None", "::core::option::Option::Some", "::core::primitive"] := by
  decide +kernel

theorem generated_calls_unchanged_common_tools :
    Generated.paths_common_tools =
      ["::core::primitive"] := by
  decide +kernel

end Educe
