import EduceModel.Expand
/-
  C14 — alternative attribute spellings are interchangeable.

  The documented equivalence is stated over *canonical leaves*: the oracle record syn yields for
  each documented token form (a bare identifier, the same identifier inside a string literal, a
  boolean, an integer, …). That these records are what real syn produces for those forms is
  re-validated on every run by the correspondence (the model is fed syn's actual records).
-/
namespace Educe.Attr

@[simp] theorem pure_eq_ok {α : Type} (a : α) : (pure a : Res α) = Res.ok a := rfl

/-! ### canonical leaves -/

def Val.ofBool (b : Bool) : Val := { tok := .lit (.bool b) }
def Val.ofIdent (i : String) : Val := { tok := .ident i, text := i }
/-- `"i"`: a string literal whose content parses as the identifier `i` (hence also as a path). -/
def Val.ofIdentStr (i : String) (rest : StrInfo) : Val :=
  { tok := .lit (.str { rest with asIdent := some i, asPath := some i }), text := "\"" ++ i ++ "\"" }
def Val.ofPathTokens (p : String) : Val := { tok := .path, text := p }
def Val.ofPathStr (p : String) (rest : StrInfo) : Val :=
  { tok := .lit (.str { rest with asIdent := none, asPath := some p }), text := "\"" ++ p ++ "\"" }
def Val.ofInt (n : Int) (sfx : String) : Val := { tok := .lit (.int (some n) sfx) }
def Val.ofIntStr (n : Int) (rest : StrInfo) : Val := { tok := .lit (.str { rest with asIsize := some n }) }
def Val.ofNeg (n : Int) : Val := { tok := .neg (some n) }
def Val.ofPreds (ps : List String) : Val := { tok := .preds ps }
def Val.ofPredsStr (ps : List String) (rest : StrInfo) : Val := { tok := .lit (.str { rest with asPreds := some ps }) }

/-! ### `p = v` and `p(v)`; token values and their string-literal forms -/

/-- `ignore`, `ignore = true` and `ignore(true)`; and `= false` / `(false)`. -/
theorem bool_spellings (b : Bool) :
    meta2BoolAllowPath (.nv (Val.ofBool b)) = .ok b ∧ meta2BoolAllowPath (.list (Val.ofBool b)) = .ok b ∧
    meta2BoolAllowPath .path = .ok true ∧
    meta2Bool (.nv (Val.ofBool b)) = .ok b ∧ meta2Bool (.list (Val.ofBool b)) = .ok b := by
  simp [meta2BoolAllowPath, meta2Bool, nv2Bool, Val.ofBool]

/-- An identifier value: `p = x`, `p(x)`, `p = "x"`, `p("x")`. -/
theorem ident_spellings (i : String) (r : StrInfo) :
    meta2Ident (.nv (Val.ofIdent i)) = .ok i ∧ meta2Ident (.list (Val.ofIdent i)) = .ok i ∧
    meta2Ident (.nv (Val.ofIdentStr i r)) = .ok i ∧ meta2Ident (.list (Val.ofIdentStr i r)) = .ok i := by
  simp [meta2Ident, nv2Ident, Val.ofIdent, Val.ofIdentStr]

/-- A name that may also be switched off: identifier / string forms give the name, `false` / `""`
    disable it, `true` keeps the default — in both `=` and list form. -/
theorem name_spellings (i : String) (r : StrInfo) :
    meta2IdentOrBool (.nv (Val.ofIdent i)) = .ok (.ident i) ∧ meta2IdentOrBool (.list (Val.ofIdent i)) = .ok (.ident i) ∧
    meta2IdentOrBool (.nv (Val.ofIdentStr i r)) = .ok (.ident i) ∧ meta2IdentOrBool (.list (Val.ofIdentStr i r)) = .ok (.ident i) := by
  simp [meta2IdentOrBool, nv2IdentOrBool, strIdentOrBool, Val.ofIdent, Val.ofIdentStr]

theorem name_off_spellings (b : Bool) :
    meta2IdentOrBool (.nv (Val.ofBool b)) = .ok (.bool b) ∧ meta2IdentOrBool (.list (Val.ofBool b)) = .ok (.bool b) ∧
    meta2IdentOrBool (.nv { tok := .lit (.str { isEmpty := true }) }) = .ok (.bool false) ∧
    meta2IdentOrBool (.list { tok := .lit (.str { isEmpty := true }) }) = .ok (.bool false) := by
  simp [meta2IdentOrBool, nv2IdentOrBool, strIdentOrBool, Val.ofBool]

/-- A path value (method): `method(a::b)`, `method = a::b`, `method = "a::b"`, `method("a::b")`;
    a single identifier is a path too. -/
theorem path_spellings (p : String) (r : StrInfo) :
    meta2Path (.nv (Val.ofPathTokens p)) = .ok p ∧ meta2Path (.list (Val.ofPathTokens p)) = .ok p ∧
    meta2Path (.nv (Val.ofPathStr p r)) = .ok p ∧ meta2Path (.list (Val.ofPathStr p r)) = .ok p ∧
    meta2Path (.nv (Val.ofIdent p)) = .ok p ∧ meta2Path (.list (Val.ofIdent p)) = .ok p := by
  simp [meta2Path, nv2Path, Val.ofPathTokens, Val.ofPathStr, Val.ofIdent]

/-- An integer value (rank): `rank = 3`, `rank(3)`, `rank = "3"`, `rank("3")`, and `rank = -3`. -/
theorem int_spellings (n : Int) (sfx : String) (r : StrInfo) :
    meta2Isize (.nv (Val.ofInt n sfx)) = .ok n ∧ meta2Isize (.list (Val.ofInt n sfx)) = .ok n ∧
    meta2Isize (.nv (Val.ofIntStr n r)) = .ok n ∧ meta2Isize (.list (Val.ofIntStr n r)) = .ok n ∧
    meta2Isize (.nv (Val.ofNeg n)) = .ok n := by
  simp [meta2Isize, nv2Isize, Val.ofInt, Val.ofIntStr, Val.ofNeg]

/-- Predicates (bound): `bound(T: Copy)`, `bound = "T: Copy"`, `bound("T: Copy")`; and
    `bound = false`, `bound(false)`, `bound = ""`. -/
theorem bound_spellings (ps : List String) (r : StrInfo) :
    meta2Bound (.list (Val.ofPreds ps)) = .ok (.custom ps) ∧
    meta2Bound (.nv (Val.ofPredsStr ps r)) = .ok (.custom ps) ∧ meta2Bound (.list (Val.ofPredsStr ps r)) = .ok (.custom ps) := by
  simp [meta2Bound, nv2Bound, litBound, Val.ofPreds, Val.ofPredsStr]

theorem bound_off_spellings :
    meta2Bound (.nv (Val.ofBool false)) = .ok .disabled ∧ meta2Bound (.list (Val.ofBool false)) = .ok .disabled ∧
    meta2Bound (.nv { tok := .lit (.str { isEmpty := true }) }) = .ok .disabled ∧
    meta2Bound (.list { tok := .lit (.str { isEmpty := true }) }) = .ok .disabled := by
  simp [meta2Bound, nv2Bound, litBound, Val.ofBool]

/-- An expression value: `expression = e` and `expression(e)` (for a non-literal expression). -/
theorem expr_spellings (t : String) :
    meta2Expr (.nv { tok := .expr, text := t }) = .ok (t, none) ∧
    meta2Expr (.list { tok := .expr, text := t }) = .ok (t, none) := by
  simp [meta2Expr]

/-! ### parameter-name aliases -/

/-- `name` and `rename` are the same switch, at type / variant level and at field level. -/
theorem name_rename_alias (fl : DebugTypeFlags) (ff : DebugFieldFlags) :
    (findSpec (debugTypeSpecs fl) "name").map (·.key) = (findSpec (debugTypeSpecs fl) "rename").map (·.key) ∧
    (findSpec (debugFieldSpecs ff) "name").map (·.key) = (findSpec (debugFieldSpecs ff) "rename").map (·.key) := by
  simp [findSpec, debugTypeSpecs, debugFieldSpecs, List.find?]

/-- `expression` and `expr` are the same switch. -/
theorem expression_expr_alias (fl : DefaultTypeFlags) :
    (findSpec (defaultTypeSpecs fl) "expression").map (·.key) = (findSpec (defaultTypeSpecs fl) "expr").map (·.key) := by
  simp [findSpec, defaultTypeSpecs, List.find?]

/-! ### the `Trait = X` shorthands -/

/-- `PartialEq = false` (also Hash / Ord / PartialOrd) is `PartialEq(ignore)`; `= true` is no attribute. -/
theorem cmp_shorthand (fl : CmpFieldFlags) (hi : fl.ignore = true) (m : TraitMeta) (hid : m.ident.isSome = true) (b : Bool) :
    cmpFieldFromMeta fl { m with form := .nv (Val.ofBool b) }
      = cmpFieldFromMeta fl { m with form := .list (some [{ ident := some "ignore", form := .nv (Val.ofBool (!b)) }]) none none } := by
  simp [cmpFieldFromMeta, hi, nv2Bool, Val.ofBool, runParams, findSpec, cmpFieldSpecs, List.find?, meta2BoolAllowPath, meta2Bool,
    bind]

/-- `Debug = Name` on a type or variant is `Debug(name = Name)`. -/
theorem debug_type_shorthand (fl : DebugTypeFlags) (hn : fl.name = true) (hu : fl.unsafe_ = false) (m : TraitMeta) (i : String) :
    debugTypeFromMeta fl { m with form := .nv (Val.ofIdent i) }
      = debugTypeFromMeta fl { m with form := .list (some [{ ident := some "name", form := .nv (Val.ofIdent i) }]) none none } := by
  simp [debugTypeFromMeta, hn, hu, nv2Ident, Val.ofIdent, runParams, findSpec, debugTypeSpecs, List.find?, meta2IdentOrBool,
    nv2IdentOrBool, nameOfIdentOrBool, bind]

/-- `Debug = name` / `Debug = false` on a field are `Debug(name = name)` / `Debug(ignore)`. -/
theorem debug_field_shorthand (fl : DebugFieldFlags) (hn : fl.name = true) (hi : fl.ignore = true) (m : TraitMeta) (i : String) :
    debugFieldFromMeta fl { m with form := .nv (Val.ofIdent i) }
      = debugFieldFromMeta fl { m with form := .list (some [{ ident := some "name", form := .nv (Val.ofIdent i) }]) none none } ∧
    debugFieldFromMeta fl { m with form := .nv (Val.ofBool false) }
      = debugFieldFromMeta fl { m with form := .list (some [{ ident := some "ignore", form := .path }]) none none } := by
  simp [debugFieldFromMeta, hn, hi, nv2IdentOrBool, Val.ofIdent, Val.ofBool, runParams, findSpec, debugFieldSpecs, List.find?,
    meta2Ident, nv2Ident, meta2BoolAllowPath, bind]

/-- `Default = e` on a field is `Default(expression = e)`. -/
theorem default_field_shorthand (fl : Bool) (ty : TyShape) (m : TraitMeta) (v : Val) :
    defaultFieldFromMeta fl true ty { m with form := .nv v }
      = defaultFieldFromMeta fl true ty { m with form := .list (some [{ ident := some "expression", form := .nv v }]) none none } := by
  obtain ⟨tok, text, el⟩ := v
  cases tok <;> simp [defaultFieldFromMeta, runParams, findSpec, List.find?, meta2Expr, bind]

/-! ### one `#[educe(A, B)]` list and several `#[educe(A)] #[educe(B)]` attributes -/

theorem scanMetas_append {α : Type} (F : Features) (traits mine : TraitId → Bool) (build : TraitMeta → Res α) :
    ∀ (ms₁ ms₂ : List TraitMeta) (out : Option α),
      scanMetas F traits mine build (ms₁ ++ ms₂) out =
        (match scanMetas F traits mine build ms₁ out with
         | .ok out' => scanMetas F traits mine build ms₂ out'
         | .diag d => .diag d
         | .panic s => .panic s) := by
  intro ms₁
  induction ms₁ with
  | nil => intro ms₂ out; simp [scanMetas]
  | cons m ms ih =>
    intro ms₂ out
    simp only [List.cons_append, scanMetas]
    split
    · rfl
    · split
      · unfold identOrPanic; split <;> rfl
      · split
        · split
          · unfold identOrPanic; split <;> rfl
          · split
            · exact ih _ _
            · rfl
            · rfl
        · exact ih _ _

/-- Splitting one attribute list in two attributes (at a field, a variant or for a handler's scan of
    the type) changes nothing. -/
theorem split_attribute_same {α : Type} (F : Features) (traits mine : TraitId → Bool) (build : TraitMeta → Res α)
    (a : Attribute) (ms₁ ms₂ : List TraitMeta) (he : a.isEduce = true) (hl : a.isList = true)
    (rest : List Attribute) (out : Option α) :
    scanAttrs F traits mine build ({ a with metas := some (ms₁ ++ ms₂) } :: rest) out
      = scanAttrs F traits mine build ({ a with metas := some ms₁ } :: { a with metas := some ms₂ } :: rest) out := by
  simp only [scanAttrs, he, hl, Bool.and_self, if_true, scanMetas_append]
  cases scanMetas F traits mine build ms₁ out <;> rfl

/-- Attributes that are not `#[educe(...)]` (doc comments, `#[allow]`, …) between them change nothing. -/
theorem foreign_attribute_skipped {α : Type} (F : Features) (traits mine : TraitId → Bool) (build : TraitMeta → Res α)
    (a : Attribute) (he : a.isEduce = false) (rest : List Attribute) (out : Option α) :
    scanAttrs F traits mine build (a :: rest) out = scanAttrs F traits mine build rest out := by
  simp [scanAttrs, he]

/-! ### any order of parameters -/

/-- Two adjacent parameters that set different switches may be written in either order, provided
    the two stores commute (they write different fields of the builder's state). -/
theorem adjacent_params_swap {σ : Type} (m : TraitMeta) (specs : List (PSpec σ)) (p q : Param) (np nq : String)
    (sp sq : PSpec σ) (hp : p.ident = some np) (hq : q.ident = some nq)
    (hsp : findSpec specs np = some sp) (hsq : findSpec specs nq = some sq)
    (hep : sp.enabled = true) (heq : sq.enabled = true) (hk : sp.key ≠ sq.key)
    (a b c : σ) (st : σ)
    (hpa : sp.apply p.form st = .ok a) (hqb : sq.apply q.form a = .ok c)
    (hqa : sq.apply q.form st = .ok b) (hpb : sp.apply p.form b = .ok c)
    (rest : List Param) (seen : List String) (hnp : seen.contains sp.key = false) (hnq : seen.contains sq.key = false)
    (hrest : runParams m specs rest (sq.key :: sp.key :: seen) c = runParams m specs rest (sp.key :: sq.key :: seen) c) :
    runParams m specs (p :: q :: rest) seen st = runParams m specs (q :: p :: rest) seen st := by
  have h1 : (sq.key == sp.key) = false := by simpa using fun h => hk h.symm
  have h2 : (sp.key == sq.key) = false := by simpa using hk
  have m1 : ¬ sp.key ∈ seen := by simpa using hnp
  have m2 : ¬ sq.key ∈ seen := by simpa using hnq
  have k1 : ¬ sq.key = sp.key := fun h => hk h.symm
  simp [runParams, hp, hq, hsp, hsq, hep, heq, hpa, hqb, hqa, hpb, hrest, m1, m2, hk, k1]

end Educe.Attr
