import EduceModel.Props.C02
import EduceModel.Props.C03
import EduceModel.Props.C04
import EduceModel.Props.C05
import EduceModel.Props.C06
import EduceModel.Props.C07
import EduceModel.Props.C09
import EduceModel.Props.C10
