import EduceModel.Attr.ListParse
/-!
# The list parsers accept exactly the documented lists

`renderEls els trailing` is the argument list a user writes for the elements `els`: separated by commas, with or
without a comma after the last one. The three parsers accept exactly the lists of `Meta` elements (with the `unsafe`
marker or the type in front), return the parameters in the order written, and do so whether or not the trailing comma
is there (C14: spellings are interchangeable; C20: the marker is recognised in the first position only - anywhere else
`unsafe` is read as a parameter of that name, which no attribute accepts).
-/
namespace Educe.Props.ListParse
open Educe.Attr

def renderEls : List Seg → Bool → List Seg
  | [], _ => []
  | [e], trailing => if trailing then [e, .comma] else [e]
  | e :: f :: rest, trailing => e :: .comma :: renderEls (f :: rest) trailing

/-- the elements that `Meta::parse` accepts -/
def allMetas (els : List Seg) : Prop := ∀ e ∈ els, e.param?.isSome = true

theorem comma_not_meta {e : Seg} (h : e.param?.isSome = true) : e ≠ .comma := by
  intro he; subst he; simp [Seg.param?] at h

theorem parseTerminated_render (els : List Seg) (trailing : Bool) (h : allMetas els) :
    parseTerminated (renderEls els trailing) = some (els.filterMap Seg.param?) := by
  induction els with
  | nil => simp [renderEls, parseTerminated]
  | cons e rest ih =>
    have he : e.param?.isSome = true := h e (by simp)
    obtain ⟨p, hp⟩ := Option.isSome_iff_exists.mp he
    have hrest : allMetas rest := fun x hx => h x (by simp [hx])
    cases rest with
    | nil =>
      cases trailing
      · simp [renderEls, parseTerminated, hp]
      · simp [renderEls, parseTerminated, hp]
    | cons f rest' =>
      simp only [renderEls, parseTerminated, hp, ih hrest]
      simp [hp]

/-- **A trailing comma changes nothing.** -/
theorem trailing_comma_irrelevant (els : List Seg) (h : allMetas els) :
    parseTerminated (renderEls els true) = parseTerminated (renderEls els false) := by
  rw [parseTerminated_render _ _ h, parseTerminated_render _ _ h]

/-- **Nothing else is accepted**: a list the plain parser accepts is a rendering of `Meta` elements (no leading or
    doubled comma, no bare type, no stray tokens), and the result lists them in the order written. -/
theorem parseTerminated_only_rendered (segs : List Seg) (ps : List Param) (h : parseTerminated segs = some ps) :
    ∃ els trailing, segs = renderEls els trailing ∧ allMetas els ∧ els.filterMap Seg.param? = ps := by
  suffices H : ∀ n (segs : List Seg) (ps : List Param), segs.length ≤ n → parseTerminated segs = some ps →
      ∃ els trailing, segs = renderEls els trailing ∧ allMetas els ∧ els.filterMap Seg.param? = ps from
    H segs.length segs ps (Nat.le_refl _) h
  clear h
  intro n
  induction n with
  | zero =>
    intro segs ps hn h
    have : segs = [] := List.eq_nil_of_length_eq_zero (by omega)
    subst this
    exact ⟨[], false, rfl, by simp [allMetas], by simpa [parseTerminated] using h⟩
  | succ n ih =>
    intro segs ps hn h
    unfold parseTerminated at h
    split at h
    · exact ⟨[], false, rfl, by simp [allMetas], by simpa using h⟩
    · rename_i e
      simp only [Option.map_eq_some_iff] at h
      obtain ⟨p, hp, rfl⟩ := h
      exact ⟨[e], false, rfl, by simp [allMetas, hp], by simp [hp]⟩
    · rename_i e rest
      split at h
      · rename_i p hp
        simp only [Option.map_eq_some_iff] at h
        obtain ⟨ps', hps', rfl⟩ := h
        obtain ⟨els, trailing, hq, hall, hm⟩ := ih rest ps' (by simp at hn; omega) hps'
        cases els with
        | nil =>
          refine ⟨[e], true, ?_, by simp [allMetas, hp], ?_⟩
          · simp [renderEls] at hq; simp [renderEls, hq]
          · simp at hm; simp [hp, hm]
        | cons f els =>
          refine ⟨e :: f :: els, trailing, ?_, ?_, ?_⟩
          · simp [renderEls, hq]
          · intro x hx
            simp only [List.mem_cons] at hx
            rcases hx with rfl | hx
            · simp [hp]
            · exact hall x (by simpa using hx)
          · rw [← hm, List.filterMap_cons, hp]
      · simp at h
    · simp at h

/-- `unsafe` alone, or `unsafe,` followed by the parameters. -/
theorem parseUnsafe_marked (els : List Seg) (trailing : Bool) (h : allMetas els) :
    parseUnsafe [.kwUnsafe] = some (true, []) ∧
    parseUnsafe (.kwUnsafe :: .comma :: renderEls els trailing) = some (true, els.filterMap Seg.param?) := by
  constructor
  · rfl
  · simp [parseUnsafe, parseTerminated_render _ _ h]

/-- **The marker is recognised in the first position only**: it is reported exactly when the list starts with the
    bare keyword, and what follows it (after the comma) - or the whole list, without it - is read by the plain parser. -/
theorem unsafe_marker_first_only (segs : List Seg) (b : Bool) (ps : List Param) (h : parseUnsafe segs = some (b, ps)) :
    (b = true → segs = [.kwUnsafe] ∧ ps = [] ∨ ∃ rest, segs = .kwUnsafe :: .comma :: rest ∧ parseTerminated rest = some ps) ∧
    (b = false → parseTerminated segs = some ps ∧ segs.head? ≠ some .kwUnsafe) := by
  unfold parseUnsafe at h
  split at h
  · simp at h; obtain ⟨rfl, rfl⟩ := h
    exact ⟨by simp, by simp [parseTerminated]⟩
  · simp at h; obtain ⟨rfl, rfl⟩ := h
    exact ⟨by simp, by simp⟩
  · rename_i rest
    simp only [Option.map_eq_some_iff, Prod.mk.injEq] at h
    obtain ⟨ps', hps', rfl, rfl⟩ := h
    exact ⟨fun _ => Or.inr ⟨rest, rfl, hps'⟩, by simp⟩
  · simp at h
  · simp at h
  · rename_i h1 h2 h3 h4 h5
    simp only [Option.map_eq_some_iff, Prod.mk.injEq] at h
    obtain ⟨ps', hps', rfl, rfl⟩ := h
    refine ⟨by simp, fun _ => ⟨hps', ?_⟩⟩
    intro hh
    cases segs with
    | nil => exact h1 rfl
    | cons x xs =>
      have hx : x = .kwUnsafe := by simpa using hh
      subst hx
      cases xs with
      | nil => exact h2 rfl
      | cons y ys =>
        cases y with
        | comma => exact h3 ys rfl
        | _ => exact h4 _ rfl

/-- the type alone, or the type, a comma and the parameters -/
theorem parseTyped_render (t : Ty) (els : List Seg) (trailing : Bool) (h : allMetas els) :
    parseTyped (some (t, [])) = some (t, []) ∧
    parseTyped (some (t, .comma :: renderEls els trailing)) = some (t, els.filterMap Seg.param?) := by
  constructor
  · rfl
  · simp [parseTyped, parseTerminated_render _ _ h]

theorem parseTyped_needs_type (ps : Ty × List Param) (head : Option (Ty × List Seg)) (h : parseTyped head = some ps) :
    ∃ t rest, head = some (t, rest) ∧ ps.1 = t := by
  unfold parseTyped at h
  split at h
  · simp at h
  · simp at h; subst h; exact ⟨_, _, rfl, rfl⟩
  · simp only [Option.map_eq_some_iff] at h
    obtain ⟨ps', _, rfl⟩ := h
    exact ⟨_, _, rfl, rfl⟩
  · simp at h

/-- non-vacuity: `unsafe, name = A,`; `unsafe` in second place is a parameter called `unsafe`; stray commas -/
example : parseUnsafe [.kwUnsafe, .comma, .item {} none, .comma] = some (true, [{}]) := by decide
example : parseUnsafe [.item {} none, .comma, .kwUnsafe] = some (false, [{}, unsafeParam]) := by decide
example : parseUnsafe [.unsafeItem {}] = none := by decide
example : parseTerminated [.comma] = none := by decide
example : parseTerminated [.item {} none, .comma, .comma] = none := by decide

end Educe.Props.ListParse
