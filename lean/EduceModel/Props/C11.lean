import EduceModel.Expand
import EduceModel.Gen.PartialEq
import EduceModel.Gen.Hash
import EduceModel.Gen.Clone
import EduceModel.Gen.Ord
/-
  C11 — automatic bounds are exactly those the generated code needs.
-/
namespace Educe.Attr

/-- In automatic mode the appended predicates are one `FieldTy: Trait` per collected field type, in
    collection order, then one `Self: Supertrait` per supertrait — nothing else. -/
theorem auto_preds_shape (g : Generics) (tp : String) (types supers : List String) :
    boundPreds .auto g tp types supers
      = types.map (fun t => noSpace t ++ ":" ++ tp) ++ supers.map (fun s => "Self:" ++ s) := by
  simp [boundPreds]

/-- No predicate of the automatic mode mentions anything but a collected field type or `Self`. -/
theorem auto_preds_only_collected (g : Generics) (tp : String) (types supers : List String) (p : String)
    (hp : p ∈ boundPreds .auto g tp types supers) :
    (∃ t ∈ types, p = noSpace t ++ ":" ++ tp) ∨ (∃ s ∈ supers, p = "Self:" ++ s) := by
  simp only [boundPreds, List.mem_append, List.mem_map] at hp
  rcases hp with ⟨t, ht, rfl⟩ | ⟨s, hs, rfl⟩
  · exact Or.inl ⟨t, ht, rfl⟩
  · exact Or.inr ⟨s, hs, rfl⟩

/-- The companion impl emitted alongside a primary one (Eq with PartialEq, Copy with Clone,
    PartialOrd with Ord) carries the primary's predicates: it applies to exactly the same
    instantiations. -/
theorem companion_same_predicates (primary : Item) (comp : Option (TraitId × String)) (traits : TraitId → Bool) :
    ∀ it ∈ withCompanion primary comp traits, it.preds = primary.preds := by
  intro it hit
  unfold withCompanion at hit
  split at hit
  · split at hit
    · simp at hit; rcases hit with rfl | rfl <;> rfl
    · simp at hit; subst hit; rfl
  · simp at hit; subst hit; rfl

/-! ### the collected types are the delegated fields of the generated body (PartialEq, Hash)

Two independently written parts are linked here: the handler-level rule "push the field type unless
the field is ignored or has a method" (`delegatedTypes`, what the bound is computed from) and the
configuration-level generator of the body (`Gen.PartialEq` / `Gen.Hash`), whose statements call the
trait's own method exactly on those fields. -/

def toEqField (fa : Field × CmpFieldAttr) : EqField :=
  { name := (fa.1.name.getD "").toList, ignore := fa.2.ignore, method := fa.2.method.map fun _ => 0 }

def delegatedTypes (fas : List (Field × CmpFieldAttr)) : List String :=
  fas.filterMap fun (f, a) => if a.ignore || a.method.isSome then none else some f.ty

/-- Operands of the calls to the trait's own comparison in a statement list. -/
def neOperands : List EqStmt → List Ref
  | [] => []
  | .ifNe a _ :: rest => a :: neOperands rest
  | .ifNotMethod _ _ _ :: rest => neOperands rest

def delegatedIdx : Nat → List (Field × CmpFieldAttr) → List Nat
  | _, [] => []
  | i, (_, a) :: rest => if a.ignore || a.method.isSome then delegatedIdx (i + 1) rest else i :: delegatedIdx (i + 1) rest

theorem struct_body_delegates_exactly (fas : List (Field × CmpFieldAttr)) (i : Nat) :
    neOperands (Gen.PartialEq.structStmts i (fas.map toEqField)) = (delegatedIdx i fas).map Ref.selfField := by
  induction fas generalizing i with
  | nil => rfl
  | cons fa rest ih =>
    obtain ⟨f, a⟩ := fa
    simp only [List.map_cons, Gen.PartialEq.structStmts, toEqField, delegatedIdx]
    by_cases hig : a.ignore = true
    · simp [hig, ih]
    · simp only [hig, Bool.false_eq_true, if_false, Bool.false_or]
      unfold Gen.PartialEq.stmt
      cases hm : a.method with
      | none => simp [neOperands, ih]
      | some m => simp [neOperands, ih]

/-- The delegated fields with their types: index and type go together. -/
def delegatedPairs : Nat → List (Field × CmpFieldAttr) → List (Nat × String)
  | _, [] => []
  | i, (f, a) :: rest => if a.ignore || a.method.isSome then delegatedPairs (i + 1) rest else (i, f.ty) :: delegatedPairs (i + 1) rest

/-- The predicates' types and the body's delegated operands are the two projections of one list:
    the i-th bound type is the type of the field the i-th delegated call operates on. -/
theorem delegated_types_and_operands (fas : List (Field × CmpFieldAttr)) (i : Nat) :
    (delegatedPairs i fas).map Prod.snd = delegatedTypes fas ∧
    (delegatedPairs i fas).map (fun p => Ref.selfField p.1) = neOperands (Gen.PartialEq.structStmts i (fas.map toEqField)) := by
  rw [struct_body_delegates_exactly]
  induction fas generalizing i with
  | nil => exact ⟨rfl, rfl⟩
  | cons fa rest ih =>
    obtain ⟨f, a⟩ := fa
    obtain ⟨h1, h2⟩ := ih (i + 1)
    unfold delegatedTypes at h1 ⊢
    simp only [delegatedPairs, delegatedIdx, List.filterMap_cons]
    split
    · exact ⟨h1, h2⟩
    · simp [h1, h2]

/-- A type parameter that occurs only in ignored or method-handled fields is never constrained:
    the automatic predicates mention only the types of delegated fields. -/
theorem ignored_and_method_fields_not_bound (fas : List (Field × CmpFieldAttr)) (t : String)
    (ht : t ∈ delegatedTypes fas) : ∃ f a, (f, a) ∈ fas ∧ f.ty = t ∧ a.ignore = false ∧ a.method = none := by
  unfold delegatedTypes at ht
  rw [List.mem_filterMap] at ht
  obtain ⟨⟨f, a⟩, hmem, h⟩ := ht
  simp only at h
  split at h
  · cases h
  · rename_i hc
    cases h
    refine ⟨f, a, hmem, rfl, ?_, ?_⟩
    · cases hi : a.ignore <;> simp_all
    · cases hm : a.method <;> simp_all

/-- Applicability: an impl applies to an instantiation exactly when all its predicates hold. -/
def applies (holds : String → Bool) (userWhere : List String) (it : Item) : Bool :=
  (userWhere.map noSpace ++ it.preds).all holds

theorem companion_applies_iff (holds : String → Bool) (w : List String) (primary : Item) (comp : Option (TraitId × String))
    (traits : TraitId → Bool) : ∀ it ∈ withCompanion primary comp traits, applies holds w it = applies holds w primary := by
  intro it hit
  unfold applies
  rw [companion_same_predicates primary comp traits it hit]



/-! ### the same link for enum arms (tuple and named variants) and for Hash -/

/-- tuple-variant arm of PartialEq: the delegated calls operate on the binders of exactly the delegated positions -/
theorem eq_tuple_arm_delegates_exactly (fas : List (Field × CmpFieldAttr)) (i : Nat) :
    neOperands (Gen.PartialEq.armStmts Gen.PartialEq.bindTupSelf Gen.PartialEq.bindTupOther i (fas.map toEqField))
      = (delegatedIdx i fas).map fun j => Ref.var (tupSelf j) := by
  induction fas generalizing i with
  | nil => rfl
  | cons fa rest ih =>
    obtain ⟨f, a⟩ := fa
    simp only [List.map_cons, Gen.PartialEq.armStmts, toEqField, delegatedIdx, Gen.PartialEq.bindTupSelf, Gen.PartialEq.bindTupOther]
    by_cases hig : a.ignore = true
    · simp [hig, ih]
    · simp only [hig, Bool.false_eq_true, if_false, Bool.false_or]
      unfold Gen.PartialEq.stmt
      cases hm : a.method with
      | none => simp [neOperands, ih]
      | some m => simp [neOperands, ih]

/-- named-variant arm: the operands are the `_s_<field>` binders of the delegated fields, in order -/
def delegatedNames : List (Field × CmpFieldAttr) → List Ident
  | [] => []
  | (f, a) :: rest => if a.ignore || a.method.isSome then delegatedNames rest else (f.name.getD "").toList :: delegatedNames rest

theorem eq_named_arm_delegates_exactly (fas : List (Field × CmpFieldAttr)) (i : Nat) :
    neOperands (Gen.PartialEq.armStmts Gen.PartialEq.bindNamedSelf Gen.PartialEq.bindNamedOther i (fas.map toEqField))
      = (delegatedNames fas).map fun n => Ref.var (namedSelf n) := by
  induction fas generalizing i with
  | nil => rfl
  | cons fa rest ih =>
    obtain ⟨f, a⟩ := fa
    simp only [List.map_cons, Gen.PartialEq.armStmts, toEqField, delegatedNames, Gen.PartialEq.bindNamedSelf, Gen.PartialEq.bindNamedOther]
    by_cases hig : a.ignore = true
    · simp [hig, ih]
    · simp only [hig, Bool.false_eq_true, if_false, Bool.false_or]
      unfold Gen.PartialEq.stmt
      cases hm : a.method with
      | none => simp [neOperands, ih]
      | some m => simp [neOperands, ih]

/-- names and types of the delegated fields go together -/
theorem delegatedNames_types (fas : List (Field × CmpFieldAttr)) :
    (delegatedNames fas).length = (delegatedTypes fas).length := by
  induction fas with
  | nil => rfl
  | cons fa rest ih =>
    obtain ⟨f, a⟩ := fa
    unfold delegatedTypes at ih ⊢
    simp only [delegatedNames, List.filterMap_cons]
    split <;> simp [ih]

/-! Hash -/

def toHashField (fa : Field × CmpFieldAttr) : HashField :=
  { name := (fa.1.name.getD "").toList, ignore := fa.2.ignore, method := fa.2.method.map fun _ => 0 }

/-- Operands of the calls to the field type's own `Hash::hash`. -/
def hashOperands : List HashStmt → List Ref
  | [] => []
  | .builtin r :: rest => r :: hashOperands rest
  | .method _ _ :: rest => hashOperands rest

theorem hash_struct_body_delegates_exactly (fas : List (Field × CmpFieldAttr)) (i : Nat) :
    hashOperands (Gen.Hash.structStmts i (fas.map toHashField)) = (delegatedIdx i fas).map Ref.selfField := by
  induction fas generalizing i with
  | nil => rfl
  | cons fa rest ih =>
    obtain ⟨f, a⟩ := fa
    simp only [List.map_cons, Gen.Hash.structStmts, toHashField, delegatedIdx]
    by_cases hig : a.ignore = true
    · simp [hig, ih]
    · simp only [hig, Bool.false_eq_true, if_false, Bool.false_or]
      unfold Gen.Hash.stmt
      cases hm : a.method with
      | none => simp [hashOperands, ih]
      | some m => simp [hashOperands, ih]

theorem hash_tuple_arm_delegates_exactly (fas : List (Field × CmpFieldAttr)) (i : Nat) :
    hashOperands (Gen.Hash.armStmts Gen.Hash.bindTup i (fas.map toHashField))
      = (delegatedIdx i fas).map fun j => Ref.var (tupSelf j) := by
  induction fas generalizing i with
  | nil => rfl
  | cons fa rest ih =>
    obtain ⟨f, a⟩ := fa
    simp only [List.map_cons, Gen.Hash.armStmts, toHashField, delegatedIdx, Gen.Hash.bindTup]
    by_cases hig : a.ignore = true
    · simp [hig, ih]
    · simp only [hig, Bool.false_eq_true, if_false, Bool.false_or]
      unfold Gen.Hash.stmt
      cases hm : a.method with
      | none => simp [hashOperands, ih]
      | some m => simp [hashOperands, ih]

theorem hash_named_arm_delegates_exactly (fas : List (Field × CmpFieldAttr)) (i : Nat) :
    hashOperands (Gen.Hash.armStmts Gen.Hash.bindNamed i (fas.map toHashField))
      = (delegatedNames fas).map fun n => Ref.var (namedV n) := by
  induction fas generalizing i with
  | nil => rfl
  | cons fa rest ih =>
    obtain ⟨f, a⟩ := fa
    simp only [List.map_cons, Gen.Hash.armStmts, toHashField, delegatedNames, Gen.Hash.bindNamed]
    by_cases hig : a.ignore = true
    · simp [hig, ih]
    · simp only [hig, Bool.false_eq_true, if_false, Bool.false_or]
      unfold Gen.Hash.stmt
      cases hm : a.method with
      | none => simp [hashOperands, ih]
      | some m => simp [hashOperands, ih]

/-- The handler computes the predicates of PartialEq / Hash from exactly `delegatedTypes` of every variant:
    what `eqLikeHandler` calls `types`. -/
theorem eqLike_types_are_delegated (vs : List (Variant × List (Field × CmpFieldAttr))) :
    (vs.flatMap fun (_, fas) => fas.filterMap fun (f, a) => if a.ignore || a.method.isSome then none else some f.ty)
      = vs.flatMap fun p => delegatedTypes p.2 := rfl



/-! Clone: the types collected for the `Clone` predicates are those of the fields cloned by the field type's own
    `Clone::clone` (and `clone_from`), not of the fields handled by a custom method. -/

def toCloneField (fa : Field × CloneFieldAttr) : CloneField :=
  { name := (fa.1.name.getD "").toList, method := fa.2.method.map fun _ => 0 }

def cloneOperands : List CloneExpr → List Ref
  | [] => []
  | .builtin r :: rest => r :: cloneOperands rest
  | .method _ _ :: rest => cloneOperands rest

def cfOperands : List CFStmt → List Ref
  | [] => []
  | .builtin d _ :: rest => d :: cfOperands rest
  | .assign _ _ _ :: rest => cfOperands rest

def cloneDelegatedIdx : Nat → List (Field × CloneFieldAttr) → List Nat
  | _, [] => []
  | i, (_, a) :: rest => if a.method.isSome then cloneDelegatedIdx (i + 1) rest else i :: cloneDelegatedIdx (i + 1) rest

def cloneDelegatedTypes (fas : List (Field × CloneFieldAttr)) : List String :=
  fas.filterMap fun (f, a) => if a.method.isSome then none else some f.ty

theorem clone_struct_body_delegates_exactly (fas : List (Field × CloneFieldAttr)) (i : Nat) :
    cloneOperands (Gen.Clone.structExprs i (fas.map toCloneField)) = (cloneDelegatedIdx i fas).map Ref.selfField ∧
    cfOperands (Gen.Clone.structCF i (fas.map toCloneField)) = (cloneDelegatedIdx i fas).map Ref.selfField := by
  induction fas generalizing i with
  | nil => exact ⟨rfl, rfl⟩
  | cons fa rest ih =>
    obtain ⟨f, a⟩ := fa
    obtain ⟨h1, h2⟩ := ih (i + 1)
    simp only [List.map_cons, Gen.Clone.structExprs, Gen.Clone.structCF, toCloneField, cloneDelegatedIdx]
    unfold Gen.Clone.expr Gen.Clone.cfStmt
    cases hm : a.method with
    | none => simp [cloneOperands, cfOperands, h1, h2]
    | some m => simp [cloneOperands, cfOperands, h1, h2]

/-- what `cloneHandler` calls `types` -/
theorem clone_types_are_delegated (vs : List (Variant × List (Field × CloneFieldAttr))) :
    (vs.flatMap fun (_, fas) => fas.filterMap fun (f, a) => if a.method.isSome then none else some f.ty)
      = vs.flatMap fun p => cloneDelegatedTypes p.2 := rfl

/-! ### Ord / PartialOrd: the ranked field list of the two layers

The predicates of an educed Ord / PartialOrd are computed from the attribute layer's ranked list (`rankLoop`), the
comparison body visits the behavioural layer's (`Gen.Ord.rankFields`, proved to be the rank order in Props/C03).
They are the same list. -/

/-- the attribute layer's insertion is the behavioural layer's `btInsert` -/
theorem insertRank_eq_btInsert (k : Int) (x : Field × CmpFieldAttr) (acc : List (Int × (Field × CmpFieldAttr))) :
    insertRank k x acc = Gen.Ord.btInsert k x acc := by
  induction acc with
  | nil => rfl
  | cons p rest ih =>
    obtain ⟨k', y⟩ := p
    simp only [insertRank, Gen.Ord.btInsert, ih]

def onPayload {α β : Type} (g : α → β) (l : List (Int × α)) : List (Int × β) := l.map fun p => (p.1, g p.2)

theorem btInsert_onPayload {α β : Type} (g : α → β) (k : Int) (x : α) (acc : List (Int × α)) :
    (Gen.Ord.btInsert k x acc).map (onPayload g) = Gen.Ord.btInsert k (g x) (onPayload g acc) := by
  induction acc with
  | nil => rfl
  | cons p rest ih =>
    obtain ⟨k', y⟩ := p
    simp only [Gen.Ord.btInsert, onPayload, List.map_cons]
    split
    · rfl
    · split
      · rfl
      · have ih' := ih
        simp only [onPayload] at ih'
        rw [← ih']
        cases Gen.Ord.btInsert k x rest <;> rfl

def toOrdField (fa : Field × CmpFieldAttr) : OrdField :=
  { name := (fa.1.name.getD "").toList, ignore := fa.2.ignore, method := fa.2.method.map fun _ => 0, rank := fa.2.rank }

/-- **The two layers rank alike.** Fed with the same fields, the attribute layer's `rankLoop` (Expand.lean, what the
    impl header is computed from) and the behavioural layer's `rankFields` (Gen/Ord.lean, what the comparison body
    visits) refuse in the same cases (a rank given twice) and otherwise list the same fields under the same ranks
    in the same order. -/
theorem rankLoop_agrees_with_rankFields :
    ∀ (fas : List (Field × CmpFieldAttr)) (i : Nat) (acc₁ : List (Int × (Field × CmpFieldAttr))) (acc₂ : List (Int × (Nat × OrdField))),
      onPayload toOrdField acc₁ = onPayload Prod.snd acc₂ →
      (rankLoop i fas acc₁).map (onPayload toOrdField) = (Gen.Ord.rankFields i (fas.map toOrdField) acc₂).map (onPayload Prod.snd) := by
  intro fas
  induction fas with
  | nil => intro i acc₁ acc₂ h; simp [rankLoop, Gen.Ord.rankFields, h]
  | cons fa rest ih =>
    intro i acc₁ acc₂ h
    obtain ⟨f, a⟩ := fa
    have hci : (toOrdField (f, a)).ignore = a.ignore := rfl
    have hk : a.rank.getD (-9223372036854775808 + (i : Int)) = Gen.Ord.effRank i (toOrdField (f, a)) := by
      simp [Gen.Ord.effRank, toOrdField, isizeMin]
    simp only [rankLoop, List.map_cons, Gen.Ord.rankFields, hci]
    by_cases hig : a.ignore = true
    · simp only [hig, if_true]
      exact ih (i + 1) acc₁ acc₂ h
    · simp only [hig, Bool.false_eq_true, if_false]
      have e1 := btInsert_onPayload toOrdField (a.rank.getD (-9223372036854775808 + (i : Int))) (f, a) acc₁
      have e2 := btInsert_onPayload (Prod.snd : Nat × OrdField → OrdField) (Gen.Ord.effRank i (toOrdField (f, a))) (i, toOrdField (f, a)) acc₂
      simp only at e2
      rw [h, hk] at e1
      rw [insertRank_eq_btInsert, ← hk] at *
      have e3 : (Gen.Ord.btInsert (a.rank.getD (-9223372036854775808 + (i : Int))) (f, a) acc₁).map (onPayload toOrdField)
              = (Gen.Ord.btInsert (a.rank.getD (-9223372036854775808 + (i : Int))) (i, toOrdField (f, a)) acc₂).map (onPayload Prod.snd) := by
        rw [e1, e2]
      cases h1 : Gen.Ord.btInsert (a.rank.getD (-9223372036854775808 + (i : Int))) (f, a) acc₁ with
      | none =>
        cases h2 : Gen.Ord.btInsert (a.rank.getD (-9223372036854775808 + (i : Int))) (i, toOrdField (f, a)) acc₂ with
        | none => rfl
        | some r => rw [h1, h2] at e3; cases e3
      | some r1 =>
        cases h2 : Gen.Ord.btInsert (a.rank.getD (-9223372036854775808 + (i : Int))) (i, toOrdField (f, a)) acc₂ with
        | none => rw [h1, h2] at e3; cases e3
        | some r2 =>
          rw [h1, h2] at e3
          simp only [Option.map_some, Option.some.injEq] at e3
          exact ih (i + 1) r1 r2 e3

end Educe.Attr
