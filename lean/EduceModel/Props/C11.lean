import EduceModel.Expand
import EduceModel.Gen.PartialEq
import EduceModel.Gen.Hash
/-
  C11 — automatic bounds are exactly those the generated code needs.
-/
namespace Educe.Attr

/-- In automatic mode the appended predicates are one `FieldTy: Trait` per collected field type, in
    collection order, then one `Self: Supertrait` per supertrait — nothing else. -/
theorem auto_preds_shape (g : Generics) (tp : String) (types supers : List String) :
    boundPreds .auto g tp types supers
      = types.map (fun t => noSpace t ++ ":" ++ tp) ++ supers.map (fun s => "Self:" ++ s) := by
  simp [boundPreds]

/-- No predicate of the automatic mode mentions anything but a collected field type or `Self`. -/
theorem auto_preds_only_collected (g : Generics) (tp : String) (types supers : List String) (p : String)
    (hp : p ∈ boundPreds .auto g tp types supers) :
    (∃ t ∈ types, p = noSpace t ++ ":" ++ tp) ∨ (∃ s ∈ supers, p = "Self:" ++ s) := by
  simp only [boundPreds, List.mem_append, List.mem_map] at hp
  rcases hp with ⟨t, ht, rfl⟩ | ⟨s, hs, rfl⟩
  · exact Or.inl ⟨t, ht, rfl⟩
  · exact Or.inr ⟨s, hs, rfl⟩

/-- The companion impl emitted alongside a primary one (Eq with PartialEq, Copy with Clone,
    PartialOrd with Ord) carries the primary's predicates: it applies to exactly the same
    instantiations. -/
theorem companion_same_predicates (primary : Item) (comp : Option (TraitId × String)) (traits : TraitId → Bool) :
    ∀ it ∈ withCompanion primary comp traits, it.preds = primary.preds := by
  intro it hit
  unfold withCompanion at hit
  split at hit
  · split at hit
    · simp at hit; rcases hit with rfl | rfl <;> rfl
    · simp at hit; subst hit; rfl
  · simp at hit; subst hit; rfl

/-! ### the collected types are the delegated fields of the generated body (PartialEq, Hash)

Two independently written parts are linked here: the handler-level rule "push the field type unless
the field is ignored or has a method" (`delegatedTypes`, what the bound is computed from) and the
configuration-level generator of the body (`Gen.PartialEq` / `Gen.Hash`), whose statements call the
trait's own method exactly on those fields. -/

def toEqField (fa : Field × CmpFieldAttr) : EqField :=
  { name := (fa.1.name.getD "").toList, ignore := fa.2.ignore, method := fa.2.method.map fun _ => 0 }

def delegatedTypes (fas : List (Field × CmpFieldAttr)) : List String :=
  fas.filterMap fun (f, a) => if a.ignore || a.method.isSome then none else some f.ty

/-- Operands of the calls to the trait's own comparison in a statement list. -/
def neOperands : List EqStmt → List Ref
  | [] => []
  | .ifNe a _ :: rest => a :: neOperands rest
  | .ifNotMethod _ _ _ :: rest => neOperands rest

def delegatedIdx : Nat → List (Field × CmpFieldAttr) → List Nat
  | _, [] => []
  | i, (_, a) :: rest => if a.ignore || a.method.isSome then delegatedIdx (i + 1) rest else i :: delegatedIdx (i + 1) rest

theorem struct_body_delegates_exactly (fas : List (Field × CmpFieldAttr)) (i : Nat) :
    neOperands (Gen.PartialEq.structStmts i (fas.map toEqField)) = (delegatedIdx i fas).map Ref.selfField := by
  induction fas generalizing i with
  | nil => rfl
  | cons fa rest ih =>
    obtain ⟨f, a⟩ := fa
    simp only [List.map_cons, Gen.PartialEq.structStmts, toEqField, delegatedIdx]
    by_cases hig : a.ignore = true
    · simp [hig, ih]
    · simp only [hig, Bool.false_eq_true, if_false, Bool.false_or]
      unfold Gen.PartialEq.stmt
      cases hm : a.method with
      | none => simp [neOperands, ih]
      | some m => simp [neOperands, ih]

/-- The delegated fields with their types: index and type go together. -/
def delegatedPairs : Nat → List (Field × CmpFieldAttr) → List (Nat × String)
  | _, [] => []
  | i, (f, a) :: rest => if a.ignore || a.method.isSome then delegatedPairs (i + 1) rest else (i, f.ty) :: delegatedPairs (i + 1) rest

/-- The predicates' types and the body's delegated operands are the two projections of one list:
    the i-th bound type is the type of the field the i-th delegated call operates on. -/
theorem delegated_types_and_operands (fas : List (Field × CmpFieldAttr)) (i : Nat) :
    (delegatedPairs i fas).map Prod.snd = delegatedTypes fas ∧
    (delegatedPairs i fas).map (fun p => Ref.selfField p.1) = neOperands (Gen.PartialEq.structStmts i (fas.map toEqField)) := by
  rw [struct_body_delegates_exactly]
  induction fas generalizing i with
  | nil => exact ⟨rfl, rfl⟩
  | cons fa rest ih =>
    obtain ⟨f, a⟩ := fa
    obtain ⟨h1, h2⟩ := ih (i + 1)
    unfold delegatedTypes at h1 ⊢
    simp only [delegatedPairs, delegatedIdx, List.filterMap_cons]
    split
    · exact ⟨h1, h2⟩
    · simp [h1, h2]

/-- A type parameter that occurs only in ignored or method-handled fields is never constrained:
    the automatic predicates mention only the types of delegated fields. -/
theorem ignored_and_method_fields_not_bound (fas : List (Field × CmpFieldAttr)) (t : String)
    (ht : t ∈ delegatedTypes fas) : ∃ f a, (f, a) ∈ fas ∧ f.ty = t ∧ a.ignore = false ∧ a.method = none := by
  unfold delegatedTypes at ht
  rw [List.mem_filterMap] at ht
  obtain ⟨⟨f, a⟩, hmem, h⟩ := ht
  simp only at h
  split at h
  · cases h
  · rename_i hc
    cases h
    refine ⟨f, a, hmem, rfl, ?_, ?_⟩
    · cases hi : a.ignore <;> simp_all
    · cases hm : a.method <;> simp_all

/-- Applicability: an impl applies to an instantiation exactly when all its predicates hold. -/
def applies (holds : String → Bool) (userWhere : List String) (it : Item) : Bool :=
  (userWhere.map noSpace ++ it.preds).all holds

theorem companion_applies_iff (holds : String → Bool) (w : List String) (primary : Item) (comp : Option (TraitId × String))
    (traits : TraitId → Bool) : ∀ it ∈ withCompanion primary comp traits, applies holds w it = applies holds w primary := by
  intro it hit
  unfold applies
  rw [companion_same_predicates primary comp traits it hit]

end Educe.Attr
