import EduceModel.Expand
import EduceModel.Props.C16
/-
  C15 — each trait's impl depends only on that trait's own attributes.

  In the model a handler sees the rest of the derive request through exactly two windows:
  (1) `traits`, only as a membership test, and only for the documented partners
      (Copy/Clone, Eq/PartialEq, Ord/PartialOrd) — visible in `handlerFor`;
  (2) the attribute lists of the type's fields and variants, through `scanMetas`, which filters by
      `mine` (the trait and its documented synonym) and otherwise only *validates*.
  The theorems below show window (2) is transparent: on accepted input, metas of other traits —
  added, removed, reordered or re-configured — do not change what a handler reads.
-/
namespace Educe.Attr

/-- A meta of another trait that the scan merely validates: a known trait that is educed on the type. -/
def ValidOther (F : Features) (traits mine : TraitId → Bool) (m : TraitMeta) : Prop :=
  ∃ t, traitOf F m = some t ∧ traits t = true ∧ mine t = false

/-- Skipping one valid meta of another trait changes nothing. -/
theorem scanMetas_skip_other {α : Type} (F : Features) (traits mine : TraitId → Bool) (build : TraitMeta → Res α)
    (m : TraitMeta) (h : ValidOther F traits mine m) (ms : List TraitMeta) (out : Option α) :
    scanMetas F traits mine build (m :: ms) out = scanMetas F traits mine build ms out := by
  obtain ⟨t, h1, h2, h3⟩ := h
  simp [scanMetas, h1, h2, h3]

/-- **Adding or removing** valid metas of other traits anywhere in a list leaves the scan's result
    unchanged: it equals the scan of the trait's own metas alone. -/
theorem scanMetas_only_mine {α : Type} (F : Features) (traits mine : TraitId → Bool) (build : TraitMeta → Res α) :
    ∀ (ms : List TraitMeta) (keep : TraitMeta → Bool),
      (∀ m ∈ ms, keep m = false → ValidOther F traits mine m) → ∀ (out : Option α),
      scanMetas F traits mine build ms out = scanMetas F traits mine build (ms.filter keep) out := by
  intro ms keep
  induction ms with
  | nil => intro _ out; rfl
  | cons m ms ih =>
    intro h out
    have ih' := ih (fun m' hm' => h m' (List.mem_cons_of_mem m hm'))
    by_cases hk : keep m = true
    · simp only [List.filter_cons, hk, if_true, scanMetas]
      split
      · rfl
      · split
        · rfl
        · split
          · split
            · rfl
            · split
              · exact ih' _
              · rfl
              · rfl
          · exact ih' _
    · have hk' : keep m = false := by simpa using hk
      rw [scanMetas_skip_other F traits mine build m (h m (by simp) hk')]
      simp only [List.filter_cons, hk', Bool.false_eq_true, if_false]
      exact ih' out

/-- **Re-ordering** the other traits' metas around the trait's own ones, or **re-configuring** them,
    leaves the result unchanged as well: two lists with the same own metas (in the same relative
    order) and otherwise valid metas of other traits are scanned alike. -/
theorem scanMetas_depends_on_own_metas {α : Type} (F : Features) (traits mine : TraitId → Bool) (build : TraitMeta → Res α)
    (ms ms' : List TraitMeta) (keep : TraitMeta → Bool)
    (h : ∀ m ∈ ms, keep m = false → ValidOther F traits mine m)
    (h' : ∀ m ∈ ms', keep m = false → ValidOther F traits mine m)
    (hsame : ms.filter keep = ms'.filter keep) (out : Option α) :
    scanMetas F traits mine build ms out = scanMetas F traits mine build ms' out := by
  rw [scanMetas_only_mine F traits mine build ms keep h, scanMetas_only_mine F traits mine build ms' keep h', hsame]

/-- An attribute that carries only valid metas of other traits (or is not an `#[educe]` list at all)
    is invisible to the handler. -/
theorem scanAttrs_skip_other_attribute {α : Type} (F : Features) (traits mine : TraitId → Bool) (build : TraitMeta → Res α)
    (a : Attribute) (ms : List TraitMeta) (hm : a.metas = some ms) (hall : ∀ m ∈ ms, ValidOther F traits mine m)
    (rest : List Attribute) (out : Option α) :
    scanAttrs F traits mine build (a :: rest) out = scanAttrs F traits mine build rest out := by
  have hs : scanMetas F traits mine build ms out = .ok out := by
    have := scanMetas_only_mine F traits mine build ms (fun _ => false) (fun m hm' _ => hall m hm') out
    rw [this]
    have hnil : ms.filter (fun _ => false) = [] := by
      induction ms with
      | nil => rfl
      | cons x xs ih => simp
    rw [hnil]; rfl
  simp only [scanAttrs]
  split
  · simp [hm, hs]
  · rfl

/-- The set of educed traits reaches a handler only as a membership test (this is the type of
    `Ctx.traits`), so its order is irrelevant; with C16's `dispatch_perm`, re-ordering the traits on
    the type changes no impl. Which memberships a handler consults is visible in `handlerFor`: only
    the documented couplings. For instance the stand-alone Copy handler looks at `Clone` alone: -/
theorem copy_handler_consults_clone_only (c c' : Ctx) (hd : c.d = c'.d) (hclone : c.traits .clone = c'.traits .clone)
    (hscan : ∀ {α : Type} (mine : TraitId → Bool) (build : TraitMeta → Res α) (dflt : α) (attrs : List Attribute),
        fromAttrs c.F c.traits mine build dflt attrs = fromAttrs c'.F c'.traits mine build dflt attrs)
    (m : TraitMeta) :
    markerHandler c m .copy .clone "::core::marker::Copy" "::core::clone::Clone"
      = markerHandler c' m .copy .clone "::core::marker::Copy" "::core::clone::Clone" := by
  unfold markerHandler
  simp only [hclone, hd, variantNoAttr, hscan]

end Educe.Attr
