import EduceModel.Expand
import EduceModel.Props.C16
import EduceModel.Props.C18
/-
  C15 — each trait's impl depends only on that trait's own attributes.

  In the model a handler sees the rest of the derive request through exactly two windows:
  (1) `traits`, only as a membership test, and only for the documented partners
      (Copy/Clone, Eq/PartialEq, Ord/PartialOrd) — visible in `handlerFor`;
  (2) the attribute lists of the type's fields and variants, through `scanMetas`, which filters by
      `mine` (the trait and its documented synonym) and otherwise only *validates*.
  The theorems below show window (2) is transparent: on accepted input, metas of other traits —
  added, removed, reordered or re-configured — do not change what a handler reads.
-/
namespace Educe.Attr

/-- A meta of another trait that the scan merely validates: a known trait that is educed on the type. -/
def ValidOther (F : Features) (traits mine : TraitId → Bool) (m : TraitMeta) : Prop :=
  ∃ t, traitOf F m = some t ∧ traits t = true ∧ mine t = false

/-- Skipping one valid meta of another trait changes nothing. -/
theorem scanMetas_skip_other {α : Type} (F : Features) (traits mine : TraitId → Bool) (build : TraitMeta → Res α)
    (m : TraitMeta) (h : ValidOther F traits mine m) (ms : List TraitMeta) (out : Option α) :
    scanMetas F traits mine build (m :: ms) out = scanMetas F traits mine build ms out := by
  obtain ⟨t, h1, h2, h3⟩ := h
  simp [scanMetas, h1, h2, h3]

/-- **Adding or removing** valid metas of other traits anywhere in a list leaves the scan's result
    unchanged: it equals the scan of the trait's own metas alone. -/
theorem scanMetas_only_mine {α : Type} (F : Features) (traits mine : TraitId → Bool) (build : TraitMeta → Res α) :
    ∀ (ms : List TraitMeta) (keep : TraitMeta → Bool),
      (∀ m ∈ ms, keep m = false → ValidOther F traits mine m) → ∀ (out : Option α),
      scanMetas F traits mine build ms out = scanMetas F traits mine build (ms.filter keep) out := by
  intro ms keep
  induction ms with
  | nil => intro _ out; rfl
  | cons m ms ih =>
    intro h out
    have ih' := ih (fun m' hm' => h m' (List.mem_cons_of_mem m hm'))
    by_cases hk : keep m = true
    · simp only [List.filter_cons, hk, if_true, scanMetas]
      split
      · rfl
      · split
        · rfl
        · split
          · split
            · rfl
            · split
              · exact ih' _
              · rfl
              · rfl
          · exact ih' _
    · have hk' : keep m = false := by simpa using hk
      rw [scanMetas_skip_other F traits mine build m (h m (by simp) hk')]
      simp only [List.filter_cons, hk', Bool.false_eq_true, if_false]
      exact ih' out

/-- **Re-ordering** the other traits' metas around the trait's own ones, or **re-configuring** them,
    leaves the result unchanged as well: two lists with the same own metas (in the same relative
    order) and otherwise valid metas of other traits are scanned alike. -/
theorem scanMetas_depends_on_own_metas {α : Type} (F : Features) (traits mine : TraitId → Bool) (build : TraitMeta → Res α)
    (ms ms' : List TraitMeta) (keep : TraitMeta → Bool)
    (h : ∀ m ∈ ms, keep m = false → ValidOther F traits mine m)
    (h' : ∀ m ∈ ms', keep m = false → ValidOther F traits mine m)
    (hsame : ms.filter keep = ms'.filter keep) (out : Option α) :
    scanMetas F traits mine build ms out = scanMetas F traits mine build ms' out := by
  rw [scanMetas_only_mine F traits mine build ms keep h, scanMetas_only_mine F traits mine build ms' keep h', hsame]

/-- An attribute that carries only valid metas of other traits (or is not an `#[educe]` list at all)
    is invisible to the handler. -/
theorem scanAttrs_skip_other_attribute {α : Type} (F : Features) (traits mine : TraitId → Bool) (build : TraitMeta → Res α)
    (a : Attribute) (ms : List TraitMeta) (hm : a.metas = some ms) (hall : ∀ m ∈ ms, ValidOther F traits mine m)
    (rest : List Attribute) (out : Option α) :
    scanAttrs F traits mine build (a :: rest) out = scanAttrs F traits mine build rest out := by
  have hs : scanMetas F traits mine build ms out = .ok out := by
    have := scanMetas_only_mine F traits mine build ms (fun _ => false) (fun m hm' _ => hall m hm') out
    rw [this]
    have hnil : ms.filter (fun _ => false) = [] := by
      induction ms with
      | nil => rfl
      | cons x xs ih => simp
    rw [hnil]; rfl
  simp only [scanAttrs]
  split
  · simp [hm, hs]
  · rfl

/-- The set of educed traits reaches a handler only as a membership test (this is the type of
    `Ctx.traits`), so its order is irrelevant; with C16's `dispatch_perm`, re-ordering the traits on
    the type changes no impl. Which memberships a handler consults is visible in `handlerFor`: only
    the documented couplings. For instance the stand-alone Copy handler looks at `Clone` alone: -/
theorem copy_handler_consults_clone_only (c c' : Ctx) (hd : c.d = c'.d) (hclone : c.traits .clone = c'.traits .clone)
    (hscan : ∀ {α : Type} (mine : TraitId → Bool) (build : TraitMeta → Res α) (dflt : α) (attrs : List Attribute),
        fromAttrs c.F c.traits mine build dflt attrs = fromAttrs c'.F c'.traits mine build dflt attrs)
    (m : TraitMeta) :
    markerHandler c m .copy .clone "::core::marker::Copy" "::core::clone::Clone" true
      = markerHandler c' m .copy .clone "::core::marker::Copy" "::core::clone::Clone" true := by
  unfold markerHandler
  simp only [hclone, hd, variantNoAttr, hscan]

/-! ### window (1): the set of educed traits

Through `traits` a handler can see (a) whether the traits *named in field / variant attributes* are educed
(validation) and (b) whether its documented partner is. Everything else about the set is invisible. -/

open Educe.Props.C18 in
section
/-- Two sets of educed traits look the same from the metas of one attribute position. -/
def TraitsAgreeOn (F : Features) (tr₁ tr₂ : TraitId → Bool) (attrs : List Attribute) : Prop :=
  ∀ a ∈ attrs, ∀ ms, a.metas = some ms → ∀ m ∈ ms, ∀ t, traitOf F m = some t → tr₁ t = tr₂ t

theorem scanMetas_traits {α : Type} (F : Features) (tr₁ tr₂ mine : TraitId → Bool) (build : TraitMeta → Res α)
    (ms : List TraitMeta) (out : Option α) (h : ∀ m ∈ ms, ∀ t, traitOf F m = some t → tr₁ t = tr₂ t) :
    scanMetas F tr₁ mine build ms out = scanMetas F tr₂ mine build ms out := by
  induction ms generalizing out with
  | nil => rfl
  | cons m ms ih =>
    have ih' := fun o => ih o (fun x hx => h x (by simp [hx]))
    unfold scanMetas
    cases ht : traitOf F m with
    | none => rfl
    | some t =>
      have := h m (by simp) t ht
      simp only [this, ih']

theorem scanAttrs_traits {α : Type} (F : Features) (tr₁ tr₂ mine : TraitId → Bool) (build : TraitMeta → Res α)
    (attrs : List Attribute) (out : Option α) (h : TraitsAgreeOn F tr₁ tr₂ attrs) :
    scanAttrs F tr₁ mine build attrs out = scanAttrs F tr₂ mine build attrs out := by
  induction attrs generalizing out with
  | nil => rfl
  | cons a as ih =>
    have ih' := fun o => ih o (fun x hx => h x (by simp [hx]))
    unfold scanAttrs
    split
    · split
      · rfl
      · rename_i ms hms
        rw [scanMetas_traits F tr₁ tr₂ mine build ms out (h a (by simp) ms hms)]
        simp only [ih']
    · exact ih' _

theorem fromAttrs_traits {α : Type} {F : Features} {tr₁ tr₂ mine : TraitId → Bool} {build : TraitMeta → Res α} {dflt : α}
    {attrs : List Attribute} (h : TraitsAgreeOn F tr₁ tr₂ attrs) :
    fromAttrs F tr₁ mine build dflt attrs = fromAttrs F tr₂ mine build dflt attrs := by
  unfold fromAttrs
  rw [scanAttrs_traits F tr₁ tr₂ mine build attrs none h]

/-- the trait set of the context replaced -/
def withTraits (c : Ctx) (tr : TraitId → Bool) : Ctx := { c with traits := tr }

structure InputAgree (F : Features) (tr₁ tr₂ : TraitId → Bool) (d : DeriveInput) : Prop where
  var : ∀ v ∈ d.variants, TraitsAgreeOn F tr₁ tr₂ v.attrs
  fld : ∀ v ∈ d.variants, ∀ f ∈ v.fields, TraitsAgreeOn F tr₁ tr₂ f.attrs

theorem InputAgree.hd {F : Features} {tr₁ tr₂ : TraitId → Bool} {d : DeriveInput} (H : InputAgree F tr₁ tr₂ d) :
    ∀ f ∈ (d.variants.headD {}).fields, TraitsAgreeOn F tr₁ tr₂ f.attrs := by
  intro f hf
  cases hd : d.variants with
  | nil => rw [hd] at hf; simp at hf
  | cons v vs => rw [hd] at hf; exact H.fld v (by rw [hd]; simp) f (by simpa using hf)

macro "agdisch" H:term : tactic =>
  `(tactic| first | assumption | (apply InputAgree.fld $H <;> assumption) | (apply InputAgree.var $H; assumption) | (apply InputAgree.hd $H; assumption))

theorem variantNoAttr_traits {c : Ctx} {tr₂ mine : TraitId → Bool} {v : Variant} (h : TraitsAgreeOn c.F c.traits tr₂ v.attrs) :
    variantNoAttr c mine v = variantNoAttr (withTraits c tr₂) mine v := by
  unfold variantNoAttr
  rw [fromAttrs_traits h]; rfl

/-- **Debug** (no coupling): the impl is the same under any two trait sets that agree on the traits named in
    the field / variant attributes. -/
theorem debugHandler_traits {c : Ctx} {tr₂ : TraitId → Bool} {m : TraitMeta} (H : InputAgree c.F c.traits tr₂ c.d) :
    debugHandler c m = debugHandler (withTraits c tr₂) m := by
  unfold debugHandler
  simp (disch := agdisch H) only [fromAttrs_traits (tr₁ := c.traits) (tr₂ := tr₂)]
  rfl

/-- **Hash / PartialEq** (`eqLikeHandler`): besides the agreement on named traits only the companion's membership matters. -/
theorem eqLikeHandler_traits {c : Ctx} {tr₂ : TraitId → Bool} {m : TraitMeta} {me mine tp} {comp : Option (TraitId × String)}
    (H : InputAgree c.F c.traits tr₂ c.d) (hc : ∀ p, comp = some p → c.traits p.1 = tr₂ p.1) :
    eqLikeHandler c m me mine tp comp = eqLikeHandler (withTraits c tr₂) m me mine tp comp := by
  have hw : ∀ primary, withCompanion primary comp c.traits = withCompanion primary comp tr₂ := by
    intro primary
    unfold withCompanion
    cases comp with
    | none => rfl
    | some p => simp only [hc p rfl]
  unfold eqLikeHandler
  simp (disch := agdisch H) only [fromAttrs_traits (tr₁ := c.traits) (tr₂ := tr₂), variantNoAttr_traits (c := c) (tr₂ := tr₂), hw]
  rfl

theorem ordLikeHandler_traits {c : Ctx} {tr₂ : TraitId → Bool} {m : TraitMeta} {me mine tp su co}
    (H : InputAgree c.F c.traits tr₂ c.d) :
    ordLikeHandler c m me mine tp su co = ordLikeHandler (withTraits c tr₂) m me mine tp su co := by
  unfold ordLikeHandler
  simp (disch := agdisch H) only [fromAttrs_traits (tr₁ := c.traits) (tr₂ := tr₂), variantNoAttr_traits (c := c) (tr₂ := tr₂)]
  rfl

theorem derefHandler_traits {c : Ctx} {tr₂ : TraitId → Bool} {m : TraitMeta} {me} (H : InputAgree c.F c.traits tr₂ c.d) :
    derefHandler c m me = derefHandler (withTraits c tr₂) m me := by
  unfold derefHandler
  simp (disch := agdisch H) only [fromAttrs_traits (tr₁ := c.traits) (tr₂ := tr₂)]
  rfl

theorem cloneHandler_traits {c : Ctx} {tr₂ : TraitId → Bool} {m : TraitMeta} (H : InputAgree c.F c.traits tr₂ c.d)
    (hcopy : c.traits .copy = tr₂ .copy) : cloneHandler c m = cloneHandler (withTraits c tr₂) m := by
  unfold cloneHandler
  simp (disch := agdisch H) only [fromAttrs_traits (tr₁ := c.traits) (tr₂ := tr₂), variantNoAttr_traits (c := c) (tr₂ := tr₂), hcopy]
  rfl

theorem markerHandler_traits {c : Ctx} {tr₂ : TraitId → Bool} {m : TraitMeta} {me p b s w} (H : InputAgree c.F c.traits tr₂ c.d)
    (hp : c.traits p = tr₂ p) : markerHandler c m me p b s w = markerHandler (withTraits c tr₂) m me p b s w := by
  unfold markerHandler
  simp (disch := agdisch H) only [fromAttrs_traits (tr₁ := c.traits) (tr₂ := tr₂), variantNoAttr_traits (c := c) (tr₂ := tr₂), hp]
  rfl

theorem collectMetas_traits (F : Features) (tr₁ tr₂ : TraitId → Bool) (t0 : TraitId) (ms acc : List TraitMeta)
    (h : ∀ m ∈ ms, ∀ t, traitOf F m = some t → tr₁ t = tr₂ t) :
    collectMetas F tr₁ t0 ms acc = collectMetas F tr₂ t0 ms acc := by
  induction ms generalizing acc with
  | nil => rfl
  | cons m ms ih =>
    have ih' := fun o => ih o (fun x hx => h x (by simp [hx]))
    unfold collectMetas
    cases ht : traitOf F m with
    | none => rfl
    | some t =>
      have := h m (by simp) t ht
      simp only [this, ih']

theorem collectAttrs_traits {F : Features} {tr₁ tr₂ : TraitId → Bool} {t0 : TraitId} {attrs : List Attribute} {acc : List TraitMeta}
    (h : TraitsAgreeOn F tr₁ tr₂ attrs) : collectAttrs F tr₁ t0 attrs acc = collectAttrs F tr₂ t0 attrs acc := by
  induction attrs generalizing acc with
  | nil => rfl
  | cons a as ih =>
    have ih' := fun o => @ih o (fun x hx => h x (by simp [hx]))
    unfold collectAttrs
    split
    · split
      · rfl
      · rename_i ms hms
        rw [collectMetas_traits F tr₁ tr₂ t0 ms acc (h a (by simp) ms hms)]
        simp only [ih']
    · exact ih' _

theorem intoHandler_traits {c : Ctx} {tr₂ : TraitId → Bool} {ms : List TraitMeta} (H : InputAgree c.F c.traits tr₂ c.d) :
    intoHandler c ms = intoHandler (withTraits c tr₂) ms := by
  unfold intoHandler
  simp (disch := agdisch H) only [collectAttrs_traits (tr₁ := c.traits) (tr₂ := tr₂)]
  rfl

theorem defaultHandler_traits {c : Ctx} {tr₂ : TraitId → Bool} {m : TraitMeta} (H : InputAgree c.F c.traits tr₂ c.d) :
    defaultHandler c m = defaultHandler (withTraits c tr₂) m := by
  unfold defaultHandler
  have e : defaultPickVariant
      (fun flag expr f => do
        let a ← fromAttrs c.F c.traits (fun x => x == TraitId.default) (defaultFieldFromMeta flag expr f.shape) {} f.attrs
        pure (f, a))
      (fun flag v => fromAttrs c.F c.traits (fun x => x == TraitId.default)
        (defaultTypeFromMeta { flag := flag, new := false, expression := false, bound := false }) {} v.attrs) c.d.variants =
    defaultPickVariant
      (fun flag expr f => do
        let a ← fromAttrs c.F tr₂ (fun x => x == TraitId.default) (defaultFieldFromMeta flag expr f.shape) {} f.attrs
        pure (f, a))
      (fun flag v => fromAttrs c.F tr₂ (fun x => x == TraitId.default)
        (defaultTypeFromMeta { flag := flag, new := false, expression := false, bound := false }) {} v.attrs) c.d.variants := by
    apply defaultPickVariant_congr
    · intro fl v hv; rw [fromAttrs_traits (H.var v hv)]
    · intro a b v hv f hf; rw [fromAttrs_traits (H.fld v hv f hf)]
  simp (disch := agdisch H) only [fromAttrs_traits (tr₁ := c.traits) (tr₂ := tr₂), e]
  rfl

/-- **C15 at the level of the whole handler.** Replace the set of educed traits by any other set that (a) agrees
    with it on every trait named in a field or variant attribute (so the same attributes stay valid) and (b)
    agrees on the trait's documented partner: the items generated for the trait are the same. In particular
    educing or dropping a trait that no field or variant attribute mentions, and that is not the partner, changes
    nothing. -/
theorem handlerFor_depends_on_partner_only {c : Ctx} {tr₂ : TraitId → Bool} {t : TraitId} {ms : List TraitMeta}
    (H : InputAgree c.F c.traits tr₂ c.d)
    (hcopy : c.traits .copy = tr₂ .copy) (hclone : c.traits .clone = tr₂ .clone)
    (heq : c.traits .eq = tr₂ .eq) (hpeq : c.traits .partialEq = tr₂ .partialEq)
    (hord : c.traits .ord = tr₂ .ord) (hpord : c.traits .partialOrd = tr₂ .partialOrd) :
    handlerFor c t ms = handlerFor (withTraits c tr₂) t ms := by
  unfold handlerFor
  cases ms with
  | nil => rfl
  | cons m rest =>
    cases t <;> simp only [withTraits, hord, hpord, heq]
    · exact debugHandler_traits H
    · exact cloneHandler_traits H hcopy
    · exact markerHandler_traits H hclone
    · exact eqLikeHandler_traits H (by intro p hp; cases hp; exact heq)
    · exact markerHandler_traits H hpeq
    · by_cases h : tr₂ .ord = true
      · simp only [h, if_true]
      · simp only [h, Bool.false_eq_true, if_false]
        exact ordLikeHandler_traits H
    · exact ordLikeHandler_traits H
    · exact eqLikeHandler_traits H (by intro p hp; cases hp)
    · exact defaultHandler_traits H
    · exact derefHandler_traits H
    · exact derefHandler_traits H
    · exact intoHandler_traits H

end

end Educe.Attr
