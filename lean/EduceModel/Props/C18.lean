import EduceModel.Expand
import EduceModel.Features
import EduceModel.Generated.Features
/-!
# C18 — every subset of trait features builds and behaves like the full build

Two parts.

(b) *Build closure* — over the table regenerated from `/repo/src` and `/repo/Cargo.toml`
(`Generated/Features.lean`): in every configuration of the cfg variables, everything compiled
refers only to things that are compiled (modules, gated re-exports, `Trait::X` variants, locals
declared under `#[cfg]`), every gated module that is not `allow(dead_code)` has a compiled user,
the per-trait tables (enum variants, `from_path` arms, dispatch blocks) are gated by exactly the
trait's own feature, and the `compile_error!` fires exactly when no trait feature is on.

(a) *Behaviour* — over the expansion model: the feature set enters only through the trait-name
lookup and the dispatch filter; when every trait named in the input is enabled, the subset build
expands exactly like the full build, and a disabled trait named at type level is refused as
unsupported.
-/
namespace Educe.Props.C18
open Educe.Features Educe.Attr

/-! ## (b) the gate graph -/

/-- the cfg variables that occur in conditions (the translator lists them first) -/
def nvars : Nat := Generated.condVars

/-- In all `2^nvars` configurations every reference is to something compiled. -/
theorem gates_closed_all : allConfigs nvars (obligationsHold Generated.obligations) = true := by
  decide +kernel

theorem gates_closed (m : Nat) (hm : m < 2 ^ nvars) (ctx provided : Cond)
    (ho : (ctx, provided) ∈ Generated.obligations) (hc : ctx.eval m = true) : provided.eval m = true := by
  have h := allConfigs_spec gates_closed_all m hm
  unfold obligationsHold at h
  rw [List.all_eq_true] at h
  have := h _ ho
  simp [hc] at this
  exact this

/-- Every gated module without `allow(dead_code)` is used by compiled code whenever it is compiled. -/
theorem gated_modules_used_all : allConfigs nvars (modulesUsed Generated.moduleUsers) = true := by
  decide +kernel

theorem gated_modules_used (m : Nat) (hm : m < 2 ^ nvars) (name : String) (g : Cond) (users : List Cond)
    (hx : (name, g, users) ∈ Generated.moduleUsers) (hg : g.eval m = true) : ∃ u ∈ users, u.eval m = true := by
  have h := allConfigs_spec gated_modules_used_all m hm
  unfold modulesUsed at h
  rw [List.all_eq_true] at h
  have := h _ hx
  simp [hg] at this
  exact this

/-- The cfg variables start with the twelve trait features, in the model's trait order. -/
theorem trait_features_are_the_model_traits :
    Generated.traitFeatures = TraitId.all.map TraitId.name ∧
    Generated.cfgVars.take 12 = Generated.traitFeatures := by decide

/-- No feature enables another one (apart from `full`, which only forwards to syn). -/
theorem features_independent :
    Generated.featureDeps.all (fun p => p.2 == "[]" || p.1 == "full") = true := by decide

def ownGate (names : List String) : List (String × Cond) :=
  (List.range names.length).zipWith (fun i n => (n, Cond.var i)) names

/-- `enum Trait`: one variant per trait feature, gated by exactly that feature, then `_Nothing`. -/
theorem variants_gated_by_own_feature :
    Generated.traitVariants = ownGate Generated.traitFeatures ++ [("_Nothing", .tt)] := by decide

/-- `Trait::from_path`: the arm for the string `X` exists exactly under feature `X` and returns variant `X`. -/
theorem from_path_gated_by_own_feature :
    Generated.fromPathArms = (ownGate Generated.traitFeatures).map (fun p => (p.1, p.2, p.1)) := by decide

/-- `derive_input_handler`: one dispatch block per trait, in the model's dispatch order, each under its own feature. -/
theorem dispatch_gated_by_own_feature :
    Generated.dispatchBlocks = ownGate Generated.traitFeatures := by decide

def noTraitFeature (m : Nat) : Bool := (List.range 12).all fun i => !m.testBit i

/-- The crate refuses to build (its `compile_error!`) exactly when no trait feature is enabled. -/
theorem compile_error_iff_no_feature :
    (Generated.gatedMacros.map fun x => x.2.2) = ["compile_error"] ∧
    allConfigs nvars (fun m => Generated.gatedMacros.all fun x => x.2.1.eval m == noTraitFeature m) = true := by
  constructor
  · decide
  · decide +kernel

/-! ## (a) the expansion model -/

/-- the input's name lookups do not notice that only `F` is enabled -/
def MetaOK (F : Features) (m : TraitMeta) : Prop := traitOf F m = traitOf TraitId.all m
def AttrsOK (F : Features) (attrs : List Attribute) : Prop :=
  ∀ a ∈ attrs, ∀ ms, a.metas = some ms → ∀ m ∈ ms, MetaOK F m

theorem scanMetas_F {α : Type} {F : Features} (tr mine : TraitId → Bool) (build : TraitMeta → Res α)
    (ms : List TraitMeta) (out : Option α) (h : ∀ m ∈ ms, MetaOK F m) :
    scanMetas F tr mine build ms out = scanMetas TraitId.all tr mine build ms out := by
  induction ms generalizing out with
  | nil => rfl
  | cons m ms ih =>
    have hm : traitOf F m = traitOf TraitId.all m := h m (by simp)
    have ih' := fun o => ih o (fun x hx => h x (by simp [hx]))
    unfold scanMetas
    rw [hm]
    split
    · rfl
    · split
      · rfl
      · split
        · split
          · rfl
          · split
            · exact ih' _
            · rfl
            · rfl
        · exact ih' _

theorem scanAttrs_F {α : Type} {F : Features} (tr mine : TraitId → Bool) (build : TraitMeta → Res α)
    (attrs : List Attribute) (out : Option α) (h : AttrsOK F attrs) :
    scanAttrs F tr mine build attrs out = scanAttrs TraitId.all tr mine build attrs out := by
  induction attrs generalizing out with
  | nil => rfl
  | cons a as ih =>
    have ih' := fun o => ih o (fun x hx => h x (by simp [hx]))
    unfold scanAttrs
    split
    · split
      · rfl
      · rename_i ms hms
        rw [scanMetas_F tr mine build ms out (h a (by simp) ms hms)]
        split
        · exact ih' _
        · rfl
        · rfl
    · exact ih' _

theorem fromAttrs_F {α : Type} {F : Features} {tr mine : TraitId → Bool} {build : TraitMeta → Res α} {dflt : α}
    {attrs : List Attribute} (h : AttrsOK F attrs) :
    fromAttrs F tr mine build dflt attrs = fromAttrs TraitId.all tr mine build dflt attrs := by
  unfold fromAttrs
  rw [scanAttrs_F tr mine build attrs none h]

theorem collectMetas_F {F : Features} (tr : TraitId → Bool) (t0 : TraitId)
    (ms acc : List TraitMeta) (h : ∀ m ∈ ms, MetaOK F m) :
    collectMetas F tr t0 ms acc = collectMetas TraitId.all tr t0 ms acc := by
  induction ms generalizing acc with
  | nil => rfl
  | cons m ms ih =>
    have hm : traitOf F m = traitOf TraitId.all m := h m (by simp)
    have ih' := fun o => ih o (fun x hx => h x (by simp [hx]))
    unfold collectMetas
    rw [hm]
    split
    · rfl
    · split
      · rfl
      · exact ih' _

theorem collectAttrs_F {F : Features} {tr : TraitId → Bool} {t0 : TraitId}
    {attrs : List Attribute} {acc : List TraitMeta} (h : AttrsOK F attrs) :
    collectAttrs F tr t0 attrs acc = collectAttrs TraitId.all tr t0 attrs acc := by
  induction attrs generalizing acc with
  | nil => rfl
  | cons a as ih =>
    have ih' := fun o => @ih o (fun x hx => h x (by simp [hx]))
    unfold collectAttrs
    split
    · split
      · rfl
      · rename_i ms hms
        rw [collectMetas_F tr t0 ms acc (h a (by simp) ms hms)]
        split
        · exact ih' _
        · rfl
        · rfl
    · exact ih' _

structure InputOK (F : Features) (d : DeriveInput) : Prop where
  top : AttrsOK F d.attrs
  var : ∀ v ∈ d.variants, AttrsOK F v.attrs
  fld : ∀ v ∈ d.variants, ∀ f ∈ v.fields, AttrsOK F f.attrs

theorem mapRes_congr {α β : Type} {f g : α → Res β} {l₁ l₂ : List α} (hl : l₁ = l₂)
    (h : ∀ x ∈ l₂, f x = g x) : mapRes f l₁ = mapRes g l₂ := by
  subst hl
  induction l₁ with
  | nil => rfl
  | cons x xs ih =>
    unfold mapRes
    rw [h x (by simp), ih (fun y hy => h y (by simp [hy]))]

def allF (c : Ctx) : Ctx := { c with F := TraitId.all }

theorem variantNoAttr_F {c : Ctx} {mine : TraitId → Bool} {v : Variant} (h : AttrsOK c.F v.attrs) :
    variantNoAttr c mine v = variantNoAttr (allF c) mine v := by
  unfold variantNoAttr
  rw [fromAttrs_F h]; rfl

attribute [congr] mapRes_congr


theorem InputOK.hd {F : Features} {d : DeriveInput} (H : InputOK F d) : ∀ f ∈ (d.variants.headD {}).fields, AttrsOK F f.attrs := by
  intro f hf
  cases hd : d.variants with
  | nil => rw [hd] at hf; simp at hf
  | cons v vs => rw [hd] at hf; exact H.fld v (by rw [hd]; simp) f (by simpa using hf)

macro "okdisch" H:term : tactic =>
  `(tactic| first | assumption | (apply InputOK.fld $H <;> assumption) | (apply InputOK.var $H; assumption) | exact InputOK.top $H | (apply InputOK.hd $H; assumption))

theorem cloneHandler_F {c : Ctx} {m : TraitMeta} (H : InputOK c.F c.d) :
    cloneHandler c m = cloneHandler (allF c) m := by
  unfold cloneHandler
  simp (disch := okdisch H) only [fromAttrs_F (F := c.F), variantNoAttr_F (c := c)]
  rfl

theorem eqLikeHandler_F {c : Ctx} {m : TraitMeta} {me mine tp comp} (H : InputOK c.F c.d) :
    eqLikeHandler c m me mine tp comp = eqLikeHandler (allF c) m me mine tp comp := by
  unfold eqLikeHandler
  simp (disch := okdisch H) only [fromAttrs_F (F := c.F), variantNoAttr_F (c := c)]
  rfl

theorem markerHandler_F {c : Ctx} {m : TraitMeta} {me p b s w} (H : InputOK c.F c.d) :
    markerHandler c m me p b s w = markerHandler (allF c) m me p b s w := by
  unfold markerHandler
  simp (disch := okdisch H) only [fromAttrs_F (F := c.F), variantNoAttr_F (c := c)]
  rfl

theorem ordLikeHandler_F {c : Ctx} {m : TraitMeta} {me mine tp su co} (H : InputOK c.F c.d) :
    ordLikeHandler c m me mine tp su co = ordLikeHandler (allF c) m me mine tp su co := by
  unfold ordLikeHandler
  simp (disch := okdisch H) only [fromAttrs_F (F := c.F), variantNoAttr_F (c := c)]
  rfl

theorem debugHandler_F {c : Ctx} {m : TraitMeta} (H : InputOK c.F c.d) :
    debugHandler c m = debugHandler (allF c) m := by
  unfold debugHandler
  simp (disch := okdisch H) only [fromAttrs_F (F := c.F)]
  rfl

@[congr] theorem derefLoop_congr {g g' : Field → Res Bool} {i : Nat} {fs fs' : List Field} {acc : Option (Nat × Field)}
    (hfs : fs = fs') (h : ∀ f ∈ fs', g f = g' f) : derefLoop g i fs acc = derefLoop g' i fs' acc := by
  subst hfs
  induction fs generalizing i acc with
  | nil => rfl
  | cons f rest ih =>
    unfold derefLoop
    rw [h f (by simp)]
    have ih' := fun i acc => @ih i acc (fun x hx => h x (by simp [hx]))
    simp only [ih']

@[congr] theorem derefPick_congr {g g' : Field → Res Bool} {fs fs' : List Field}
    (hfs : fs = fs') (h : ∀ f ∈ fs', g f = g' f) : derefPick g fs = derefPick g' fs' := by
  subst hfs
  unfold derefPick
  split
  · rw [h _ (by simp)]
  · rw [derefLoop_congr rfl h]

theorem derefHandler_F {c : Ctx} {m : TraitMeta} {me} (H : InputOK c.F c.d) :
    derefHandler c m me = derefHandler (allF c) m me := by
  unfold derefHandler
  simp (disch := okdisch H) only [fromAttrs_F (F := c.F)]
  rfl

theorem intoHandler_F {c : Ctx} {ms : List TraitMeta} (H : InputOK c.F c.d) :
    intoHandler c ms = intoHandler (allF c) ms := by
  unfold intoHandler
  simp (disch := okdisch H) only [collectAttrs_F (F := c.F)]
  rfl

@[congr] theorem defaultFieldLoop_congr {fa fa' : Bool → Bool → Field → Res (Field × DefaultFieldAttr)} {i : Nat} {fs fs' : List Field}
    {acc : Option (Nat × Field × DefaultFieldAttr)}
    (hfs : fs = fs') (h : ∀ a b, ∀ f ∈ fs', fa a b f = fa' a b f) :
    defaultFieldLoop fa i fs acc = defaultFieldLoop fa' i fs' acc := by
  subst hfs
  induction fs generalizing i acc with
  | nil => rfl
  | cons f rest ih =>
    unfold defaultFieldLoop
    rw [h _ _ f (by simp)]
    have ih' := fun i acc => @ih i acc (fun a b x hx => h a b x (by simp [hx]))
    simp only [ih']

@[congr] theorem defaultPickField_congr {fa fa' : Bool → Bool → Field → Res (Field × DefaultFieldAttr)} {fs fs' : List Field}
    (hfs : fs = fs') (h : ∀ a b, ∀ f ∈ fs', fa a b f = fa' a b f) :
    defaultPickField fa fs = defaultPickField fa' fs' := by
  subst hfs
  unfold defaultPickField
  split
  · rw [h _ _ _ (by simp)]
  · rw [defaultFieldLoop_congr rfl h]

theorem defaultVariantLoop_congr {fa fa' : Bool → Bool → Field → Res (Field × DefaultFieldAttr)}
    {va va' : Bool → Variant → Res DefaultTypeAttr} {k : Nat} {vs : List Variant} {acc : Option (Nat × Variant)}
    (hva : ∀ fl, ∀ v ∈ vs, va fl v = va' fl v)
    (hfa : ∀ a b, ∀ v ∈ vs, ∀ f ∈ v.fields, fa a b f = fa' a b f) :
    defaultVariantLoop fa va k vs acc = defaultVariantLoop fa' va' k vs acc := by
  induction vs generalizing k acc with
  | nil => rfl
  | cons v rest ih =>
    unfold defaultVariantLoop
    rw [hva _ v (by simp)]
    have ih' := fun k acc => @ih k acc (fun fl x hx => hva fl x (by simp [hx])) (fun a b x hx => hfa a b x (by simp [hx]))
    have e : mapRes (fa false false) v.fields = mapRes (fa' false false) v.fields :=
      mapRes_congr rfl (fun f hf => hfa _ _ v (by simp) f hf)
    simp only [ih', e]

theorem defaultVariantLoop_mem {fa : Bool → Bool → Field → Res (Field × DefaultFieldAttr)}
    {va : Bool → Variant → Res DefaultTypeAttr} {k : Nat} {vs : List Variant} {acc : Option (Nat × Variant)} {r : Nat × Variant}
    (h : defaultVariantLoop fa va k vs acc = .ok (some r)) : acc = some r ∨ r.2 ∈ vs := by
  induction vs generalizing k acc with
  | nil => unfold defaultVariantLoop at h; cases h; exact Or.inl rfl
  | cons v rest ih =>
    unfold defaultVariantLoop at h
    cases hv : va true v with
    | diag d => simp [hv, bind] at h
    | panic s => simp [hv, bind] at h
    | ok x =>
      simp only [hv, bind] at h
      split at h
      · split at h
        · cases h
        · rcases ih h with h1 | h1
          · cases h1; exact Or.inr (by simp)
          · exact Or.inr (by simp [h1])
      · cases hm : mapRes (fa false false) v.fields with
        | diag d => simp [hm] at h
        | panic s => simp [hm] at h
        | ok y =>
          simp only [hm] at h
          rcases ih h with h1 | h1
          · exact Or.inl h1
          · exact Or.inr (by simp [h1])

theorem defaultPickVariant_congr {fa fa' : Bool → Bool → Field → Res (Field × DefaultFieldAttr)}
    {va va' : Bool → Variant → Res DefaultTypeAttr} {vs : List Variant}
    (hva : ∀ fl, ∀ v ∈ vs, va fl v = va' fl v)
    (hfa : ∀ a b, ∀ v ∈ vs, ∀ f ∈ v.fields, fa a b f = fa' a b f) :
    defaultPickVariant fa va vs = defaultPickVariant fa' va' vs := by
  unfold defaultPickVariant
  split
  · rename_i v
    rw [hva _ v (by simp), mapRes_congr rfl (fun f hf => hfa _ _ v (by simp) f hf)]
  · rw [defaultVariantLoop_congr hva hfa]
    cases hl : defaultVariantLoop fa' va' 0 vs none with
    | diag d => rfl
    | panic s => rfl
    | ok r =>
      cases r with
      | none => rfl
      | some r =>
        have hmem : r.2 ∈ vs := by
          rcases defaultVariantLoop_mem hl with h1 | h1
          · cases h1
          · exact h1
        simp only [bind]
        rw [mapRes_congr rfl (fun f hf => hfa _ _ r.2 hmem f hf)]

theorem defaultHandler_F {c : Ctx} {m : TraitMeta} (H : InputOK c.F c.d) :
    defaultHandler c m = defaultHandler (allF c) m := by
  unfold defaultHandler
  have e : defaultPickVariant
      (fun flag expr f => do
        let a ← fromAttrs c.F c.traits (fun x => x == TraitId.default) (defaultFieldFromMeta flag expr f.shape) {} f.attrs
        pure (f, a))
      (fun flag v => fromAttrs c.F c.traits (fun x => x == TraitId.default)
        (defaultTypeFromMeta { flag := flag, new := false, expression := false, bound := false }) {} v.attrs) c.d.variants =
    defaultPickVariant
      (fun flag expr f => do
        let a ← fromAttrs TraitId.all c.traits (fun x => x == TraitId.default) (defaultFieldFromMeta flag expr f.shape) {} f.attrs
        pure (f, a))
      (fun flag v => fromAttrs TraitId.all c.traits (fun x => x == TraitId.default)
        (defaultTypeFromMeta { flag := flag, new := false, expression := false, bound := false }) {} v.attrs) c.d.variants := by
    apply defaultPickVariant_congr
    · intro fl v hv; rw [fromAttrs_F (H.var v hv)]
    · intro a b v hv f hf; rw [fromAttrs_F (H.fld v hv f hf)]
  simp (disch := okdisch H) only [fromAttrs_F (F := c.F), e]
  rfl

theorem handlerFor_F {c : Ctx} {t : TraitId} {ms : List TraitMeta} (H : InputOK c.F c.d) :
    handlerFor c t ms = handlerFor (allF c) t ms := by
  unfold handlerFor
  cases ms with
  | nil => rfl
  | cons m rest =>
    cases t <;> simp only [] <;>
      first
      | exact debugHandler_F H | exact cloneHandler_F H | exact markerHandler_F H | exact eqLikeHandler_F H
      | exact defaultHandler_F H | exact derefHandler_F H | exact intoHandler_F H | exact ordLikeHandler_F H
      | (show (if c.traits .ord then _ else _) = (if c.traits .ord then _ else _); split; rfl; exact ordLikeHandler_F H)

theorem dispatch_F {c : Ctx} {map : List (TraitId × List TraitMeta)} {ts : List TraitId} (H : InputOK c.F c.d) :
    dispatch c map ts = dispatch (allF c) map ts := by
  induction ts with
  | nil => rfl
  | cons t ts ih =>
    unfold dispatch
    rw [ih]
    split
    · rfl
    · rw [handlerFor_F H]

/-- Handlers of traits that are not in the map do not run: filtering them out changes nothing. -/
theorem dispatch_filter {c : Ctx} {map : List (TraitId × List TraitMeta)} {p : TraitId → Bool} {ts : List TraitId}
    (h : ∀ q ∈ map, p q.1 = true) : dispatch c map (ts.filter p) = dispatch c map ts := by
  induction ts with
  | nil => rfl
  | cons t ts ih =>
    by_cases hp : p t = true
    · rw [List.filter_cons_of_pos hp]
      unfold dispatch
      rw [ih]
    · rw [List.filter_cons_of_neg hp, ih]
      have : map.find? (fun q => q.1 == t) = none := by
        rw [List.find?_eq_none]
        intro q hq hqt
        have : q.1 = t := by simpa using hqt
        exact hp (this ▸ h q hq)
      conv => rhs; unfold dispatch
      rw [this]

theorem traitOfName_mem {F : Features} {n : String} {t : TraitId} (h : traitOfName F n = some t) : F.contains t = true := by
  unfold traitOfName at h
  cases hf : TraitId.all.find? (fun t => t.name == n) with
  | none => simp [hf] at h
  | some t' =>
    simp only [hf, Option.bind_some] at h
    split at h
    · cases h; assumption
    · cases h

theorem collectTop_F {F : Features} {ms : List TraitMeta} {acc : List (TraitId × List TraitMeta)}
    (h : ∀ m ∈ ms, MetaOK F m) : collectTop F ms acc = collectTop TraitId.all ms acc := by
  induction ms generalizing acc with
  | nil => rfl
  | cons m ms ih =>
    have hm : traitOf F m = traitOf TraitId.all m := h m (by simp)
    have ih' := fun acc => @ih acc (fun x hx => h x (by simp [hx]))
    unfold collectTop
    rw [hm]
    simp only [ih']

theorem collectTop_keys {F : Features} {ms : List TraitMeta} {acc map : List (TraitId × List TraitMeta)}
    (h : collectTop F ms acc = .ok map) (hacc : ∀ q ∈ acc, F.contains q.1 = true) : ∀ q ∈ map, F.contains q.1 = true := by
  induction ms generalizing acc with
  | nil => unfold collectTop at h; cases h; exact hacc
  | cons m ms ih =>
    unfold collectTop at h
    cases ht : traitOf F m with
    | none => simp [ht] at h
    | some t =>
      have htF : F.contains t = true := by
        unfold traitOf at ht
        cases hi : m.ident with
        | none => simp [hi] at ht
        | some n => simp only [hi] at ht; exact traitOfName_mem ht
      simp only [ht] at h
      split at h
      · split at h
        · refine ih h ?_
          intro q hq
          rw [List.mem_map] at hq
          obtain ⟨q', hq', rfl⟩ := hq
          split
          · exact hacc q' hq'
          · exact hacc q' hq'
        · unfold identOrPanic at h
          split at h <;> cases h
      · refine ih h ?_
        intro q hq
        rw [List.mem_append] at hq
        rcases hq with hq | hq
        · exact hacc q hq
        · simp at hq; subst hq; exact htF

theorem collectTopAttrs_F {F : Features} {attrs : List Attribute} {acc : List (TraitId × List TraitMeta)}
    (h : AttrsOK F attrs) : collectTopAttrs F attrs acc = collectTopAttrs TraitId.all attrs acc := by
  induction attrs generalizing acc with
  | nil => rfl
  | cons a as ih =>
    have ih' := fun acc => @ih acc (fun x hx => h x (by simp [hx]))
    unfold collectTopAttrs
    split
    · split
      · split
        · rfl
        · rename_i ms hms
          rw [collectTop_F (h a (by simp) ms hms)]
          simp only [ih']
      · rfl
    · exact ih' _

theorem collectTopAttrs_keys {F : Features} {attrs : List Attribute} {acc map : List (TraitId × List TraitMeta)}
    (h : collectTopAttrs F attrs acc = .ok map) (hacc : ∀ q ∈ acc, F.contains q.1 = true) : ∀ q ∈ map, F.contains q.1 = true := by
  induction attrs generalizing acc with
  | nil => unfold collectTopAttrs at h; cases h; exact hacc
  | cons a as ih =>
    unfold collectTopAttrs at h
    split at h
    · split at h
      · split at h
        · cases h
        · rename_i ms hms
          cases hc : collectTop F ms acc with
          | ok acc' => simp only [hc] at h; exact ih h (collectTop_keys hc hacc)
          | diag d => simp [hc] at h
          | panic s => simp [hc] at h
      · cases h
    · exact ih h hacc

theorem filter_all_contains_all : TraitId.all.filter TraitId.all.contains = TraitId.all := by decide

/-- **C18 (a).** When every trait name written in the input (type, variant and field level) means the
    same with only `F` enabled as with everything enabled — i.e. no disabled trait is named — the
    subset build expands exactly like the full build. -/
theorem expand_subset_eq_full (F : Features) (d : DeriveInput) (H : InputOK F d) :
    expand F d = expand TraitId.all d := by
  unfold expand
  rw [collectTopAttrs_F H.top]
  cases hc : collectTopAttrs TraitId.all d.attrs [] with
  | diag e => rfl
  | panic s => rfl
  | ok map =>
    have hk : ∀ q ∈ map, F.contains q.1 = true := by
      have : collectTopAttrs F d.attrs [] = .ok map := by rw [collectTopAttrs_F H.top, hc]
      exact collectTopAttrs_keys this (by simp)
    simp only []
    rw [dispatch_filter hk, filter_all_contains_all]
    have := @dispatch_F { F := F, traits := fun t => map.any fun p => p.1 == t, d := d } map TraitId.all H
    rw [this]
    rfl


/-- `MetaOK` spelled out: the meta names no trait at all, or an enabled one. -/
theorem metaOK_iff (F : Features) (m : TraitMeta) :
    MetaOK F m ↔ ∀ t, traitOf TraitId.all m = some t → F.contains t = true := by
  unfold MetaOK traitOf
  cases m.ident with
  | none => simp
  | some n =>
    simp only [traitOfName]
    cases hf : TraitId.all.find? (fun t => t.name == n) with
    | none => simp
    | some t =>
      have hall : TraitId.all.contains t = true := by cases t <;> decide
      simp only [Option.bind_some, hall, if_true]
      constructor
      · intro h t' ht'
        cases ht'
        split at h
        · assumption
        · cases h
      · intro h
        rw [if_pos (h t rfl)]

theorem collectTop_ok_known {F : Features} {ms : List TraitMeta} {acc map : List (TraitId × List TraitMeta)}
    (h : collectTop F ms acc = .ok map) : ∀ m ∈ ms, ∃ t, traitOf F m = some t := by
  induction ms generalizing acc with
  | nil => intro m hm; cases hm
  | cons m ms ih =>
    unfold collectTop at h
    cases ht : traitOf F m with
    | none => simp [ht] at h
    | some t =>
      simp only [ht] at h
      intro x hx
      rcases List.mem_cons.mp hx with rfl | hx
      · exact ⟨t, ht⟩
      · split at h
        · split at h
          · exact ih h x hx
          · unfold identOrPanic at h
            split at h <;> cases h
        · exact ih h x hx

theorem collectTopAttrs_ok_known {F : Features} {attrs : List Attribute} {acc map : List (TraitId × List TraitMeta)}
    (h : collectTopAttrs F attrs acc = .ok map) :
    ∀ a ∈ attrs, a.isEduce = true → ∀ ms, a.metas = some ms → ∀ m ∈ ms, ∃ t, traitOf F m = some t := by
  induction attrs generalizing acc with
  | nil => intro a ha; cases ha
  | cons a as ih =>
    unfold collectTopAttrs at h
    intro x hx hxe ms hms m hm
    split at h
    · split at h
      · split at h
        · cases h
        · rename_i ms' hms'
          cases hc : collectTop F ms' acc with
          | ok acc' =>
            simp only [hc] at h
            rcases List.mem_cons.mp hx with rfl | hx
            · rw [hms] at hms'; cases hms'
              exact collectTop_ok_known hc m hm
            · exact ih h x hx hxe ms hms m hm
          | diag d => simp [hc] at h
          | panic s => simp [hc] at h
      · cases h
    · rcases List.mem_cons.mp hx with rfl | hx
      · rename_i hne
        exact absurd hxe hne
      · exact ih h x hx hxe ms hms m hm

/-- A disabled trait cannot be looked up. -/
theorem disabled_unknown {F : Features} {m : TraitMeta} {t : TraitId}
    (h : traitOf TraitId.all m = some t) (hd : F.contains t = false) : traitOf F m = none := by
  unfold traitOf at h ⊢
  cases hi : m.ident with
  | none => rfl
  | some n =>
    simp only [hi] at h ⊢
    unfold traitOfName at h ⊢
    cases hf : TraitId.all.find? (fun t => t.name == n) with
    | none => rfl
    | some t' =>
      simp only [hf, Option.bind_some] at h ⊢
      split at h
      · cases h; simp_all
      · cases h

/-- **C18: naming a disabled trait is refused.** First position: the diagnostic is `unsupported trait`. -/
theorem disabled_trait_first_is_unsupported (F : Features) (d : DeriveInput) (a : Attribute) (rest : List Attribute)
    (m : TraitMeta) (ms : List TraitMeta) (t : TraitId)
    (hd : d.attrs = a :: rest) (he : a.isEduce = true) (hl : a.isList = true) (hm : a.metas = some (m :: ms))
    (ht : traitOf TraitId.all m = some t) (hoff : F.contains t = false) :
    expand F d = .diag .unsupportedTrait := by
  unfold expand
  rw [hd]
  unfold collectTopAttrs
  simp only [he, hl, hm, if_true]
  unfold collectTop
  rw [disabled_unknown ht hoff]

/-- Anywhere among the type-level attributes: the input is never accepted. -/
theorem disabled_trait_never_accepted (F : Features) (d : DeriveInput) (a : Attribute) (ms : List TraitMeta) (m : TraitMeta)
    (t : TraitId) (ha : a ∈ d.attrs) (he : a.isEduce = true) (hm : a.metas = some ms) (hmm : m ∈ ms)
    (ht : traitOf TraitId.all m = some t) (hoff : F.contains t = false) (items : List Item) :
    expand F d ≠ .ok items := by
  intro h
  unfold expand at h
  cases hc : collectTopAttrs F d.attrs [] with
  | diag e => simp [hc] at h
  | panic s => simp [hc] at h
  | ok map =>
    obtain ⟨t', ht'⟩ := collectTopAttrs_ok_known hc a ha he ms hm m hmm
    rw [disabled_unknown ht hoff] at ht'
    cases ht'

/-- Non-vacuity: a one-feature build and an input naming only that trait. -/
example : InputOK [.clone] { name := "S", attrs := [{ isEduce := true, isList := true, metas := some [{ ident := some "Clone" }] }],
                             variants := [{ name := "S", fields := [{ ty := "u8" }] }] } := by
  constructor
  · intro a ha ms hms m hm
    simp at ha; subst ha; simp at hms; subst hms; simp at hm; subst hm
    unfold MetaOK; decide
  · intro v hv a ha; simp at hv; subst hv; simp at ha
  · intro v hv f hf a ha; simp at hv; subst hv; simp at hf; subst hf; simp at ha

end Educe.Props.C18
