import EduceModel.Names
import EduceModel.Generated.Templates
/-!
# C19 — generated code is insulated from the names at the derive site

(i) *Closedness.* Every identifier in reference position of every `quote!` template of `/repo/src`
(regenerated table `Generated.templates`) is a binder that the same handler's templates introduce;
everything else is reached through `::core::…`, `Self`, `self`, a keyword, a method/associated name
or a hole filled with user tokens. Hence what the generated code refers to does not depend on the
environment of the derive site (`closed_env_independent`).

(ii) *Binder hygiene.* The `format_ident!` prefixes used for pattern bindings inside one handler
never make two different (prefix, field) pairs collide (`binder_formats_no_clash` over the
regenerated table + `noClash_sound`), and the hasher type parameter is chosen away from the type's
own generic names (`hasherName_fresh`), the Debug wrapper struct away from them and from the type's own name
(`debugFieldName_fresh`); both are the first free candidate (`pickName_first`).
-/
namespace Educe.Props.C19
open Educe.Names

/-! ## (i) closedness -/

/-- Free references of all templates, each against the binders of its own handler. -/
def openAll (groups : List Nat) (templates : List (List Tok)) : List Nat :=
  (groups.zip templates).flatMap fun p => openIdents (groupBinders groups templates p.1) p.2

/-- **No template of the current source has a free reference.** -/
theorem templates_closed : openAll Generated.templateGroups Generated.templates = [] := by
  decide +kernel

/-! ### method calls

A path (`::core::cmp::Ord::cmp(a, b)`) names its function whatever the derive site declares; a method call
(`a.cmp(b)`) is resolved by the type of `a`, inherent methods first - a user's own `fn cmp` on the type would be
called instead. The templates of the current source contain method calls on two receivers only, both of them
locals of `core::fmt` types that the templates bind themselves (`f: &mut Formatter`, `builder = f.debug_*(..)`),
and only with the builder methods of `core::fmt`. -/

/-- names as code points -/
def nameOf (n : Nat) : List Nat := Generated.identCodes.getD n []

/-- `f`, `builder` -/
def fmtReceivers : List (List Nat) := [[102], [98, 117, 105, 108, 100, 101, 114]]

/-- `write_str`, `debug_struct`, `debug_tuple`, `debug_map`, `field`, `entry`, `finish` -/
def fmtMethods : List (List Nat) :=
  [[119, 114, 105, 116, 101, 95, 115, 116, 114], [100, 101, 98, 117, 103, 95, 115, 116, 114, 117, 99, 116],
   [100, 101, 98, 117, 103, 95, 116, 117, 112, 108, 101], [100, 101, 98, 117, 103, 95, 109, 97, 112],
   [102, 105, 101, 108, 100], [101, 110, 116, 114, 121], [102, 105, 110, 105, 115, 104]]

def methodCallOK : Tok × Nat → Bool
  | (.id r, m) => fmtReceivers.contains (nameOf r) && fmtMethods.contains (nameOf m)
  | _ => false

/-- **Every method call of every template is a `core::fmt` builder call on a local of the template**: no generated
    call is resolved through the methods of a user's type. -/
theorem method_calls_only_on_fmt_locals :
    (Generated.templates.flatMap (methodCalls .lit)).all methodCallOK = true := by
  decide +kernel

/-- the table is not vacuous: the Debug templates do contain such calls -/
theorem method_calls_present : (Generated.templates.flatMap (methodCalls .lit)).length ≥ 7 := by
  decide +kernel

theorem template_closed_of_mem {g : Nat} {t : List Tok}
    (h : (g, t) ∈ Generated.templateGroups.zip Generated.templates) :
    openIdents (groupBinders Generated.templateGroups Generated.templates g) t = [] := by
  have := templates_closed
  unfold openAll at this
  rw [List.flatMap_eq_nil_iff] at this
  exact this (g, t) h

/-- A template without free references resolves the same in every environment. -/
theorem closed_env_independent {α : Type} (bound : List Nat) (t : List Tok) (h : openIdents bound t = [])
    (env env' : Nat → α) : resolveAll bound env t = resolveAll bound env' t := by
  unfold resolveAll
  apply List.map_congr_left
  intro n hn
  have hb : bound.contains n = true := by
    unfold openIdents at h
    rw [List.filter_eq_nil_iff] at h
    have := h n hn
    simpa using this
  have hm : n ∈ bound := by simpa using hb
  simp [hm]

/-- **C19 (i).** For every template of the current source: whatever the names at the derive site
    mean (`env`, `env'`), every reference in the template resolves identically. -/
theorem generated_code_env_independent {α : Type} {g : Nat} {t : List Tok}
    (h : (g, t) ∈ Generated.templateGroups.zip Generated.templates) (env env' : Nat → α) :
    resolveAll (groupBinders Generated.templateGroups Generated.templates g) env t =
    resolveAll (groupBinders Generated.templateGroups Generated.templates g) env' t :=
  closed_env_independent _ t (template_closed_of_mem h) env env'

/-- Non-vacuity: the analysis does flag an unqualified name (the shape of the repaired defects). -/
example : openIdents [] [.id 0, .open 40, .p 58, .p 58, .id 1, .p 58, .p 58, .id 2, .close 41] = [0] := by decide

/-! ## (ii) binder hygiene -/

def isDigit (c : Nat) : Bool := 48 ≤ c && c ≤ 57

/-- Suffix alphabets: a tuple index is a non-empty digit string, a field name any non-empty string. -/
def okSuffix (kind : Nat) (s : List Nat) : Bool := !s.isEmpty && (kind != 0 || s.all isDigit)

/-- `p` is a proper or improper prefix of `q`: the remainder. -/
def stripPrefix : List Nat → List Nat → Option (List Nat)
  | [], q => some q
  | _ :: _, [] => none
  | a :: p, b :: q => if a = b then stripPrefix p q else none

/-- Two binder formats of the same kind cannot produce the same name from different inputs. -/
def noClash (kind : Nat) (p q : List Nat) : Bool :=
  let one (p q : List Nat) : Bool :=
    match stripPrefix p q with
    | none => true
    | some [] => true                      -- the same prefix
    | some r => kind == 0 && !(r.all isDigit)
  one p q && one q p

theorem stripPrefix_spec {p q r : List Nat} (h : stripPrefix p q = some r) : q = p ++ r := by
  induction p generalizing q with
  | nil => simp [stripPrefix] at h; simp [h]
  | cons a p ih =>
    cases q with
    | nil => simp [stripPrefix] at h
    | cons b q =>
      simp only [stripPrefix] at h
      split at h
      · rename_i hab; subst hab; simp [ih h]
      · cases h

theorem stripPrefix_none {p q : List Nat} (h : stripPrefix p q = none) (a b : List Nat) (hlen : p.length ≤ q.length) :
    p ++ a ≠ q ++ b := by
  induction p generalizing q with
  | nil => simp [stripPrefix] at h
  | cons x p ih =>
    cases q with
    | nil => simp at hlen
    | cons y q =>
      simp only [stripPrefix] at h
      split at h
      · rename_i hxy; subst hxy
        intro he
        simp only [List.cons_append, List.cons.injEq, true_and] at he
        exact ih h (by simpa using hlen) he
      · rename_i hxy
        intro he
        simp only [List.cons_append, List.cons.injEq] at he
        exact hxy he.1

/-- Soundness of `noClash`: equal names come from equal prefixes and equal inputs. -/
theorem noClash_sound (kind : Nat) (p q a b : List Nat) (h : noClash kind p q = true)
    (ha : okSuffix kind a = true) (hb : okSuffix kind b = true) (he : p ++ a = q ++ b) : p = q ∧ a = b := by
  unfold noClash at h
  simp only [Bool.and_eq_true] at h
  obtain ⟨h1, h2⟩ := h
  -- w.l.o.g. the shorter prefix first
  have key : ∀ (p q a b : List Nat), p.length ≤ q.length →
      (match stripPrefix p q with | none => true | some [] => true | some r => kind == 0 && !(r.all isDigit)) = true →
      okSuffix kind a = true → okSuffix kind b = true → p ++ a = q ++ b → p = q ∧ a = b := by
    intro p q a b hlen h1 ha hb he
    cases hs : stripPrefix p q with
    | none => exact absurd he (stripPrefix_none hs a b hlen)
    | some r =>
      have hq := stripPrefix_spec hs
      subst hq
      cases r with
      | nil => simp at he ⊢; exact he
      | cons c r =>
        simp only [hs, Bool.and_eq_true, beq_iff_eq, Bool.not_eq_true'] at h1
        obtain ⟨hk, hnd⟩ := h1
        subst hk
        -- a = (c :: r) ++ b is all digits, so c :: r is
        have : a = (c :: r) ++ b := by
          have := he
          rw [List.append_assoc] at this
          exact List.append_cancel_left this
        subst this
        simp only [okSuffix, bne_self_eq_false, Bool.false_or, Bool.and_eq_true, List.all_append] at ha
        rw [ha.2.1] at hnd
        cases hnd
  by_cases hl : p.length ≤ q.length
  · exact key p q a b hl h1 ha hb he
  · have := key q p b a (by omega) h2 hb ha he.symm
    exact ⟨this.1.symm, this.2.symm⟩

/-- All pairs of binder formats of one kind inside one file. -/
def formatsOK (tbl : List (String × List Nat × Nat)) : Bool :=
  tbl.all fun x => tbl.all fun y => !(x.1 == y.1 && x.2.2 == y.2.2) || noClash x.2.2 x.2.1 y.2.1

/-- **The binder prefixes of the current source never clash** (regenerated table). -/
theorem binder_formats_no_clash : formatsOK Generated.binderFormats = true := by decide +kernel

/-- The binder formats of the current source, handler by handler (prefix as code points; kind 0 = tuple index, 1 = field
    identifier). Every generated pattern binding is made by `format_ident!` with one of these - which, unlike a name
    assembled as text, also turns a raw identifier (`r#type`) into a valid one (`_s_type`). A binding made any other way
    drops out of this table. -/
def expectedBinderFormats : List (String × List Nat × Nat) := [
  ("trait_handlers/clone/clone_enum.rs", [95], 0),
  ("trait_handlers/clone/clone_enum.rs", [95, 95], 0),
  ("trait_handlers/clone/clone_enum.rs", [95, 100, 95], 1),
  ("trait_handlers/clone/clone_enum.rs", [95, 115, 95], 1),
  ("trait_handlers/debug/common.rs", [], 1),
  ("trait_handlers/debug/debug_enum.rs", [95], 1),
  ("trait_handlers/debug/debug_enum.rs", [95], 0),
  ("trait_handlers/debug/debug_struct.rs", [95], 0),
  ("trait_handlers/deref/deref_enum.rs", [95], 0),
  ("trait_handlers/deref_mut/deref_mut_enum.rs", [95], 0),
  ("trait_handlers/hash/hash_enum.rs", [95], 0),
  ("trait_handlers/hash/hash_enum.rs", [118, 95], 1),
  ("trait_handlers/hash/mod.rs", [], 1),
  ("trait_handlers/into/into_enum.rs", [95], 0),
  ("trait_handlers/into/into_enum.rs", [118, 95], 1),
  ("trait_handlers/ord/ord_enum.rs", [95], 0),
  ("trait_handlers/ord/ord_enum.rs", [95, 95], 0),
  ("trait_handlers/ord/ord_enum.rs", [95, 111, 95], 1),
  ("trait_handlers/ord/ord_enum.rs", [95, 115, 95], 1),
  ("trait_handlers/partial_eq/partial_eq_enum.rs", [95], 0),
  ("trait_handlers/partial_eq/partial_eq_enum.rs", [95, 95], 0),
  ("trait_handlers/partial_eq/partial_eq_enum.rs", [95, 111, 95], 1),
  ("trait_handlers/partial_eq/partial_eq_enum.rs", [95, 115, 95], 1),
  ("trait_handlers/partial_ord/partial_ord_enum.rs", [95], 0),
  ("trait_handlers/partial_ord/partial_ord_enum.rs", [95, 95], 0),
  ("trait_handlers/partial_ord/partial_ord_enum.rs", [95, 111, 95], 1),
  ("trait_handlers/partial_ord/partial_ord_enum.rs", [95, 115, 95], 1)
]

theorem binder_formats_unchanged : Generated.binderFormats = expectedBinderFormats := by decide +kernel


/-- Non-vacuity: the scheme `_x` / `__x` for *named* fields would clash (fields `x` and `_x`). -/
example : noClash 1 [95] [95, 95] = false := by decide
example : noClash 0 [95] [95, 95] = true := by decide

/-! ### names the generated code picks for itself

Two handlers need a name of their own next to the user's generic parameters: the `Hasher` type parameter of `fn hash`
(`H`, `H_`, `H__`, …: `hash/mod.rs::hasher_ident`) and the wrapper struct of a custom Debug method (`Educe__DebugField`,
`Educe__DebugField_`, …: `debug/common.rs::debug_field_ident`, which must also avoid the type's own name). Both are
the same loop: try the candidate, append `_` while it is taken, at most one step per name that may be taken. -/

theorem candidate_inj {base : List Char} {j k : Nat} (h : candidate base j = candidate base k) : j = k := by
  unfold candidate at h
  have := congrArg List.length h
  simpa using this

theorem pickName_is_candidate (base : List Char) (taken : List (List Char)) (fuel k : Nat) :
    ∃ j, k ≤ j ∧ j ≤ k + fuel ∧ pickName base taken fuel k = candidate base j := by
  induction fuel generalizing k with
  | zero => exact ⟨k, Nat.le_refl _, by omega, rfl⟩
  | succ fuel ih =>
    simp only [pickName]
    split
    · obtain ⟨j, hj, hj2, he⟩ := ih (k + 1)
      exact ⟨j, by omega, by omega, he⟩
    · exact ⟨k, Nat.le_refl _, by omega, rfl⟩

/-- Later candidates are looked up only: removing an earlier one does not change the search. -/
theorem pickName_erase (base : List Char) (taken : List (List Char)) (fuel k i : Nat) (hi : i < k) :
    pickName base (taken.erase (candidate base i)) fuel k = pickName base taken fuel k := by
  induction fuel generalizing k with
  | zero => rfl
  | succ fuel ih =>
    simp only [pickName]
    have hne : candidate base k ≠ candidate base i := by
      intro h; have := candidate_inj h; omega
    have hc : (taken.erase (candidate base i)).contains (candidate base k) = taken.contains (candidate base k) := by
      rw [Bool.eq_iff_iff]
      simp only [List.contains_iff_mem]
      exact List.mem_erase_of_ne hne
    rw [hc, ih (k + 1) (by omega)]

/-- **With one step per name that may be taken the chosen name is free.** -/
theorem pickName_fresh (base : List Char) (taken : List (List Char)) (fuel k : Nat) (h : taken.length ≤ fuel) :
    pickName base taken fuel k ∉ taken := by
  induction fuel generalizing taken k with
  | zero =>
    have : taken = [] := List.eq_nil_of_length_eq_zero (by omega)
    subst this
    simp
  | succ fuel ih =>
    simp only [pickName]
    split
    · rename_i hc
      have hmem : candidate base k ∈ taken := by simpa using hc
      have hlen : (taken.erase (candidate base k)).length ≤ fuel := by
        rw [List.length_erase_of_mem hmem]; omega
      have := ih (taken.erase (candidate base k)) (k + 1) hlen
      rw [pickName_erase base taken fuel (k + 1) k (by omega)] at this
      intro hin
      obtain ⟨j, hj, _, he⟩ := pickName_is_candidate base taken fuel (k + 1)
      have hne : pickName base taken fuel (k + 1) ≠ candidate base k := by
        rw [he]; intro h; have := candidate_inj h; omega
      exact this ((List.mem_erase_of_ne hne).mpr hin)
    · rename_i hc
      simpa using hc

/-- The chosen name is the *first* free candidate: every earlier one is taken (so the name is `H` / `Educe__DebugField`
    itself whenever that is free - nothing changes for types that do not use these names). -/
theorem pickName_first (base : List Char) (taken : List (List Char)) (fuel k j : Nat)
    (h : pickName base taken fuel k = candidate base j) (i : Nat) (hk : k ≤ i) (hi : i < j) :
    candidate base i ∈ taken := by
  induction fuel generalizing k with
  | zero =>
    simp only [pickName] at h
    have := candidate_inj h; omega
  | succ fuel ih =>
    simp only [pickName] at h
    split at h
    · rename_i hc
      by_cases hik : i = k
      · subst hik; simpa using hc
      · exact ih (k + 1) h (by omega)
    · have := candidate_inj h; omega

theorem hasherName_fresh (generics : List (List Char)) : hasherName generics ∉ generics :=
  pickName_fresh _ _ _ _ (Nat.le_refl _)

theorem debugFieldName_fresh (ident : List Char) (generics : List (List Char)) :
    debugFieldName ident generics ≠ ident ∧ debugFieldName ident generics ∉ generics := by
  have h := pickName_fresh debugFieldBase (ident :: generics) (generics.length + 1) 0 (by simp)
  simp only [List.mem_cons, not_or] at h
  exact h

/-- Non-vacuity and the repaired inputs: a type parameter called `H`; a type called `Educe__DebugField` with a
    parameter `Educe__DebugField_`. -/
example : hasherName [['H']] = ['H', '_'] := by decide
example : hasherName [['T']] = ['H'] := by decide
example : hasherName [['H', '_'], ['H']] = ['H', '_', '_'] := by decide
example : debugFieldName ['S'] [['T']] = debugFieldBase := by decide
example : debugFieldName debugFieldBase [debugFieldBase ++ ['_']] = debugFieldBase ++ ['_', '_'] := by decide

end Educe.Props.C19
