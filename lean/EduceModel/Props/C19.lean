import EduceModel.Names
import EduceModel.Generated.Templates
/-!
# C19 — generated code is insulated from the names at the derive site

(i) *Closedness.* Every identifier in reference position of every `quote!` template of `/repo/src`
(regenerated table `Generated.templates`) is a binder that the same handler's templates introduce;
everything else is reached through `::core::…`, `Self`, `self`, a keyword, a method/associated name
or a hole filled with user tokens. Hence what the generated code refers to does not depend on the
environment of the derive site (`closed_env_independent`).

(ii) *Binder hygiene.* The `format_ident!` prefixes used for pattern bindings inside one handler
never make two different (prefix, field) pairs collide (`binder_formats_no_clash` over the
regenerated table + `noClash_sound`), and the hasher type parameter is chosen away from the type's
own generic names (`hasherName_fresh`).
-/
namespace Educe.Props.C19
open Educe.Names

/-! ## (i) closedness -/

/-- Free references of all templates, each against the binders of its own handler. -/
def openAll (groups : List Nat) (templates : List (List Tok)) : List Nat :=
  (groups.zip templates).flatMap fun p => openIdents (groupBinders groups templates p.1) p.2

/-- **No template of the current source has a free reference.** -/
theorem templates_closed : openAll Generated.templateGroups Generated.templates = [] := by
  decide +kernel

/-! ### method calls

A path (`::core::cmp::Ord::cmp(a, b)`) names its function whatever the derive site declares; a method call
(`a.cmp(b)`) is resolved by the type of `a`, inherent methods first - a user's own `fn cmp` on the type would be
called instead. The templates of the current source contain method calls on two receivers only, both of them
locals of `core::fmt` types that the templates bind themselves (`f: &mut Formatter`, `builder = f.debug_*(..)`),
and only with the builder methods of `core::fmt`. -/

/-- names as code points -/
def nameOf (n : Nat) : List Nat := Generated.identCodes.getD n []

/-- `f`, `builder` -/
def fmtReceivers : List (List Nat) := [[102], [98, 117, 105, 108, 100, 101, 114]]

/-- `write_str`, `debug_struct`, `debug_tuple`, `debug_map`, `field`, `entry`, `finish` -/
def fmtMethods : List (List Nat) :=
  [[119, 114, 105, 116, 101, 95, 115, 116, 114], [100, 101, 98, 117, 103, 95, 115, 116, 114, 117, 99, 116],
   [100, 101, 98, 117, 103, 95, 116, 117, 112, 108, 101], [100, 101, 98, 117, 103, 95, 109, 97, 112],
   [102, 105, 101, 108, 100], [101, 110, 116, 114, 121], [102, 105, 110, 105, 115, 104]]

def methodCallOK : Tok × Nat → Bool
  | (.id r, m) => fmtReceivers.contains (nameOf r) && fmtMethods.contains (nameOf m)
  | _ => false

/-- **Every method call of every template is a `core::fmt` builder call on a local of the template**: no generated
    call is resolved through the methods of a user's type. -/
theorem method_calls_only_on_fmt_locals :
    (Generated.templates.flatMap (methodCalls .lit)).all methodCallOK = true := by
  decide +kernel

/-- the table is not vacuous: the Debug templates do contain such calls -/
theorem method_calls_present : (Generated.templates.flatMap (methodCalls .lit)).length ≥ 7 := by
  decide +kernel

theorem template_closed_of_mem {g : Nat} {t : List Tok}
    (h : (g, t) ∈ Generated.templateGroups.zip Generated.templates) :
    openIdents (groupBinders Generated.templateGroups Generated.templates g) t = [] := by
  have := templates_closed
  unfold openAll at this
  rw [List.flatMap_eq_nil_iff] at this
  exact this (g, t) h

/-- A template without free references resolves the same in every environment. -/
theorem closed_env_independent {α : Type} (bound : List Nat) (t : List Tok) (h : openIdents bound t = [])
    (env env' : Nat → α) : resolveAll bound env t = resolveAll bound env' t := by
  unfold resolveAll
  apply List.map_congr_left
  intro n hn
  have hb : bound.contains n = true := by
    unfold openIdents at h
    rw [List.filter_eq_nil_iff] at h
    have := h n hn
    simpa using this
  have hm : n ∈ bound := by simpa using hb
  simp [hm]

/-- **C19 (i).** For every template of the current source: whatever the names at the derive site
    mean (`env`, `env'`), every reference in the template resolves identically. -/
theorem generated_code_env_independent {α : Type} {g : Nat} {t : List Tok}
    (h : (g, t) ∈ Generated.templateGroups.zip Generated.templates) (env env' : Nat → α) :
    resolveAll (groupBinders Generated.templateGroups Generated.templates g) env t =
    resolveAll (groupBinders Generated.templateGroups Generated.templates g) env' t :=
  closed_env_independent _ t (template_closed_of_mem h) env env'

/-- Non-vacuity: the analysis does flag an unqualified name (the shape of the repaired defects). -/
example : openIdents [] [.id 0, .open 40, .p 58, .p 58, .id 1, .p 58, .p 58, .id 2, .close 41] = [0] := by decide

/-! ## (ii) binder hygiene -/

def isDigit (c : Nat) : Bool := 48 ≤ c && c ≤ 57

/-- Suffix alphabets: a tuple index is a non-empty digit string, a field name any non-empty string. -/
def okSuffix (kind : Nat) (s : List Nat) : Bool := !s.isEmpty && (kind != 0 || s.all isDigit)

/-- `p` is a proper or improper prefix of `q`: the remainder. -/
def stripPrefix : List Nat → List Nat → Option (List Nat)
  | [], q => some q
  | _ :: _, [] => none
  | a :: p, b :: q => if a = b then stripPrefix p q else none

/-- Two binder formats of the same kind cannot produce the same name from different inputs. -/
def noClash (kind : Nat) (p q : List Nat) : Bool :=
  let one (p q : List Nat) : Bool :=
    match stripPrefix p q with
    | none => true
    | some [] => true                      -- the same prefix
    | some r => kind == 0 && !(r.all isDigit)
  one p q && one q p

theorem stripPrefix_spec {p q r : List Nat} (h : stripPrefix p q = some r) : q = p ++ r := by
  induction p generalizing q with
  | nil => simp [stripPrefix] at h; simp [h]
  | cons a p ih =>
    cases q with
    | nil => simp [stripPrefix] at h
    | cons b q =>
      simp only [stripPrefix] at h
      split at h
      · rename_i hab; subst hab; simp [ih h]
      · cases h

theorem stripPrefix_none {p q : List Nat} (h : stripPrefix p q = none) (a b : List Nat) (hlen : p.length ≤ q.length) :
    p ++ a ≠ q ++ b := by
  induction p generalizing q with
  | nil => simp [stripPrefix] at h
  | cons x p ih =>
    cases q with
    | nil => simp at hlen
    | cons y q =>
      simp only [stripPrefix] at h
      split at h
      · rename_i hxy; subst hxy
        intro he
        simp only [List.cons_append, List.cons.injEq, true_and] at he
        exact ih h (by simpa using hlen) he
      · rename_i hxy
        intro he
        simp only [List.cons_append, List.cons.injEq] at he
        exact hxy he.1

/-- Soundness of `noClash`: equal names come from equal prefixes and equal inputs. -/
theorem noClash_sound (kind : Nat) (p q a b : List Nat) (h : noClash kind p q = true)
    (ha : okSuffix kind a = true) (hb : okSuffix kind b = true) (he : p ++ a = q ++ b) : p = q ∧ a = b := by
  unfold noClash at h
  simp only [Bool.and_eq_true] at h
  obtain ⟨h1, h2⟩ := h
  -- w.l.o.g. the shorter prefix first
  have key : ∀ (p q a b : List Nat), p.length ≤ q.length →
      (match stripPrefix p q with | none => true | some [] => true | some r => kind == 0 && !(r.all isDigit)) = true →
      okSuffix kind a = true → okSuffix kind b = true → p ++ a = q ++ b → p = q ∧ a = b := by
    intro p q a b hlen h1 ha hb he
    cases hs : stripPrefix p q with
    | none => exact absurd he (stripPrefix_none hs a b hlen)
    | some r =>
      have hq := stripPrefix_spec hs
      subst hq
      cases r with
      | nil => simp at he ⊢; exact he
      | cons c r =>
        simp only [hs, Bool.and_eq_true, beq_iff_eq, Bool.not_eq_true'] at h1
        obtain ⟨hk, hnd⟩ := h1
        subst hk
        -- a = (c :: r) ++ b is all digits, so c :: r is
        have : a = (c :: r) ++ b := by
          have := he
          rw [List.append_assoc] at this
          exact List.append_cancel_left this
        subst this
        simp only [okSuffix, bne_self_eq_false, Bool.false_or, Bool.and_eq_true, List.all_append] at ha
        rw [ha.2.1] at hnd
        cases hnd
  by_cases hl : p.length ≤ q.length
  · exact key p q a b hl h1 ha hb he
  · have := key q p b a (by omega) h2 hb ha he.symm
    exact ⟨this.1.symm, this.2.symm⟩

/-- All pairs of binder formats of one kind inside one file. -/
def formatsOK (tbl : List (String × List Nat × Nat)) : Bool :=
  tbl.all fun x => tbl.all fun y => !(x.1 == y.1 && x.2.2 == y.2.2) || noClash x.2.2 x.2.1 y.2.1

/-- **The binder prefixes of the current source never clash** (regenerated table). -/
theorem binder_formats_no_clash : formatsOK Generated.binderFormats = true := by decide +kernel

/-- Non-vacuity: the scheme `_x` / `__x` for *named* fields would clash (fields `x` and `_x`). -/
example : noClash 1 [95] [95, 95] = false := by decide
example : noClash 0 [95] [95, 95] = true := by decide

/-- The hasher type parameter: `H`, `H_`, `H__`, … — the first that is not a generic parameter of the type. -/
def hasherCandidate (k : Nat) : List Char := 'H' :: List.replicate k '_'

def hasherName (generics : List (List Char)) : Nat → Nat → List Char
  | 0, k => hasherCandidate k
  | fuel + 1, k => if generics.contains (hasherCandidate k) then hasherName generics fuel (k + 1) else hasherCandidate k

theorem hasherCandidate_inj {j k : Nat} (h : hasherCandidate j = hasherCandidate k) : j = k := by
  unfold hasherCandidate at h
  have := congrArg List.length h
  simpa using this

theorem hasherName_is_candidate (generics : List (List Char)) (fuel k : Nat) :
    ∃ j, k ≤ j ∧ hasherName generics fuel k = hasherCandidate j := by
  induction fuel generalizing k with
  | zero => exact ⟨k, Nat.le_refl _, rfl⟩
  | succ fuel ih =>
    simp only [hasherName]
    split
    · obtain ⟨j, hj, he⟩ := ih (k + 1)
      exact ⟨j, by omega, he⟩
    · exact ⟨k, Nat.le_refl _, rfl⟩

/-- Later candidates are looked up only: removing an earlier one does not change the search. -/
theorem hasherName_erase (generics : List (List Char)) (fuel k i : Nat) (hi : i < k) :
    hasherName (generics.erase (hasherCandidate i)) fuel k = hasherName generics fuel k := by
  induction fuel generalizing k with
  | zero => rfl
  | succ fuel ih =>
    simp only [hasherName]
    have hne : hasherCandidate k ≠ hasherCandidate i := by
      intro h; have := hasherCandidate_inj h; omega
    have hc : (generics.erase (hasherCandidate i)).contains (hasherCandidate k) = generics.contains (hasherCandidate k) := by
      rw [Bool.eq_iff_iff]
      simp only [List.contains_iff_mem]
      exact List.mem_erase_of_ne hne
    rw [hc, ih (k + 1) (by omega)]

/-- With as much fuel as the type has generic parameters the chosen name is fresh
    (the real loop is unbounded; it stops at the latest after that many steps). -/
theorem hasherName_fresh (generics : List (List Char)) (fuel k : Nat) (h : generics.length ≤ fuel) :
    hasherName generics fuel k ∉ generics := by
  induction fuel generalizing generics k with
  | zero =>
    have : generics = [] := List.eq_nil_of_length_eq_zero (by omega)
    subst this
    simp
  | succ fuel ih =>
    simp only [hasherName]
    split
    · rename_i hc
      have hmem : hasherCandidate k ∈ generics := by simpa using hc
      have hlen : (generics.erase (hasherCandidate k)).length ≤ fuel := by
        rw [List.length_erase_of_mem hmem]; omega
      have := ih (generics.erase (hasherCandidate k)) (k + 1) hlen
      rw [hasherName_erase generics fuel (k + 1) k (by omega)] at this
      intro hin
      obtain ⟨j, hj, he⟩ := hasherName_is_candidate generics fuel (k + 1)
      have hne : hasherName generics fuel (k + 1) ≠ hasherCandidate k := by
        rw [he]; intro h; have := hasherCandidate_inj h; omega
      exact this ((List.mem_erase_of_ne hne).mpr hin)
    · rename_i hc
      simpa using hc

/-- Non-vacuity and the repaired input: a type parameter called `H`. -/
example : hasherName [['H']] 1 0 = ['H', '_'] := by decide
example : hasherName [['T']] 1 0 = ['H'] := by decide

end Educe.Props.C19
