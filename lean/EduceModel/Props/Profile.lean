import EduceModel.Generated.PanicSites
/-!
# The macro does the same work in every build profile

The behavioural ties build the proc-macro the way `cargo test` does, with debug assertions. cargo's release profile
builds it without them; the one construct of /repo/src whose effect depends on that is `debug_assert!`.
-/
namespace Educe.Props.Profile

/-- **No `debug_assert!` does any work**: the argument of none of the `debug_assert!`s of /repo/src calls a mutating
    method or assigns (regenerated table; the translator lists the offenders). A proc-macro built by cargo's release
    profile has its debug assertions compiled out, so a statement hidden in one (`debug_assert!(map.insert(..).is_none())`)
    would make the macro behave differently there than in the builds the tests and these checks use. -/
theorem debug_asserts_pure : Generated.debugAssertEffects = [] ∧ 0 < Generated.debugAssertCount := by decide


end Educe.Props.Profile
