import EduceModel.Expand
import EduceModel.Generated.CfgGates
/-
  C16 — expansion is deterministic.

  A Lean function is deterministic by construction, so the content of this file is that the model
  is *faithful about order*: the only places where the code's result could depend on the iteration
  order of a hash map are (a) the trait → metas map of lib.rs and (b) the Into target maps.
  (a) is only queried by key — the model's dispatch is invariant under any reordering of that map;
  (b) are ordered maps after fix 3: the emitted order is the sorted order of the targets, whatever
  order they were written or inserted in. A generated-table lemma pins the remaining
  `HashMap`/`HashSet` types of the source to the key-queried ones.
-/
namespace Educe.Attr

/-- Every hash-ordered collection type that occurs in /repo/src is one that the code only queries
    by key (never iterates): the trait → metas map and the index → field-attribute maps. -/
theorem hashCollections_only_keyed :
    Generated.hashCollections.all (fun p => ["HashMap<Trait,Vec<Meta>>", "HashMap<usize,FieldAttribute>"].contains p.2) = true := by
  decide

theorem find_key_perm {α : Type} (t : TraitId) :
    ∀ (m m' : List (TraitId × α)), m.Perm m' → (m.map Prod.fst).Nodup →
      m.find? (fun p => p.1 == t) = m'.find? (fun p => p.1 == t) := by
  intro m m' h
  induction h with
  | nil => intro _; rfl
  | cons x _ ih =>
    intro hnd
    simp only [List.map_cons, List.nodup_cons] at hnd
    simp only [List.find?_cons]
    split
    · rfl
    · exact ih hnd.2
  | swap x y l =>
    intro hnd
    simp only [List.map_cons, List.nodup_cons, List.mem_cons, not_or] at hnd
    simp only [List.find?_cons]
    by_cases hx : (x.1 == t) = true <;> by_cases hy : (y.1 == t) = true
    · exfalso
      have e1 : x.1 = t := by simpa using hx
      have e2 : y.1 = t := by simpa using hy
      exact hnd.1.1 (e2.trans e1.symm)
    · simp [hx, hy]
    · simp [hx, hy]
    · simp [hx, hy]
  | trans h1 h2 ih1 ih2 =>
    intro hnd
    rw [ih1 hnd]
    apply ih2
    exact (List.Perm.map Prod.fst h1).nodup_iff.mp hnd

/-- (a) The handlers run in the fixed source order and each receives the metas stored under its
    own key: the result does not depend on how the trait → metas map is ordered. -/
theorem dispatch_perm (c : Ctx) (m m' : List (TraitId × List TraitMeta)) (h : m.Perm m')
    (hnd : (m.map Prod.fst).Nodup) : ∀ ts, dispatch c m ts = dispatch c m' ts := by
  intro ts
  induction ts with
  | nil => rfl
  | cons t ts ih =>
    simp only [dispatch]
    rw [find_key_perm t m m' h hnd, ih]

theorem any_key_perm {α : Type} (t : TraitId) (m m' : List (TraitId × α)) (h : m.Perm m') :
    (m.any fun p => p.1 == t) = (m'.any fun p => p.1 == t) := by
  induction h with
  | nil => rfl
  | cons x _ ih => simp [List.any_cons, ih]
  | swap x y l => simp only [List.any_cons]; cases (x.1 == t) <;> cases (y.1 == t) <;> rfl
  | trans _ _ ih1 ih2 => rw [ih1, ih2]

/-- The set of educed traits handed to every handler (`traits.contains`) does not depend on the
    map's order either. -/
theorem traits_membership_perm (m m' : List (TraitId × List TraitMeta)) (h : m.Perm m') :
    (fun t => m.any fun p => p.1 == t) = (fun t => m'.any fun p => p.1 == t) := by
  funext t; exact any_key_perm t m m' h

/-! ### (b) Into targets are emitted in sorted order -/

def targetsOrdered (ts : List (String × Bound)) : List (String × Bound) :=
  ts.foldl (fun acc t => sortedInsert t acc) []

theorem sortedInsert_perm (x : String × Bound) : ∀ l, (sortedInsert x l).Perm (x :: l) := by
  intro l
  induction l with
  | nil => simp [sortedInsert]
  | cons y ys ih =>
    simp only [sortedInsert]
    split
    · exact List.Perm.refl _
    · exact (List.Perm.cons y ih).trans (List.Perm.swap x y ys)

theorem lexLt_irrefl : ∀ a, lexLt a a = false := by
  intro a; induction a with
  | nil => rfl
  | cons x xs ih => simp [lexLt, ih]

theorem lexLt_asymm : ∀ a b, lexLt a b = true → lexLt b a = false := by
  intro a
  induction a with
  | nil => intro b h; cases b <;> simp [lexLt] at h ⊢
  | cons x xs ih =>
    intro b h
    cases b with
    | nil => simp [lexLt] at h
    | cons y ys =>
      simp only [lexLt] at h ⊢
      by_cases h1 : x < y
      · have : ¬ y < x := by omega
        have : ¬ y = x := by omega
        simp [*]
      · by_cases h2 : x = y
        · subst h2; simp at h ⊢; exact ih ys h
        · simp [h1, h2] at h

theorem lexLt_trans : ∀ a b c, lexLt a b = true → lexLt b c = true → lexLt a c = true := by
  intro a
  induction a with
  | nil =>
    intro b c h1 h2
    cases b with
    | nil => simp [lexLt] at h1
    | cons y ys => cases c <;> simp [lexLt] at h2 ⊢
  | cons x xs ih =>
    intro b c h1 h2
    cases b with
    | nil => simp [lexLt] at h1
    | cons y ys =>
      cases c with
      | nil => simp [lexLt] at h2
      | cons z zs =>
        simp only [lexLt] at h1 h2 ⊢
        by_cases hxy : x < y
        · by_cases hyz : y < z
          · have : x < z := by omega
            simp [this]
          · by_cases hyz' : y = z
            · subst hyz'; simp [hxy]
            · simp [hyz, hyz'] at h2
        · by_cases hxy' : x = y
          · subst hxy'
            simp at h1
            by_cases hyz : x < z
            · simp [hyz]
            · by_cases hyz' : x = z
              · subst hyz'; simp at h2 ⊢; exact ih ys zs h1 h2
              · simp [hyz, hyz'] at h2
          · simp [hxy, hxy'] at h1

theorem lexLt_total : ∀ a b, lexLt a b = true ∨ a = b ∨ lexLt b a = true := by
  intro a
  induction a with
  | nil => intro b; cases b <;> simp [lexLt]
  | cons x xs ih =>
    intro b
    cases b with
    | nil => simp [lexLt]
    | cons y ys =>
      simp only [lexLt]
      by_cases h1 : x < y
      · simp [h1]
      · by_cases h2 : x = y
        · subst h2
          rcases ih ys with h | h | h
          · simp [h]
          · simp [h]
          · simp [h]
        · have : y < x := by omega
          simp [h1, h2, this]

def KeyLe (p q : String × Bound) : Prop := lexLt (keyOf q.1) (keyOf p.1) = false

theorem sortedInsert_sorted (x : String × Bound) : ∀ l, l.Pairwise KeyLe → (sortedInsert x l).Pairwise KeyLe := by
  intro l
  induction l with
  | nil => intro _; simp [sortedInsert]
  | cons y ys ih =>
    intro h
    simp only [sortedInsert]
    split
    · rename_i hlt
      rw [List.pairwise_cons]
      refine ⟨?_, h⟩
      intro q hq
      rw [List.mem_cons] at hq
      rcases hq with rfl | hq
      · exact lexLt_asymm _ _ hlt
      · have := (List.pairwise_cons.mp h).1 q hq
        unfold KeyLe at this ⊢
        cases h' : lexLt (keyOf q.1) (keyOf x.1) with
        | false => rfl
        | true => rw [lexLt_trans _ _ _ h' hlt] at this; exact absurd this (by simp)
    · rename_i hnlt
      rw [List.pairwise_cons]
      refine ⟨?_, ih (List.pairwise_cons.mp h).2⟩
      intro q hq
      have hq' := (sortedInsert_perm x ys).subset hq
      rw [List.mem_cons] at hq'
      rcases hq' with rfl | hq'
      · unfold KeyLe; simpa using hnlt
      · exact (List.pairwise_cons.mp h).1 q hq'

theorem targetsOrdered_spec : ∀ (ts acc : List (String × Bound)), acc.Pairwise KeyLe →
    (ts.foldl (fun acc t => sortedInsert t acc) acc).Pairwise KeyLe ∧
    (ts.foldl (fun acc t => sortedInsert t acc) acc).Perm (acc ++ ts) := by
  intro ts
  induction ts with
  | nil => intro acc h; simp [h]
  | cons t ts ih =>
    intro acc h
    simp only [List.foldl_cons]
    obtain ⟨h1, h2⟩ := ih (sortedInsert t acc) (sortedInsert_sorted t acc h)
    refine ⟨h1, h2.trans ?_⟩
    refine (List.Perm.append_right ts (sortedInsert_perm t acc)).trans ?_
    simp only [List.cons_append]
    exact List.perm_middle.symm

/-- The order in which the Into impls are emitted is a function of the *set* of requested targets:
    any two orders of writing (or inserting) the same distinct targets give the same sequence. -/
theorem into_order_independent (ts ts' : List (String × Bound)) (h : ts.Perm ts')
    (hnd : (ts.map fun p => keyOf p.1).Nodup) : targetsOrdered ts = targetsOrdered ts' := by
  obtain ⟨s1, p1⟩ := targetsOrdered_spec ts [] (by simp)
  obtain ⟨s2, p2⟩ := targetsOrdered_spec ts' [] (by simp)
  simp only [List.nil_append] at p1 p2
  unfold targetsOrdered
  apply List.Perm.eq_of_pairwise (le := KeyLe) ?_ s1 s2 (p1.trans (h.trans p2.symm))
  intro a b ha hb hab hba
  have ha' : a ∈ ts := p1.subset ha
  have hb' : b ∈ ts := (p2.trans h.symm).subset hb
  unfold KeyLe at hab hba
  have hk : keyOf a.1 = keyOf b.1 := by
    rcases lexLt_total (keyOf a.1) (keyOf b.1) with h1 | h1 | h1
    · rw [h1] at hba; exact absurd hba (by simp)
    · exact h1
    · rw [h1] at hab; exact absurd hab (by simp)
  -- distinct keys: equal keys mean the same entry
  have : ∀ (l : List (String × Bound)), (l.map fun p => keyOf p.1).Nodup →
      ∀ a b, a ∈ l → b ∈ l → keyOf a.1 = keyOf b.1 → a = b := by
    intro l
    induction l with
    | nil => intro _ a b ha; simp at ha
    | cons x xs ih =>
      intro hn a b ha hb hk
      simp only [List.map_cons, List.nodup_cons] at hn
      rw [List.mem_cons] at ha hb
      rcases ha with rfl | ha <;> rcases hb with rfl | hb
      · rfl
      · exact absurd (List.mem_map.mpr ⟨b, hb, hk.symm⟩) hn.1
      · exact absurd (List.mem_map.mpr ⟨a, ha, hk⟩) hn.1
      · exact ih hn.2 a b ha hb hk
  exact this ts hnd a b ha' hb' hk

example : targetsOrdered [("u8", .auto), ("u16", .auto), ("String", .disabled)]
    = [("String", .disabled), ("u16", .auto), ("u8", .auto)] := by decide

end Educe.Attr
