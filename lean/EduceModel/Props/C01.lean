import EduceModel.Props.C02
import EduceModel.Props.C03
import EduceModel.Props.C05
import EduceModel.Props.C07
import EduceModel.Props.C09
import EduceModel.Props.C10
import EduceModel.Props.C11
import EduceModel.Props.C19
import EduceModel.Expand
/-!
# C01 — every accepted derive request expands to code that compiles

rustc's checking is not modelled; what *is* proved is the part of "compiles" that depends on the
generator (`WellFormed` in DESIGN.md), clause by clause:

* (b) **bodies are well-scoped and match the shapes**: for every type definition, attribute
  assignment and value, evaluating the generated body never meets an unbound binder, a pattern of
  the wrong arity or a missing field (`*_body_well_scoped`, corollaries of the per-trait
  correctness theorems, which evaluate bodies in environments built only from the patterns);
* (c) **binders are distinct** and (e) **paths are closed**: `Props.C19`;
* (d) **obligations ⊆ provided**: the delegated calls of a body are covered by the impl's
  predicates (`Props.C11`), and the marker impl `Copy` that shares a header with `Clone` carries a
  `Copy` predicate for every field type also when a custom clone method removed the field from the
  `Clone` predicates (`copy_impl_covers_fields_with_method`, the repaired defect);
* acceptance: the outcome model is tied to the implementation by the correspondence run of this
  check (documented forms accepted, accepted forms compile under rustc without errors or warnings).
-/
namespace Educe.Props.C01
open Educe Educe.Attr

/-! ## (b) well-scoped bodies -/

theorem eq_body_well_scoped {V : Type} (ops : EqOps V) (t : EqType) (ht : t.WF) (a b : Val V)
    (ha : t.Inhabits a) (hb : t.Inhabits b) : (Sem.evalEq ops t (Gen.PartialEq.body t) a b).isSome = true := by
  rw [Educe.partialEq_correct ops t ht a b ha hb]; rfl

theorem cmp_body_well_scoped {V : Type} (ops : OrdOps V) (p : Bool) (t : OrdType) (ht : t.WF) (bd : CmpBody)
    (hbd : Gen.Ord.body t = some bd) (a b : Val V) (ha : t.Inhabits a) (hb : t.Inhabits b) :
    (Sem.evalCmp ops p t bd a b).isSome = true := by
  rw [Educe.cmp_correct ops p t ht bd hbd a b ha hb]; rfl

theorem hash_body_well_scoped {V W : Type} (ops : HashOps V W) (t : HashType) (ht : t.WF) (a : Val V)
    (ha : t.Inhabits a) : (Sem.evalHash ops t (Gen.Hash.body t) a).isSome = true := by
  rw [Educe.hash_correct ops t ht a ha]; rfl

theorem clone_body_well_scoped {V : Type} (ops : CloneOps V) (copy : Bool) (t : CloneType) (ht : t.WF) (a : Val V)
    (ha : t.Inhabits a) : (Sem.evalClone ops t (Gen.Clone.body copy t) a).isSome = true := by
  rw [Educe.clone_correct ops copy t ht a ha]; rfl

/-! ## (d) the `Copy` impl that shares the `Clone` header -/

theorem bind_ok_inv {α β : Type} {x : Res α} {f : α → Res β} {b : β} (h : (x >>= f) = .ok b) :
    ∃ a, x = .ok a ∧ f a = .ok b := by
  cases x with
  | ok a => exact ⟨a, rfl, h⟩
  | diag d => cases h
  | panic s => cases h

/-- The predicate the `Copy` impl needs for a field of type `ty`. -/
def copyPred (ty : String) : String := noSpace ty ++ ":" ++ "::core::marker::Copy"

/-- **Repaired defect.** `Clone` and `Copy` educed on an enum, automatic bounds, and some field carries a
    custom clone method (so `Clone` is not a bitwise copy and its predicates skip that field): the
    `Copy` impl still asks every field type to be `Copy`. -/
theorem copy_impl_covers_fields_with_method (c : Ctx) (m : TraitMeta) (items : List Item)
    (h : cloneHandler c m = .ok items) (hcopy : c.traits .copy = true) (hk : c.d.kind = .enum) :
    ∃ primary copyItem, items = [primary, copyItem] ∧ copyItem.trait = "Copy" ∧
      (primary.head = ["false"] →
        ∀ ta, boundTypeFromMeta { flag := true, unsafe_ := false, bound := true } m = .ok ta → ta.bound = .auto →
          ∀ v ∈ c.d.variants, ∀ f ∈ v.fields, copyPred f.ty ∈ copyItem.preds) := by
  unfold cloneHandler at h
  obtain ⟨ta, hta, h⟩ := bind_ok_inv h
  obtain ⟨vs, hvs, h⟩ := bind_ok_inv h
  simp only [hcopy, hk, pure, if_true] at h
  cases h
  refine ⟨_, _, rfl, rfl, ?_⟩
  intro hhead ta' hta' hauto v hv f hf
  rw [hta] at hta'
  cases hta'
  -- head = ["false"] means the clone is not bitwise: the extra predicates are present
  have huse : (true && !(vs.any fun x => x.2.any fun y => y.2.method.isSome)) = false := by
    cases hc : (true && !(vs.any fun x => x.2.any fun y => y.2.method.isSome)) with
    | false => rfl
    | true => simp [showBool, hc] at hhead
  simp only [huse, hauto, Bool.true_and, Bool.not_false, if_true]
  apply List.mem_append_right
  simp only [boundPreds, List.append_nil, List.map_nil, copyPred]
  rw [List.mem_map]
  exact ⟨f.ty, List.mem_flatMap.mpr ⟨v, hv, List.mem_map.mpr ⟨f, hf, rfl⟩⟩, rfl⟩

/-- The repaired input: `#[educe(Copy, Clone)] enum E<T: Clone> { V(#[educe(Clone(method(m)))] T) }`. -/
def repairedParam : Param := { ident := some "method", form := Form.list { tok := ValTok.ident "m", text := "m" } }
def repairedMeta : TraitMeta := { ident := some "Clone", form := MetaForm.list (some [repairedParam]) none none }
def repairedField : Field := { ty := "T", attrs := [{ isEduce := true, isList := true, metas := some [repairedMeta] }] }
def repairedGenerics : Generics := { params := [(GKind.type, "T")], implParams := ["T: Clone"], tyGenerics := "<T>" }
def repairedInput : DeriveInput :=
  { name := "E", kind := Kind.enum, generics := repairedGenerics, variants := [{ name := "V", shape := Shape.tuple, fields := [repairedField] }] }

/-- Non-vacuity: the model accepts it, `Clone` is not bitwise (`head = ["false"]`) and the `Copy` item carries one
    predicate (for `T`) although the `Clone` item has none. (Shapes only: the kernel does not reduce the string
    printing of the predicate itself; its text is compared with the implementation in the correspondence run.) -/
example :
    (match cloneHandler { F := TraitId.all, traits := fun t => t == .clone || t == .copy, d := repairedInput } { ident := some "Clone" } with
     | .ok [p, c] => p.trait == "Clone" && c.trait == "Copy" && p.head == ["false"] && p.preds.length == 0 && c.preds.length == 1
     | _ => false) = true := by
  decide

end Educe.Props.C01
