import EduceModel.Props.C02
import EduceModel.Props.C03
import EduceModel.Props.C05
import EduceModel.Props.C07
import EduceModel.Props.C09
import EduceModel.Props.C10
import EduceModel.Props.C11
import EduceModel.Props.C13
import EduceModel.Props.C19
import EduceModel.Expand
/-!
# C01 — every accepted derive request expands to code that compiles

rustc's checking is not modelled; what *is* proved is the part of "compiles" that depends on the
generator (`WellFormed` in DESIGN.md), clause by clause:

* (b) **bodies are well-scoped and match the shapes**: for every type definition, attribute
  assignment and value, evaluating the generated body never meets an unbound binder, a pattern of
  the wrong arity or a missing field (`*_body_well_scoped`, corollaries of the per-trait
  correctness theorems, which evaluate bodies in environments built only from the patterns);
* (c) **binders are distinct** and (e) **paths are closed**: `Props.C19`;
* (d) **obligations ⊆ provided**: the delegated calls of a body are covered by the impl's
  predicates (`Props.C11`), and the marker impl `Copy` that shares a header with `Clone` carries a
  `Copy` predicate for every field type also when a custom clone method removed the field from the
  `Clone` predicates (`copy_impl_covers_fields_with_method`, the repaired defect);
* acceptance ("every documented form on a supported shape is accepted rather than refused"): for the eight
  traits that need no designation below the type level, the parameter-free request is accepted on every struct
  and non-empty enum, whatever its shape, field count, field types and generics (`expand_plain_accepted` and the
  per-handler `*_plain_accepted`); for the other forms the outcome model is tied to the implementation by the
  correspondence run of this check (documented forms accepted, accepted forms compile under rustc without
  errors or warnings).
-/
namespace Educe.Props.C01
open Educe Educe.Attr

/-! ## (b) well-scoped bodies -/

theorem eq_body_well_scoped {V : Type} (ops : EqOps V) (t : EqType) (ht : t.WF) (a b : Val V)
    (ha : t.Inhabits a) (hb : t.Inhabits b) : (Sem.evalEq ops t (Gen.PartialEq.body t) a b).isSome = true := by
  rw [Educe.partialEq_correct ops t ht a b ha hb]; rfl

theorem cmp_body_well_scoped {V : Type} (ops : OrdOps V) (p : Bool) (t : OrdType) (ht : t.WF) (bd : CmpBody)
    (hbd : Gen.Ord.body t = some bd) (a b : Val V) (ha : t.Inhabits a) (hb : t.Inhabits b) :
    (Sem.evalCmp ops p t bd a b).isSome = true := by
  rw [Educe.cmp_correct ops p t ht bd hbd a b ha hb]; rfl

theorem hash_body_well_scoped {V W : Type} (ops : HashOps V W) (t : HashType) (ht : t.WF) (a : Val V)
    (ha : t.Inhabits a) : (Sem.evalHash ops t (Gen.Hash.body t) a).isSome = true := by
  rw [Educe.hash_correct ops t ht a ha]; rfl

theorem clone_body_well_scoped {V : Type} (ops : CloneOps V) (copy : Bool) (t : CloneType) (ht : t.WF) (a : Val V)
    (ha : t.Inhabits a) : (Sem.evalClone ops t (Gen.Clone.body copy t) a).isSome = true := by
  rw [Educe.clone_correct ops copy t ht a ha]; rfl

/-! ## (d) the `Copy` impl that shares the `Clone` header -/

theorem bind_ok_inv {α β : Type} {x : Res α} {f : α → Res β} {b : β} (h : (x >>= f) = .ok b) :
    ∃ a, x = .ok a ∧ f a = .ok b := by
  cases x with
  | ok a => exact ⟨a, rfl, h⟩
  | diag d => cases h
  | panic s => cases h

/-- The predicate the `Copy` impl needs for a field of type `ty`. -/
def copyPred (ty : String) : String := noSpace ty ++ ":" ++ "::core::marker::Copy"

/-- **Repaired defect.** `Clone` and `Copy` educed on an enum, automatic bounds, and some field carries a
    custom clone method (so `Clone` is not a bitwise copy and its predicates skip that field): the
    `Copy` impl still asks every field type to be `Copy`. -/
theorem copy_impl_covers_fields_with_method (c : Ctx) (m : TraitMeta) (items : List Item)
    (h : cloneHandler c m = .ok items) (hcopy : c.traits .copy = true) (hk : c.d.kind = .enum) :
    ∃ primary copyItem, items = [primary, copyItem] ∧ copyItem.trait = "Copy" ∧
      (primary.head = ["false"] →
        ∀ ta, boundTypeFromMeta { flag := true, unsafe_ := false, bound := true } m = .ok ta → ta.bound = .auto →
          ∀ v ∈ c.d.variants, ∀ f ∈ v.fields, copyPred f.ty ∈ copyItem.preds) := by
  unfold cloneHandler at h
  obtain ⟨ta, hta, h⟩ := bind_ok_inv h
  obtain ⟨vs, hvs, h⟩ := bind_ok_inv h
  simp only [hcopy, hk, pure, if_true] at h
  cases h
  refine ⟨_, _, rfl, rfl, ?_⟩
  intro hhead ta' hta' hauto v hv f hf
  rw [hta] at hta'
  cases hta'
  -- head = ["false"] means the clone is not bitwise: the extra predicates are present
  have huse : (true && !(vs.any fun x => x.2.any fun y => y.2.method.isSome)) = false := by
    cases hc : (true && !(vs.any fun x => x.2.any fun y => y.2.method.isSome)) with
    | false => rfl
    | true => simp [showBool, hc] at hhead
  simp only [huse, hauto, Bool.true_and, Bool.not_false, if_true]
  apply List.mem_append_right
  simp only [boundPreds, List.append_nil, List.map_nil, copyPred]
  rw [List.mem_map]
  exact ⟨f.ty, List.mem_flatMap.mpr ⟨v, hv, List.mem_map.mpr ⟨f, hf, rfl⟩⟩, rfl⟩

/-- The repaired input: `#[educe(Copy, Clone)] enum E<T: Clone> { V(#[educe(Clone(method(m)))] T) }`. -/
def repairedParam : Param := { ident := some "method", form := Form.list { tok := ValTok.ident "m", text := "m" } }
def repairedMeta : TraitMeta := { ident := some "Clone", form := MetaForm.list (some [repairedParam]) none none }
def repairedField : Field := { ty := "T", attrs := [{ isEduce := true, isList := true, metas := some [repairedMeta] }] }
def repairedGenerics : Generics := { params := [(GKind.type, "T")], implParams := ["T: Clone"], tyGenerics := "<T>" }
def repairedInput : DeriveInput :=
  { name := "E", kind := Kind.enum, generics := repairedGenerics, variants := [{ name := "V", shape := Shape.tuple, fields := [repairedField] }] }

/-- Non-vacuity: the model accepts it, `Clone` is not bitwise (`head = ["false"]`) and the `Copy` item carries one
    predicate (for `T`) although the `Clone` item has none. (Shapes only: the kernel does not reduce the string
    printing of the predicate itself; its text is compared with the implementation in the correspondence run.) -/
example :
    (match cloneHandler { F := TraitId.all, traits := fun t => t == .clone || t == .copy, d := repairedInput } { ident := some "Clone" } with
     | .ok [p, c] => p.trait == "Clone" && c.trait == "Copy" && p.head == ["false"] && p.preds.length == 0 && c.preds.length == 1
     | _ => false) = true := by
  decide

/-! ## acceptance of the parameter-free requests -/

def PlainBelow (d : DeriveInput) : Prop :=
  ∀ v ∈ d.variants, v.attrs = [] ∧ ∀ f ∈ v.fields, f.attrs = []

theorem isOk_bind {α β : Type} {r : Res α} {k : α → Res β} (h : IsOk r) (hk : ∀ a, IsOk (k a)) : IsOk (r >>= k) := by
  obtain ⟨a, rfl⟩ := h; exact hk a

theorem isOk_mapRes {α β : Type} (f : α → Res β) (l : List α) (h : ∀ x ∈ l, IsOk (f x)) : IsOk (mapRes f l) := by
  induction l with
  | nil => exact ⟨_, rfl⟩
  | cons x xs ih =>
    obtain ⟨y, hy⟩ := h x (by simp)
    obtain ⟨ys, hys⟩ := ih (fun z hz => h z (by simp [hz]))
    exact ⟨y :: ys, by simp [mapRes, hy, hys]⟩

theorem variantNoAttr_nil (c : Ctx) (mine : TraitId → Bool) (v : Variant) (h : v.attrs = []) : variantNoAttr c mine v = .ok () := by
  unfold variantNoAttr; rw [h]; rfl

theorem clone_plain_accepted (c : Ctx) (m : TraitMeta) (hm : m.form = .path) (hp : PlainBelow c.d) :
    IsOk (cloneHandler c m) := by
  unfold cloneHandler
  apply isOk_bind
  · simp only [boundTypeFromMeta, hm]; exact ⟨_, rfl⟩
  · intro ta
    apply isOk_bind
    · apply isOk_mapRes; intro v hv
      obtain ⟨hva, hfs⟩ := hp v hv
      have hf : ∀ (en : Bool), IsOk (mapRes (fun f => do
          let a ← fromAttrs c.F c.traits (· == .clone) (cloneFieldFromMeta en) {} f.attrs
          pure (f, a)) v.fields) := by
        intro en; apply isOk_mapRes; intro f hf; rw [hfs f hf]; exact ⟨_, rfl⟩
      simp only [variantNoAttr_nil c _ v hva]
      split <;> first
        | exact isOk_bind (hf _) (fun _ => ⟨_, rfl⟩)
        | exact isOk_bind ⟨_, rfl⟩ (fun _ => isOk_bind (hf _) (fun _ => ⟨_, rfl⟩))
    · intro vs; exact ⟨_, rfl⟩

theorem eqLike_plain_accepted (c : Ctx) (m : TraitMeta) (me : TraitId) (mine : TraitId → Bool) (tp : String)
    (comp : Option (TraitId × String)) (hm : m.form = .path) (hk : c.d.kind ≠ .union) (hp : PlainBelow c.d) :
    IsOk (eqLikeHandler c m me mine tp comp) := by
  have hfield : ∀ v ∈ c.d.variants, IsOk (mapRes (fun f => do
      let a ← fromAttrs c.F c.traits mine (cmpFieldFromMeta { ignore := true, method := true, rank := false }) {} f.attrs
      pure (f, a)) v.fields) := by
    intro v hv; apply isOk_mapRes; intro f hf; rw [(hp v hv).2 f hf]; exact ⟨_, rfl⟩
  have hta : IsOk (boundTypeFromMeta { flag := true, unsafe_ := false, bound := true } m) := by
    simp only [boundTypeFromMeta, hm]; exact ⟨_, rfl⟩
  unfold eqLikeHandler
  cases hkind : c.d.kind with
  | union => exact absurd hkind hk
  | struct =>
    simp only [hkind]
    refine isOk_bind hta (fun ta => isOk_bind (isOk_mapRes _ _ (fun v hv => ?_)) (fun vs => ⟨_, rfl⟩))
    exact isOk_bind (hfield v hv) (fun _ => ⟨_, rfl⟩)
  | enum =>
    simp only [hkind]
    refine isOk_bind hta (fun ta => isOk_bind (isOk_mapRes _ _ (fun v hv => ?_)) (fun vs => ⟨_, rfl⟩))
    simp only [variantNoAttr_nil c _ v (hp v hv).1]
    exact isOk_bind ⟨_, rfl⟩ (fun _ => isOk_bind (hfield v hv) (fun _ => ⟨_, rfl⟩))

theorem marker_plain_accepted (c : Ctx) (m : TraitMeta) (me p : TraitId) (b s : String) (w : Bool)
    (hm : m.form = .path) (hp : PlainBelow c.d) : IsOk (markerHandler c m me p b s w) := by
  unfold markerHandler
  apply isOk_bind
  · simp only [boundTypeFromMeta, hm]; exact ⟨_, rfl⟩
  · intro ta
    split
    · exact ⟨_, rfl⟩
    · apply isOk_bind
      · apply isOk_mapRes; intro v hv
        obtain ⟨hva, hfs⟩ := hp v hv
        have hf : IsOk (mapRes (fun f => fromAttrs c.F c.traits (· == me) noFieldAttrFromMeta () f.attrs) v.fields) := by
          apply isOk_mapRes; intro f hf; rw [hfs f hf]; exact ⟨_, rfl⟩
        simp only [variantNoAttr_nil c _ v hva]
        split <;> first
          | exact isOk_bind hf (fun _ => ⟨_, rfl⟩)
          | exact isOk_bind ⟨_, rfl⟩ (fun _ => isOk_bind hf (fun _ => ⟨_, rfl⟩))
      · intro _; split <;> exact ⟨_, rfl⟩

/-- Inserting a key above every key present succeeds. -/
theorem insertRank_above (k : Int) (x : Field × CmpFieldAttr) (acc : List (Int × (Field × CmpFieldAttr)))
    (h : ∀ p ∈ acc, p.1 < k) : insertRank k x acc = some (acc ++ [(k, x)]) := by
  induction acc with
  | nil => rfl
  | cons p ps ih =>
    obtain ⟨k', y⟩ := p
    have hlt : k' < k := h (k', y) (by simp)
    have h1 : ¬ k < k' := by omega
    have h2 : ¬ k = k' := by omega
    simp only [insertRank, h1, h2, if_false, ih (fun q hq => h q (by simp [hq])), Option.map, List.cons_append]

/-- Fields that carry no attribute take the positional default ranks, which never collide. -/
theorem rankLoop_plain (fas : List (Field × CmpFieldAttr)) (hplain : ∀ p ∈ fas, p.2 = {}) (i : Nat)
    (acc : List (Int × (Field × CmpFieldAttr))) (hacc : ∀ p ∈ acc, p.1 < -9223372036854775808 + (i : Int)) :
    (rankLoop i fas acc).isSome = true := by
  induction fas generalizing i acc with
  | nil => rfl
  | cons p ps ih =>
    obtain ⟨f, a⟩ := p
    have ha : a = {} := hplain (f, a) (by simp)
    subst ha
    simp only [rankLoop, Bool.false_eq_true, if_false, Option.getD]
    rw [insertRank_above _ _ acc hacc]
    apply ih (fun q hq => hplain q (by simp [hq]))
    intro q hq
    simp only [List.mem_append, List.mem_singleton] at hq
    rcases hq with hq | hq
    · have := hacc q hq; push_cast; omega
    · subst hq; push_cast; omega

theorem mapRes_ok_map {α β : Type} (f : α → Res β) (g : α → β) (l : List α) (h : ∀ x ∈ l, f x = .ok (g x)) :
    mapRes f l = .ok (l.map g) := by
  induction l with
  | nil => rfl
  | cons x xs ih =>
    simp only [mapRes, h x (by simp), ih (fun y hy => h y (by simp [hy])), List.map]

theorem ok_bind_eq {α β : Type} (a : α) (f : α → Res β) : (Res.ok a >>= f) = f a := rfl

theorem ordLike_plain_accepted (c : Ctx) (m : TraitMeta) (me : TraitId) (mine : TraitId → Bool) (tp : String)
    (supers : List String) (comp : Bool) (hm : m.form = .path) (hk : c.d.kind ≠ .union)
    (hrepr : ∀ a ∈ c.d.attrs, a.isRepr = false) (hp : PlainBelow c.d) :
    IsOk (ordLikeHandler c m me mine tp supers comp) := by
  have hfield : ∀ v ∈ c.d.variants, mapRes (fun f => do
      let a ← fromAttrs c.F c.traits mine (cmpFieldFromMeta { ignore := true, method := true, rank := true }) {} f.attrs
      pure (f, a)) v.fields = .ok (v.fields.map fun f => (f, ({} : CmpFieldAttr))) := by
    intro v hv; apply mapRes_ok_map; intro f hf; rw [(hp v hv).2 f hf]; rfl
  have hrank : ∀ v : Variant, ∃ r, rankLoop 0 (v.fields.map fun f => (f, ({} : CmpFieldAttr))) [] = some r := by
    intro v
    have := rankLoop_plain (v.fields.map fun f => (f, ({} : CmpFieldAttr))) (by simp) 0 [] (by simp)
    exact Option.isSome_iff_exists.mp this
  have hta : IsOk (boundTypeFromMeta { flag := true, unsafe_ := false, bound := true } m) := by
    simp only [boundTypeFromMeta, hm]; exact ⟨_, rfl⟩
  have hdisc : IsOk (discriminantType c.d) := by
    unfold discriminantType
    suffices h : ∀ (as : List Attribute) (acc : Option String), (∀ a ∈ as, a.isRepr = false) → IsOk (discriminantType.go ["i8", "i16", "i32", "i64", "i128", "isize", "u8", "u16", "u32", "u64", "u128", "usize"] as acc) from h _ _ hrepr
    intro as
    induction as with
    | nil => intro acc _; exact ⟨_, rfl⟩
    | cons a as ih =>
      intro acc h
      simp only [discriminantType.go, h a (by simp), Bool.false_and, Bool.false_eq_true, if_false]
      exact ih acc (fun b hb => h b (by simp [hb]))
  unfold ordLikeHandler
  cases hkind : c.d.kind with
  | union => exact absurd hkind hk
  | struct =>
    simp only [hkind]
    refine isOk_bind hta (fun ta => isOk_bind ⟨_, rfl⟩ (fun dty => isOk_bind (isOk_mapRes _ _ (fun v hv => ?_)) (fun vs => ⟨_, rfl⟩)))
    obtain ⟨r, hr⟩ := hrank v
    simp only [hfield v hv, ok_bind_eq, hr, reduceCtorEq, beq_iff_eq, if_false]
    exact ⟨_, rfl⟩
  | enum =>
    simp only [hkind]
    refine isOk_bind hta (fun ta => isOk_bind hdisc (fun dty => isOk_bind (isOk_mapRes _ _ (fun v hv => ?_)) (fun vs => ⟨_, rfl⟩)))
    obtain ⟨r, hr⟩ := hrank v
    simp only [variantNoAttr_nil c _ v (hp v hv).1, hfield v hv, ok_bind_eq, hr, beq_self_eq_true, if_true]
    exact ⟨_, rfl⟩

theorem isOk_bind_eq {α β : Type} {r : Res α} {k : α → Res β} (h : IsOk r) (hk : ∀ a, r = .ok a → IsOk (k a)) : IsOk (r >>= k) := by
  obtain ⟨a, rfl⟩ := h; exact hk a rfl

theorem mapRes_length {α β : Type} (f : α → Res β) (l : List α) (ys : List β) (h : mapRes f l = .ok ys) : ys.length = l.length := by
  induction l generalizing ys with
  | nil => simp only [mapRes] at h; cases h; rfl
  | cons x xs ih =>
    simp only [mapRes] at h
    split at h
    · split at h
      · rename_i zs hz; cases h; simp [ih zs hz]
      · cases h
      · cases h
    · cases h
    · cases h

theorem debug_plain_accepted (c : Ctx) (m : TraitMeta) (hm : m.form = .path) (hk : c.d.kind ≠ .union)
    (hne : c.d.kind = .enum → c.d.variants ≠ []) (hp : PlainBelow c.d) :
    IsOk (debugHandler c m) := by
  unfold debugHandler
  cases hkind : c.d.kind with
  | union => exact absurd hkind hk
  | struct =>
    simp only [hkind, debugTypeFromMeta, hm, if_true, ok_bind_eq]
    have hfs : ∀ f ∈ (c.d.variants.headD {}).fields, f.attrs = [] := by
      intro f hf
      cases hvs : c.d.variants with
      | nil => rw [hvs] at hf; simp at hf
      | cons v vs => rw [hvs] at hf; exact (hp v (by rw [hvs]; simp)).2 f (by simpa using hf)
    refine isOk_bind (isOk_mapRes _ _ (fun f hf => ?_)) (fun fas => ?_)
    · rw [hfs f hf]; exact ⟨_, rfl⟩
    · simp only [show ((NameCfg.default == NameCfg.disable) = false) from by decide, Bool.and_false, Bool.false_eq_true, if_false]
      exact ⟨_, rfl⟩
  | enum =>
    simp only [hkind, debugTypeFromMeta, hm, if_true, ok_bind_eq]
    refine isOk_bind_eq (isOk_mapRes _ _ (fun v hv => ?_)) (fun vs hvs0 => ?_)
    · obtain ⟨hva, hfs⟩ := hp v hv
      rw [hva]
      have hnil : ∀ (b : TraitMeta → Res DebugTypeAttr) (dflt : DebugTypeAttr),
          fromAttrs c.F c.traits (· == .debug) b dflt [] = .ok dflt := fun _ _ => rfl
      have hname : (!(NameCfg.disable != NameCfg.disable || NameCfg.default != NameCfg.disable)) = false := by decide
      simp only [hnil, ok_bind_eq, hname, Bool.and_false, Bool.false_eq_true, if_false]
      have hf : IsOk (mapRes (fun f => do
          let a ← fromAttrs c.F c.traits (· == .debug) (debugFieldFromMeta { name := v.shape == .named, ignore := true, method := true }) {} f.attrs
          pure (f, a)) v.fields) := by
        apply isOk_mapRes; intro f hf; rw [hfs f hf]; exact ⟨_, rfl⟩
      split
      · exact ⟨_, rfl⟩
      · exact isOk_bind hf (fun _ => ⟨_, rfl⟩)
    · have hvs : vs.isEmpty = false := by
        have hl := mapRes_length _ _ _ hvs0
        have := hne hkind
        cases vs with
        | nil => simp at hl; exact absurd (List.eq_nil_of_length_eq_zero hl.symm) this
        | cons _ _ => rfl
      simp only [hvs, Bool.false_and, Bool.false_eq_true, if_false]
      exact ⟨_, rfl⟩

/-- The traits whose bare form (`#[educe(Trait)]`) asks for no designation below the type level. -/
def plainTrait : TraitId → Bool
  | .debug | .clone | .copy | .partialEq | .eq | .partialOrd | .ord | .hash => true
  | _ => false

structure PlainRequest (c : Ctx) : Prop where
  notUnion : c.d.kind ≠ .union
  nonEmpty : c.d.kind = .enum → c.d.variants ≠ []
  noRepr : ∀ a ∈ c.d.attrs, a.isRepr = false
  below : PlainBelow c.d

theorem handlerFor_plain_accepted (c : Ctx) (t : TraitId) (m : TraitMeta) (ms : List TraitMeta) (ht : plainTrait t = true)
    (hm : m.form = .path) (H : PlainRequest c) : IsOk (handlerFor c t (m :: ms)) := by
  unfold handlerFor
  cases t <;> simp only [plainTrait] at ht <;> simp only []
  · exact debug_plain_accepted c m hm H.notUnion H.nonEmpty H.below
  · exact clone_plain_accepted c m hm H.below
  · exact marker_plain_accepted c m _ _ _ _ _ hm H.below
  · exact eqLike_plain_accepted c m _ _ _ _ hm H.notUnion H.below
  · exact marker_plain_accepted c m _ _ _ _ _ hm H.below
  · split
    · apply isOk_bind
      · simp only [boundTypeFromMeta, hm]; exact ⟨_, rfl⟩
      · intro _; exact ⟨_, rfl⟩
    · exact ordLike_plain_accepted c m _ _ _ _ _ hm H.notUnion H.noRepr H.below
  · exact ordLike_plain_accepted c m _ _ _ _ _ hm H.notUnion H.noRepr H.below
  · exact eqLike_plain_accepted c m _ _ _ _ hm H.notUnion H.below
  all_goals exact absurd ht (by decide)

/-- **Every parameter-free request for the eight traits that need no designation is accepted** on any struct or
    non-empty enum without attributes below the type level, whatever its shape, field count and generics. -/
theorem dispatch_plain_accepted (c : Ctx) (map : List (TraitId × List TraitMeta)) (H : PlainRequest c)
    (hmap : ∀ p ∈ map, plainTrait p.1 = true ∧ ∃ m ms, p.2 = m :: ms ∧ m.form = .path) (ts : List TraitId) :
    IsOk (dispatch c map ts) := by
  induction ts with
  | nil => exact ⟨_, rfl⟩
  | cons t ts ih =>
    simp only [dispatch]
    split
    · exact ih
    · rename_i t' ms hfind
      have hmem := List.mem_of_find?_eq_some hfind
      have heq : t' = t := by have := List.find?_some hfind; simpa using this
      obtain ⟨hpl, m, ms', hms, hform⟩ := hmap _ hmem
      subst heq
      simp only at hms hpl
      subst hms
      obtain ⟨items, hi⟩ := handlerFor_plain_accepted c t' m ms' hpl hform H
      obtain ⟨rest, hr⟩ := ih
      simp only [hi, hr]
      exact ⟨_, rfl⟩

def PlainEntry (p : TraitId × List TraitMeta) : Prop :=
  plainTrait p.1 = true ∧ ∃ m ms, p.2 = m :: ms ∧ m.form = .path

theorem collectTop_plain (F : Features) (ms : List TraitMeta) (acc : List (TraitId × List TraitMeta))
    (hacc : ∀ p ∈ acc, PlainEntry p)
    (hms : ∀ m ∈ ms, m.form = .path ∧ ∃ t, traitOf F m = some t ∧ plainTrait t = true)
    (hnd : (acc.map (·.1) ++ ms.filterMap (traitOf F)).Nodup) :
    ∃ acc', collectTop F ms acc = .ok acc' ∧ ∀ p ∈ acc', PlainEntry p := by
  induction ms generalizing acc with
  | nil => exact ⟨acc, rfl, hacc⟩
  | cons m ms ih =>
    obtain ⟨hform, t, ht, hpl⟩ := hms m (by simp)
    have hnot : (acc.any fun p => p.1 == t) = false := by
      rw [List.filterMap_cons, ht] at hnd
      have hn := (List.nodup_append.mp hnd).2.2
      rw [Bool.eq_false_iff]
      intro hany
      obtain ⟨p, hp, hpt⟩ := List.any_eq_true.mp hany
      have hpt' : p.1 = t := by simpa using hpt
      exact hn p.1 (List.mem_map.mpr ⟨p, hp, rfl⟩) t (by simp) hpt'
    simp only [collectTop, ht, hnot, Bool.false_eq_true, if_false]
    apply ih
    · intro p hp
      rcases List.mem_append.mp hp with hp | hp
      · exact hacc p hp
      · simp only [List.mem_singleton] at hp; subst hp; exact ⟨hpl, m, [], rfl, hform⟩
    · intro m' hm'; exact hms m' (by simp [hm'])
    · rw [List.filterMap_cons, ht] at hnd
      simpa [List.map_append, List.append_assoc] using hnd

/-- **Acceptance, end to end.** One `#[educe(..)]` attribute listing distinct bare traits among Debug, Clone, Copy,
    PartialEq, Eq, PartialOrd, Ord, Hash on a struct or non-empty enum with nothing else attached: `expand`
    returns impl items — or, only when the list is empty, the "not set up" diagnostic. No other refusal is
    possible, for any shape, field count, field types and generics. -/
theorem expand_plain_accepted (F : Features) (d : DeriveInput) (a : Attribute) (ms : List TraitMeta)
    (hattrs : d.attrs = [a]) (hae : a.isEduce = true) (hal : a.isList = true) (har : a.isRepr = false) (hmetas : a.metas = some ms)
    (hms : ∀ m ∈ ms, m.form = .path ∧ ∃ t, traitOf F m = some t ∧ plainTrait t = true)
    (hnd : (ms.filterMap (traitOf F)).Nodup)
    (hk : d.kind ≠ .union) (hne : d.kind = .enum → d.variants ≠ []) (hp : PlainBelow d) :
    IsOk (expand F d) ∨ expand F d = .diag .notSetUp := by
  obtain ⟨map, hmap, hentries⟩ := collectTop_plain F ms [] (by simp) hms (by simpa using hnd)
  unfold expand
  simp only [hattrs, collectTopAttrs, hae, hal, if_true, hmetas, hmap]
  have H : PlainRequest { F := F, traits := fun t => map.any fun p => p.1 == t, d := d } :=
    ⟨hk, hne, by intro b hb; rw [hattrs] at hb; simp at hb; subst hb; exact har, hp⟩
  obtain ⟨items, hi⟩ := dispatch_plain_accepted _ map H hentries (TraitId.all.filter F.contains)
  rw [hi]
  cases items with
  | nil => right; rfl
  | cons x xs => left; exact ⟨_, rfl⟩

theorem default_struct_plain_accepted (c : Ctx) (m : TraitMeta) (hm : m.form = .path) (hk : c.d.kind = .struct) (hp : PlainBelow c.d) :
    IsOk (defaultHandler c m) := by
  unfold defaultHandler
  simp only [defaultTypeFromMeta, hm, if_true, ok_bind_eq, hk]
  have hfs : ∀ f ∈ (c.d.variants.headD {}).fields, f.attrs = [] := by
    intro f hf
    cases hvs : c.d.variants with
    | nil => rw [hvs] at hf; simp at hf
    | cons v vs => rw [hvs] at hf; exact (hp v (by rw [hvs]; simp)).2 f (by simpa using hf)
  refine isOk_bind (isOk_mapRes _ _ (fun f hf => ?_)) (fun fas => ⟨_, rfl⟩)
  rw [hfs f hf]; exact ⟨_, rfl⟩

/-- A struct with exactly one field: `#[educe(Deref)]` / `#[educe(DerefMut)]` needs no marker. -/
theorem deref_single_field_accepted (c : Ctx) (m : TraitMeta) (me : TraitId) (hm : m.form = .path) (hk : c.d.kind = .struct)
    (v : Variant) (f : Field) (hv : c.d.variants = [v]) (hf : v.fields = [f]) (hfa : f.attrs = []) :
    IsOk (derefHandler c m me) := by
  unfold derefHandler
  simp only [hk, flagTypeFromMeta, hm, if_true, ok_bind_eq, hv, List.headD, hf, derefPick, hfa]
  exact ⟨_, rfl⟩

/-! ### parameters -/

/-- The switch a parameter addresses, if it names one. -/
def paramKey {σ : Type} (specs : List (PSpec σ)) (p : Param) : Option String :=
  (p.ident.bind (findSpec specs)).map (·.key)

/-- **Converse of the refusal theorems**: a parameter list in which every parameter names an enabled switch of the
    position with a well-formed value, and no switch is addressed twice, is accepted. -/
theorem runParams_accepts {σ : Type} (m : TraitMeta) (specs : List (PSpec σ)) (ps : List Param) (seen : List String) (st : σ)
    (hgood : ∀ p ∈ ps, ∃ n s, p.ident = some n ∧ findSpec specs n = some s ∧ s.enabled = true ∧ ∀ st', IsOk (s.apply p.form st'))
    (hnd : (ps.filterMap (paramKey specs)).Nodup)
    (hseen : ∀ k ∈ ps.filterMap (paramKey specs), k ∉ seen) :
    IsOk (runParams m specs ps seen st) := by
  induction ps generalizing seen st with
  | nil => exact ⟨_, rfl⟩
  | cons p ps ih =>
    obtain ⟨n, s, hn, hs, hen, happ⟩ := hgood p (by simp)
    obtain ⟨st', hst'⟩ := happ st
    have hk : paramKey specs p = some s.key := by simp [paramKey, hn, hs]
    have hnotseen : seen.contains s.key = false := by
      have := hseen s.key (by simp [hk])
      simpa using this
    simp only [runParams, hn, hs, hen, Bool.not_true, Bool.false_eq_true, if_false, hst', hnotseen]
    apply ih
    · intro q hq; exact hgood q (by simp [hq])
    · rw [List.filterMap_cons, hk] at hnd; exact (List.nodup_cons.mp hnd).2
    · intro k hkmem
      rw [List.filterMap_cons, hk] at hnd
      have hne : k ≠ s.key := fun h => (List.nodup_cons.mp hnd).1 (h ▸ hkmem)
      have := hseen k (by simp [hk, hkmem])
      simp only [List.mem_cons, not_or]
      exact ⟨hne, this⟩

/-- Non-vacuity / instance: `Ord(rank = 3, method(m), ignore = false)` at a field. -/
example :
    let ps : List Param := [ { ident := some "rank", pathStr := "rank", form := .nv { tok := .lit (.int (some 3) ""), text := "3" } },
                             { ident := some "method", pathStr := "method", form := .list { tok := .ident "m", text := "m" } },
                             { ident := some "ignore", pathStr := "ignore", form := .nv { tok := .lit (.bool false), text := "false" } } ]
    cmpFieldFromMeta { ignore := true, method := true, rank := true } { ident := some "Ord", form := .list (some ps) none none }
      = .ok { ignore := false, method := some "m", rank := some 3 } := by rfl

/-- Non-vacuity: `#[educe(Debug, Clone, PartialEq, Eq, PartialOrd, Ord, Hash)] struct S<T> { a: u8, b: T }`
    meets the hypotheses of `expand_plain_accepted`. -/
example :
    let mk (n : String) : TraitMeta := { ident := some n, pathStr := n, raw := n, form := .path }
    let ms := ["Debug", "Clone", "PartialEq", "Eq", "PartialOrd", "Ord", "Hash"].map mk
    let a : Attribute := { isEduce := true, isList := true, metas := some ms }
    let d : DeriveInput := { name := "S", kind := .struct, generics := { params := [(.type, "T")] }, attrs := [a],
                             variants := [{ shape := .named, fields := [{ name := some "a", ty := "u8" }, { name := some "b", ty := "T" }] }] }
    d.attrs = [a] ∧ a.isEduce = true ∧ a.isList = true ∧ a.isRepr = false ∧ a.metas = some ms ∧
      (ms.all fun m => m.form == .path && (match traitOf TraitId.all m with | some t => plainTrait t | none => false)) = true ∧
      (ms.filterMap (traitOf TraitId.all)).length = 7 ∧ d.kind ≠ .union := by decide

end Educe.Props.C01
