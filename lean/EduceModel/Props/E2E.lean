import EduceModel.Bridge
import EduceModel.Props.C01
import EduceModel.Props.C02
import EduceModel.Props.C03
import EduceModel.Props.C04
import EduceModel.Props.C05
import EduceModel.Props.C06
import EduceModel.Props.C07
import EduceModel.Props.C08
import EduceModel.Props.C09
import EduceModel.Props.C10
import EduceModel.Props.C11
import EduceModel.Props.C20
/-
  End-to-end theorems: from the attributes of an accepted definition (syn's oracle records, `Attr.DeriveInput`)
  through the attribute layer (`expand` / the handlers), the bridge (`Bridge.lean`) and the generator of the body
  (`Gen.*`) to the behaviour (`Sem.*`) and the reference semantics (`Spec.*`).

  Shape of every theorem: *if the handler (or `expand`) accepts, then there is a scan result `vs` — the handler's own
  reading of every field's attributes, characterised field by field through `fromAttrs` — such that the item it emits
  carries exactly `vs`, and the body generated for `vs` behaves as the property's reference semantics says, for every leaf
  behaviour and all values*. The per-property corollaries then speak about attributes directly ("a field whose
  `PartialEq` attribute reads `ignore` never influences `==`").
-/
namespace Educe.Bridge
open Educe.Attr Educe.Props.C01

/-! ### inverting `mapRes` -/

/-- Pointwise relation between two lists (core Lean has no `Forall2`). -/
inductive Forall2 {α β : Type} (R : α → β → Prop) : List α → List β → Prop
  | nil : Forall2 R [] []
  | cons {x y xs ys} : R x y → Forall2 R xs ys → Forall2 R (x :: xs) (y :: ys)

theorem mapRes_ok_forall {α β : Type} (f : α → Res β) : ∀ (l : List α) (r : List β), mapRes f l = .ok r →
    Forall2 (fun x y => f x = .ok y) l r := by
  intro l
  induction l with
  | nil => intro r h; simp [mapRes] at h; cases h; exact .nil
  | cons x xs ih =>
    intro r h
    simp only [mapRes] at h
    cases hx : f x with
    | diag d => simp [hx] at h
    | panic s => simp [hx] at h
    | ok y =>
      simp only [hx] at h
      cases hxs : mapRes f xs with
      | diag d => simp [hxs] at h
      | panic s => simp [hxs] at h
      | ok ys =>
        simp only [hxs] at h
        cases h
        exact .cons hx (ih ys hxs)

theorem forall2_map_eq {α β : Type} (g : β → α) {R : α → β → Prop} (hR : ∀ x y, R x y → g y = x) :
    ∀ (l : List α) (r : List β), Forall2 R l r → r.map g = l := by
  intro l r h
  induction h with
  | nil => rfl
  | cons hxy _ ih => simp [hR _ _ hxy, ih]

theorem forall2_getElem {α β : Type} {R : α → β → Prop} : ∀ {l : List α} {r : List β}, Forall2 R l r →
    ∀ (k : Nat) (y : β), r[k]? = some y → ∃ x, l[k]? = some x ∧ R x y := by
  intro l r h
  induction h with
  | nil => intro k y hk; simp at hk
  | cons hxy _ ih =>
    intro k y hk
    cases k with
    | zero => simp at hk; subst hk; exact ⟨_, rfl, hxy⟩
    | succ k => simp at hk; simpa using ih k y hk

/-- The field scan shared by every handler: each field is paired with what `fromAttrs` reads from its attributes. -/
theorem fieldScan_spec {α : Type} (g : Field → Res α) (fs : List Field) (fas : List (Field × α))
    (h : mapRes (fun f => do let a ← g f; pure (f, a)) fs = .ok fas) :
    fas.map Prod.fst = fs ∧ ∀ (i : Nat) (f : Field) (a : α), fas[i]? = some (f, a) → fs[i]? = some f ∧ g f = .ok a := by
  have h2 := mapRes_ok_forall _ fs fas h
  have key : ∀ (x : Field) (y : Field × α), ((do let a ← g x; pure (x, a)) : Res (Field × α)) = .ok y → y.1 = x ∧ g x = .ok y.2 := by
    intro x y hxy
    obtain ⟨a, ha, hp⟩ := bind_ok_inv hxy
    cases hp
    exact ⟨rfl, ha⟩
  constructor
  · exact forall2_map_eq Prod.fst (fun x y hxy => (key x y hxy).1) fs fas h2
  · intro i f a hi
    obtain ⟨x, hx, hxy⟩ := forall2_getElem h2 i (f, a) hi
    obtain ⟨e1, e2⟩ := key x (f, a) hxy
    simp only at e1 e2
    subst e1
    exact ⟨hx, e2⟩

/-! ### the compare-like scan (PartialEq, Hash) -/

/-- What `cmpScan` returns: the variants in order, each with its fields in order, every field paired with the result of
    reading its own attributes. Nothing else enters the configuration. -/
theorem cmpScan_spec (c : Ctx) (mine : TraitId → Bool) (fl : CmpFieldFlags) (vs : CmpScan) (h : cmpScan c mine fl = .ok vs) :
    vs.map Prod.fst = c.d.variants ∧
    ∀ (k : Nat) (v : Variant) (fas : List (Field × CmpFieldAttr)), vs[k]? = some (v, fas) →
      c.d.variants[k]? = some v ∧ fas.map Prod.fst = v.fields ∧
      ∀ (i : Nat) (f : Field) (a : CmpFieldAttr), fas[i]? = some (f, a) →
        v.fields[i]? = some f ∧ fromAttrs c.F c.traits mine (cmpFieldFromMeta fl) {} f.attrs = .ok a := by
  unfold cmpScan at h
  have h2 := mapRes_ok_forall _ _ _ h
  have key : ∀ (x : Variant) (y : Variant × List (Field × CmpFieldAttr)),
      ((do
        if c.d.kind == .enum then variantNoAttr c mine x
        let fas ← mapRes (fun f => do
            let a ← fromAttrs c.F c.traits mine (cmpFieldFromMeta fl) {} f.attrs
            pure (f, a)) x.fields
        pure (x, fas)) : Res (Variant × List (Field × CmpFieldAttr))) = .ok y →
      y.1 = x ∧ mapRes (fun f => do
            let a ← fromAttrs c.F c.traits mine (cmpFieldFromMeta fl) {} f.attrs
            pure (f, a)) x.fields = .ok y.2 := by
    intro x y hxy
    dsimp only at hxy
    split at hxy
    · obtain ⟨_, _, hxy⟩ := bind_ok_inv hxy
      obtain ⟨fas, hfas, hp⟩ := bind_ok_inv hxy
      cases hp
      exact ⟨rfl, hfas⟩
    · obtain ⟨fas, hfas, hp⟩ := bind_ok_inv hxy
      cases hp
      exact ⟨rfl, hfas⟩
  constructor
  · exact forall2_map_eq Prod.fst (fun x y hxy => (key x y hxy).1) _ _ h2
  · intro k v fas hk
    obtain ⟨x, hx, hxy⟩ := forall2_getElem h2 k (v, fas) hk
    obtain ⟨e1, e2⟩ := key x (v, fas) hxy
    simp only at e1 e2
    subst e1
    obtain ⟨f1, f2⟩ := fieldScan_spec _ _ _ e2
    exact ⟨hx, f1, f2⟩

/-- Inversion of `eqLikeHandler` on structs and enums: accepting means the type-level attribute parsed, the scan
    returned some `vs`, and the emitted item(s) carry exactly the configuration and the predicates computed from `vs`. -/
theorem eqLikeHandler_inv (c : Ctx) (m : TraitMeta) (me : TraitId) (mine : TraitId → Bool) (tp : String)
    (comp : Option (TraitId × String)) (items : List Item) (hk : c.d.kind ≠ .union)
    (h : eqLikeHandler c m me mine tp comp = .ok items) :
    ∃ ta vs, boundTypeFromMeta { flag := true, unsafe_ := false, bound := true } m = .ok ta ∧
      cmpScan c mine { ignore := true, method := true, rank := false } = .ok vs ∧
      items = withCompanion
        { trait := me.name
          preds := boundPreds ta.bound c.d.generics tp
            (vs.flatMap fun (_, fas) => fas.filterMap fun (f, a) => if a.ignore || a.method.isSome then none else some f.ty) []
          variants := vs.map fun (v, fas) => (v.name, v.shape, ([] : List String), fas.map fun (f, a) => cmpFieldCfg f a) }
        comp c.traits := by
  unfold eqLikeHandler at h
  cases hkind : c.d.kind with
  | union => exact absurd hkind hk
  | struct =>
    simp only [hkind] at h
    obtain ⟨ta, hta, h⟩ := bind_ok_inv h
    obtain ⟨vs, hvs, h⟩ := bind_ok_inv h
    cases h
    refine ⟨ta, vs, hta, ?_, rfl⟩
    unfold cmpScan
    simp only [hkind]
    exact hvs
  | enum =>
    simp only [hkind] at h
    obtain ⟨ta, hta, h⟩ := bind_ok_inv h
    obtain ⟨vs, hvs, h⟩ := bind_ok_inv h
    cases h
    refine ⟨ta, vs, hta, ?_, rfl⟩
    unfold cmpScan
    simp only [hkind]
    exact hvs

theorem primary_mem_withCompanion (p : Item) (comp : Option (TraitId × String)) (traits : TraitId → Bool) :
    p ∈ withCompanion p comp traits := by
  unfold withCompanion
  split
  · split <;> simp
  · simp

/-! ### well-formedness carries over the bridge -/

theorem identOf_injective : ∀ a b : String, identOf a = identOf b → a = b := by
  intro a b h; exact String.toList_inj.mp h

theorem nodup_map_identOf (l : List String) (h : l.Nodup) : (l.map identOf).Nodup := by
  induction l with
  | nil => simp
  | cons x xs ih =>
    simp only [List.nodup_cons, List.map_cons, List.mem_map] at h ⊢
    refine ⟨?_, ih h.2⟩
    rintro ⟨y, hy, e⟩
    exact h.1 (identOf_injective _ _ e ▸ hy)

theorem eqVariant_WF (num : String → Nat) (v : Variant) (fas : List (Field × CmpFieldAttr)) (hv : VariantWF v)
    (hf : fas.map Prod.fst = v.fields) : (eqVariant num (v, fas)).WF := by
  obtain ⟨h1, h2⟩ := hv
  constructor
  · intro hs
    have : (eqVariant num (v, fas)).fields.map EqField.name = (v.fields.map fname).map identOf := by
      simp [eqVariant, eqField, ← hf, List.map_map, Function.comp_def]
    rw [this]
    exact nodup_map_identOf _ (h1 hs)
  · intro hs
    have : fas = [] := by
      have := h2 hs
      rw [this] at hf
      simpa using hf
    simp [eqVariant, this]

theorem eqType_WF (num : String → Nat) (c : Ctx) (mine : TraitId → Bool) (fl : CmpFieldFlags) (vs : CmpScan)
    (hwf : InputWF c.d) (h : cmpScan c mine fl = .ok vs) : (eqType num c.d.kind vs).WF := by
  obtain ⟨hmap, hspec⟩ := cmpScan_spec c mine fl vs h
  have hall : ∀ p ∈ vs, (eqVariant num p).WF := by
    intro p hp
    obtain ⟨k, hk⟩ := List.getElem?_of_mem hp
    obtain ⟨v, fas⟩ := p
    obtain ⟨hv, hf, _⟩ := hspec k v fas hk
    exact eqVariant_WF num v fas (hwf.1 v (List.mem_of_getElem? hv)) hf
  unfold eqType
  cases hkind : c.d.kind with
  | enum =>
    simp only
    intro w hw
    obtain ⟨p, hp, rfl⟩ := List.mem_map.mp hw
    exact hall p hp
  | struct =>
    simp only
    cases vs with
    | nil => simp [EqType.WF, EqVariant.WF]
    | cons p ps => simpa [EqType.WF] using hall p (by simp)
  | union =>
    simp only
    cases vs with
    | nil => simp [EqType.WF, EqVariant.WF]
    | cons p ps => simpa [EqType.WF] using hall p (by simp)

/-! ### C02, end to end at the handler -/

/-- **C02 end to end.** If the PartialEq handler accepts a struct or enum, then the configuration it read — field by
    field, the result of `fromAttrs` on that field's attributes (`cmpScan_spec`) — is what the emitted item carries, and
    the `eq` body generated for it evaluates (every binder resolves) to the reference semantics, for every numbering of
    the custom methods, every leaf behaviour and all values of the type. -/
theorem partialEq_handler_end_to_end (c : Ctx) (m : TraitMeta) (rest : List TraitMeta) (items : List Item) (hwf : InputWF c.d)
    (hk : c.d.kind ≠ .union) (h : handlerFor c .partialEq (m :: rest) = .ok items) :
    ∃ vs, cmpScan c (mineEq c) eqFlags = .ok vs ∧
      (∃ it ∈ items, it.trait = "PartialEq" ∧
        it.variants = vs.map fun (v, fas) => (v.name, v.shape, ([] : List String), fas.map fun (f, a) => cmpFieldCfg f a)) ∧
      ∀ (num : String → Nat) {V : Type} (ops : EqOps V) (a b : Val V),
        (eqType num c.d.kind vs).Inhabits a → (eqType num c.d.kind vs).Inhabits b →
        Sem.evalEq ops (eqType num c.d.kind vs) (Gen.PartialEq.body (eqType num c.d.kind vs)) a b
          = some (Spec.eq ops (eqType num c.d.kind vs) a b) := by
  simp only [handlerFor] at h
  obtain ⟨ta, vs, _, hvs, hitems⟩ := eqLikeHandler_inv c m .partialEq _ _ _ items hk h
  refine ⟨vs, hvs, ?_, ?_⟩
  · subst hitems
    exact ⟨_, primary_mem_withCompanion _ _ _, rfl, rfl⟩
  · intro num V ops a b ha hb
    exact partialEq_correct ops _ (eqType_WF num c (mineEq c) eqFlags vs hwf hvs) a b ha hb

/-! ### from `expand` to the handlers -/

theorem dispatch_ok_handler (c : Ctx) (map : List (TraitId × List TraitMeta)) :
    ∀ (ts : List TraitId) (items : List Item), dispatch c map ts = .ok items →
      ∀ t ∈ ts, ∀ p, map.find? (fun p => p.1 == t) = some p →
        ∃ its, handlerFor c t p.2 = .ok its ∧ ∀ it ∈ its, it ∈ items := by
  intro ts
  induction ts with
  | nil => intro items _ t ht; cases ht
  | cons t0 ts ih =>
    intro items h t ht p hp
    simp only [dispatch] at h
    cases hf : map.find? (fun p => p.1 == t0) with
    | none =>
      simp only [hf] at h
      rcases List.mem_cons.mp ht with rfl | ht'
      · rw [hf] at hp; cases hp
      · exact ih items h t ht' p hp
    | some q =>
      obtain ⟨t1, ms⟩ := q
      simp only [hf] at h
      cases hh : handlerFor c t0 ms with
      | diag e => simp [hh] at h
      | panic s => simp [hh] at h
      | ok its0 =>
        simp only [hh] at h
        cases hd : dispatch c map ts with
        | diag e => simp [hd] at h
        | panic s => simp [hd] at h
        | ok restItems =>
          simp only [hd] at h
          cases h
          rcases List.mem_cons.mp ht with rfl | ht'
          · rw [hf] at hp; cases hp
            exact ⟨its0, hh, fun it hit => List.mem_append_left _ hit⟩
          · obtain ⟨its, h1, h2⟩ := ih restItems hd t ht' p hp
            exact ⟨its, h1, fun it hit => List.mem_append_right _ (h2 it hit)⟩

theorem mem_all (t : TraitId) : t ∈ TraitId.all := by
  cases t <;> simp [TraitId.all]

/-- `expand` accepted: the type-level attributes were collected into `map`, and every enabled trait that has an
    entry in `map` had its handler run, successfully, on the context `expand` builds; its items are among the output. -/
theorem expand_ok_handler (F : Features) (d : DeriveInput) (items : List Item) (h : expand F d = .ok items) :
    ∃ map, collectTopAttrs F d.attrs [] = .ok map ∧
      ∀ t, F.contains t = true → ∀ p, map.find? (fun p => p.1 == t) = some p →
        ∃ its, handlerFor (ctxOf F map d) t p.2 = .ok its ∧ ∀ it ∈ its, it ∈ items := by
  unfold expand at h
  cases hc : collectTopAttrs F d.attrs [] with
  | diag e => simp [hc] at h
  | panic s => simp [hc] at h
  | ok map =>
    simp only [hc] at h
    refine ⟨map, rfl, ?_⟩
    intro t hF p hp
    have hd : dispatch (ctxOf F map d) map (TraitId.all.filter F.contains) = .ok items := by
      unfold ctxOf
      split at h
      · cases h
      · exact h
    exact dispatch_ok_handler _ map _ items hd t (List.mem_filter.mpr ⟨mem_all t, hF⟩) p hp

/-- An entry of the collected map is never empty (its first meta is the one `expand` hands to the handler). -/
theorem handlerFor_ok_nonempty (c : Ctx) (t : TraitId) (ms : List TraitMeta) (its : List Item) (h : handlerFor c t ms = .ok its) :
    ∃ m rest, ms = m :: rest := by
  cases ms with
  | nil => simp [handlerFor] at h
  | cons m rest => exact ⟨m, rest, rfl⟩

/-- **C02 end to end, from `expand`.** For an accepted struct or enum on which PartialEq is educed. -/
theorem partialEq_end_to_end (F : Features) (d : DeriveInput) (items : List Item) (hwf : InputWF d) (hk : d.kind ≠ .union)
    (h : expand F d = .ok items) (hF : F.contains .partialEq = true) :
    ∃ map, collectTopAttrs F d.attrs [] = .ok map ∧
      ∀ p, map.find? (fun p => p.1 == TraitId.partialEq) = some p →
        ∃ vs, cmpScan (ctxOf F map d) (mineEq (ctxOf F map d)) eqFlags = .ok vs ∧
          (∃ it ∈ items, it.trait = "PartialEq" ∧
            it.variants = vs.map fun (v, fas) => (v.name, v.shape, ([] : List String), fas.map fun (f, a) => cmpFieldCfg f a)) ∧
          ∀ (num : String → Nat) {V : Type} (ops : EqOps V) (a b : Val V),
            (eqType num d.kind vs).Inhabits a → (eqType num d.kind vs).Inhabits b →
            Sem.evalEq ops (eqType num d.kind vs) (Gen.PartialEq.body (eqType num d.kind vs)) a b
              = some (Spec.eq ops (eqType num d.kind vs) a b) := by
  obtain ⟨map, hmap, hh⟩ := expand_ok_handler F d items h
  refine ⟨map, hmap, ?_⟩
  intro p hp
  obtain ⟨its, hits, hsub⟩ := hh .partialEq hF p hp
  obtain ⟨m, rest, hms⟩ := handlerFor_ok_nonempty _ _ _ _ hits
  rw [hms] at hits
  obtain ⟨vs, hvs, ⟨it, hit, h1, h2⟩, hsem⟩ :=
    partialEq_handler_end_to_end (ctxOf F map d) m rest its hwf hk hits
  exact ⟨vs, hvs, ⟨it, hsub it hit, h1, h2⟩, hsem⟩

/-! ### attribute-level corollaries of C02 -/

theorem variantOf_eqType (num : String → Nat) (d : DeriveInput) (hwf : InputWF d) (vs : CmpScan)
    (hmap : vs.map Prod.fst = d.variants) (k : Nat) (p : Variant × List (Field × CmpFieldAttr)) (hk : vs[k]? = some p) :
    Spec.variantOf (eqType num d.kind vs) k = some (eqVariant num p) := by
  unfold eqType
  cases hkind : d.kind with
  | enum => simp [Spec.variantOf, hk]
  | struct =>
    obtain ⟨v, hv⟩ := hwf.2 (by simp [hkind])
    rw [hv] at hmap
    cases vs with
    | nil => simp at hk
    | cons q qs =>
      cases qs with
      | nil =>
        cases k with
        | zero => simp at hk; subst hk; simp [Spec.variantOf]
        | succ k => simp at hk
      | cons r rs => simp at hmap
  | union =>
    obtain ⟨v, hv⟩ := hwf.2 (by simp [hkind])
    rw [hv] at hmap
    cases vs with
    | nil => simp at hk
    | cons q qs =>
      cases qs with
      | nil =>
        cases k with
        | zero => simp at hk; subst hk; simp [Spec.variantOf]
        | succ k => simp at hk
      | cons r rs => simp at hmap

/-- **Ignored fields never influence `==`, stated on attributes.** Two pairs of values of variant `k` that agree on every
    field whose attributes do *not* read `ignore` (the reading being `fromAttrs … (cmpFieldFromMeta ..)` on that field's
    own attribute list, see `cmpScan_spec`) compare alike under the generated `eq`. -/
theorem eq_ignores_ignored_fields (c : Ctx) (hwf : InputWF c.d) (vs : CmpScan) (hvs : cmpScan c (mineEq c) eqFlags = .ok vs)
    (num : String → Nat) {V : Type} (ops : EqOps V) (k : Nat) (v : Variant) (fas : List (Field × CmpFieldAttr))
    (hk : vs[k]? = some (v, fas)) (a a' b b' : Val V)
    (ha : a.variant = k) (ha' : a'.variant = k) (hb : b.variant = k) (hb' : b'.variant = k)
    (hla : a.fields.length = fas.length) (hla' : a'.fields.length = fas.length)
    (hlb : b.fields.length = fas.length) (hlb' : b'.fields.length = fas.length)
    (hag : ∀ (j : Nat) (f : Field) (att : CmpFieldAttr), fas[j]? = some (f, att) → att.ignore = false →
        a.fields[j]? = a'.fields[j]? ∧ b.fields[j]? = b'.fields[j]?) :
    Sem.evalEq ops (eqType num c.d.kind vs) (Gen.PartialEq.body (eqType num c.d.kind vs)) a b
      = Sem.evalEq ops (eqType num c.d.kind vs) (Gen.PartialEq.body (eqType num c.d.kind vs)) a' b' := by
  obtain ⟨hmap, _⟩ := cmpScan_spec c (mineEq c) eqFlags vs hvs
  have hwt := eqType_WF num c (mineEq c) eqFlags vs hwf hvs
  have hvo := variantOf_eqType num c.d hwf vs hmap k (v, fas) hk
  have hlen : (eqVariant num (v, fas)).fields.length = fas.length := by simp [eqVariant]
  have inh : ∀ x : Val V, x.variant = k → x.fields.length = fas.length → (eqType num c.d.kind vs).Inhabits x := by
    intro x hx hl
    exact ⟨_, by rw [hx]; exact hvo, by rw [hl, hlen]⟩
  rw [partialEq_correct ops _ hwt a b (inh a ha hla) (inh b hb hlb),
      partialEq_correct ops _ hwt a' b' (inh a' ha' hla') (inh b' hb' hlb')]
  congr 1
  apply ignored_irrelevant ops _ a a' b b' (eqVariant num (v, fas)) (by rw [ha]; exact hvo) (by rw [ha, ha']) (by rw [hb, hb'])
    (by rw [hla, hlen]) (by rw [hla', hlen]) (by rw [hlb, hlen]) (by rw [hlb', hlen])
  intro j cf hcf hig
  simp only [eqVariant, List.getElem?_map] at hcf
  cases hfj : fas[j]? with
  | none => simp [hfj] at hcf
  | some q =>
    obtain ⟨f, att⟩ := q
    simp only [hfj, Option.map_some, Option.some.injEq] at hcf
    subst hcf
    exact hag j f att hfj hig

/-! ## C05 — Hash, end to end -/

theorem hashVariant_WF (num : String → Nat) (v : Variant) (fas : List (Field × CmpFieldAttr)) (hv : VariantWF v)
    (hf : fas.map Prod.fst = v.fields) : (hashVariant num (v, fas)).WF := by
  obtain ⟨h1, h2⟩ := hv
  constructor
  · intro hs
    have : (hashVariant num (v, fas)).fields.map HashField.name = (v.fields.map fname).map identOf := by
      simp [hashVariant, hashField, ← hf, List.map_map, Function.comp_def]
    rw [this]
    exact nodup_map_identOf _ (h1 hs)
  · intro hs
    have : fas = [] := by
      have := h2 hs
      rw [this] at hf
      simpa using hf
    simp [hashVariant, this]

theorem hashType_WF (num : String → Nat) (c : Ctx) (mine : TraitId → Bool) (fl : CmpFieldFlags) (vs : CmpScan)
    (hwf : InputWF c.d) (h : cmpScan c mine fl = .ok vs) : (hashType num c.d.kind vs).WF := by
  obtain ⟨hmap, hspec⟩ := cmpScan_spec c mine fl vs h
  have hall : ∀ p ∈ vs, (hashVariant num p).WF := by
    intro p hp
    obtain ⟨k, hk⟩ := List.getElem?_of_mem hp
    obtain ⟨v, fas⟩ := p
    obtain ⟨hv, hf, _⟩ := hspec k v fas hk
    exact hashVariant_WF num v fas (hwf.1 v (List.mem_of_getElem? hv)) hf
  unfold hashType
  cases hkind : c.d.kind with
  | enum =>
    simp only
    intro w hw
    obtain ⟨p, hp, rfl⟩ := List.mem_map.mp hw
    exact hall p hp
  | struct =>
    simp only
    cases vs with
    | nil => simp [HashType.WF, HashVariant.WF]
    | cons p ps => simpa [HashType.WF] using hall p (by simp)
  | union =>
    simp only
    cases vs with
    | nil => simp [HashType.WF, HashVariant.WF]
    | cons p ps => simpa [HashType.WF] using hall p (by simp)

/-- **C05 end to end.** The Hash handler accepted a struct or enum: the item carries the configuration the scan read,
    and the generated `hash` body feeds exactly the reference sequence (variant index first for enums, then every
    non-ignored field in declaration order through its method or its own `Hash`), for every hasher-observable write
    type `W`, every leaf behaviour and every value. -/
theorem hash_handler_end_to_end (c : Ctx) (m : TraitMeta) (rest : List TraitMeta) (items : List Item) (hwf : InputWF c.d)
    (hk : c.d.kind ≠ .union) (h : handlerFor c .hash (m :: rest) = .ok items) :
    ∃ vs, cmpScan c (· == .hash) eqFlags = .ok vs ∧
      (∃ it ∈ items, it.trait = "Hash" ∧
        it.variants = vs.map fun (v, fas) => (v.name, v.shape, ([] : List String), fas.map fun (f, a) => cmpFieldCfg f a)) ∧
      ∀ (num : String → Nat) {V W : Type} (ops : HashOps V W) (a : Val V),
        (hashType num c.d.kind vs).Inhabits a →
        Sem.evalHash ops (hashType num c.d.kind vs) (Gen.Hash.body (hashType num c.d.kind vs)) a
          = some (Spec.feed ops (hashType num c.d.kind vs) a) := by
  simp only [handlerFor] at h
  obtain ⟨ta, vs, _, hvs, hitems⟩ := eqLikeHandler_inv c m .hash _ _ _ items hk h
  refine ⟨vs, hvs, ?_, ?_⟩
  · subst hitems
    exact ⟨_, primary_mem_withCompanion _ _ _, rfl, rfl⟩
  · intro num V W ops a ha
    exact hash_correct ops _ (hashType_WF num c _ eqFlags vs hwf hvs) a ha

/-- **`a == b → hash(a) == hash(b)` needs the same reading of the attributes.** The two handlers read a field's
    `ignore` / `method` with the same parser (`cmpFieldFromMeta` under the same switches); they differ only in which
    metas they select (`PartialEq(..)`/`Eq(..)` against `Hash(..)`). -/
theorem eq_and_hash_use_the_same_field_parser (c : Ctx) :
    (fun (f : Field) => fromAttrs c.F c.traits (· == .hash) (cmpFieldFromMeta eqFlags) {} f.attrs)
      = fun f => fromAttrs c.F c.traits (· == .hash) (cmpFieldFromMeta { ignore := true, method := true, rank := false }) {} f.attrs := rfl

/-! ## C07 — Clone, end to end -/

theorem cloneScan_spec (c : Ctx) (em : Bool) (vs : CloneScan) (h : cloneScan c em = .ok vs) :
    vs.map Prod.fst = c.d.variants ∧
    ∀ (k : Nat) (v : Variant) (fas : List (Field × CloneFieldAttr)), vs[k]? = some (v, fas) →
      c.d.variants[k]? = some v ∧ fas.map Prod.fst = v.fields ∧
      ∀ (i : Nat) (f : Field) (a : CloneFieldAttr), fas[i]? = some (f, a) →
        v.fields[i]? = some f ∧ fromAttrs c.F c.traits (· == .clone) (cloneFieldFromMeta em) {} f.attrs = .ok a := by
  unfold cloneScan at h
  have h2 := mapRes_ok_forall _ _ _ h
  have key : ∀ (x : Variant) (y : Variant × List (Field × CloneFieldAttr)),
      ((do
        if c.d.kind == .enum then variantNoAttr c (· == .clone) x
        let fas ← mapRes (fun f => do
            let a ← fromAttrs c.F c.traits (· == .clone) (cloneFieldFromMeta em) {} f.attrs
            pure (f, a)) x.fields
        pure (x, fas)) : Res (Variant × List (Field × CloneFieldAttr))) = .ok y →
      y.1 = x ∧ mapRes (fun f => do
            let a ← fromAttrs c.F c.traits (· == .clone) (cloneFieldFromMeta em) {} f.attrs
            pure (f, a)) x.fields = .ok y.2 := by
    intro x y hxy
    dsimp only at hxy
    split at hxy
    · obtain ⟨_, _, hxy⟩ := bind_ok_inv hxy
      obtain ⟨fas, hfas, hp⟩ := bind_ok_inv hxy
      cases hp
      exact ⟨rfl, hfas⟩
    · obtain ⟨fas, hfas, hp⟩ := bind_ok_inv hxy
      cases hp
      exact ⟨rfl, hfas⟩
  constructor
  · exact forall2_map_eq Prod.fst (fun x y hxy => (key x y hxy).1) _ _ h2
  · intro k v fas hk
    obtain ⟨x, hx, hxy⟩ := forall2_getElem h2 k (v, fas) hk
    obtain ⟨e1, e2⟩ := key x (v, fas) hxy
    simp only at e1 e2
    subst e1
    obtain ⟨f1, f2⟩ := fieldScan_spec _ _ _ e2
    exact ⟨hx, f1, f2⟩

theorem cloneHandler_inv (c : Ctx) (m : TraitMeta) (items : List Item) (h : cloneHandler c m = .ok items) :
    ∃ ta vs, boundTypeFromMeta { flag := true, unsafe_ := false, bound := true } m = .ok ta ∧
      cloneScan c (cloneEnableMethod c) = .ok vs ∧
      ∃ primary ∈ items, primary.trait = "Clone" ∧ primary.head = [showBool (useCopyOf c vs)] ∧
        primary.variants = vs.map fun (v, fas) => (v.name, v.shape, ([] : List String), fas.map fun (f, a) => [fname f, showOpt a.method]) := by
  unfold cloneHandler at h
  obtain ⟨ta, hta, h⟩ := bind_ok_inv h
  obtain ⟨vs, hvs, h⟩ := bind_ok_inv h
  refine ⟨ta, vs, hta, hvs, ?_⟩
  simp only [pure] at h
  cases h
  split
  · refine ⟨_, List.mem_cons_self, rfl, ?_, rfl⟩
    unfold useCopyOf
    cases c.d.kind <;> rfl
  · refine ⟨_, List.mem_cons_self, rfl, ?_, rfl⟩
    unfold useCopyOf
    cases c.d.kind <;> rfl

theorem cloneVariant_WF (num : String → Nat) (v : Variant) (fas : List (Field × CloneFieldAttr)) (hv : VariantWF v)
    (hf : fas.map Prod.fst = v.fields) : (cloneVariant num (v, fas)).WF := by
  obtain ⟨h1, h2⟩ := hv
  constructor
  · intro hs
    have : (cloneVariant num (v, fas)).fields.map CloneField.name = (v.fields.map fname).map identOf := by
      simp [cloneVariant, cloneField, ← hf, List.map_map, Function.comp_def]
    rw [this]
    exact nodup_map_identOf _ (h1 hs)
  · intro hs
    have : fas = [] := by
      have := h2 hs
      rw [this] at hf
      simpa using hf
    simp [cloneVariant, this]

theorem cloneType_WF (num : String → Nat) (c : Ctx) (em : Bool) (vs : CloneScan)
    (hwf : InputWF c.d) (h : cloneScan c em = .ok vs) : (cloneType num c.d.kind vs).WF := by
  obtain ⟨hmap, hspec⟩ := cloneScan_spec c em vs h
  have hall : ∀ p ∈ vs, (cloneVariant num p).WF := by
    intro p hp
    obtain ⟨k, hk⟩ := List.getElem?_of_mem hp
    obtain ⟨v, fas⟩ := p
    obtain ⟨hv, hf, _⟩ := hspec k v fas hk
    exact cloneVariant_WF num v fas (hwf.1 v (List.mem_of_getElem? hv)) hf
  unfold cloneType
  cases hkind : c.d.kind with
  | enum =>
    simp only
    intro w hw
    obtain ⟨p, hp, rfl⟩ := List.mem_map.mp hw
    exact hall p hp
  | struct =>
    simp only
    cases vs with
    | nil => simp [CloneType.WF, CloneVariant.WF]
    | cons p ps => simpa [CloneType.WF] using hall p (by simp)
  | union => simp [CloneType.WF]

/-- The two layers agree on when `clone` is a bitwise copy: the attribute layer's `useCopy` (which decides the bound
    trait and is recorded in the item's head) is the behavioural layer's `Spec.bitwise` of the bridged configuration. -/
theorem useCopy_is_bitwise (num : String → Nat) (c : Ctx) (vs : CloneScan) :
    useCopyOf c vs = Spec.bitwise (c.traits .copy) (cloneType num c.d.kind vs) := by
  unfold useCopyOf cloneType
  cases c.d.kind with
  | struct => rfl
  | union => rfl
  | enum =>
    simp only [Spec.bitwise]
    congr 2
    simp only [List.any_map]
    congr 1
    funext p
    obtain ⟨v, fas⟩ := p
    simp only [Function.comp, cloneVariant, List.any_map]
    congr 1
    funext q
    obtain ⟨f, a⟩ := q
    simp [cloneField]

/-- **C07 end to end.** The Clone handler accepted: the item carries the configuration the scan read; `clone` and
    `clone_from` of the body generated for it evaluate to the reference semantics (same variant, every field through its
    method or its own `Clone::clone` exactly once; `clone_from` field-wise for equal variants and a fresh clone of the
    source otherwise; a bitwise copy when Copy is educed and no method is in use, and on unions). -/
theorem clone_handler_end_to_end (c : Ctx) (m : TraitMeta) (rest : List TraitMeta) (items : List Item) (hwf : InputWF c.d)
    (h : handlerFor c .clone (m :: rest) = .ok items) :
    ∃ vs, cloneScan c (cloneEnableMethod c) = .ok vs ∧
      (∃ it ∈ items, it.trait = "Clone" ∧ it.head = [showBool (Spec.bitwise (c.traits .copy) (cloneType (fun _ => 0) c.d.kind vs))] ∧
        it.variants = vs.map fun (v, fas) => (v.name, v.shape, ([] : List String), fas.map fun (f, a) => [fname f, showOpt a.method])) ∧
      ∀ (num : String → Nat) {V : Type} (ops : CloneOps V) (a b : Val V),
        (cloneType num c.d.kind vs).Inhabits a → (cloneType num c.d.kind vs).Inhabits b →
        Sem.evalClone ops (cloneType num c.d.kind vs) (Gen.Clone.body (c.traits .copy) (cloneType num c.d.kind vs)) a
          = some (Spec.clone ops (c.traits .copy) (cloneType num c.d.kind vs) a) ∧
        Sem.evalCloneFrom ops (cloneType num c.d.kind vs) (Gen.Clone.body (c.traits .copy) (cloneType num c.d.kind vs)) a b
          = some (Spec.cloneFrom ops (c.traits .copy) (cloneType num c.d.kind vs) a b) := by
  simp only [handlerFor] at h
  obtain ⟨ta, vs, _, hvs, it, hit, h1, h2, h3⟩ := cloneHandler_inv c m items h
  refine ⟨vs, hvs, ⟨it, hit, h1, ?_, h3⟩, ?_⟩
  · rw [h2, useCopy_is_bitwise (fun _ => 0)]
  · intro num V ops a b ha hb
    have hw := cloneType_WF num c _ vs hwf hvs
    exact ⟨clone_correct ops _ _ hw a ha, cloneFrom_correct ops _ _ hw a b ha hb⟩

/-! ## C03 / C04 — Ord and PartialOrd, end to end -/

theorem ordScan_spec (c : Ctx) (mine : TraitId → Bool) (vs : OrdScan) (h : ordScan c mine = .ok vs) :
    vs.map Prod.fst = c.d.variants ∧
    ∀ (k : Nat) (v : Variant) (fas : List (Field × CmpFieldAttr)) (ranked : List (Int × (Field × CmpFieldAttr))),
      vs[k]? = some (v, fas, ranked) →
      c.d.variants[k]? = some v ∧ fas.map Prod.fst = v.fields ∧ rankLoop 0 fas [] = some ranked ∧
      ∀ (i : Nat) (f : Field) (a : CmpFieldAttr), fas[i]? = some (f, a) →
        v.fields[i]? = some f ∧
        fromAttrs c.F c.traits mine (cmpFieldFromMeta { ignore := true, method := true, rank := true }) {} f.attrs = .ok a := by
  unfold ordScan at h
  have h2 := mapRes_ok_forall _ _ _ h
  have key : ∀ (x : Variant) (y : Variant × List (Field × CmpFieldAttr) × List (Int × (Field × CmpFieldAttr))),
      ((do
        if c.d.kind == .enum then variantNoAttr c mine x
        let fas ← mapRes (fun f => do
            let a ← fromAttrs c.F c.traits mine (cmpFieldFromMeta { ignore := true, method := true, rank := true }) {} f.attrs
            pure (f, a)) x.fields
        match rankLoop 0 fas [] with
        | none => Res.diag .reuseRank
        | some ranked => pure (x, fas, ranked)) : Res (Variant × List (Field × CmpFieldAttr) × List (Int × (Field × CmpFieldAttr)))) = .ok y →
      y.1 = x ∧ mapRes (fun f => do
            let a ← fromAttrs c.F c.traits mine (cmpFieldFromMeta { ignore := true, method := true, rank := true }) {} f.attrs
            pure (f, a)) x.fields = .ok y.2.1 ∧ rankLoop 0 y.2.1 [] = some y.2.2 := by
    intro x y hxy
    dsimp only at hxy
    have fin : ∀ (r : Res (Variant × List (Field × CmpFieldAttr) × List (Int × (Field × CmpFieldAttr)))),
        r = (do
          let fas ← mapRes (fun f => do
              let a ← fromAttrs c.F c.traits mine (cmpFieldFromMeta { ignore := true, method := true, rank := true }) {} f.attrs
              pure (f, a)) x.fields
          match rankLoop 0 fas [] with
          | none => Res.diag .reuseRank
          | some ranked => pure (x, fas, ranked)) → r = .ok y →
        y.1 = x ∧ mapRes (fun f => do
            let a ← fromAttrs c.F c.traits mine (cmpFieldFromMeta { ignore := true, method := true, rank := true }) {} f.attrs
            pure (f, a)) x.fields = .ok y.2.1 ∧ rankLoop 0 y.2.1 [] = some y.2.2 := by
      intro r hr hy
      rw [hr] at hy
      obtain ⟨fas, hfas, hp⟩ := bind_ok_inv hy
      cases hrk : rankLoop 0 fas [] with
      | none => simp [hrk] at hp
      | some ranked =>
        simp only [hrk, pure] at hp
        cases hp
        exact ⟨rfl, hfas, hrk⟩
    split at hxy
    · obtain ⟨_, _, hxy⟩ := bind_ok_inv hxy
      exact fin _ rfl hxy
    · exact fin _ rfl hxy
  constructor
  · exact forall2_map_eq Prod.fst (fun x y hxy => (key x y hxy).1) _ _ h2
  · intro k v fas ranked hk
    obtain ⟨x, hx, hxy⟩ := forall2_getElem h2 k (v, fas, ranked) hk
    obtain ⟨e1, e2, e3⟩ := key x (v, fas, ranked) hxy
    simp only at e1 e2 e3
    subst e1
    obtain ⟨f1, f2⟩ := fieldScan_spec _ _ _ e2
    exact ⟨hx, f1, e3, f2⟩

/-- Inversion of `ordLikeHandler` on structs and enums. -/
theorem ordLikeHandler_inv (c : Ctx) (m : TraitMeta) (me : TraitId) (mine : TraitId → Bool) (tp : String)
    (supers : List String) (companion : Bool) (items : List Item) (hk : c.d.kind ≠ .union)
    (h : ordLikeHandler c m me mine tp supers companion = .ok items) :
    ∃ ta vs, boundTypeFromMeta { flag := true, unsafe_ := false, bound := true } m = .ok ta ∧
      ordScan c mine = .ok vs ∧
      ∃ primary ∈ items, primary.trait = me.name ∧
        primary.variants = vs.map fun (v, fas, _) => (v.name, v.shape, [v.disc.getD ""], fas.map fun (f, a) => cmpFieldCfg f a) := by
  unfold ordLikeHandler at h
  cases hkind : c.d.kind with
  | union => exact absurd hkind hk
  | struct =>
    simp only [hkind] at h
    obtain ⟨ta, hta, h⟩ := bind_ok_inv h
    obtain ⟨dty, _, h⟩ := bind_ok_inv h
    obtain ⟨vs, hvs, h⟩ := bind_ok_inv h
    cases h
    refine ⟨ta, vs, hta, ?_, _, List.mem_cons_self, rfl, rfl⟩
    unfold ordScan
    simp only [hkind]
    exact hvs
  | enum =>
    simp only [hkind] at h
    obtain ⟨ta, hta, h⟩ := bind_ok_inv h
    obtain ⟨dty, _, h⟩ := bind_ok_inv h
    obtain ⟨vs, hvs, h⟩ := bind_ok_inv h
    cases h
    refine ⟨ta, vs, hta, ?_, _, List.mem_cons_self, rfl, rfl⟩
    unfold ordScan
    simp only [hkind]
    exact hvs

/-- The two layers rank alike (as `Attr.rankLoop_agrees_with_rankFields`, for the bridge's conversion, which keeps the
    method numbering): the attribute layer's rank map exists exactly when the behavioural layer's does. -/
theorem rankLoop_agrees (num : String → Nat) :
    ∀ (fas : List (Field × CmpFieldAttr)) (i : Nat) (acc₁ : List (Int × (Field × CmpFieldAttr))) (acc₂ : List (Int × (Nat × OrdField))),
      onPayload (ordField num) acc₁ = onPayload Prod.snd acc₂ →
      (rankLoop i fas acc₁).map (onPayload (ordField num)) = (Gen.Ord.rankFields i (fas.map (ordField num)) acc₂).map (onPayload Prod.snd) := by
  intro fas
  induction fas with
  | nil => intro i acc₁ acc₂ h; simp [rankLoop, Gen.Ord.rankFields, h]
  | cons fa rest ih =>
    intro i acc₁ acc₂ h
    obtain ⟨f, a⟩ := fa
    have hci : (ordField num (f, a)).ignore = a.ignore := rfl
    have hk : a.rank.getD (-9223372036854775808 + (i : Int)) = Gen.Ord.effRank i (ordField num (f, a)) := by
      simp [Gen.Ord.effRank, ordField, isizeMin]
    simp only [rankLoop, List.map_cons, Gen.Ord.rankFields, hci]
    by_cases hig : a.ignore = true
    · simp only [hig, if_true]
      exact ih (i + 1) acc₁ acc₂ h
    · simp only [hig, Bool.false_eq_true, if_false]
      have e1 := btInsert_onPayload (ordField num) (a.rank.getD (-9223372036854775808 + (i : Int))) (f, a) acc₁
      have e2 := btInsert_onPayload (Prod.snd : Nat × OrdField → OrdField) (Gen.Ord.effRank i (ordField num (f, a))) (i, ordField num (f, a)) acc₂
      simp only at e2
      rw [h, hk] at e1
      rw [insertRank_eq_btInsert, ← hk] at *
      have e3 : (Gen.Ord.btInsert (a.rank.getD (-9223372036854775808 + (i : Int))) (f, a) acc₁).map (onPayload (ordField num))
              = (Gen.Ord.btInsert (a.rank.getD (-9223372036854775808 + (i : Int))) (i, ordField num (f, a)) acc₂).map (onPayload Prod.snd) := by
        rw [e1, e2]
      cases h1 : Gen.Ord.btInsert (a.rank.getD (-9223372036854775808 + (i : Int))) (f, a) acc₁ with
      | none =>
        cases h2 : Gen.Ord.btInsert (a.rank.getD (-9223372036854775808 + (i : Int))) (i, ordField num (f, a)) acc₂ with
        | none => rfl
        | some r => rw [h1, h2] at e3; cases e3
      | some r1 =>
        cases h2 : Gen.Ord.btInsert (a.rank.getD (-9223372036854775808 + (i : Int))) (i, ordField num (f, a)) acc₂ with
        | none => rw [h1, h2] at e3; cases e3
        | some r2 =>
          rw [h1, h2] at e3
          simp only [Option.map_some, Option.some.injEq] at e3
          exact ih (i + 1) r1 r2 e3

theorem rankFields_some_of_rankLoop (num : String → Nat) (fas : List (Field × CmpFieldAttr)) (ranked : List (Int × (Field × CmpFieldAttr)))
    (h : rankLoop 0 fas [] = some ranked) : ∃ r, Gen.Ord.rankFields 0 (fas.map (ordField num)) [] = some r := by
  have := rankLoop_agrees num fas 0 [] [] rfl
  rw [h] at this
  cases hr : Gen.Ord.rankFields 0 (fas.map (ordField num)) [] with
  | none => rw [hr] at this; cases this
  | some r => exact ⟨r, rfl⟩

theorem arm_some (num : String → Nat) (discVal : String → Int)
    (p : Variant × List (Field × CmpFieldAttr) × List (Int × (Field × CmpFieldAttr)))
    (h : rankLoop 0 p.2.1 [] = some p.2.2) : ∃ a, Gen.Ord.arm (ordVariant num discVal p) = some a := by
  obtain ⟨r, hr⟩ := rankFields_some_of_rankLoop num p.2.1 p.2.2 h
  unfold Gen.Ord.arm
  simp only [ordVariant]
  cases p.1.shape <;> simp [hr]

theorem arms_some (num : String → Nat) (discVal : String → Int) :
    ∀ (vs : OrdScan), (∀ p ∈ vs, rankLoop 0 p.2.1 [] = some p.2.2) →
      ∃ as, Gen.Ord.arms (vs.map (ordVariant num discVal)) = some as := by
  intro vs
  induction vs with
  | nil => intro _; exact ⟨[], rfl⟩
  | cons p ps ih =>
    intro h
    obtain ⟨a, ha⟩ := arm_some num discVal p (h p (by simp))
    obtain ⟨as, has⟩ := ih (fun q hq => h q (List.mem_cons_of_mem _ hq))
    exact ⟨a :: as, by simp [Gen.Ord.arms, ha, has]⟩

theorem ordVariant_WF (num : String → Nat) (discVal : String → Int) (v : Variant) (fas : List (Field × CmpFieldAttr))
    (ranked : List (Int × (Field × CmpFieldAttr))) (hv : VariantWF v)
    (hf : fas.map Prod.fst = v.fields) : (ordVariant num discVal (v, fas, ranked)).WF := by
  obtain ⟨h1, h2⟩ := hv
  constructor
  · intro hs
    have : (ordVariant num discVal (v, fas, ranked)).fields.map OrdField.name = (v.fields.map fname).map identOf := by
      simp [ordVariant, ordField, ← hf, List.map_map, Function.comp_def]
    rw [this]
    exact nodup_map_identOf _ (h1 hs)
  · intro hs
    have : fas = [] := by
      have := h2 hs
      rw [this] at hf
      simpa using hf
    simp [ordVariant, this]

theorem ordType_WF_and_body (num : String → Nat) (discVal : String → Int) (c : Ctx) (mine : TraitId → Bool) (vs : OrdScan)
    (hwf : InputWF c.d) (h : ordScan c mine = .ok vs) :
    (ordType num discVal c.d.kind vs).WF ∧ ∃ bd, Gen.Ord.body (ordType num discVal c.d.kind vs) = some bd := by
  obtain ⟨hmap, hspec⟩ := ordScan_spec c mine vs h
  have hall : ∀ p ∈ vs, (ordVariant num discVal p).WF ∧ rankLoop 0 p.2.1 [] = some p.2.2 := by
    intro p hp
    obtain ⟨k, hk⟩ := List.getElem?_of_mem hp
    obtain ⟨v, fas, ranked⟩ := p
    obtain ⟨hv, hf, hr, _⟩ := hspec k v fas ranked hk
    exact ⟨ordVariant_WF num discVal v fas ranked (hwf.1 v (List.mem_of_getElem? hv)) hf, hr⟩
  unfold ordType
  cases hkind : c.d.kind with
  | enum =>
    simp only
    constructor
    · intro w hw
      obtain ⟨p, hp, rfl⟩ := List.mem_map.mp hw
      exact (hall p hp).1
    · obtain ⟨as, has⟩ := arms_some num discVal vs (fun p hp => (hall p hp).2)
      exact ⟨.enum (Gen.Ord.discArms none 0 (vs.map (ordVariant num discVal))) ((vs.map (ordVariant num discVal)).all fun v => v.shape == .unit) as,
        by simp [Gen.Ord.body, has]⟩
  | struct =>
    simp only
    obtain ⟨v, hv⟩ := hwf.2 (by simp [hkind])
    rw [hv] at hmap
    cases vs with
    | nil => simp at hmap
    | cons p ps =>
      obtain ⟨hw, hr⟩ := hall p (by simp)
      obtain ⟨r, hr'⟩ := rankFields_some_of_rankLoop num p.2.1 p.2.2 hr
      refine ⟨by simpa [OrdType.WF] using hw, ?_⟩
      simp only [List.map_cons, List.headD_cons, Gen.Ord.body, ordVariant]
      rw [hr']
      exact ⟨_, rfl⟩
  | union =>
    simp only
    obtain ⟨v, hv⟩ := hwf.2 (by simp [hkind])
    rw [hv] at hmap
    cases vs with
    | nil => simp at hmap
    | cons p ps =>
      obtain ⟨hw, hr⟩ := hall p (by simp)
      obtain ⟨r, hr'⟩ := rankFields_some_of_rankLoop num p.2.1 p.2.2 hr
      refine ⟨by simpa [OrdType.WF] using hw, ?_⟩
      simp only [List.map_cons, List.headD_cons, Gen.Ord.body, ordVariant]
      rw [hr']
      exact ⟨_, rfl⟩

/-- **C03 / C04 end to end, Ord.** The Ord handler accepted a struct or enum. Then the scan read every field's
    ignore / method / rank from its own attributes, no two non-ignored fields of a variant share a rank, the comparison
    body exists, and for every numbering of the methods, every valuation of the written discriminant expressions, every
    leaf behaviour and all values, `cmp` evaluates to the reference semantics: discriminants first (declared values),
    then the non-ignored fields in ascending rank. With PartialOrd educed as well, the companion `partial_cmp` is
    `Some(cmp)`. -/
theorem ord_handler_end_to_end (c : Ctx) (m : TraitMeta) (rest : List TraitMeta) (items : List Item) (hwf : InputWF c.d)
    (hk : c.d.kind ≠ .union) (h : handlerFor c .ord (m :: rest) = .ok items) :
    ∃ vs, ordScan c (mineOrd c) = .ok vs ∧
      (∃ it ∈ items, it.trait = "Ord" ∧
        it.variants = vs.map fun (v, fas, _) => (v.name, v.shape, [v.disc.getD ""], fas.map fun (f, a) => cmpFieldCfg f a)) ∧
      ∀ (num : String → Nat) (discVal : String → Int),
        ∃ bd, Gen.Ord.body (ordType num discVal c.d.kind vs) = some bd ∧
          ∀ {V : Type} (ops : OrdOps V) (a b : Val V),
            (ordType num discVal c.d.kind vs).Inhabits a → (ordType num discVal c.d.kind vs).Inhabits b →
            Sem.evalCmp ops false (ordType num discVal c.d.kind vs) bd a b
              = some (Spec.cmp ops false (ordType num discVal c.d.kind vs) a b) ∧
            Sem.evalCompanionPartialCmp ops (ordType num discVal c.d.kind vs) bd a b
              = some (Spec.cmp ops false (ordType num discVal c.d.kind vs) a b) ∧
            (Spec.cmp ops false (ordType num discVal c.d.kind vs) a b).isSome = true := by
  simp only [handlerFor] at h
  obtain ⟨ta, vs, _, hvs, it, hit, h1, h2⟩ := ordLikeHandler_inv c m .ord _ _ _ _ items hk h
  refine ⟨vs, hvs, ⟨it, hit, h1, h2⟩, ?_⟩
  intro num discVal
  obtain ⟨hw, bd, hbd⟩ := ordType_WF_and_body num discVal c (mineOrd c) vs hwf hvs
  refine ⟨bd, hbd, ?_⟩
  intro V ops a b ha hb
  have hb2 := both_educed_partial_cmp_is_some_cmp ops _ hw bd hbd a b ha hb
  exact ⟨cmp_correct ops false _ hw bd hbd a b ha hb, hb2.1, hb2.2⟩

/-- **C03 / C04 end to end, PartialOrd standing alone** (`Ord` not educed): `partial_cmp` evaluates to the partial
    reference semantics — `None` exactly when an incomparable field is reached before a decisive one. -/
theorem partialOrd_handler_end_to_end (c : Ctx) (m : TraitMeta) (rest : List TraitMeta) (items : List Item) (hwf : InputWF c.d)
    (hk : c.d.kind ≠ .union) (hno : c.traits .ord = false) (h : handlerFor c .partialOrd (m :: rest) = .ok items) :
    ∃ vs, ordScan c (· == .partialOrd) = .ok vs ∧
      (∃ it ∈ items, it.trait = "PartialOrd" ∧
        it.variants = vs.map fun (v, fas, _) => (v.name, v.shape, [v.disc.getD ""], fas.map fun (f, a) => cmpFieldCfg f a)) ∧
      ∀ (num : String → Nat) (discVal : String → Int),
        ∃ bd, Gen.Ord.body (ordType num discVal c.d.kind vs) = some bd ∧
          ∀ {V : Type} (ops : OrdOps V) (a b : Val V),
            (ordType num discVal c.d.kind vs).Inhabits a → (ordType num discVal c.d.kind vs).Inhabits b →
            Sem.evalCmp ops true (ordType num discVal c.d.kind vs) bd a b
              = some (Spec.cmp ops true (ordType num discVal c.d.kind vs) a b) := by
  simp only [handlerFor, hno, Bool.false_eq_true, if_false] at h
  obtain ⟨ta, vs, _, hvs, it, hit, h1, h2⟩ := ordLikeHandler_inv c m .partialOrd _ _ _ _ items hk h
  refine ⟨vs, hvs, ⟨it, hit, h1, h2⟩, ?_⟩
  intro num discVal
  obtain ⟨hw, bd, hbd⟩ := ordType_WF_and_body num discVal c _ vs hwf hvs
  exact ⟨bd, hbd, fun ops a b ha hb => cmp_correct ops true _ hw bd hbd a b ha hb⟩

/-- **C04 end to end.** For an enum accepted by the Ord handler, two values of *different* variants compare as the
    declared discriminants of their variants — the value of the written expression where one is written (`discVal` of
    the variant's own `= expr` tokens), otherwise the predecessor's value plus one — whatever their payloads: nothing of
    the fields, let alone of the memory layout, enters the comparison. -/
theorem ord_cross_variant_end_to_end (c : Ctx) (m : TraitMeta) (rest : List TraitMeta) (items : List Item) (hwf : InputWF c.d)
    (hk : c.d.kind = .enum) (h : handlerFor c .ord (m :: rest) = .ok items) :
    ∃ vs, ordScan c (mineOrd c) = .ok vs ∧ vs.map Prod.fst = c.d.variants ∧
      ∀ (num : String → Nat) (discVal : String → Int),
        ∃ bd, Gen.Ord.body (.enum (vs.map (ordVariant num discVal))) = some bd ∧
          ∀ {V : Type} (ops : OrdOps V) (p : Bool) (a b : Val V),
            (OrdType.enum (vs.map (ordVariant num discVal))).Inhabits a → (OrdType.enum (vs.map (ordVariant num discVal))).Inhabits b →
            a.variant ≠ b.variant →
            ∃ da db, (Spec.discValues 0 (vs.map (ordVariant num discVal)))[a.variant]? = some da ∧
              (Spec.discValues 0 (vs.map (ordVariant num discVal)))[b.variant]? = some db ∧
              Sem.evalCmp ops p (.enum (vs.map (ordVariant num discVal))) bd a b = some (some (compareInt da db)) := by
  obtain ⟨vs, hvs, _, hsem⟩ := ord_handler_end_to_end c m rest items hwf (by rw [hk]; simp) h
  refine ⟨vs, hvs, (ordScan_spec c _ vs hvs).1, ?_⟩
  intro num discVal
  obtain ⟨hw, bd, hbd⟩ := ordType_WF_and_body num discVal c (mineOrd c) vs hwf hvs
  have e : ordType num discVal c.d.kind vs = .enum (vs.map (ordVariant num discVal)) := by rw [hk]; rfl
  rw [e] at hw hbd
  refine ⟨bd, hbd, ?_⟩
  intro V ops p a b ha hb hne
  exact cross_variant_by_discriminant ops p _ hw bd hbd a b ha hb hne

/-- The declared discriminant the model compares is read from the variant's own tokens. -/
theorem ordVariant_disc (num : String → Nat) (discVal : String → Int)
    (p : Variant × List (Field × CmpFieldAttr) × List (Int × (Field × CmpFieldAttr))) :
    (ordVariant num discVal p).disc = p.1.disc.map discVal := rfl

/-! ## from `expand`: every handler-level theorem above applies to what `expand` ran -/

/-- `expand` accepted and trait `t` is enabled and has an entry in the collected map: then `t`'s handler ran on the
    context `expand` builds, on a non-empty list of metas, successfully, and its items are part of the output. The
    handler-level end-to-end theorems (`partialEq_/hash_/clone_/ord_/partialOrd_handler_end_to_end`, …) take it from there. -/
theorem expand_runs_handler (F : Features) (d : DeriveInput) (items : List Item) (h : expand F d = .ok items)
    (t : TraitId) (hF : F.contains t = true) :
    ∃ map, collectTopAttrs F d.attrs [] = .ok map ∧
      ∀ p, map.find? (fun p => p.1 == t) = some p →
        ∃ m rest its, p.2 = m :: rest ∧ handlerFor (ctxOf F map d) t (m :: rest) = .ok its ∧ ∀ it ∈ its, it ∈ items := by
  obtain ⟨map, hmap, hh⟩ := expand_ok_handler F d items h
  refine ⟨map, hmap, ?_⟩
  intro p hp
  obtain ⟨its, hits, hsub⟩ := hh t hF p hp
  obtain ⟨m, rest, hms⟩ := handlerFor_ok_nonempty _ _ _ _ hits
  exact ⟨m, rest, its, hms, hms ▸ hits, hsub⟩

/-- C05 from `expand`. -/
theorem hash_end_to_end (F : Features) (d : DeriveInput) (items : List Item) (hwf : InputWF d) (hk : d.kind ≠ .union)
    (h : expand F d = .ok items) (hF : F.contains .hash = true) :
    ∃ map, collectTopAttrs F d.attrs [] = .ok map ∧
      ∀ p, map.find? (fun p => p.1 == TraitId.hash) = some p →
        ∃ vs, cmpScan (ctxOf F map d) (· == .hash) eqFlags = .ok vs ∧
          (∃ it ∈ items, it.trait = "Hash" ∧
            it.variants = vs.map fun (v, fas) => (v.name, v.shape, ([] : List String), fas.map fun (f, a) => cmpFieldCfg f a)) ∧
          ∀ (num : String → Nat) {V W : Type} (ops : HashOps V W) (a : Val V),
            (hashType num d.kind vs).Inhabits a →
            Sem.evalHash ops (hashType num d.kind vs) (Gen.Hash.body (hashType num d.kind vs)) a
              = some (Spec.feed ops (hashType num d.kind vs) a) := by
  obtain ⟨map, hmap, hh⟩ := expand_runs_handler F d items h .hash hF
  refine ⟨map, hmap, ?_⟩
  intro p hp
  obtain ⟨m, rest, its, _, hits, hsub⟩ := hh p hp
  obtain ⟨vs, hvs, ⟨it, hit, h1, h2⟩, hsem⟩ := hash_handler_end_to_end (ctxOf F map d) m rest its hwf hk hits
  exact ⟨vs, hvs, ⟨it, hsub it hit, h1, h2⟩, hsem⟩

/-- C07 from `expand`. -/
theorem clone_end_to_end (F : Features) (d : DeriveInput) (items : List Item) (hwf : InputWF d)
    (h : expand F d = .ok items) (hF : F.contains .clone = true) :
    ∃ map, collectTopAttrs F d.attrs [] = .ok map ∧
      ∀ p, map.find? (fun p => p.1 == TraitId.clone) = some p →
        ∃ vs, cloneScan (ctxOf F map d) (cloneEnableMethod (ctxOf F map d)) = .ok vs ∧
          (∃ it ∈ items, it.trait = "Clone") ∧
          ∀ (num : String → Nat) {V : Type} (ops : CloneOps V) (a b : Val V),
            (cloneType num d.kind vs).Inhabits a → (cloneType num d.kind vs).Inhabits b →
            Sem.evalClone ops (cloneType num d.kind vs) (Gen.Clone.body ((ctxOf F map d).traits .copy) (cloneType num d.kind vs)) a
              = some (Spec.clone ops ((ctxOf F map d).traits .copy) (cloneType num d.kind vs) a) ∧
            Sem.evalCloneFrom ops (cloneType num d.kind vs) (Gen.Clone.body ((ctxOf F map d).traits .copy) (cloneType num d.kind vs)) a b
              = some (Spec.cloneFrom ops ((ctxOf F map d).traits .copy) (cloneType num d.kind vs) a b) := by
  obtain ⟨map, hmap, hh⟩ := expand_runs_handler F d items h .clone hF
  refine ⟨map, hmap, ?_⟩
  intro p hp
  obtain ⟨m, rest, its, _, hits, hsub⟩ := hh p hp
  obtain ⟨vs, hvs, ⟨it, hit, h1, _⟩, hsem⟩ := clone_handler_end_to_end (ctxOf F map d) m rest its hwf hits
  exact ⟨vs, hvs, ⟨it, hsub it hit, h1⟩, hsem⟩

/-- C03 / C04 from `expand`. -/
theorem ord_end_to_end (F : Features) (d : DeriveInput) (items : List Item) (hwf : InputWF d) (hk : d.kind ≠ .union)
    (h : expand F d = .ok items) (hF : F.contains .ord = true) :
    ∃ map, collectTopAttrs F d.attrs [] = .ok map ∧
      ∀ p, map.find? (fun p => p.1 == TraitId.ord) = some p →
        ∃ vs, ordScan (ctxOf F map d) (mineOrd (ctxOf F map d)) = .ok vs ∧
          (∃ it ∈ items, it.trait = "Ord") ∧
          ∀ (num : String → Nat) (discVal : String → Int),
            ∃ bd, Gen.Ord.body (ordType num discVal d.kind vs) = some bd ∧
              ∀ {V : Type} (ops : OrdOps V) (a b : Val V),
                (ordType num discVal d.kind vs).Inhabits a → (ordType num discVal d.kind vs).Inhabits b →
                Sem.evalCmp ops false (ordType num discVal d.kind vs) bd a b
                  = some (Spec.cmp ops false (ordType num discVal d.kind vs) a b) := by
  obtain ⟨map, hmap, hh⟩ := expand_runs_handler F d items h .ord hF
  refine ⟨map, hmap, ?_⟩
  intro p hp
  obtain ⟨m, rest, its, _, hits, hsub⟩ := hh p hp
  obtain ⟨vs, hvs, ⟨it, hit, h1, _⟩, hsem⟩ := ord_handler_end_to_end (ctxOf F map d) m rest its hwf hk hits
  refine ⟨vs, hvs, ⟨it, hsub it hit, h1⟩, ?_⟩
  intro num discVal
  obtain ⟨bd, hbd, hs⟩ := hsem num discVal
  exact ⟨bd, hbd, fun ops a b ha hb => (hs ops a b ha hb).1⟩

/-! ## C09 — Deref / DerefMut, end to end -/

/-- The attribute layer's marker loop and the behavioural layer's `pickLoop` are the same loop: when the former accepts,
    every field's marker was readable, and the latter, run on the flags so read, finds the same field without complaint. -/
theorem derefLoop_pickLoop (g : Field → Res Bool) :
    ∀ (fs : List Field) (i : Nat) (acc r : Option (Nat × Field)), derefLoop g i fs acc = .ok r →
      (∀ f ∈ fs, ∃ b, g f = .ok b) ∧
      Gen.Deref.pickLoop i (fs.map (derefField g)) (acc.map Prod.fst) = (r.map Prod.fst, false) ∧
      (∀ j f', r = some (j, f') → acc = some (j, f') ∨ (i ≤ j ∧ fs[j - i]? = some f')) := by
  intro fs
  induction fs with
  | nil =>
    intro i acc r h
    simp only [derefLoop] at h
    cases h
    refine ⟨by simp, by simp [Gen.Deref.pickLoop], ?_⟩
    intro j f' hr; exact Or.inl hr
  | cons f rest ih =>
    intro i acc r h
    simp only [derefLoop] at h
    obtain ⟨b, hb, h⟩ := bind_ok_inv h
    have hflag : (derefField g f).flag = b := by simp [derefField, hb]
    cases b with
    | false =>
      simp only [Bool.false_eq_true, if_false] at h
      obtain ⟨h1, h2, h3⟩ := ih (i + 1) acc r h
      refine ⟨?_, ?_, ?_⟩
      · intro x hx
        rcases List.mem_cons.mp hx with rfl | hx'
        · exact ⟨false, hb⟩
        · exact h1 x hx'
      · simp only [List.map_cons, Gen.Deref.pickLoop, hflag, Bool.false_eq_true, if_false]
        exact h2
      · intro j f' hr
        rcases h3 j f' hr with ha | ⟨hle, hget⟩
        · exact Or.inl ha
        · refine Or.inr ⟨by omega, ?_⟩
          have : j - i = (j - (i + 1)) + 1 := by omega
          rw [this]; simpa using hget
    | true =>
      simp only [if_true] at h
      cases acc with
      | some a => cases h
      | none =>
        simp only at h
        obtain ⟨h1, h2, h3⟩ := ih (i + 1) (some (i, f)) r h
        refine ⟨?_, ?_, ?_⟩
        · intro x hx
          rcases List.mem_cons.mp hx with rfl | hx'
          · exact ⟨true, hb⟩
          · exact h1 x hx'
        · simp only [List.map_cons, Gen.Deref.pickLoop, hflag, if_true, Option.map_none]
          simpa using h2
        · intro j f' hr
          rcases h3 j f' hr with ha | ⟨hle, hget⟩
          · cases ha
            exact Or.inr ⟨Nat.le_refl _, by simp⟩
          · refine Or.inr ⟨by omega, ?_⟩
            have : j - i = (j - (i + 1)) + 1 := by omega
            rw [this]; simpa using hget

/-- `derefPick` accepted field `i`: every marker was readable, the behavioural layer's `pick` on the flags so read
    returns the same index, and that index is the field the handler reports. -/
theorem derefPick_pick (g : Field → Res Bool) (fs : List Field) (i : Nat) (f : Field) (nD mD : DerefDiag)
    (h : derefPick g fs = .ok (i, f)) :
    (∀ x ∈ fs, ∃ b, g x = .ok b) ∧ Gen.Deref.pick (fs.map (derefField g)) nD mD = .ok i ∧ fs[i]? = some f := by
  unfold derefPick at h
  split at h
  · rename_i f0
    obtain ⟨b, hb, h⟩ := bind_ok_inv h
    cases h
    refine ⟨?_, by simp [Gen.Deref.pick], by simp⟩
    intro x hx
    simp at hx; subst hx; exact ⟨b, hb⟩
  · rename_i hne
    obtain ⟨r, hr, h⟩ := bind_ok_inv h
    cases r with
    | none => cases h
    | some q =>
      simp only [pure] at h
      cases h
      obtain ⟨h1, h2, h3⟩ := derefLoop_pickLoop g fs 0 none (some (i, f)) hr
      refine ⟨h1, ?_, ?_⟩
      · unfold Gen.Deref.pick
        have hlen : ¬ (fs.map (derefField g)).length = 1 := by
          intro hl
          rw [List.length_map] at hl
          match fs, hl with
          | [x], _ => exact hne x rfl
        simp only [hlen, if_false]
        simp only [Option.map_none] at h2
        rw [h2]
        rfl
      · rcases h3 i f rfl with ha | ⟨_, hget⟩
        · cases ha
        · simpa using hget

theorem derefVariant_WF (g : Field → Res Bool) (v : Variant) (hv : VariantWF v) : (derefVariant g v).WF := by
  obtain ⟨h1, h2⟩ := hv
  constructor
  · intro hs
    have : (derefVariant g v).fields.map DerefField.name = (v.fields.map fname).map identOf := by
      simp [derefVariant, derefField, List.map_map, Function.comp_def]
    rw [this]
    exact nodup_map_identOf _ (h1 hs)
  · intro hs
    simp [derefVariant, h2 hs]

theorem derefType_WF (g : Field → Res Bool) (d : DeriveInput) (hwf : InputWF d) : (derefType g d).WF := by
  unfold derefType DerefType.WF
  cases hkind : d.kind with
  | enum =>
    simp only [Sem.variantsOfDeref]
    intro w hw
    obtain ⟨v, hv, rfl⟩ := List.mem_map.mp hw
    exact derefVariant_WF g v (hwf.1 v hv)
  | struct =>
    obtain ⟨v, hv⟩ := hwf.2 (by simp [hkind])
    simp only [Sem.variantsOfDeref, hv, List.headD_cons, List.mem_singleton]
    intro w hw; subst hw
    exact derefVariant_WF g v (hwf.1 v (by simp [hv]))
  | union =>
    obtain ⟨v, hv⟩ := hwf.2 (by simp [hkind])
    simp only [Sem.variantsOfDeref, hv, List.headD_cons, List.mem_singleton]
    intro w hw; subst hw
    exact derefVariant_WF g v (hwf.1 v (by simp [hv]))

/-- **C09 end to end, structs.** The Deref (or DerefMut) handler accepted a struct and reports field `i` in its item.
    Then every field's marker was read from that field's own attributes, `i` is the designated field of the reference
    semantics on those markers (the sole field, else the only marked one), the body exists, and for every value `&*x` /
    `&mut *x` designates exactly the storage of field `i`. -/
theorem deref_struct_end_to_end (c : Ctx) (m : TraitMeta) (me : TraitId) (items : List Item) (hwf : InputWF c.d)
    (hk : c.d.kind = .struct) (h : derefHandler c m me = .ok items) :
    ∃ (i : Nat) (f : Field), items = [{ trait := me.name, preds := [], head := [toString i, noSpace f.derefTy, showBool f.isRef] }] ∧
      (∀ v ∈ c.d.variants, ∀ x ∈ v.fields, ∃ b, derefFieldFlag c me x = .ok b) ∧
      ∃ bd, Gen.Deref.body (derefType (derefFieldFlag c me) c.d) = .ok bd ∧
        ∀ {V : Type} (a : Val V), (derefType (derefFieldFlag c me) c.d).Inhabits a →
          Sem.evalDeref (derefType (derefFieldFlag c me) c.d) bd a = some ⟨0, i⟩ ∧
          Spec.deref (derefType (derefFieldFlag c me) c.d) a = some ⟨a.variant, i⟩ := by
  unfold derefHandler at h
  simp only [hk] at h
  obtain ⟨_, _, h⟩ := bind_ok_inv h
  obtain ⟨q, hq, h⟩ := bind_ok_inv h
  obtain ⟨i, f⟩ := q
  cases h
  obtain ⟨v, hv⟩ := hwf.2 (by simp [hk])
  have hq' : derefPick (derefFieldFlag c me) v.fields = .ok (i, f) := by
    simp only [hv, List.headD_cons] at hq
    exact hq
  obtain ⟨h1, h2, h3⟩ := derefPick_pick (derefFieldFlag c me) v.fields i f .noField .multipleFields hq'
  refine ⟨i, f, rfl, ?_, ?_⟩
  · intro w hw x hx
    rw [hv] at hw; simp at hw; subst hw
    exact h1 x hx
  · have hty : derefType (derefFieldFlag c me) c.d = .struct (derefVariant (derefFieldFlag c me) v) := by
      simp [derefType, hk, hv]
    have hfield : (derefVariant (derefFieldFlag c me) v).fields[i]? = some (derefField (derefFieldFlag c me) f) := by
      simp [derefVariant, h3]
    have hbody : Gen.Deref.body (.struct (derefVariant (derefFieldFlag c me) v))
        = .ok (.struct { index := i, borrow := !(derefField (derefFieldFlag c me) f).isRef }) := by
      simp only [Gen.Deref.body]
      have : Gen.Deref.pick (derefVariant (derefFieldFlag c me) v).fields .noField .multipleFields = .ok i := by
        simpa [derefVariant] using h2
      rw [this]
      simp only [hfield]
    rw [hty]
    refine ⟨_, hbody, ?_⟩
    intro V a ha
    have hw := derefType_WF (derefFieldFlag c me) c.d hwf
    rw [hty] at hw
    obtain ⟨e1, e2⟩ := deref_correct (.struct (derefVariant (derefFieldFlag c me) v)) hw _ hbody a ha
    have hdes : Spec.designated (derefVariant (derefFieldFlag c me) v).fields = some i :=
      (pick_eq_designated _ .noField .multipleFields i).mp (by simpa [derefVariant] using h2)
    obtain ⟨w, hw1, hw2⟩ := ha
    simp only [Sem.variantsOfDeref] at hw1
    have h0 : a.variant = 0 := by
      cases hvar : a.variant with
      | zero => rfl
      | succ n => rw [hvar] at hw1; simp at hw1
    have hsp : Spec.deref (.struct (derefVariant (derefFieldFlag c me) v)) a = some ⟨a.variant, i⟩ := by
      simp [Spec.deref, Sem.variantsOfDeref, h0, hdes]
    refine ⟨?_, hsp⟩
    rw [e1, hsp, h0]

theorem deref_arms_ok : ∀ (vs : List DerefVariant) (k0 : Nat),
    (∀ (k : Nat) (v : DerefVariant), vs[k]? = some v → ∃ a, Gen.Deref.arm (k0 + k) v = .ok a) →
    ∃ as, Gen.Deref.arms k0 vs = .ok as := by
  intro vs
  induction vs with
  | nil => intro k0 _; exact ⟨[], rfl⟩
  | cons v vs ih =>
    intro k0 h
    obtain ⟨a, ha⟩ := h 0 v (by simp)
    obtain ⟨as, has⟩ := ih (k0 + 1) (fun k w hk => by
      obtain ⟨a', ha'⟩ := h (k + 1) w (by simpa using hk)
      exact ⟨a', by rw [show k0 + 1 + k = k0 + (k + 1) by omega]; exact ha'⟩)
    simp only [Nat.add_zero] at ha
    exact ⟨a :: as, by simp [Gen.Deref.arms, ha, has]⟩

/-- **C09 end to end, enums.** The Deref (or DerefMut) handler accepted an enum. Then no variant is a unit variant, every
    variant's markers were read from its fields' own attributes, the index the item reports for variant `k` is the designated
    field of the reference semantics on those markers, the body exists, and for every value `&*x` / `&mut *x` designates
    exactly that field of the value's current variant. -/
theorem deref_enum_end_to_end (c : Ctx) (m : TraitMeta) (me : TraitId) (items : List Item) (hwf : InputWF c.d)
    (hk : c.d.kind = .enum) (h : derefHandler c m me = .ok items) :
    ∃ (vs : List (Variant × Nat × Field)), vs.map Prod.fst = c.d.variants ∧
      (∃ it ∈ items, it.trait = me.name ∧ it.variants = vs.map fun (v, i, _) => (v.name, v.shape, [toString i], [])) ∧
      (∀ (k : Nat) (v : Variant) (i : Nat) (f : Field), vs[k]? = some (v, i, f) →
          v.shape ≠ .unit ∧ v.fields[i]? = some f ∧ (∀ x ∈ v.fields, ∃ b, derefFieldFlag c me x = .ok b) ∧
          Spec.designated (derefVariant (derefFieldFlag c me) v).fields = some i) ∧
      ∃ bd, Gen.Deref.body (derefType (derefFieldFlag c me) c.d) = .ok bd ∧
        ∀ {V : Type} (a : Val V), (derefType (derefFieldFlag c me) c.d).Inhabits a →
          ∃ v i f, vs[a.variant]? = some (v, i, f) ∧
            Sem.evalDeref (derefType (derefFieldFlag c me) c.d) bd a = some ⟨a.variant, i⟩ := by
  unfold derefHandler at h
  simp only [hk] at h
  obtain ⟨_, _, h⟩ := bind_ok_inv h
  obtain ⟨vs, hvs, h⟩ := bind_ok_inv h
  have h2 := mapRes_ok_forall _ _ _ hvs
  -- what one accepted variant tells
  have key : ∀ (x : Variant) (y : Variant × Nat × Field),
      ((do
        let _ ← fromAttrs c.F c.traits (· == me) (flagTypeFromMeta false) false x.attrs
        if x.shape == .unit then Res.diag .unitVariant
        else do
          let (i, f) ← derefPick (fun f => fromAttrs c.F c.traits (· == me) (flagTypeFromMeta true) false f.attrs) x.fields
          pure (x, i, f)) : Res (Variant × Nat × Field)) = .ok y →
      y.1 = x ∧ x.shape ≠ .unit ∧ derefPick (derefFieldFlag c me) x.fields = .ok (y.2.1, y.2.2) := by
    intro x y hxy
    obtain ⟨_, _, hxy⟩ := bind_ok_inv hxy
    split at hxy
    · cases hxy
    · rename_i hnu
      obtain ⟨q, hq, hp⟩ := bind_ok_inv hxy
      obtain ⟨i, f⟩ := q
      cases hp
      refine ⟨rfl, ?_, hq⟩
      intro hs; rw [hs] at hnu; exact hnu rfl
  have hmap : vs.map Prod.fst = c.d.variants := forall2_map_eq Prod.fst (fun x y hxy => (key x y hxy).1) _ _ h2
  have hper : ∀ (k : Nat) (v : Variant) (i : Nat) (f : Field), vs[k]? = some (v, i, f) →
      c.d.variants[k]? = some v ∧ v.shape ≠ .unit ∧ derefPick (derefFieldFlag c me) v.fields = .ok (i, f) := by
    intro k v i f hkv
    obtain ⟨x, hx, hxy⟩ := forall2_getElem h2 k (v, i, f) hkv
    obtain ⟨e1, e2, e3⟩ := key x (v, i, f) hxy
    simp only at e1 e3
    subst e1
    exact ⟨hx, e2, e3⟩
  have hty : derefType (derefFieldFlag c me) c.d = .enum (c.d.variants.map (derefVariant (derefFieldFlag c me))) := by
    simp [derefType, hk]
  have hfacts : ∀ (k : Nat) (v : Variant) (i : Nat) (f : Field), vs[k]? = some (v, i, f) →
      v.shape ≠ .unit ∧ v.fields[i]? = some f ∧ (∀ x ∈ v.fields, ∃ b, derefFieldFlag c me x = .ok b) ∧
      Spec.designated (derefVariant (derefFieldFlag c me) v).fields = some i := by
    intro k v i f hkv
    obtain ⟨_, hnu, hp⟩ := hper k v i f hkv
    obtain ⟨h1, hpick, h3⟩ := derefPick_pick (derefFieldFlag c me) v.fields i f (.noFieldOfVariant k) (.multipleFieldsOfVariant k) hp
    exact ⟨hnu, h3, h1, (pick_eq_designated _ _ _ i).mp (by simpa [derefVariant] using hpick)⟩
  -- every arm exists
  have harms : ∀ (k : Nat) (w : DerefVariant), (c.d.variants.map (derefVariant (derefFieldFlag c me)))[k]? = some w →
      ∃ a, Gen.Deref.arm (0 + k) w = .ok a := by
    intro k w hw
    simp only [List.getElem?_map] at hw
    cases hv : c.d.variants[k]? with
    | none => simp [hv] at hw
    | some v =>
      simp only [hv, Option.map_some, Option.some.injEq] at hw
      subst hw
      have : ∃ q, vs[k]? = some q := by
        have hl : k < vs.length := by
          have := congrArg List.length hmap
          simp at this
          rw [this]; exact (List.getElem?_eq_some_iff.mp hv).1
        exact ⟨vs[k], List.getElem?_eq_getElem hl⟩
      obtain ⟨⟨v', i, f⟩, hq⟩ := this
      have hv' : v' = v := by
        have := (hper k v' i f hq).1
        rw [hv] at this; cases this; rfl
      subst hv'
      obtain ⟨hnu, _, _, hdes⟩ := hfacts k v' i f hq
      cases harm : Gen.Deref.arm (0 + k) (derefVariant (derefFieldFlag c me) v') with
      | ok a => exact ⟨a, rfl⟩
      | error e =>
        rcases (variant_refused_iff (0 + k) _).mp ⟨e, harm⟩ with hu | hn
        · exact absurd (by simpa [derefVariant] using hu) hnu
        · rw [hdes] at hn; cases hn
  obtain ⟨as, has⟩ := deref_arms_ok _ 0 harms
  cases vs with
  | nil => cases h
  | cons p ps =>
    obtain ⟨v0, i0, f0⟩ := p
    simp only [pure] at h
    cases h
    refine ⟨(v0, i0, f0) :: ps, hmap, ⟨_, List.mem_singleton.mpr rfl, rfl, rfl⟩, hfacts, ?_⟩
    have hne : as ≠ [] := by
      intro he
      have := (deref_arms_get _ 0 as has).1
      rw [he, ← hmap] at this
      simp at this
    have hbody : Gen.Deref.body (.enum (c.d.variants.map (derefVariant (derefFieldFlag c me)))) = .ok (.enum as) := by
      cases as with
      | nil => exact absurd rfl hne
      | cons a as' => simp only [Gen.Deref.body, has]
    rw [hty]
    refine ⟨_, hbody, ?_⟩
    intro V a ha
    have hw := derefType_WF (derefFieldFlag c me) c.d hwf
    rw [hty] at hw
    obtain ⟨e1, e2⟩ := deref_correct _ hw _ hbody a ha
    obtain ⟨w, hw1, _⟩ := ha
    simp only [Sem.variantsOfDeref, List.getElem?_map] at hw1
    cases hv : c.d.variants[a.variant]? with
    | none => simp [hv] at hw1
    | some v =>
      have hl : a.variant < ((v0, i0, f0) :: ps).length := by
        have := congrArg List.length hmap
        simp only [List.length_map] at this
        rw [this]; exact (List.getElem?_eq_some_iff.mp hv).1
      have hq'' := List.getElem?_eq_getElem hl
      generalize ((v0, i0, f0) :: ps)[a.variant] = q at hq''
      obtain ⟨v', i, f⟩ := q
      have hq' : ((v0, i0, f0) :: ps)[a.variant]? = some (v', i, f) := hq''
      have hv' : v' = v := by
        have := (hper a.variant v' i f hq').1
        rw [hv] at this; cases this; rfl
      subst hv'
      obtain ⟨_, _, _, hdes⟩ := hfacts a.variant v' i f hq'
      refine ⟨v', i, f, hq', ?_⟩
      rw [e1]
      simp [Spec.deref, Sem.variantsOfDeref, hv, hdes]

/-! ## C06 — Debug, end to end -/

theorem structEntries_isEmpty (num : String → Nat) (isT : Bool) : ∀ (fas : List (Field × DebugFieldAttr)) (i : Nat),
    (Gen.Debug.structEntries isT i (fas.map (dbgField num))).isEmpty = (fas.filter fun (_, a) => !a.ignore).isEmpty := by
  intro fas
  induction fas with
  | nil => intro i; rfl
  | cons fa rest ih =>
    intro i
    obtain ⟨f, a⟩ := fa
    simp only [List.map_cons, Gen.Debug.structEntries, dbgField, List.filter_cons]
    cases a.ignore with
    | true => simpa [dbgField] using ih (i + 1)
    | false => simp

theorem nameCfg_isNone (n : NameCfg) (own : Ident) : (n.toIdent own).isNone = (n == .disable) := by
  cases n <;> rfl

theorem dbgVariantFields_WF (num : String → Nat) (v : Variant) (fas : List (Field × DebugFieldAttr)) (hv : VariantWF v)
    (hf : fas.map Prod.fst = v.fields) (w : DbgVariant) (hs : w.shape = v.shape) (hfs : w.fields = fas.map (dbgField num)) : w.WF := by
  obtain ⟨h1, h2⟩ := hv
  constructor
  · intro hsn
    have : w.fields.map DbgField.name = (v.fields.map fname).map identOf := by
      simp [hfs, dbgField, ← hf, List.map_map, Function.comp_def]
    rw [this]
    exact nodup_map_identOf _ (h1 (hs ▸ hsn))
  · intro hsu
    have : fas = [] := by
      have := h2 (hs ▸ hsu)
      rw [this] at hf
      simpa using hf
    simp [hfs, this]

/-- **C06 end to end, structs.** The Debug handler accepted a struct: the type-level attribute gave `ta` (effective name,
    `named_field`), every field's attribute was read with the `name` switch that `named_field` dictates, the item carries
    exactly that, the `fmt` body exists, and for every leaf behaviour, value and formatter mode (`{:?}` / `{:#?}`) the
    output is what core::fmt's builders render for the effective shape. -/
theorem debug_struct_end_to_end (c : Ctx) (m : TraitMeta) (items : List Item) (hwf : InputWF c.d)
    (hk : c.d.kind = .struct) (h : debugHandler c m = .ok items) :
    ∃ v ta fas, c.d.variants = [v] ∧ debugTypeFromMeta (dbgStructFlags v) m = .ok ta ∧ dbgFieldScan c ta.namedField v.fields = .ok fas ∧
      (∃ it ∈ items, it.trait = "Debug" ∧ it.head = [showName ta.name, showBool ta.namedField] ∧
        it.variants = [(v.name, v.shape, [], fas.map fun (f, a) => [fname f, showBool a.ignore, showOpt a.method, showOpt a.name])]) ∧
      ∀ (num : String → Nat), ∃ bd, Gen.Debug.body (dbgStructType num c.d v ta fas) = .ok bd ∧
        ∀ {V : Type} (ops : DbgOps V) (a : Val V) (alt : Bool), (dbgStructType num c.d v ta fas).Inhabits a →
          Sem.evalFmt ops (dbgStructType num c.d v ta fas) bd a alt
            = (Spec.effectiveShape (dbgStructType num c.d v ta fas) a).map fun s => s.render ops alt := by
  obtain ⟨v, hv⟩ := hwf.2 (by simp [hk])
  unfold debugHandler at h
  simp only [hk, hv, List.headD_cons] at h
  obtain ⟨ta, hta, h⟩ := bind_ok_inv h
  obtain ⟨fas, hfas, h⟩ := bind_ok_inv h
  split at h
  · cases h
  · rename_i hshown
    simp only [pure] at h
    cases h
    refine ⟨v, ta, fas, hv, hta, hfas, ⟨_, List.mem_singleton.mpr rfl, rfl, rfl, rfl⟩, ?_⟩
    intro num
    have hfst := (fieldScan_spec _ _ _ hfas).1
    have hbody : ∃ bd, Gen.Debug.body (dbgStructType num c.d v ta fas) = .ok bd := by
      simp only [dbgStructType, Gen.Debug.body, Gen.Debug.structBody]
      split
      · rename_i hbad
        exfalso
        apply hshown
        simp only [Bool.and_eq_true] at hbad ⊢
        obtain ⟨b1, b2⟩ := hbad
        rw [structEntries_isEmpty] at b1
        rw [nameCfg_isNone] at b2
        exact ⟨b1, b2⟩
      · exact ⟨_, rfl⟩
    obtain ⟨bd, hbd⟩ := hbody
    refine ⟨bd, hbd, ?_⟩
    intro V ops a alt ha
    have hw : (dbgStructType num c.d v ta fas).WF := by
      simp only [dbgStructType, DbgType.WF]
      exact dbgVariantFields_WF num v fas (hwf.1 v (by simp [hv])) hfst _ rfl rfl
    exact debug_output ops _ hw bd hbd a ha alt

theorem armEntries_isEmpty (num : String → Nat) (bs : Nat → DbgField → Option Ident) (own : Nat → DbgField → Ident)
    (hbs : ∀ i c, (bs i c).isNone = c.ignore) : ∀ (fas : List (Field × DebugFieldAttr)) (i : Nat),
    (Gen.Debug.armEntries bs own i (fas.map (dbgField num))).isEmpty = fas.all fun (_, a) => a.ignore := by
  intro fas
  induction fas with
  | nil => intro i; rfl
  | cons fa rest ih =>
    intro i
    obtain ⟨f, a⟩ := fa
    simp only [List.map_cons, Gen.Debug.armEntries, List.all_cons]
    have hb := hbs i (dbgField num (f, a))
    have hig : (dbgField num (f, a)).ignore = a.ignore := rfl
    rw [hig] at hb
    cases hx : bs i (dbgField num (f, a)) with
    | none =>
      rw [hx] at hb
      simp only [Option.isNone_none] at hb
      simp only [← hb, Bool.true_and]
      exact ih (i + 1)
    | some x =>
      rw [hx] at hb
      simp only [Option.isNone_some] at hb
      simp [← hb]

theorem nameString_isNone (t v : Option Ident) : (Gen.Debug.nameString t v).isNone = (t.isNone && v.isNone) := by
  cases t <;> cases v <;> rfl

theorem dbg_arms_ok (tname : Option Ident) : ∀ (vs : List DbgVariant),
    (∀ v ∈ vs, ∃ a, Gen.Debug.arm tname v = .ok a) → ∃ as, Gen.Debug.arms tname vs = .ok as ∧ as.length = vs.length := by
  intro vs
  induction vs with
  | nil => intro _; exact ⟨[], rfl, rfl⟩
  | cons v vs ih =>
    intro h
    obtain ⟨a, ha⟩ := h v (by simp)
    obtain ⟨as, has, hl⟩ := ih (fun w hw => h w (List.mem_cons_of_mem _ hw))
    exact ⟨a :: as, by simp [Gen.Debug.arms, ha, has], by simp [hl]⟩

/-- **C06 end to end, enums.** The Debug handler accepted an enum: the type-level attribute gave `ta`, every variant's
    attribute gave its `va` (variant name, `named_field`), every field's attribute was read with the `name` switch the
    variant's `named_field` dictates; the item carries exactly that; the `fmt` body exists; and for every leaf behaviour,
    value and formatter mode the output is what core::fmt's builders render for the effective shape (effective name
    `Enum::Variant` / `Enum` / `Variant` / none, style by `named_field`, non-ignored fields in declaration order under their
    effective keys, each by its own Debug or the custom method). -/
theorem debug_enum_end_to_end (c : Ctx) (m : TraitMeta) (items : List Item) (hwf : InputWF c.d)
    (hk : c.d.kind = .enum) (h : debugHandler c m = .ok items) :
    ∃ (ta : DebugTypeAttr) (vs : List (Variant × DebugTypeAttr × List (Field × DebugFieldAttr))),
      debugTypeFromMeta dbgEnumFlags m = .ok ta ∧ vs.map Prod.fst = c.d.variants ∧
      (∀ (k : Nat) (v : Variant) (va : DebugTypeAttr) (fas : List (Field × DebugFieldAttr)), vs[k]? = some (v, va, fas) →
          dbgVariantAttr c v = .ok va ∧ (v.shape = .unit → fas = []) ∧ (v.shape ≠ .unit → dbgFieldScan c va.namedField v.fields = .ok fas)) ∧
      (∃ it ∈ items, it.trait = "Debug" ∧ it.head = [showName ta.name] ∧
        it.variants = vs.map fun (v, va, fas) => (v.name, v.shape, [showName va.name, showBool va.namedField],
                fas.map fun (f, a) => [fname f, showBool a.ignore, showOpt a.method, showOpt a.name])) ∧
      ∀ (num : String → Nat), ∃ bd, Gen.Debug.body (dbgEnumType num c.d ta vs) = .ok bd ∧
        ∀ {V : Type} (ops : DbgOps V) (a : Val V) (alt : Bool), (dbgEnumType num c.d ta vs).Inhabits a →
          Sem.evalFmt ops (dbgEnumType num c.d ta vs) bd a alt
            = (Spec.effectiveShape (dbgEnumType num c.d ta vs) a).map fun s => s.render ops alt := by
  unfold debugHandler at h
  simp only [hk] at h
  obtain ⟨ta, hta, h⟩ := bind_ok_inv h
  obtain ⟨vs, hvs, h⟩ := bind_ok_inv h
  have h2 := mapRes_ok_forall _ _ _ hvs
  have key : ∀ (x : Variant) (y : Variant × DebugTypeAttr × List (Field × DebugFieldAttr)),
      ((do
        let va ← fromAttrs c.F c.traits (· == .debug)
          (debugTypeFromMeta { flag := false, unsafe_ := false, name := true, namedField := true, bound := false,
                               nameDefault := .default, namedFieldDefault := x.shape == .named })
          { name := .default, namedField := x.shape == .named } x.attrs
        let hasName := ta.name != .disable || va.name != .disable
        match x.shape with
        | .unit =>
          if !hasName then Res.diag .unitVariantNeedName else pure (x, va, ([] : List (Field × DebugFieldAttr)))
        | _ =>
          let fas ← mapRes (fun f => do
              let a ← fromAttrs c.F c.traits (· == .debug) (debugFieldFromMeta { name := va.namedField, ignore := true, method := true }) {} f.attrs
              pure (f, a)) x.fields
          if (fas.all fun (_, a) => a.ignore) && !hasName then Res.diag .unitStructNeedName else pure (x, va, fas))
        : Res (Variant × DebugTypeAttr × List (Field × DebugFieldAttr))) = .ok y →
      y.1 = x ∧ dbgVariantAttr c x = .ok y.2.1 ∧
      (x.shape = .unit → y.2.2 = [] ∧ (ta.name != .disable || y.2.1.name != .disable) = true) ∧
      (x.shape ≠ .unit → dbgFieldScan c y.2.1.namedField x.fields = .ok y.2.2 ∧
          ((y.2.2.all fun (_, a) => a.ignore) && !(ta.name != .disable || y.2.1.name != .disable)) = false) := by
    intro x y hxy
    obtain ⟨va, hva, hxy⟩ := bind_ok_inv hxy
    dsimp only at hxy
    cases hs : x.shape with
    | unit =>
      simp only [hs] at hxy
      split at hxy
      · cases hxy
      · rename_i hn
        cases hxy
        refine ⟨rfl, hva, fun _ => ⟨rfl, ?_⟩, fun hne => absurd rfl hne⟩
        cases hb : (ta.name != NameCfg.disable || va.name != NameCfg.disable) with
        | true => rfl
        | false => rw [hb] at hn; exact absurd rfl hn
    | tuple =>
      simp only [hs] at hxy
      obtain ⟨fas, hfas, hxy⟩ := bind_ok_inv hxy
      split at hxy
      · cases hxy
      · rename_i hn
        cases hxy
        refine ⟨rfl, hva, ?_, ?_⟩
        · intro hu; cases hu
        · intro _
          refine ⟨hfas, ?_⟩
          cases hb : ((fas.all fun (_, a) => a.ignore) && !(ta.name != NameCfg.disable || va.name != NameCfg.disable)) with
          | false => rfl
          | true => rw [hb] at hn; exact absurd rfl hn
    | named =>
      simp only [hs] at hxy
      obtain ⟨fas, hfas, hxy⟩ := bind_ok_inv hxy
      split at hxy
      · cases hxy
      · rename_i hn
        cases hxy
        refine ⟨rfl, hva, ?_, ?_⟩
        · intro hu; cases hu
        · intro _
          refine ⟨hfas, ?_⟩
          cases hb : ((fas.all fun (_, a) => a.ignore) && !(ta.name != NameCfg.disable || va.name != NameCfg.disable)) with
          | false => rfl
          | true => rw [hb] at hn; exact absurd rfl hn
  have hmap : vs.map Prod.fst = c.d.variants := forall2_map_eq Prod.fst (fun x y hxy => (key x y hxy).1) _ _ h2
  have hper : ∀ (k : Nat) (v : Variant) (va : DebugTypeAttr) (fas : List (Field × DebugFieldAttr)), vs[k]? = some (v, va, fas) →
      c.d.variants[k]? = some v ∧ dbgVariantAttr c v = .ok va ∧
      (v.shape = .unit → fas = [] ∧ (ta.name != .disable || va.name != .disable) = true) ∧
      (v.shape ≠ .unit → dbgFieldScan c va.namedField v.fields = .ok fas ∧
          ((fas.all fun (_, a) => a.ignore) && !(ta.name != .disable || va.name != .disable)) = false) := by
    intro k v va fas hkv
    obtain ⟨x, hx, hxy⟩ := forall2_getElem h2 k (v, va, fas) hkv
    obtain ⟨e1, e2, e3, e4⟩ := key x (v, va, fas) hxy
    simp only at e1 e2 e3 e4
    subst e1
    exact ⟨hx, e2, e3, e4⟩
  split at h
  · cases h
  · rename_i hempty
    simp only [pure] at h
    cases h
    refine ⟨ta, vs, hta, hmap, ?_, ⟨_, List.mem_singleton.mpr rfl, rfl, rfl, rfl⟩, ?_⟩
    · intro k v va fas hkv
      obtain ⟨_, e2, e3, e4⟩ := hper k v va fas hkv
      exact ⟨e2, fun hu => (e3 hu).1, fun hne => (e4 hne).1⟩
    · intro num
      -- every arm exists
      have harm : ∀ w ∈ vs.map (dbgVariant num), ∃ a, Gen.Debug.arm (ta.name.toIdent (identOf c.d.name)) w = .ok a := by
        intro w hw
        obtain ⟨p, hp, rfl⟩ := List.mem_map.mp hw
        obtain ⟨k, hkp⟩ := List.getElem?_of_mem hp
        obtain ⟨v, va, fas⟩ := p
        obtain ⟨_, _, e3, e4⟩ := hper k v va fas hkp
        have hns : (Gen.Debug.nameString (ta.name.toIdent (identOf c.d.name)) (va.name.toIdent (identOf v.name))).isNone
            = !(ta.name != .disable || va.name != .disable) := by
          rw [nameString_isNone, nameCfg_isNone, nameCfg_isNone]
          cases h1 : (ta.name == NameCfg.disable) <;> cases h2 : (va.name == NameCfg.disable) <;> simp [bne, h1, h2]
        unfold Gen.Debug.arm
        simp only [dbgVariant]
        cases hs : v.shape with
        | unit =>
          obtain ⟨_, hn⟩ := e3 hs
          rw [hn] at hns
          simp only
          cases hnn : Gen.Debug.nameString (ta.name.toIdent (identOf c.d.name)) (va.name.toIdent (identOf v.name)) with
          | none => rw [hnn] at hns; simp at hns
          | some s => exact ⟨_, rfl⟩
        | tuple =>
          obtain ⟨_, hn⟩ := e4 (by rw [hs]; simp)
          have hcond : ((Gen.Debug.armEntries Gen.Debug.bindTup (fun i _ => tupSelf i) 0 (fas.map (dbgField num))).isEmpty &&
              (Gen.Debug.nameString (ta.name.toIdent (identOf c.d.name)) (va.name.toIdent (identOf v.name))).isNone) = false := by
            rw [armEntries_isEmpty num _ _ (by intro i c; unfold Gen.Debug.bindTup; cases c.ignore <;> rfl), hns]
            exact hn
          simp only [hcond, Bool.false_eq_true, if_false]
          exact ⟨_, rfl⟩
        | named =>
          obtain ⟨_, hn⟩ := e4 (by rw [hs]; simp)
          have hcond : ((Gen.Debug.armEntries Gen.Debug.bindNamed (fun _ c => c.name) 0 (fas.map (dbgField num))).isEmpty &&
              (Gen.Debug.nameString (ta.name.toIdent (identOf c.d.name)) (va.name.toIdent (identOf v.name))).isNone) = false := by
            rw [armEntries_isEmpty num _ _ (by intro i c; unfold Gen.Debug.bindNamed; cases c.ignore <;> rfl), hns]
            exact hn
          simp only [hcond, Bool.false_eq_true, if_false]
          exact ⟨_, rfl⟩
      obtain ⟨as, has, hlen⟩ := dbg_arms_ok _ _ harm
      have hbody : ∃ bd, Gen.Debug.body (dbgEnumType num c.d ta vs) = .ok bd := by
        simp only [dbgEnumType, Gen.Debug.body, has]
        cases as with
        | cons a as' => exact ⟨_, rfl⟩
        | nil =>
          have hvs0 : vs = [] := by
            simp only [List.length_nil, List.length_map] at hlen
            exact List.eq_nil_of_length_eq_zero hlen.symm
          simp only
          cases hn : ta.name.toIdent (identOf c.d.name) with
          | some n => exact ⟨_, rfl⟩
          | none =>
            exfalso
            apply hempty
            have := nameCfg_isNone ta.name (identOf c.d.name)
            rw [hn] at this
            simp only [Option.isNone_none] at this
            simp [hvs0, ← this]
      obtain ⟨bd, hbd⟩ := hbody
      refine ⟨bd, hbd, ?_⟩
      intro V ops a alt ha
      have hw : (dbgEnumType num c.d ta vs).WF := by
        simp only [dbgEnumType, DbgType.WF]
        intro w hw
        obtain ⟨p, hp, rfl⟩ := List.mem_map.mp hw
        obtain ⟨k, hkp⟩ := List.getElem?_of_mem hp
        obtain ⟨v, va, fas⟩ := p
        obtain ⟨hv, _, e3, e4⟩ := hper k v va fas hkp
        have hvw := hwf.1 v (List.mem_of_getElem? hv)
        have hf : fas.map Prod.fst = v.fields := by
          by_cases hu : v.shape = .unit
          · rw [(e3 hu).1, hvw.2 hu]; rfl
          · exact (fieldScan_spec _ _ _ (e4 hu).1).1
        exact dbgVariantFields_WF num v fas hvw hf _ rfl rfl
      exact debug_output ops _ hw bd hbd a ha alt

theorem forall2_mapRes {α β : Type} (f : α → Res β) : ∀ (l : List α) (r : List β), Forall2 (fun x y => f x = .ok y) l r → mapRes f l = .ok r := by
  intro l r h
  induction h with
  | nil => rfl
  | cons hxy _ ih => simp [mapRes, hxy, ih]

theorem forall2_of_getElem {α β : Type} {R : α → β → Prop} : ∀ (l : List α) (r : List β), r.length = l.length →
    (∀ (k : Nat) (x : α) (y : β), l[k]? = some x → r[k]? = some y → R x y) → Forall2 R l r := by
  intro l
  induction l with
  | nil => intro r hl _; cases r with | nil => exact .nil | cons _ _ => simp at hl
  | cons x xs ih =>
    intro r hl h
    cases r with
    | nil => simp at hl
    | cons y ys =>
      refine .cons (h 0 x y rfl rfl) (ih ys (by simpa using hl) ?_)
      intro k x' y' hx hy
      exact h (k + 1) x' y' (by simpa using hx) (by simpa using hy)

/-- `Bridge.dbgScan` (what the driver runs) returns the configuration of the end-to-end theorems whenever the handler accepts. -/
theorem dbgScan_of_handler (c : Ctx) (m : TraitMeta) (items : List Item) (hwf : InputWF c.d) (hk : c.d.kind ≠ .union)
    (h : debugHandler c m = .ok items) (num : String → Nat) :
    ∃ t, dbgScan c m num = .ok t ∧ ∃ bd, Gen.Debug.body t = .ok bd ∧
      ∀ {V : Type} (ops : DbgOps V) (a : Val V) (alt : Bool), t.Inhabits a →
        Sem.evalFmt ops t bd a alt = (Spec.effectiveShape t a).map fun s => s.render ops alt := by
  cases hkind : c.d.kind with
  | union => exact absurd hkind hk
  | struct =>
    obtain ⟨v, ta, fas, hv, hta, hfas, _, hsem⟩ := debug_struct_end_to_end c m items hwf hkind h
    refine ⟨dbgStructType num c.d v ta fas, ?_, hsem num⟩
    simp only [dbgScan, hkind, hv, List.headD_cons]
    rw [hta, ok_bind_eq, hfas, ok_bind_eq]
    rfl
  | enum =>
    obtain ⟨ta, vs, hta, hmap, hper, _, hsem⟩ := debug_enum_end_to_end c m items hwf hkind h
    refine ⟨dbgEnumType num c.d ta vs, ?_, hsem num⟩
    simp only [dbgScan, hkind]
    rw [hta, ok_bind_eq]
    have : mapRes (fun v => do
        let va ← dbgVariantAttr c v
        let fas ← if v.shape == .unit then pure [] else dbgFieldScan c va.namedField v.fields
        pure (v, va, fas)) c.d.variants = .ok vs := by
      apply forall2_mapRes
      apply forall2_of_getElem
      · rw [← hmap]; simp
      · intro k x y hx hy
        obtain ⟨v, va, fas⟩ := y
        have hxv : x = v := by
          have := congrArg (fun l => l[k]?) hmap
          simp only [List.getElem?_map, hy, Option.map_some] at this
          rw [hx] at this
          cases this; rfl
        subst hxv
        obtain ⟨e1, e2, e3⟩ := hper k x va fas hy
        rw [e1, ok_bind_eq]
        by_cases hu : x.shape = .unit
        · have hb : (x.shape == Shape.unit) = true := by rw [hu]; rfl
          simp only [hb, if_true]
          rw [e2 hu]
          rfl
        · have hb : (x.shape == Shape.unit) = false := by cases hs : x.shape <;> simp_all
          simp only [hb, Bool.false_eq_true, if_false]
          rw [e3 hu, ok_bind_eq]
          rfl
    rw [this, ok_bind_eq]
    rfl

/-! ## C10 — Into, end to end

Types are compared by their normalised token strings in the code and by opaque ids in the behavioural layer; the bridge
numbers the strings with an arbitrary *injective* `tnum`. -/

def Inj (g : String → Nat) : Prop := ∀ a b, g a = g b → a = b

theorem beq_tnum {tnum : String → Nat} (h : Inj tnum) (a b : String) : (tnum a == tnum b) = (a == b) := by
  by_cases e : a = b
  · subst e; simp
  · have hn : tnum a ≠ tnum b := fun he => e (h a b he)
    have h1 : (tnum a == tnum b) = false := by simpa using hn
    have h2 : (a == b) = false := by simpa using e
    rw [h1, h2]

theorem markerFor_intoField {tnum : String → Nat} (mnum : String → Nat) (htn : Inj tnum) (t : String)
    (fa : Field × List (String × Option String)) :
    Gen.Into.markerFor (tnum t) (intoField tnum mnum fa) = (fa.2.find? fun p => p.1 == t).map fun p => p.2.map mnum := by
  obtain ⟨f, marks⟩ := fa
  simp only [Gen.Into.markerFor, intoField]
  induction marks with
  | nil => rfl
  | cons p ps ih =>
    simp only [List.map_cons, List.find?_cons, beq_tnum htn]
    cases p.1 == t with
    | true => rfl
    | false => exact ih

/-- index and (numbered) method of a selection result -/
def selPr (mnum : String → Nat) (r : Nat × Field × Option String) : Nat × Option Nat := (r.1, r.2.2.map mnum)

theorem intoLoop_markerLoop {tnum : String → Nat} (mnum : String → Nat) (htn : Inj tnum) (t : String) :
    ∀ (fas : List (Field × List (String × Option String))) (i : Nat) (acc r : Option (Nat × Field × Option String)),
      intoLoop t i fas acc = .ok r →
      Gen.Into.markerLoop (tnum t) i (fas.map (intoField tnum mnum)) (acc.map (selPr mnum)) = (r.map (selPr mnum), false) ∧
      (∀ j f m, r = some (j, f, m) → acc = some (j, f, m) ∨ (i ≤ j ∧ ∃ marks, fas[j - i]? = some (f, marks))) := by
  intro fas
  induction fas with
  | nil =>
    intro i acc r h
    simp only [intoLoop] at h
    cases h
    exact ⟨by simp [Gen.Into.markerLoop], fun j f m hr => Or.inl hr⟩
  | cons fa rest ih =>
    intro i acc r h
    obtain ⟨f0, marks⟩ := fa
    simp only [intoLoop] at h
    simp only [List.map_cons, Gen.Into.markerLoop, markerFor_intoField mnum htn]
    cases hf : marks.find? (fun p => p.1 == t) with
    | none =>
      simp only [hf] at h
      obtain ⟨h1, h2⟩ := ih (i + 1) acc r h
      simp only [Option.map_none]
      refine ⟨h1, ?_⟩
      intro j f m hr
      rcases h2 j f m hr with ha | ⟨hle, marks', hget⟩
      · exact Or.inl ha
      · refine Or.inr ⟨by omega, marks', ?_⟩
        have : j - i = (j - (i + 1)) + 1 := by omega
        rw [this]; simpa using hget
    | some p =>
      simp only [hf] at h
      cases acc with
      | some a => cases h
      | none =>
        simp only at h
        obtain ⟨h1, h2⟩ := ih (i + 1) (some (i, f0, p.2)) r h
        simp only [Option.map_some, Option.map_none]
        refine ⟨by simpa [selPr] using h1, ?_⟩
        intro j f m hr
        rcases h2 j f m hr with ha | ⟨hle, marks', hget⟩
        · cases ha
          exact Or.inr ⟨Nat.le_refl _, marks, by simp⟩
        · refine Or.inr ⟨by omega, marks', ?_⟩
          have : j - i = (j - (i + 1)) + 1 := by omega
          rw [this]; simpa using hget

theorem intoSame_sameTypeLoop {tnum : String → Nat} (mnum : String → Nat) (htn : Inj tnum) (t : String) :
    ∀ (fas : List (Field × List (String × Option String))) (i : Nat) (acc : Option (Nat × Field × Option String)),
      Gen.Into.sameTypeLoop (tnum t) i (fas.map (intoField tnum mnum)) (acc.map (·.1)) = (intoSame t i fas acc).map (·.1) ∧
      (∀ j f m, intoSame t i fas acc = some (j, f, m) → acc = some (j, f, m) ∨ (i ≤ j ∧ m = none ∧ ∃ marks, fas[j - i]? = some (f, marks))) := by
  intro fas
  induction fas with
  | nil => intro i acc; exact ⟨by simp [Gen.Into.sameTypeLoop, intoSame], fun j f m hr => Or.inl (by simpa [intoSame] using hr)⟩
  | cons fa rest ih =>
    intro i acc
    obtain ⟨f0, marks⟩ := fa
    simp only [List.map_cons, Gen.Into.sameTypeLoop, intoSame]
    have hty : (intoField tnum mnum (f0, marks)).ty = tnum f0.hashTy := rfl
    rw [hty]
    have hdec : (tnum f0.hashTy = tnum t) ↔ (f0.hashTy == t) = true := by
      constructor
      · intro e; simpa using htn _ _ e
      · intro e; have : f0.hashTy = t := by simpa using e
        rw [this]
    by_cases hc : (f0.hashTy == t) = true
    · simp only [hc, if_true, hdec.mpr hc]
      cases acc with
      | some a => exact ⟨by simp, fun j f m hr => by cases hr⟩
      | none =>
        simp only [Option.map_none]
        obtain ⟨h1, h2⟩ := ih (i + 1) (some (i, f0, none))
        refine ⟨by simpa using h1, ?_⟩
        intro j f m hr
        rcases h2 j f m hr with ha | ⟨hle, hm, marks', hget⟩
        · cases ha
          exact Or.inr ⟨Nat.le_refl _, rfl, marks, by simp⟩
        · refine Or.inr ⟨by omega, hm, marks', ?_⟩
          have : j - i = (j - (i + 1)) + 1 := by omega
          rw [this]; simpa using hget
    · have hc' : ¬ tnum f0.hashTy = tnum t := fun e => hc (hdec.mp e)
      simp only [hc, hc', if_false, Bool.false_eq_true]
      obtain ⟨h1, h2⟩ := ih (i + 1) acc
      refine ⟨h1, ?_⟩
      intro j f m hr
      rcases h2 j f m hr with ha | ⟨hle, hm, marks', hget⟩
      · exact Or.inl ha
      · refine Or.inr ⟨by omega, hm, marks', ?_⟩
        have : j - i = (j - (i + 1)) + 1 := by omega
        rw [this]; simpa using hget

/-- **The two selection procedures agree.** When the attribute layer's `intoSelect` designates field `i` (with method `m`)
    for target `t`, the behavioural layer's `select`, run on the markers and normalised types so read, designates the same
    field with the same method. -/
theorem intoSelect_select {tnum : String → Nat} (mnum : String → Nat) (htn : Inj tnum) (t : String)
    (fas : List (Field × List (String × Option String))) (i : Nat) (f : Field) (m : Option String)
    (h : intoSelect t fas = .ok (i, f, m)) :
    Gen.Into.select (tnum t) (fas.map (intoField tnum mnum)) = .ok (i, m.map mnum) ∧ ∃ marks, fas[i]? = some (f, marks) := by
  unfold intoSelect at h
  split at h
  · rename_i f0 marks
    cases h
    refine ⟨?_, marks, by simp⟩
    simp only [List.map_cons, List.map_nil, Gen.Into.select, markerFor_intoField mnum htn]
    cases marks.find? (fun p => p.1 == t) <;> rfl
  · rename_i hne
    have hsel : Gen.Into.select (tnum t) (fas.map (intoField tnum mnum))
        = (match Gen.Into.markerLoop (tnum t) 0 (fas.map (intoField tnum mnum)) none with
           | (_, true) => .error (.multipleFields (tnum t))
           | (some r, false) => .ok r
           | (none, false) =>
             match Gen.Into.sameTypeLoop (tnum t) 0 (fas.map (intoField tnum mnum)) none with
             | some i => .ok (i, none)
             | none => .error (.noField (tnum t))) := by
      unfold Gen.Into.select
      split
      · rename_i c hc
        match fas, hc with
        | [(f0, marks)], _ => exact absurd rfl (hne f0 marks)
      · rfl
    rw [hsel]
    cases hl : intoLoop t 0 fas none with
    | diag e => simp [hl] at h
    | panic s => simp [hl] at h
    | ok r =>
      simp only [hl] at h
      obtain ⟨h1, h2⟩ := intoLoop_markerLoop mnum htn t fas 0 none r hl
      simp only [Option.map_none] at h1
      rw [h1]
      cases r with
      | some q =>
        simp only at h
        cases h
        refine ⟨rfl, ?_⟩
        rcases h2 i f m rfl with ha | ⟨_, marks, hget⟩
        · cases ha
        · exact ⟨marks, by simpa using hget⟩
      | none =>
        simp only [Option.map_none] at h ⊢
        obtain ⟨s1, s2⟩ := intoSame_sameTypeLoop mnum htn t fas 0 none
        simp only [Option.map_none] at s1
        rw [s1]
        cases hs : intoSame t 0 fas none with
        | none => simp [hs] at h
        | some q =>
          simp only [hs] at h
          cases h
          rcases s2 i f m hs with ha | ⟨_, hm, marks, hget⟩
          · cases ha
          · subst hm
            exact ⟨rfl, marks, by simpa using hget⟩

theorem intoScan_spec (c : Ctx) (targets : List (String × Bound)) (vs : IntoScan) (h : intoScan c targets = .ok vs) :
    vs.map Prod.fst = c.d.variants ∧
    ∀ (k : Nat) (v : Variant) (fas : List (Field × List (String × Option String))), vs[k]? = some (v, fas) →
      c.d.variants[k]? = some v ∧ fas.map Prod.fst = v.fields := by
  unfold intoScan at h
  have h2 := mapRes_ok_forall _ _ _ h
  have key : ∀ (x : Variant) (y : Variant × List (Field × List (String × Option String))),
      ((do
        if c.d.kind == .enum then
          let vm ← collectAttrs c.F c.traits .into x.attrs []
          if !vm.isEmpty then let _ ← intoTypeFromMetas false vm []
        let fas ← mapRes (fun f => do
            let fm ← collectAttrs c.F c.traits .into f.attrs []
            let marks ← if fm.isEmpty then pure [] else intoFieldFromMetas true fm []
            match marks.find? fun p => !(targets.any fun t => t.1 == p.1) with
            | some _ => Res.diag .noIntoImpl
            | none => pure (f, marks)) x.fields
        pure (x, fas)) : Res (Variant × List (Field × List (String × Option String)))) = .ok y →
      y.1 = x ∧ y.2.map Prod.fst = x.fields := by
    intro x y hxy
    dsimp only at hxy
    have fin : ∀ (r : Res (Variant × List (Field × List (String × Option String)))),
        r = (do
          let fas ← mapRes (fun f => do
              let fm ← collectAttrs c.F c.traits .into f.attrs []
              let marks ← if fm.isEmpty then pure [] else intoFieldFromMetas true fm []
              match marks.find? fun p => !(targets.any fun t => t.1 == p.1) with
              | some _ => Res.diag .noIntoImpl
              | none => pure (f, marks)) x.fields
          pure (x, fas)) → r = .ok y → y.1 = x ∧ y.2.map Prod.fst = x.fields := by
      intro r hr hy
      rw [hr] at hy
      obtain ⟨fas, hfas, hp⟩ := bind_ok_inv hy
      cases hp
      refine ⟨rfl, ?_⟩
      have hf2 := mapRes_ok_forall _ _ _ hfas
      apply forall2_map_eq Prod.fst _ _ _ hf2
      intro f q hq
      obtain ⟨fm, _, hq⟩ := bind_ok_inv hq
      dsimp only at hq
      split at hq
      · obtain ⟨marks, _, hq⟩ := bind_ok_inv hq
        split at hq
        · cases hq
        · cases hq; rfl
      · obtain ⟨marks, _, hq⟩ := bind_ok_inv hq
        split at hq
        · cases hq
        · cases hq; rfl
    split at hxy
    · obtain ⟨vm, _, hxy⟩ := bind_ok_inv hxy
      split at hxy
      · obtain ⟨_, _, hxy⟩ := bind_ok_inv hxy
        exact fin _ rfl hxy
      · exact fin _ rfl hxy
    · exact fin _ rfl hxy
  constructor
  · exact forall2_map_eq Prod.fst (fun x y hxy => (key x y hxy).1) _ _ h2
  · intro k v fas hk
    obtain ⟨x, hx, hxy⟩ := forall2_getElem h2 k (v, fas) hk
    obtain ⟨e1, e2⟩ := key x (v, fas) hxy
    simp only at e1 e2
    subst e1
    exact ⟨hx, e2⟩

theorem intoVariant_WF (tnum mnum : String → Nat) (v : Variant) (fas : List (Field × List (String × Option String)))
    (hv : VariantWF v) (hf : fas.map Prod.fst = v.fields) : (intoVariant tnum mnum (v, fas)).WF := by
  obtain ⟨h1, h2⟩ := hv
  constructor
  · intro hs
    have : (intoVariant tnum mnum (v, fas)).fields.map IntoField.name = (v.fields.map fname).map identOf := by
      simp [intoVariant, intoField, ← hf, List.map_map, Function.comp_def]
    rw [this]
    exact nodup_map_identOf _ (h1 hs)
  · intro hs
    have : fas = [] := by
      have := h2 hs
      rw [this] at hf
      simpa using hf
    simp [intoVariant, this]

theorem into_arms_ok (t : Nat) : ∀ (vs : List IntoVariant) (k0 : Nat),
    (∀ (k : Nat) (v : IntoVariant), vs[k]? = some v → ∃ a, Gen.Into.arm t (k0 + k) v = .ok a) →
    ∃ as, Gen.Into.arms t k0 vs = .ok as ∧ as.length = vs.length := by
  intro vs
  induction vs with
  | nil => intro k0 _; exact ⟨[], rfl, rfl⟩
  | cons v vs ih =>
    intro k0 h
    obtain ⟨a, ha⟩ := h 0 v (by simp)
    obtain ⟨as, has, hl⟩ := ih (k0 + 1) (fun k w hk => by
      obtain ⟨a', ha'⟩ := h (k + 1) w (by simpa using hk)
      exact ⟨a', by rw [show k0 + 1 + k = k0 + (k + 1) by omega]; exact ha'⟩)
    simp only [Nat.add_zero] at ha
    exact ⟨a :: as, by simp [Gen.Into.arms, ha, has], by simp [hl]⟩

/-- One accepted target: the behavioural generator produces the impl for it. -/
theorem into_item_of_chosen {tnum : String → Nat} (mnum : String → Nat) (htn : Inj tnum) (d : DeriveInput) (hwf : InputWF d)
    (hk : d.kind ≠ .union) (vs : IntoScan) (hmap : vs.map Prod.fst = d.variants) (t : String)
    (chosen : List (Variant × Nat × Field × Option String))
    (hch : mapRes (fun (p : Variant × List (Field × List (String × Option String))) => do
            if d.kind == .enum && p.1.shape == .unit then Res.diag .unitVariant
            else do
              let (i, f, meth) ← intoSelect t p.2
              pure (p.1, i, f, meth)) vs = .ok chosen)
    (hne : chosen.isEmpty = false) :
    ∃ it, Gen.Into.item (intoType tnum mnum d.kind vs) (tnum t) = .ok it := by
  have h2 := mapRes_ok_forall _ _ _ hch
  have key : ∀ (p : Variant × List (Field × List (String × Option String))) (y : Variant × Nat × Field × Option String),
      ((do
        if d.kind == .enum && p.1.shape == .unit then Res.diag .unitVariant
        else do
          let (i, f, meth) ← intoSelect t p.2
          pure (p.1, i, f, meth)) : Res (Variant × Nat × Field × Option String)) = .ok y →
      (d.kind == .enum && p.1.shape == .unit) = false ∧ intoSelect t p.2 = .ok (y.2.1, y.2.2.1, y.2.2.2) := by
    intro p y hy
    split at hy
    · cases hy
    · rename_i hc
      obtain ⟨q, hq, hp⟩ := bind_ok_inv hy
      obtain ⟨i, f, meth⟩ := q
      cases hp
      exact ⟨by simpa using hc, hq⟩
  have hlen : chosen.length = vs.length := mapRes_length _ _ _ hch
  have hsel : ∀ (k : Nat) (p : Variant × List (Field × List (String × Option String))), vs[k]? = some p →
      (d.kind == .enum && p.1.shape == .unit) = false ∧ ∃ i f meth, intoSelect t p.2 = .ok (i, f, meth) := by
    intro k p hp
    have hl : k < chosen.length := by rw [hlen]; exact (List.getElem?_eq_some_iff.mp hp).1
    have hy := List.getElem?_eq_getElem hl
    obtain ⟨x, hx, hxy⟩ := forall2_getElem h2 k _ hy
    rw [hp] at hx; cases hx
    obtain ⟨e1, e2⟩ := key p _ hxy
    exact ⟨e1, _, _, _, e2⟩
  have hvs : vs ≠ [] := by
    intro he
    rw [he] at hlen
    have : chosen = [] := List.eq_nil_of_length_eq_zero (by simpa using hlen)
    rw [this] at hne; cases hne
  unfold intoType
  cases hkind : d.kind with
  | union => exact absurd hkind hk
  | struct =>
    obtain ⟨v, hv⟩ := hwf.2 (by simp [hkind])
    rw [hv] at hmap
    match vs, hmap, hvs with
    | [(v', fas)], hm, _ =>
      obtain ⟨_, i, f, meth, hs⟩ := hsel 0 (v', fas) rfl
      obtain ⟨g1, marks, g2⟩ := intoSelect_select mnum htn t fas i f meth hs
      simp only [List.map_cons, List.map_nil, List.headD_cons, Gen.Into.item, intoVariant]
      rw [g1]
      have : (fas.map (intoField tnum mnum))[i]? = some (intoField tnum mnum (f, marks)) := by simp [g2]
      simp only [this]
      exact ⟨_, rfl⟩
  | enum =>
    simp only
    have harm : ∀ (k : Nat) (w : IntoVariant), (vs.map (intoVariant tnum mnum))[k]? = some w →
        ∃ a, Gen.Into.arm (tnum t) (0 + k) w = .ok a := by
      intro k w hw
      simp only [List.getElem?_map] at hw
      cases hp : vs[k]? with
      | none => simp [hp] at hw
      | some p =>
        simp only [hp, Option.map_some, Option.some.injEq] at hw
        subst hw
        obtain ⟨hnu, i, f, meth, hs⟩ := hsel k p hp
        obtain ⟨g1, marks, g2⟩ := intoSelect_select mnum htn t p.2 i f meth hs
        have hshape : (intoVariant tnum mnum p).shape ≠ .unit := by
          intro hu
          have : p.1.shape = .unit := hu
          simp [hkind, this] at hnu
        unfold Gen.Into.arm
        simp only [hshape, if_false]
        have hsel' : Gen.Into.select (tnum t) (intoVariant tnum mnum p).fields = .ok (i, meth.map mnum) := g1
        rw [hsel']
        have : (intoVariant tnum mnum p).fields[i]? = some (intoField tnum mnum (f, marks)) := by simp [intoVariant, g2]
        simp only [this]
        split <;> exact ⟨_, rfl⟩
    obtain ⟨as, has, hl⟩ := into_arms_ok (tnum t) _ 0 harm
    simp only [Gen.Into.item, has]
    cases as with
    | nil =>
      simp only [List.length_nil, List.length_map] at hl
      exact absurd (List.eq_nil_of_length_eq_zero hl.symm) hvs
    | cons a as' => exact ⟨_, rfl⟩

theorem intoType_WF (tnum mnum : String → Nat) (c : Ctx) (targets : List (String × Bound)) (vs : IntoScan)
    (hwf : InputWF c.d) (h : intoScan c targets = .ok vs) : (intoType tnum mnum c.d.kind vs).WF := by
  obtain ⟨hmap, hspec⟩ := intoScan_spec c targets vs h
  have hall : ∀ p ∈ vs, (intoVariant tnum mnum p).WF := by
    intro p hp
    obtain ⟨k, hk⟩ := List.getElem?_of_mem hp
    obtain ⟨v, fas⟩ := p
    obtain ⟨hv, hf⟩ := hspec k v fas hk
    exact intoVariant_WF tnum mnum v fas (hwf.1 v (List.mem_of_getElem? hv)) hf
  unfold intoType IntoType.WF
  cases hkind : c.d.kind with
  | enum =>
    simp only [Sem.variantsOfInto]
    intro w hw
    obtain ⟨p, hp, rfl⟩ := List.mem_map.mp hw
    exact hall p hp
  | struct =>
    simp only [Sem.variantsOfInto, List.mem_singleton]
    intro w hw; subst hw
    cases vs with
    | nil => simp [IntoVariant.WF]
    | cons p ps => simpa using hall p (by simp)
  | union =>
    simp only [Sem.variantsOfInto, List.mem_singleton]
    intro w hw; subst hw
    cases vs with
    | nil => simp [IntoVariant.WF]
    | cons p ps => simpa using hall p (by simp)

/-- The conclusion of the Into end-to-end theorem, for the metas `ms` of the type and the emitted `items`. -/
def IntoEndToEnd (c : Ctx) (ms : List TraitMeta) (items : List Item) : Prop :=
    ∃ targets vs, intoTypeFromMetas true ms [] = .ok targets ∧ intoScan c targets = .ok vs ∧
      items.length = (targets.foldl (fun acc t => sortedInsert t acc) []).length ∧
      ∀ (j : Nat) (tb : String × Bound) (item_ : Item),
        (targets.foldl (fun acc t => sortedInsert t acc) [])[j]? = some tb → items[j]? = some item_ →
        item_.trait = "Into<" ++ noSpace tb.1 ++ ">" ∧
        ∀ (tnum mnum : String → Nat), Inj tnum →
          ∃ it, Gen.Into.item (intoType tnum mnum c.d.kind vs) (tnum tb.1) = .ok it ∧
            ∀ {V : Type} (ops : IntoOps V) (a : Val V), (intoType tnum mnum c.d.kind vs).Inhabits a →
              Sem.evalInto ops (intoType tnum mnum c.d.kind vs) it a = Spec.into ops (intoType tnum mnum c.d.kind vs) (tnum tb.1) a ∧
              (Spec.into ops (intoType tnum mnum c.d.kind vs) (tnum tb.1) a).isSome = true

/-- **C10 end to end.** The Into handler accepted a struct or enum. Then the requested targets were read from the type's
    `Into(..)` attributes, the markers of every field from that field's own attributes; one item is emitted per target, in the
    order of the sorted target map; and for each target `T` — for every injective numbering of the normalised type strings and
    every numbering of the methods — the behavioural generator produces the impl for `T`, whose `into()` returns, for every
    value, the field designated for `T` in the value's variant (marked, else sole, else the unique field of type `T`), through
    the marker's method, unchanged when its type is already `T`, converted with `Into<T>` otherwise. -/
theorem into_handler_end_to_end (c : Ctx) (m0 : TraitMeta) (rest : List TraitMeta) (items : List Item) (hwf : InputWF c.d)
    (hk : c.d.kind ≠ .union) (h : intoHandler c (m0 :: rest) = .ok items) : IntoEndToEnd c (m0 :: rest) items := by
  unfold intoHandler at h
  dsimp only at h
  have fin : ∀ (r : Res (List Item)),
      r = (do
        let targets ← intoTypeFromMetas true (m0 :: rest) []
        let vs ← intoScan c targets
        let ordered := targets.foldl (fun acc t => sortedInsert t acc) []
        mapRes (fun (tb : String × Bound) => do
            let t := tb.1
            let chosen ← mapRes (fun (v, fas) => do
                if c.d.kind == .enum && v.shape == .unit then Res.diag .unitVariant
                else do
                  let (i, f, meth) ← intoSelect t fas
                  pure (v, i, f, meth)) vs
            if chosen.isEmpty then Res.diag .noIntoField
            else
              let types := chosen.filterMap fun (_, _, f, meth) => if meth.isSome || f.hashTy == t then none else some f.ty
              pure { trait := "Into<" ++ noSpace t ++ ">",
                     preds := boundPreds tb.2 c.d.generics ("::core::convert::Into<" ++ noSpace t ++ ">") types [],
                     variants := chosen.map fun (v, i, f, meth) =>
                       (v.name, v.shape, [toString i, showOpt meth, showBool (f.hashTy == t)], []) }) ordered) →
      r = .ok items → IntoEndToEnd c (m0 :: rest) items := by
    intro r hr hitems
    rw [hr] at hitems
    obtain ⟨targets, htargets, hitems⟩ := bind_ok_inv hitems
    obtain ⟨vs, hvs, hitems⟩ := bind_ok_inv hitems
    dsimp only at hitems
    have hlen := mapRes_length _ _ _ hitems
    have h2 := mapRes_ok_forall _ _ _ hitems
    refine ⟨targets, vs, htargets, hvs, hlen, ?_⟩
    intro j tb item_ htb hitem
    obtain ⟨x, hx, hxy⟩ := forall2_getElem h2 j item_ hitem
    rw [htb] at hx; cases hx
    obtain ⟨chosen, hch, hxy⟩ := bind_ok_inv hxy
    split at hxy
    · cases hxy
    · rename_i hne
      simp only [pure] at hxy
      cases hxy
      refine ⟨rfl, ?_⟩
      intro tnum mnum htn
      obtain ⟨hmap, _⟩ := intoScan_spec c targets vs hvs
      obtain ⟨it, hit⟩ := into_item_of_chosen mnum htn c.d hwf hk vs hmap tb.1 chosen hch (by simpa using hne)
      refine ⟨it, hit, ?_⟩
      intro V ops a ha
      have hw := intoType_WF tnum mnum c targets vs hwf hvs
      obtain ⟨e1, e2, _⟩ := into_correct ops _ hw (tnum tb.1) it hit a ha
      exact ⟨e1, e2⟩
  split at h
  · rename_i heq
    exact absurd heq hk
  · exact fin _ rfl h

/-! ## C08 — Default, end to end (structs and enums)

### generic facts about the attribute scan and the parameter loop -/

/-- A scan that accepts with one builder accepts, with the same result, with any builder that accepts at least as much. -/
theorem scanMetas_builder_imp {α : Type} (F : Features) (tr mine : TraitId → Bool) (b1 b2 : TraitMeta → Res α)
    (himp : ∀ m a, b1 m = .ok a → b2 m = .ok a) :
    ∀ (ms : List TraitMeta) (out o : Option α), scanMetas F tr mine b1 ms out = .ok o → scanMetas F tr mine b2 ms out = .ok o := by
  intro ms
  induction ms with
  | nil => intro out o h; exact h
  | cons m ms ih =>
    intro out o h
    simp only [scanMetas] at h ⊢
    cases ht : traitOf F m with
    | none => simp [ht] at h
    | some t =>
      simp only [ht] at h ⊢
      by_cases h1 : (!tr t) = true
      · rw [if_pos h1] at h; exact absurd ⟨_, h⟩ (not_ok_identOrPanic _ _)
      · rw [if_neg h1] at h ⊢
        by_cases h2 : mine t = true
        · rw [if_pos h2] at h ⊢
          cases out with
          | some x => exact absurd ⟨_, h⟩ (not_ok_identOrPanic _ _)
          | none =>
            simp only at h ⊢
            cases hb : b1 m with
            | diag e => simp [hb] at h
            | panic s => simp [hb] at h
            | ok a =>
              simp only [hb] at h
              rw [himp m a hb]
              exact ih _ _ h
        · rw [if_neg h2] at h ⊢
          exact ih _ _ h

theorem scanAttrs_builder_imp {α : Type} (F : Features) (tr mine : TraitId → Bool) (b1 b2 : TraitMeta → Res α)
    (himp : ∀ m a, b1 m = .ok a → b2 m = .ok a) :
    ∀ (as : List Attribute) (out o : Option α), scanAttrs F tr mine b1 as out = .ok o → scanAttrs F tr mine b2 as out = .ok o := by
  intro as
  induction as with
  | nil => intro out o h; exact h
  | cons a as ih =>
    intro out o h
    simp only [scanAttrs] at h ⊢
    by_cases h1 : (a.isEduce && a.isList) = true
    · rw [if_pos h1] at h ⊢
      cases hm : a.metas with
      | none => simp [hm] at h
      | some ms =>
        simp only [hm] at h ⊢
        cases hs : scanMetas F tr mine b1 ms out with
        | diag e => simp [hs] at h
        | panic s => simp [hs] at h
        | ok o1 =>
          simp only [hs] at h
          rw [scanMetas_builder_imp F tr mine b1 b2 himp ms out o1 hs]
          exact ih _ _ h
    · rw [if_neg h1] at h ⊢
      exact ih _ _ h

theorem fromAttrs_builder_imp {α : Type} (F : Features) (tr mine : TraitId → Bool) (b1 b2 : TraitMeta → Res α)
    (himp : ∀ m a, b1 m = .ok a → b2 m = .ok a) (dflt : α) (attrs : List Attribute) (a : α)
    (h : fromAttrs F tr mine b1 dflt attrs = .ok a) : fromAttrs F tr mine b2 dflt attrs = .ok a := by
  unfold fromAttrs at h ⊢
  cases hs : scanAttrs F tr mine b1 attrs none with
  | diag e => simp [hs] at h
  | panic s => simp [hs] at h
  | ok o =>
    rw [scanAttrs_builder_imp F tr mine b1 b2 himp attrs none o hs]
    simpa [hs] using h

/-- What a scan returns is what was there before, or the result of the builder on one of the metas. -/
theorem scanMetas_ok_cases {α : Type} (F : Features) (tr mine : TraitId → Bool) (b : TraitMeta → Res α) :
    ∀ (ms : List TraitMeta) (out o : Option α), scanMetas F tr mine b ms out = .ok o →
      o = out ∨ ∃ m a, b m = .ok a ∧ o = some a := by
  intro ms
  induction ms with
  | nil => intro out o h; simp only [scanMetas] at h; cases h; exact Or.inl rfl
  | cons m ms ih =>
    intro out o h
    simp only [scanMetas] at h
    cases ht : traitOf F m with
    | none => simp [ht] at h
    | some t =>
      simp only [ht] at h
      split at h
      · exact absurd ⟨_, h⟩ (not_ok_identOrPanic _ _)
      · split at h
        · cases out with
          | some x => exact absurd ⟨_, h⟩ (not_ok_identOrPanic _ _)
          | none =>
            simp only at h
            cases hb : b m with
            | diag e => simp [hb] at h
            | panic s => simp [hb] at h
            | ok a =>
              simp only [hb] at h
              rcases ih _ _ h with e | ⟨m', a', h1, h2⟩
              · exact Or.inr ⟨m, a, hb, e⟩
              · exact Or.inr ⟨m', a', h1, h2⟩
        · exact ih _ _ h

theorem scanAttrs_ok_cases {α : Type} (F : Features) (tr mine : TraitId → Bool) (b : TraitMeta → Res α) :
    ∀ (as : List Attribute) (out o : Option α), scanAttrs F tr mine b as out = .ok o →
      o = out ∨ ∃ m a, b m = .ok a ∧ o = some a := by
  intro as
  induction as with
  | nil => intro out o h; simp only [scanAttrs] at h; cases h; exact Or.inl rfl
  | cons a as ih =>
    intro out o h
    simp only [scanAttrs] at h
    split at h
    · cases hm : a.metas with
      | none => simp [hm] at h
      | some ms =>
        simp only [hm] at h
        cases hs : scanMetas F tr mine b ms out with
        | diag e => simp [hs] at h
        | panic s => simp [hs] at h
        | ok o1 =>
          simp only [hs] at h
          rcases ih _ _ h with e | r
          · rcases scanMetas_ok_cases F tr mine b ms out o1 hs with e1 | r1
            · exact Or.inl (e.trans e1)
            · obtain ⟨m', a', h1, h2⟩ := r1
              exact Or.inr ⟨m', a', h1, e.trans h2⟩
          · exact Or.inr r
    · exact ih _ _ h

/-- The result of reading a position's attributes is the default, or what the builder made of one of the metas. -/
theorem fromAttrs_ok_cases {α : Type} (F : Features) (tr mine : TraitId → Bool) (b : TraitMeta → Res α) (dflt : α)
    (attrs : List Attribute) (a : α) (h : fromAttrs F tr mine b dflt attrs = .ok a) : a = dflt ∨ ∃ m, b m = .ok a := by
  unfold fromAttrs at h
  cases hs : scanAttrs F tr mine b attrs none with
  | diag e => simp [hs] at h
  | panic s => simp [hs] at h
  | ok o =>
    simp only [hs] at h
    rcases scanAttrs_ok_cases F tr mine b attrs none o hs with e | ⟨m, a', h1, h2⟩
    · subst e; simp at h; exact Or.inl h.symm
    · subst h2; simp at h; subst h; exact Or.inr ⟨m, h1⟩

/-- A parameter list is accepted under switches that are all off only when it is empty. -/
theorem runParams_all_disabled {σ : Type} (m : TraitMeta) (specs : List (PSpec σ)) (hoff : ∀ s ∈ specs, s.enabled = false) :
    ∀ (ps : List Param) (seen : List String) (st st' : σ), runParams m specs ps seen st = .ok st' → ps = [] ∧ st' = st := by
  intro ps seen st st' h
  cases ps with
  | nil => simp only [runParams] at h; cases h; exact ⟨rfl, rfl⟩
  | cons p ps =>
    exfalso
    simp only [runParams] at h
    cases hi : p.ident with
    | none => simp only [hi] at h; exact absurd ⟨_, h⟩ (not_ok_identOrPanic _ _)
    | some n =>
      simp only [hi] at h
      cases hf : findSpec specs n with
      | none => simp only [hf] at h; exact absurd ⟨_, h⟩ (not_ok_identOrPanic _ _)
      | some s =>
        simp only [hf] at h
        have hmem : s ∈ specs := List.mem_of_find?_eq_some hf
        simp only [hoff s hmem, Bool.not_false, if_true] at h
        exact absurd ⟨_, h⟩ (not_ok_identOrPanic _ _)

/-- A property of the builder state that every parameter preserves holds of the result. -/
theorem runParams_invariant {σ : Type} (P : σ → Prop) (m : TraitMeta) (specs : List (PSpec σ))
    (hP : ∀ s ∈ specs, ∀ f st st', P st → s.apply f st = .ok st' → P st') :
    ∀ (ps : List Param) (seen : List String) (st st' : σ), P st → runParams m specs ps seen st = .ok st' → P st' := by
  intro ps
  induction ps with
  | nil => intro seen st st' hp h; simp only [runParams] at h; cases h; exact hp
  | cons p ps ih =>
    intro seen st st' hp h
    simp only [runParams] at h
    cases hi : p.ident with
    | none => simp only [hi] at h; exact absurd ⟨_, h⟩ (not_ok_identOrPanic _ _)
    | some n =>
      simp only [hi] at h
      cases hf : findSpec specs n with
      | none => simp only [hf] at h; exact absurd ⟨_, h⟩ (not_ok_identOrPanic _ _)
      | some s =>
        simp only [hf] at h
        have hmem : s ∈ specs := List.mem_of_find?_eq_some hf
        split at h
        · exact absurd ⟨_, h⟩ (not_ok_identOrPanic _ _)
        · cases ha : s.apply p.form st with
          | diag e => simp [ha] at h
          | panic x => simp [ha] at h
          | ok st1 =>
            simp only [ha] at h
            split at h
            · cases h
            · exact ih _ _ _ (hP s hmem _ _ _ hp ha) h

/-! ### the Default builders under their switches -/

theorem defFieldFromMeta_noflag (e : Bool) (ty : TyShape) (m : TraitMeta) (a : DefaultFieldAttr)
    (h : defaultFieldFromMeta false e ty m = .ok a) : a.flag = false := by
  unfold defaultFieldFromMeta at h
  cases hf : m.form with
  | path => simp only [hf] at h; exact absurd ⟨_, h⟩ (not_ok_identOrPanic _ _)
  | nv v =>
    simp only [hf] at h
    split at h
    · exact absurd ⟨_, h⟩ (not_ok_identOrPanic _ _)
    · cases h; rfl
  | list plain uns typed =>
    simp only [hf] at h
    cases plain with
    | none => cases h
    | some ps =>
      simp only at h
      refine runParams_invariant (fun st : DefaultFieldAttr => st.flag = false) m _ ?_ ps [] {} a rfl h
      intro s hs f st st' hp ha
      simp only [List.mem_singleton] at hs
      subst hs
      simp only at ha
      obtain ⟨v, _, ha⟩ := bind_ok_inv ha
      cases ha
      exact hp

/-- With marker and expression both switched off, the only Default attribute a field may carry is the empty list
    `Default()`, which says nothing; reading the field with the expression switched on then finds nothing either. -/
theorem defFieldFromMeta_off (ty : TyShape) (m : TraitMeta) (a : DefaultFieldAttr)
    (h : defaultFieldFromMeta false false ty m = .ok a) : a = {} ∧ defaultFieldFromMeta false true ty m = .ok {} := by
  unfold defaultFieldFromMeta at h ⊢
  cases hf : m.form with
  | path => simp only [hf] at h; exact absurd ⟨_, h⟩ (not_ok_identOrPanic _ _)
  | nv v => simp only [hf] at h; exact absurd ⟨_, h⟩ (not_ok_identOrPanic _ _)
  | list plain uns typed =>
    simp only [hf] at h ⊢
    cases plain with
    | none => cases h
    | some ps =>
      simp only at h ⊢
      obtain ⟨hps, ha⟩ := runParams_all_disabled m _ (by intro s hs; simp only [List.mem_singleton] at hs; subst hs; rfl) ps [] {} a h
      subst hps
      exact ⟨ha, rfl⟩

theorem defFieldAttr_noflag (c : Ctx) (e : Bool) (f : Field) (a : DefaultFieldAttr) (h : defFieldAttr c false e f = .ok a) :
    a.flag = false := by
  rcases fromAttrs_ok_cases _ _ _ _ _ _ _ h with e1 | ⟨m, hm⟩
  · rw [e1]
  · exact defFieldFromMeta_noflag e f.shape m a hm

theorem defFieldAttr_off (c : Ctx) (f : Field) (a : DefaultFieldAttr) (h : defFieldAttr c false false f = .ok a) :
    a = {} ∧ defFieldAttr c false true f = .ok {} := by
  have ha : a = {} := by
    rcases fromAttrs_ok_cases _ _ _ _ _ _ _ h with e1 | ⟨m, hm⟩
    · exact e1
    · exact (defFieldFromMeta_off f.shape m a hm).1
  subst ha
  refine ⟨rfl, ?_⟩
  exact fromAttrs_builder_imp _ _ _ _ _ (fun m a hm => by
    obtain ⟨e1, e2⟩ := defFieldFromMeta_off f.shape m a hm
    rw [e1]; exact e2) _ _ _ h

/-- A field the handler found free of Default attributes contributes a plain field to the configuration. -/
theorem defFieldOf_plain (c : Ctx) (enum : String × Bool → Nat) (f : Field) (a : DefaultFieldAttr)
    (h : defFieldAttr c false false f = .ok a) : Gen.Default.hasAttr (defFieldOf c enum f) = false := by
  simp [defFieldOf, (defFieldAttr_off c f a h).2, defField, Gen.Default.hasAttr]

theorem defFieldOf_noflag (c : Ctx) (enum : String × Bool → Nat) (f : Field) : (defFieldOf c enum f).flag = false := by
  unfold defFieldOf
  cases h : defFieldAttr c false true f with
  | ok a => simp [defField, defFieldAttr_noflag c true f a h]
  | diag e => rfl
  | panic s => rfl

def offTypeFlags : DefaultTypeFlags := { flag := false, new := false, expression := false, bound := false }
def flagTypeFlags : DefaultTypeFlags := { flag := true, new := false, expression := false, bound := false }

theorem defTypeFromMeta_off (m : TraitMeta) (a : DefaultTypeAttr) (h : defaultTypeFromMeta offTypeFlags m = .ok a) :
    a = {} ∧ defaultTypeFromMeta flagTypeFlags m = .ok {} := by
  unfold defaultTypeFromMeta at h ⊢
  cases hf : m.form with
  | path => simp only [hf, offTypeFlags] at h; exact absurd ⟨_, h⟩ (not_ok_identOrPanic _ _)
  | nv v => simp only [hf] at h; exact absurd ⟨_, h⟩ (not_ok_identOrPanic _ _)
  | list plain uns typed =>
    simp only [hf] at h ⊢
    cases plain with
    | none => cases h
    | some ps =>
      simp only at h ⊢
      have hoff : ∀ s ∈ defaultTypeSpecs offTypeFlags, s.enabled = false := by
        intro s hs
        simp only [defaultTypeSpecs, boundSpec, offTypeFlags, List.mem_cons, List.mem_nil_iff, or_false] at hs
        rcases hs with rfl | rfl | rfl <;> rfl
      obtain ⟨hps, ha⟩ := runParams_all_disabled m _ hoff ps [] {} a h
      subst hps
      exact ⟨ha, rfl⟩

theorem defVariantAttr_off (c : Ctx) (v : Variant) (a : DefaultTypeAttr) (h : defVariantAttr c false v = .ok a) :
    defVariantAttr c true v = .ok {} := by
  have ha : a = {} := by
    rcases fromAttrs_ok_cases _ _ _ _ _ _ _ h with e1 | ⟨m, hm⟩
    · exact e1
    · exact (defTypeFromMeta_off m a hm).1
  subst ha
  exact fromAttrs_builder_imp _ _ _ _ _ (fun m a hm => by
    obtain ⟨e1, e2⟩ := defTypeFromMeta_off m a hm
    rw [e1]; exact e2) _ _ _ h

/-! ### the handler's designation and the behavioural generator's -/

/-- `fieldAttr` / `variantAttr` of `defaultHandler`, by name. -/
def defFA (c : Ctx) (flag expr : Bool) (f : Field) : Res (Field × DefaultFieldAttr) := do
  let a ← defFieldAttr c flag expr f
  pure (f, a)

theorem defFA_scan_off (c : Ctx) (enum : String × Bool → Nat) (fs : List Field) (r : List (Field × DefaultFieldAttr))
    (h : mapRes (defFA c false false) fs = .ok r) : (fs.map (defFieldOf c enum)).any Gen.Default.hasAttr = false := by
  have h2 := mapRes_ok_forall _ _ _ h
  rw [List.any_eq_false]
  intro x hx
  obtain ⟨f, hf, rfl⟩ := List.mem_map.mp hx
  obtain ⟨k, hk⟩ := List.getElem?_of_mem hf
  have hl : k < r.length := by
    rw [mapRes_length _ _ _ h]; exact (List.getElem?_eq_some_iff.mp hk).1
  obtain ⟨f', hf', hxy⟩ := forall2_getElem h2 k _ (List.getElem?_eq_getElem hl)
  rw [hk] at hf'; cases hf'
  obtain ⟨a, ha, _⟩ := bind_ok_inv hxy
  simp [defFieldOf_plain c enum f a ha]

theorem defFields_noflag (c : Ctx) (enum : String × Bool → Nat) (fs : List Field) :
    (fs.map (defFieldOf c enum)).any (·.flag) = false := by
  rw [List.any_eq_false]
  intro x hx
  obtain ⟨f, _, rfl⟩ := List.mem_map.mp hx
  simp [defFieldOf_noflag]

/-- The handler's loop over the variants of an enum and the behavioural generator's `variantLoop`, run on the flags and
    field attributes read from the same tokens, are the same loop. -/
theorem defaultVariantLoop_variantLoop (c : Ctx) (enum : String × Bool → Nat) :
    ∀ (vs : List Variant) (i : Nat) (acc r : Option (Nat × Variant)),
      defaultVariantLoop (defFA c) (defVariantAttr c) i vs acc = .ok r →
      Gen.Default.variantLoop i (vs.map (defVariantOf c enum)) (acc.map Prod.fst) = .ok (r.map Prod.fst) ∧
      (∀ j v, r = some (j, v) → acc = some (j, v) ∨ (i ≤ j ∧ vs[j - i]? = some v)) := by
  intro vs
  induction vs with
  | nil =>
    intro i acc r h
    simp only [defaultVariantLoop] at h
    cases h
    exact ⟨rfl, fun j v hr => Or.inl hr⟩
  | cons v rest ih =>
    intro i acc r h
    simp only [defaultVariantLoop] at h
    obtain ⟨va, hva, h⟩ := bind_ok_inv h
    have hflag : (defVariantOf c enum v).flag = va.flag := by simp [defVariantOf, hva]
    simp only [List.map_cons, Gen.Default.variantLoop, hflag]
    cases hf : va.flag with
    | true =>
      simp only [hf, if_true] at h ⊢
      cases acc with
      | some a => cases h
      | none =>
        simp only at h
        obtain ⟨h1, h2⟩ := ih (i + 1) (some (i, v)) r h
        refine ⟨by simpa using h1, ?_⟩
        intro j w hr
        rcases h2 j w hr with ha | ⟨hle, hget⟩
        · cases ha
          exact Or.inr ⟨Nat.le_refl _, by simp⟩
        · refine Or.inr ⟨by omega, ?_⟩
          have : j - i = (j - (i + 1)) + 1 := by omega
          rw [this]; simpa using hget
    | false =>
      simp only [hf, Bool.false_eq_true, if_false] at h ⊢
      obtain ⟨fr, hfr, h⟩ := bind_ok_inv h
      have hplain : (defVariantOf c enum v).fields.any Gen.Default.hasAttr = false := defFA_scan_off c enum v.fields fr hfr
      simp only [hplain, Bool.false_eq_true, if_false]
      obtain ⟨h1, h2⟩ := ih (i + 1) acc r h
      refine ⟨h1, ?_⟩
      intro j w hr
      rcases h2 j w hr with ha | ⟨hle, hget⟩
      · exact Or.inl ha
      · refine Or.inr ⟨by omega, ?_⟩
        have : j - i = (j - (i + 1)) + 1 := by omega
        rw [this]; simpa using hget

theorem default_items (it0 nw : Item) (hn : it0.trait = "Default") (hw : nw.trait = "new") (b : Bool) (its : List Item)
    (h : (pure ([it0] ++ if b then [nw] else []) : Res (List Item)) = .ok its) :
    (∃ it ∈ its, it.trait = "Default") ∧ ((∃ it ∈ its, it.trait = "new") ↔ b = true) := by
  simp only [pure] at h
  cases h
  refine ⟨⟨it0, by simp, hn⟩, ?_⟩
  cases b with
  | true => exact ⟨fun _ => rfl, fun _ => ⟨nw, by simp, hw⟩⟩
  | false =>
    simp only [Bool.false_eq_true, if_false, List.append_nil, List.mem_singleton]
    constructor
    · rintro ⟨it, rfl, ht⟩
      rw [hn] at ht
      exact absurd ht (by decide)
    · intro hf; cases hf

/-- The conclusion of the Default end-to-end theorem. -/
def DefaultEndToEnd (c : Ctx) (m : TraitMeta) (items : List Item) : Prop :=
    ∃ ta, defaultTypeFromMeta { flag := true, new := true, expression := true, bound := true } m = .ok ta ∧
      (∃ it ∈ items, it.trait = "Default") ∧ ((∃ it ∈ items, it.trait = "new") ↔ ta.new = true) ∧
      ∀ (enum : String × Bool → Nat),
        ∃ bd, Gen.Default.body { typeExpr := ta.expression.map enum, new := ta.new } (defType c enum) = .ok bd ∧
          ∀ {V : Type} (ops : DefOps V),
            Spec.default ops { typeExpr := ta.expression.map enum, new := ta.new } (defType c enum) = some (Sem.evalDefault ops bd)

/-- **C08 end to end (structs and enums).** The Default handler accepted. Then the type-level attribute gave `ta`
    (expression, `new`), a `Default` item is emitted (and `new` exactly when requested), and — for every numbering of the
    default expressions — the behavioural generator, run on the configuration read from the same tokens (every variant's
    marker from its own attributes, every field's expression from its own attributes), produces the body, and `T::default()`
    is the value of the reference semantics: the type-level expression if given, else the struct / the marked-or-only
    variant with every field set to its own expression or to its type's default. -/
theorem default_handler_end_to_end (c : Ctx) (m : TraitMeta) (items : List Item) (hwf : InputWF c.d)
    (hk : c.d.kind ≠ .union) (h : defaultHandler c m = .ok items) : DefaultEndToEnd c m items := by
  unfold defaultHandler at h
  obtain ⟨ta, hta, h⟩ := bind_ok_inv h
  dsimp only at h
  have fin : ∀ (its : List Item), ((∃ it ∈ its, it.trait = "Default") ∧ ((∃ it ∈ its, it.trait = "new") ↔ ta.new = true)) →
      (∀ (enum : String × Bool → Nat),
        ∃ bd, Gen.Default.body { typeExpr := ta.expression.map enum, new := ta.new } (defType c enum) = .ok bd) →
      its = items → DefaultEndToEnd c m items := by
    intro its hi hb he
    subst he
    refine ⟨ta, hta, hi.1, hi.2, ?_⟩
    intro enum
    obtain ⟨bd, hbd⟩ := hb enum
    exact ⟨bd, hbd, fun ops => default_correct ops _ _ bd hbd⟩
  cases hexpr : ta.expression with
  | some e =>
    simp only [hexpr] at h
    obtain ⟨sr, hscan, h⟩ := bind_ok_inv h
    refine fin items (default_items _ _ rfl rfl _ _ h) ?_ rfl
    intro enum
    have h2 := mapRes_ok_forall _ _ _ hscan
    -- every variant: marker switched off was accepted, and every field was free of Default attributes
    have hvar : ∀ v ∈ c.d.variants, (c.d.kind = .enum → ∃ a, defVariantAttr c false v = .ok a) ∧
        ∃ r, mapRes (defFA c false false) v.fields = .ok r := by
      intro v hv
      obtain ⟨k, hkv⟩ := List.getElem?_of_mem hv
      have hl : k < sr.length := by
        rw [mapRes_length _ _ _ hscan]; exact (List.getElem?_eq_some_iff.mp hkv).1
      obtain ⟨x, hx, hxy⟩ := forall2_getElem h2 k _ (List.getElem?_eq_getElem hl)
      rw [hkv] at hx; cases hx
      split at hxy
      · rename_i hen
        obtain ⟨a, ha, hxy⟩ := bind_ok_inv hxy
        obtain ⟨r, hr, _⟩ := bind_ok_inv hxy
        exact ⟨fun _ => ⟨a, ha⟩, r, hr⟩
      · rename_i hen
        obtain ⟨r, hr, _⟩ := bind_ok_inv hxy
        refine ⟨fun he => ?_, r, hr⟩
        rw [he] at hen; exact absurd rfl hen
    simp only [hexpr, Option.map_some, defType]
    cases hkind : c.d.kind with
    | union => exact absurd hkind hk
    | struct =>
      obtain ⟨v, hv⟩ := hwf.2 (by simp [hkind])
      obtain ⟨_, r, hr⟩ := hvar v (by simp [hv])
      simp only [hv, List.headD_cons, Gen.Default.body]
      have : (defVariantOf c enum v).fields.any Gen.Default.hasAttr = false := defFA_scan_off c enum v.fields r hr
      simp only [this, Bool.false_eq_true, if_false]
      exact ⟨_, rfl⟩
    | enum =>
      simp only [Gen.Default.body]
      have : ((c.d.variants.map (defVariantOf c enum)).any fun v => v.flag || v.fields.any Gen.Default.hasAttr) = false := by
        rw [List.any_eq_false]
        intro w hw
        obtain ⟨v, hv, rfl⟩ := List.mem_map.mp hw
        obtain ⟨ha, r, hr⟩ := hvar v hv
        obtain ⟨a, ha⟩ := ha hkind
        have hfl : (defVariantOf c enum v).flag = false := by simp [defVariantOf, defVariantAttr_off c v a ha]
        have hfs : (defVariantOf c enum v).fields.any Gen.Default.hasAttr = false := defFA_scan_off c enum v.fields r hr
        simp [hfl, hfs]
      simp only [this, Bool.false_eq_true, if_false]
      exact ⟨_, rfl⟩
  | none =>
    simp only [hexpr] at h
    cases hkind : c.d.kind with
    | union => exact absurd hkind hk
    | struct =>
      simp only [hkind] at h
      obtain ⟨fas, _, h⟩ := bind_ok_inv h
      refine fin items (default_items _ _ rfl rfl _ _ h) ?_ rfl
      intro enum
      obtain ⟨v, hv⟩ := hwf.2 (by simp [hkind])
      simp only [hexpr, Option.map_none, defType, hkind, hv, List.headD_cons, Gen.Default.body]
      have : (defVariantOf c enum v).fields.any (·.flag) = false := defFields_noflag c enum v.fields
      simp only [this, Bool.false_eq_true, if_false]
      exact ⟨_, rfl⟩
    | enum =>
      simp only [hkind] at h
      obtain ⟨q, hq, h⟩ := bind_ok_inv h
      obtain ⟨k, v, fas⟩ := q
      refine fin items (default_items _ _ rfl rfl _ _ h) ?_ rfl
      intro enum
      simp only [hexpr, Option.map_none, defType, hkind, Gen.Default.body]
      unfold defaultPickVariant at hq
      split at hq
      · rename_i v0 hv0
        rw [hv0]
        obtain ⟨_, _, hq⟩ := bind_ok_inv hq
        obtain ⟨fr, _, hq⟩ := bind_ok_inv hq
        have : (defVariantOf c enum v0).fields.any (·.flag) = false := defFields_noflag c enum v0.fields
        simp only [List.map_cons, List.map_nil, this, Bool.false_eq_true, if_false]
        exact ⟨_, rfl⟩
      · rename_i hns
        obtain ⟨r, hr, hq⟩ := bind_ok_inv hq
        cases r with
        | none => cases hq
        | some kv =>
          obtain ⟨k', v'⟩ := kv
          simp only at hq
          obtain ⟨fr, _, hq⟩ := bind_ok_inv hq
          cases hq
          obtain ⟨h1, h2⟩ := defaultVariantLoop_variantLoop c enum c.d.variants 0 none (some (k, v)) hr
          have hget : c.d.variants[k]? = some v := by
            rcases h2 k v rfl with ha | ⟨_, hg⟩
            · cases ha
            · simpa using hg
          have hnot : ∀ w, c.d.variants.map (defVariantOf c enum) ≠ [w] := by
            intro w hw
            match hvs : c.d.variants, hw with
            | [x], _ => exact hns x hvs
          split
          · rename_i w hw
            exact absurd hw (hnot w)
          · simp only [Option.map_none, Option.map_some] at h1
            rw [h1]
            simp only [List.getElem?_map, hget, Option.map_some]
            have : (defVariantOf c enum v).fields.any (·.flag) = false := defFields_noflag c enum v.fields
            simp only [this, Bool.false_eq_true, if_false]
            exact ⟨_, rfl⟩

/-! ## C20 — unions, end to end -/

/-- The flags of the type-level Debug builder on a union. -/
def dbgUnionFlags : DebugTypeFlags :=
  { flag := true, unsafe_ := true, name := true, namedField := false, bound := false, nameDefault := .default, namedFieldDefault := false }

/-- **C20 end to end, Debug.** The Debug handler accepted a union: then the attribute carried the `unsafe` marker (as
    its first parameter — that is what `hasUnsafe` of the attribute's reading records), no field carries a Debug attribute,
    and the generated `fmt` lists the value's bytes under the effective name, or bare when the name is disabled, exactly as
    core::fmt renders a one-field tuple / a byte slice. -/
theorem debug_union_end_to_end (c : Ctx) (m : TraitMeta) (items : List Item) (hk : c.d.kind = .union)
    (h : debugHandler c m = .ok items) :
    ∃ ta, debugTypeFromMeta dbgUnionFlags m = .ok ta ∧ ta.hasUnsafe = true ∧
      items = [{ trait := "Debug", preds := [], head := ["union", showName ta.name] }] ∧
      ∃ bd, Gen.Union.debug (identOf c.d.name) { hasUnsafe := ta.hasUnsafe, name := ta.name } = .ok bd ∧
        ∀ (bytes : List Nat) (alt : Bool),
          Sem.evalUnionDebug bd bytes alt =
            match Spec.effName ta.name (identOf c.d.name) with
            | some n => Fmt.debugTuple (String.ofList n) [Sem.bytesDebug bytes] alt
            | none => Sem.bytesDebug bytes alt := by
  unfold debugHandler at h
  simp only [hk] at h
  obtain ⟨ta, hta, h⟩ := bind_ok_inv h
  split at h
  · cases h
  · rename_i hu
    obtain ⟨_, _, h⟩ := bind_ok_inv h
    simp only [pure] at h
    cases h
    have hus : ta.hasUnsafe = true := by simpa using hu
    refine ⟨ta, hta, hus, rfl, ?_⟩
    cases hn : Spec.effName ta.name (identOf c.d.name) with
    | some n =>
      have := union_debug_named (identOf c.d.name) { hasUnsafe := ta.hasUnsafe, name := ta.name } n hus hn
      cases hd : Gen.Union.debug (identOf c.d.name) { hasUnsafe := ta.hasUnsafe, name := ta.name } with
      | error e => simp [Gen.Union.debug, hus] at hd; cases hx : ta.name.toIdent (identOf c.d.name) <;> simp [hx] at hd
      | ok bd =>
        refine ⟨bd, rfl, ?_⟩
        intro bytes alt
        have := this bytes alt
        simpa [hd, Except.toOption] using this
    | none =>
      have := union_debug_bare (identOf c.d.name) { hasUnsafe := ta.hasUnsafe, name := ta.name } hus hn
      cases hd : Gen.Union.debug (identOf c.d.name) { hasUnsafe := ta.hasUnsafe, name := ta.name } with
      | error e => simp [Gen.Union.debug, hus] at hd; cases hx : ta.name.toIdent (identOf c.d.name) <;> simp [hx] at hd
      | ok bd =>
        refine ⟨bd, rfl, ?_⟩
        intro bytes alt
        have := this bytes alt
        simpa [hd, Except.toOption] using this

/-- **C20 end to end, PartialEq / Hash.** The handler accepted a union: the attribute carried `unsafe`, no field carries
    an attribute of the trait, the item is the byte-wise one (no predicates), and the body is generated
    (`Gen.Union.bytewise`); its meaning — equality of the `size_of::<Self>()` bytes, one length-prefixed slice fed to the
    hasher — is `union_eq_bytewise` / `union_hash_shape` of Props/C20. -/
theorem eqLike_union_end_to_end (c : Ctx) (m : TraitMeta) (me : TraitId) (mine : TraitId → Bool) (tp : String)
    (comp : Option (TraitId × String)) (items : List Item) (hk : c.d.kind = .union)
    (h : eqLikeHandler c m me mine tp comp = .ok items) :
    ∃ ta, boundTypeFromMeta { flag := true, unsafe_ := true, bound := false } m = .ok ta ∧ ta.hasUnsafe = true ∧
      items = withCompanion { trait := me.name, preds := [], head := ["union"] } comp c.traits ∧
      Gen.Union.bytewise { hasUnsafe := ta.hasUnsafe } = .ok () := by
  unfold eqLikeHandler at h
  simp only [hk] at h
  obtain ⟨ta, hta, h⟩ := bind_ok_inv h
  split at h
  · cases h
  · rename_i hu
    obtain ⟨_, _, h⟩ := bind_ok_inv h
    simp only [pure] at h
    cases h
    have hus : ta.hasUnsafe = true := by simpa using hu
    exact ⟨ta, hta, hus, rfl, by simp [Gen.Union.bytewise, hus]⟩

/-- Without the marker a union is refused by Debug, PartialEq and Hash alike (the converse of the two theorems above). -/
theorem union_without_unsafe_refused (c : Ctx) (m : TraitMeta) (hk : c.d.kind = .union) :
    (∀ ta, debugTypeFromMeta dbgUnionFlags m = .ok ta → ta.hasUnsafe = false → debugHandler c m = .diag .unionWithoutUnsafe) ∧
    (∀ me mine tp comp ta, boundTypeFromMeta { flag := true, unsafe_ := true, bound := false } m = .ok ta → ta.hasUnsafe = false →
      eqLikeHandler c m me mine tp comp = .diag .unionWithoutUnsafe) := by
  constructor
  · intro ta hta hu
    unfold debugHandler
    simp only [hk]
    have : debugTypeFromMeta { flag := true, unsafe_ := true, name := true, namedField := false, bound := false,
                               nameDefault := .default, namedFieldDefault := false } m = .ok ta := hta
    rw [this, ok_bind_eq]
    simp [hu]
  · intro me mine tp comp ta hta hu
    unfold eqLikeHandler
    simp only [hk]
    rw [hta, ok_bind_eq]
    simp [hu]

/-! ## the type helpers (`common/type.rs`, `into/common.rs::to_hash_type`) — C08, C09, C10

`Ty.ungroup`, `Ty.isRef`, `Ty.dereference`, `Ty.hashTy`, `Ty.shape` (Attr/Syntax.lean) model `ungroup`, `dereference_changed(..).1`,
`dereference`, `to_hash_type` and the view `auto_adjust_expr` takes of a field type. The driver computes every field's `hashTy`,
`isRef`, `derefTy`, `shape` and every Into target's normalised string with them from the type trees syn produced; the
correspondences compare the results with the real impl headers (`Into<..>` trait arguments and predicates, `Deref::Target`). -/

theorem ungroup_idem : ∀ t : Ty, t.ungroup.ungroup = t.ungroup
  | .mk .group _ (some c) => by simp only [Ty.ungroup]; exact ungroup_idem c
  | .mk .path _ _ | .mk .ref _ _ | .mk .array _ _ | .mk .other _ _ | .mk .group _ none => by simp [Ty.ungroup]

/-- **A macro fragment is what it contains.** Wrapping a type in an invisible group — the form in which a `$t:ty`
    fragment of a `macro_rules!` macro reaches the derive — changes none of the views the handlers take of it: whether it
    is a reference, what `auto_adjust_expr` sees (the repaired defect 3dc0dd9: `Default = 1` on a `$t = u16` field), and —
    for a reference — its fully dereferenced type. -/
theorem group_is_transparent (txt : String) (c : Ty) :
    (Ty.mk .group txt (some c)).isRef = c.isRef ∧ (Ty.mk .group txt (some c)).shape = c.shape ∧
    (c.isRef = true → (Ty.mk .group txt (some c)).dereference = c.dereference) := by
  refine ⟨by simp [Ty.isRef, Ty.ungroup], by simp [Ty.shape, Ty.ungroup], ?_⟩
  intro hr
  have hu : (Ty.mk .group txt (some c)).ungroup = c.ungroup := by simp [Ty.ungroup]
  unfold Ty.isRef at hr
  rw [Ty.dereference, Ty.dereference]
  split
  · rename_i t1 c1 h1
    rw [hu] at h1
    split
    · rename_i t2 c2 h2
      rw [h1] at h2
      cases h2; rfl
    · rename_i hne
      exact absurd h1 (hne _ _)
  · rename_i hne
    rw [hu] at hne
    split at hr
    · rename_i t2 c2 h2
      exact absurd h2 (hne _ _)
    · cases hr

/-- A type that is not a reference is its own dereference. -/
theorem dereference_of_not_ref (t : Ty) (h : t.isRef = false) : t.dereference = t := by
  unfold Ty.isRef at h
  rw [Ty.dereference]
  split
  · rename_i txt c hc
    rw [hc] at h
    cases h
  · rfl

/-- `dereference` never stops at a reference: what it returns is not a reference (looked at through groups). -/
theorem dereference_not_ref : ∀ (n : Nat) (t : Ty), t.size ≤ n → t.dereference.isRef = false := by
  intro n
  induction n with
  | zero =>
    intro t ht
    cases t with
    | mk k txt c => cases c <;> simp [Ty.size] at ht
  | succ n ih =>
    intro t ht
    rw [Ty.dereference]
    split
    · rename_i txt c hc
      apply ih
      have := Ty.ungroup_size_le t
      rw [hc] at this
      simp only [Ty.size] at this
      omega
    · rename_i hne
      unfold Ty.isRef
      split
      · rename_i txt c hc
        exact absurd hc (hne _ _)
      · rfl

/-- **The Into key forgets lifetimes.** Two reference types with the same fully dereferenced type have the same
    normalised string, whatever lifetimes (or how many reference layers) they were written with: the written `&'a str` and
    `&'static str` are one target — the root of the recorded known finding (C01, `Into(&'a T)`). -/
theorem hashTy_of_refs (t t' : Ty) (h : t.isRef = true) (h' : t'.isRef = true)
    (hd : t.dereference.text = t'.dereference.text) : t.hashTy = t'.hashTy := by
  simp [Ty.hashTy, h, h', hd]

/-- A type that is not a reference is its own key. -/
theorem hashTy_of_not_ref (t : Ty) (h : t.isRef = false) : t.hashTy = t.text := by
  simp [Ty.hashTy, h]

/-- The views stored in a field are those of its type tree. -/
theorem withTy_views (f : Field) (t : Ty) :
    (f.withTy t).hashTy = t.hashTy ∧ (f.withTy t).isRef = t.isRef ∧ (f.withTy t).derefTy = t.dereference.text ∧ (f.withTy t).shape = t.shape :=
  ⟨rfl, rfl, rfl, rfl⟩

/-! non-vacuity: `&'a $t` with `$t = &'b u16` — two reference layers, the inner one inside a macro fragment -/
def exTy : Ty := .mk .ref "& 'a & 'b u16" (some (.mk .group "& 'b u16" (some (.mk .ref "& 'b u16" (some (.mk .path "u16" none))))))
example : exTy.isRef = true := by decide
example : (Ty.mk .group "u16" (some (.mk .path "u16" none))).shape = .path "u16" := by decide

/-! ## Non-vacuity: a concrete definition, as syn's records, through the whole chain

`#[educe(PartialEq)] enum E { A, B(u8, #[educe(PartialEq(ignore))] u8), C { x: u8, #[educe(PartialEq(method(m)))] y: u8 } }` -/

def exIgnore : Param := { ident := some "ignore", form := .path }
def exMethod : Param := { ident := some "method", form := .list { tok := .ident "m", text := "m" } }
def exAttr (ps : List Param) : Attribute :=
  { isEduce := true, isList := true, metas := some [{ ident := some "PartialEq", form := .list (some ps) none none }] }
def exInput : DeriveInput :=
  { name := "E", kind := .enum,
    attrs := [{ isEduce := true, isList := true, metas := some [{ ident := some "PartialEq" }] }],
    variants := [ { name := "A", shape := .unit },
                  { name := "B", shape := .tuple, fields := [ { ty := "u8" }, { ty := "u8", attrs := [exAttr [exIgnore]] } ] },
                  { name := "C", shape := .named, fields := [ { name := some "x", ty := "u8" }, { name := some "y", ty := "u8", attrs := [exAttr [exMethod]] } ] } ] }

def exCtx : Ctx := ctxOf TraitId.all [(.partialEq, [{ ident := some "PartialEq" }])] exInput

example : InputWF exInput := by
  refine ⟨?_, fun h => absurd rfl h⟩
  intro v hv
  simp [exInput] at hv
  rcases hv with rfl | rfl | rfl <;> simp [VariantWF, fname]

/-- the type-level attributes are collected into the map `exCtx` is built from -/
example : (match collectTopAttrs TraitId.all exInput.attrs [] with
           | .ok m => m == [(.partialEq, [{ ident := some "PartialEq" }])]
           | _ => false) = true := by decide

/-- `expand` accepts and emits the PartialEq item -/
example : (match expand TraitId.all exInput with
           | .ok [it] => it.trait == "PartialEq"
           | _ => false) = true := by decide

/-- the scan reads `ignore` at B.1 and `method(m)` at C.y -/
example : (match cmpScan exCtx (mineEq exCtx) eqFlags with
           | .ok vs => vs.map (fun p => p.2.map (fun q => (q.2.ignore, q.2.method))) == [[], [(false, none), (true, none)], [(false, none), (false, some "m")]]
           | _ => false) = true := by decide

def exOpsE : EqOps Nat := { ne := fun _ x y => x != y, method := fun _ x y => x + 1 == y }
def exEval (a b : Val Nat) : Option Bool :=
  match cmpScan exCtx (mineEq exCtx) eqFlags with
  | .ok vs => let t := eqType (fun _ => 0) .enum vs; Sem.evalEq exOpsE t (Gen.PartialEq.body t) a b
  | _ => none

example : exEval ⟨1, [3, 4]⟩ ⟨1, [3, 9]⟩ = some true := by decide      -- only the ignored field differs
example : exEval ⟨1, [3, 4]⟩ ⟨1, [2, 4]⟩ = some false := by decide
example : exEval ⟨2, [3, 4]⟩ ⟨2, [3, 5]⟩ = some true := by decide      -- `y` through the method `a + 1 == b`
example : exEval ⟨2, [3, 4]⟩ ⟨2, [3, 4]⟩ = some false := by decide
example : exEval ⟨0, []⟩ ⟨2, [3, 4]⟩ = some false := by decide

end Educe.Bridge
