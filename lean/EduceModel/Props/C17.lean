import EduceModel.Expand
import EduceModel.Generated.PanicSites
/-
  C17 — the macro is total: it never panics, aborts or hangs.

  Termination: every function of the model is structurally recursive (accepted by Lean without
  `partial`/fuel), mirroring the code, whose only recursion (`dereference`) is on the reference depth
  of a type syn has already parsed.

  No panic: the model has an explicit `panic` outcome at every place where the code has a
  panic-capable expression whose safety depends on the *input* (`get_ident().unwrap()`, `meta[0]`);
  the theorems below show these branches are unreachable, for all oracle records — a superset of
  what real token streams produce. Panic-capable expressions whose safety is input-independent
  (`parse2(quote!(const template)).unwrap()`, `field.ident.unwrap()` inside `Fields::Named`, …)
  are pinned by the regenerated site table.
-/
namespace Educe.Attr

def NoPanic {α : Type} (r : Res α) : Prop := r.isPanic = false

@[simp] theorem noPanic_ok {α : Type} (a : α) : NoPanic (Res.ok a) := rfl
@[simp] theorem noPanic_diag {α : Type} (d : Diag) : NoPanic (Res.diag d : Res α) := rfl
@[simp] theorem noPanic_pure {α : Type} (a : α) : NoPanic (pure a : Res α) := rfl

theorem noPanic_bind {α β : Type} (r : Res α) (f : α → Res β) (hr : NoPanic r) (hf : ∀ a, NoPanic (f a)) :
    NoPanic (r >>= f) := by
  cases r with
  | ok a => exact hf a
  | diag d => rfl
  | panic s => exact absurd hr (by simp [NoPanic, Res.isPanic])

/-- `get_ident().unwrap()` is safe on every meta whose path resolved to a trait. -/
theorem identOrPanic_noPanic {α : Type} (m : TraitMeta) (d : Diag) (h : m.ident.isSome = true) :
    NoPanic (identOrPanic m d : Res α) := by
  unfold identOrPanic
  cases hm : m.ident with
  | none => rw [hm] at h; cases h
  | some _ => rfl

theorem traitOf_some_ident (F : Features) (m : TraitMeta) (t : TraitId) (h : traitOf F m = some t) :
    m.ident.isSome = true := by
  unfold traitOf at h
  cases hm : m.ident with
  | none => rw [hm] at h; cases h
  | some _ => rfl

/-! ### value helpers never panic -/

theorem nv2Bool_noPanic (v : Val) : NoPanic (nv2Bool v) := by
  unfold nv2Bool; split <;> simp
theorem nv2Ident_noPanic (v : Val) : NoPanic (nv2Ident v) := by
  unfold nv2Ident; split <;> (try split) <;> simp
theorem strIdentOrBool_noPanic (s : StrInfo) : NoPanic (strIdentOrBool s) := by
  unfold strIdentOrBool; split <;> (try split) <;> simp
theorem nv2IdentOrBool_noPanic (v : Val) : NoPanic (nv2IdentOrBool v) := by
  unfold nv2IdentOrBool; split <;> simp [strIdentOrBool_noPanic]
theorem nv2Isize_noPanic (v : Val) : NoPanic (nv2Isize v) := by
  unfold nv2Isize; split <;> (try split) <;> simp
theorem nv2Path_noPanic (v : Val) : NoPanic (nv2Path v) := by
  unfold nv2Path; split <;> (try split) <;> simp
theorem litBound_noPanic (l : LitV) : NoPanic (litBound l) := by
  unfold litBound; split <;> (try split) <;> (try split) <;> simp
theorem nv2Bound_noPanic (v : Val) : NoPanic (nv2Bound v) := by
  unfold nv2Bound; split <;> simp [litBound_noPanic]

theorem meta2Bool_noPanic (f : Form) : NoPanic (meta2Bool f) := by
  unfold meta2Bool; split <;> (try split) <;> simp [nv2Bool_noPanic]
theorem meta2BoolAllowPath_noPanic (f : Form) : NoPanic (meta2BoolAllowPath f) := by
  unfold meta2BoolAllowPath; split <;> simp [meta2Bool_noPanic]
theorem meta2Ident_noPanic (f : Form) : NoPanic (meta2Ident f) := by
  unfold meta2Ident; split <;> (try split) <;> (try split) <;> simp [nv2Ident_noPanic]
theorem meta2IdentOrBool_noPanic (f : Form) : NoPanic (meta2IdentOrBool f) := by
  unfold meta2IdentOrBool; split <;> (try split) <;> simp [nv2IdentOrBool_noPanic, strIdentOrBool_noPanic]
theorem meta2Isize_noPanic (f : Form) : NoPanic (meta2Isize f) := by
  unfold meta2Isize; split <;> (try split) <;> (try split) <;> simp [nv2Isize_noPanic]
theorem meta2Path_noPanic (f : Form) : NoPanic (meta2Path f) := by
  unfold meta2Path; split <;> (try split) <;> (try split) <;> simp [nv2Path_noPanic]
theorem meta2Expr_noPanic (f : Form) : NoPanic (meta2Expr f) := by
  unfold meta2Expr; split <;> (try split) <;> simp
theorem meta2Bound_noPanic (f : Form) : NoPanic (meta2Bound f) := by
  unfold meta2Bound; split <;> (try split) <;> simp [nv2Bound_noPanic, litBound_noPanic]

/-! ### the parameter loop and the attribute scan -/

theorem runParams_noPanic {σ : Type} (m : TraitMeta) (hm : m.ident.isSome = true) (specs : List (PSpec σ))
    (hspec : ∀ s ∈ specs, ∀ f st, NoPanic (s.apply f st)) :
    ∀ (ps : List Param) (seen : List String) (st : σ), NoPanic (runParams m specs ps seen st) := by
  intro ps
  induction ps with
  | nil => intro seen st; simp [runParams]
  | cons p ps ih =>
    intro seen st
    simp only [runParams]
    split
    · exact identOrPanic_noPanic m _ hm
    · split
      · exact identOrPanic_noPanic m _ hm
      · rename_i s hs
        split
        · exact identOrPanic_noPanic m _ hm
        · have hmem : s ∈ specs := by
            unfold findSpec at hs
            exact List.mem_of_find?_eq_some hs
          have hap := hspec s hmem p.form st
          split
          · simp
          · rename_i x hx; rw [hx] at hap; exact absurd hap (by simp [NoPanic, Res.isPanic])
          · split
            · simp
            · exact ih _ _

theorem scanMetas_noPanic {α : Type} (F : Features) (traits : TraitId → Bool) (mine : TraitId → Bool)
    (build : TraitMeta → Res α) (hb : ∀ m, m.ident.isSome = true → NoPanic (build m)) :
    ∀ (ms : List TraitMeta) (out : Option α), NoPanic (scanMetas F traits mine build ms out) := by
  intro ms
  induction ms with
  | nil => intro out; simp [scanMetas]
  | cons m ms ih =>
    intro out
    simp only [scanMetas]
    split
    · simp
    · rename_i t ht
      have hid := traitOf_some_ident F m t ht
      split
      · exact identOrPanic_noPanic m _ hid
      · split
        · split
          · exact identOrPanic_noPanic m _ hid
          · have := hb m hid
            split
            · exact ih _
            · simp
            · rename_i s hs; rw [hs] at this; exact absurd this (by simp [NoPanic, Res.isPanic])
        · exact ih _

theorem scanAttrs_noPanic {α : Type} (F : Features) (traits : TraitId → Bool) (mine : TraitId → Bool)
    (build : TraitMeta → Res α) (hb : ∀ m, m.ident.isSome = true → NoPanic (build m)) :
    ∀ (as : List Attribute) (out : Option α), NoPanic (scanAttrs F traits mine build as out) := by
  intro as
  induction as with
  | nil => intro out; simp [scanAttrs]
  | cons a as ih =>
    intro out
    simp only [scanAttrs]
    split
    · split
      · simp
      · rename_i ms _
        have := scanMetas_noPanic F traits mine build hb ms out
        split
        · exact ih _
        · simp
        · rename_i s hs; rw [hs] at this; exact absurd this (by simp [NoPanic, Res.isPanic])
    · exact ih _

theorem fromAttrs_noPanic {α : Type} (F : Features) (traits : TraitId → Bool) (mine : TraitId → Bool)
    (build : TraitMeta → Res α) (hb : ∀ m, m.ident.isSome = true → NoPanic (build m)) (dflt : α)
    (attrs : List Attribute) : NoPanic (fromAttrs F traits mine build dflt attrs) := by
  unfold fromAttrs
  have := scanAttrs_noPanic F traits mine build hb attrs none
  split
  · simp
  · simp
  · simp
  · rename_i s hs; rw [hs] at this; exact absurd this (by simp [NoPanic, Res.isPanic])

/-! ### the builders -/

theorem cmpFieldFromMeta_noPanic (fl : CmpFieldFlags) (m : TraitMeta) (hm : m.ident.isSome = true) :
    NoPanic (cmpFieldFromMeta fl m) := by
  unfold cmpFieldFromMeta
  split
  · exact identOrPanic_noPanic m _ hm
  · split
    · exact noPanic_bind _ _ (nv2Bool_noPanic _) (fun _ => by simp)
    · exact identOrPanic_noPanic m _ hm
  · simp
  · apply runParams_noPanic m hm
    intro s hs f st
    simp only [cmpFieldSpecs, List.mem_cons, List.mem_nil_iff, or_false] at hs
    rcases hs with rfl | rfl | rfl
    · exact noPanic_bind _ _ (meta2BoolAllowPath_noPanic f) (fun _ => by simp)
    · exact noPanic_bind _ _ (meta2Path_noPanic f) (fun _ => by simp)
    · exact noPanic_bind _ _ (meta2Isize_noPanic f) (fun _ => by simp)

theorem boundSpec_noPanic {σ : Type} (en : Bool) (set : Bound → σ → σ) (f : Form) (st : σ) :
    NoPanic ((boundSpec en set).apply f st) :=
  noPanic_bind _ _ (meta2Bound_noPanic f) (fun _ => by simp)

theorem boundTypeFromMeta_noPanic (fl : BoundTypeFlags) (m : TraitMeta) (hm : m.ident.isSome = true) :
    NoPanic (boundTypeFromMeta fl m) := by
  unfold boundTypeFromMeta
  split
  · split
    · simp
    · exact identOrPanic_noPanic m _ hm
  · exact identOrPanic_noPanic m _ hm
  · split
    · split
      · simp
      · apply runParams_noPanic m hm
        intro s hs f st
        simp only [List.mem_cons, List.mem_nil_iff, or_false] at hs
        subst hs; exact boundSpec_noPanic _ _ f st
    · split
      · simp
      · apply runParams_noPanic m hm
        intro s hs f st
        simp only [List.mem_cons, List.mem_nil_iff, or_false] at hs
        subst hs; exact boundSpec_noPanic _ _ f st

theorem flagTypeFromMeta_noPanic (en : Bool) (m : TraitMeta) (hm : m.ident.isSome = true) :
    NoPanic (flagTypeFromMeta en m) := by
  unfold flagTypeFromMeta
  split
  · split
    · simp
    · exact identOrPanic_noPanic m _ hm
  · exact identOrPanic_noPanic m _ hm

theorem cloneFieldFromMeta_noPanic (en : Bool) (m : TraitMeta) (hm : m.ident.isSome = true) :
    NoPanic (cloneFieldFromMeta en m) := by
  unfold cloneFieldFromMeta
  split
  · exact identOrPanic_noPanic m _ hm
  · exact identOrPanic_noPanic m _ hm
  · simp
  · apply runParams_noPanic m hm
    intro s hs f st
    simp only [List.mem_cons, List.mem_nil_iff, or_false] at hs
    subst hs
    exact noPanic_bind _ _ (meta2Path_noPanic f) (fun _ => by simp)

theorem debugFieldFromMeta_noPanic (fl : DebugFieldFlags) (m : TraitMeta) (hm : m.ident.isSome = true) :
    NoPanic (debugFieldFromMeta fl m) := by
  unfold debugFieldFromMeta
  split
  · exact identOrPanic_noPanic m _ hm
  · split
    · split
      · apply noPanic_bind _ _ (nv2IdentOrBool_noPanic _)
        intro a; cases a <;> simp
      · exact noPanic_bind _ _ (nv2Ident_noPanic _) (fun _ => by simp)
    · split
      · exact noPanic_bind _ _ (nv2Bool_noPanic _) (fun _ => by simp)
      · exact identOrPanic_noPanic m _ hm
  · simp
  · apply runParams_noPanic m hm
    intro s hs f st
    simp only [debugFieldSpecs, List.mem_cons, List.mem_nil_iff, or_false] at hs
    rcases hs with rfl | rfl | rfl
    · exact noPanic_bind _ _ (meta2Ident_noPanic f) (fun _ => by simp)
    · exact noPanic_bind _ _ (meta2BoolAllowPath_noPanic f) (fun _ => by simp)
    · exact noPanic_bind _ _ (meta2Path_noPanic f) (fun _ => by simp)

theorem debugTypeSpecs_noPanic (fl : DebugTypeFlags) : ∀ s ∈ debugTypeSpecs fl, ∀ f st, NoPanic (s.apply f st) := by
  intro s hs f st
  simp only [debugTypeSpecs, List.mem_cons, List.mem_nil_iff, or_false] at hs
  rcases hs with rfl | rfl | rfl
  · exact noPanic_bind _ _ (meta2IdentOrBool_noPanic f) (fun _ => by simp)
  · exact noPanic_bind _ _ (meta2Bool_noPanic f) (fun _ => by simp)
  · exact boundSpec_noPanic _ _ f st

theorem debugTypeFromMeta_noPanic (fl : DebugTypeFlags) (m : TraitMeta) (hm : m.ident.isSome = true) :
    NoPanic (debugTypeFromMeta fl m) := by
  unfold debugTypeFromMeta
  simp only
  split
  · split
    · simp
    · exact identOrPanic_noPanic m _ hm
  · split
    · exact identOrPanic_noPanic m _ hm
    · exact noPanic_bind _ _ (nv2Ident_noPanic _) (fun _ => by simp)
  · split
    · split
      · simp
      · exact runParams_noPanic m hm _ (debugTypeSpecs_noPanic fl) _ _ _
    · split
      · simp
      · exact runParams_noPanic m hm _ (debugTypeSpecs_noPanic fl) _ _ _

theorem defaultTypeFromMeta_noPanic (fl : DefaultTypeFlags) (m : TraitMeta) (hm : m.ident.isSome = true) :
    NoPanic (defaultTypeFromMeta fl m) := by
  unfold defaultTypeFromMeta
  split
  · split
    · simp
    · exact identOrPanic_noPanic m _ hm
  · exact identOrPanic_noPanic m _ hm
  · simp
  · apply runParams_noPanic m hm
    intro s hs f st
    simp only [defaultTypeSpecs, List.mem_cons, List.mem_nil_iff, or_false] at hs
    rcases hs with rfl | rfl | rfl
    · exact noPanic_bind _ _ (meta2BoolAllowPath_noPanic f) (fun _ => by simp)
    · exact noPanic_bind _ _ (meta2Expr_noPanic f) (fun _ => by simp)
    · exact boundSpec_noPanic _ _ f st

theorem defaultFieldFromMeta_noPanic (a b : Bool) (ty : TyShape) (m : TraitMeta) (hm : m.ident.isSome = true) :
    NoPanic (defaultFieldFromMeta a b ty m) := by
  unfold defaultFieldFromMeta
  split
  · split
    · simp
    · exact identOrPanic_noPanic m _ hm
  · split
    · exact identOrPanic_noPanic m _ hm
    · simp
  · simp
  · apply runParams_noPanic m hm
    intro s hs f st
    simp only [List.mem_cons, List.mem_nil_iff, or_false] at hs
    subst hs
    exact noPanic_bind _ _ (meta2Expr_noPanic f) (fun _ => by simp)

/-- Every meta that reaches the trait map resolved to a trait, hence is a single identifier:
    the `get_ident().unwrap()` calls of `lib.rs` and of every handler are safe. -/
theorem collectTop_idents (F : Features) : ∀ (ms : List TraitMeta) (acc r : List (TraitId × List TraitMeta)),
    (∀ p ∈ acc, ∀ m ∈ p.2, m.ident.isSome = true) → collectTop F ms acc = .ok r →
    ∀ p ∈ r, ∀ m ∈ p.2, m.ident.isSome = true := by
  intro ms
  induction ms with
  | nil => intro acc r hacc h; simp [collectTop] at h; cases h; exact hacc
  | cons m ms ih =>
    intro acc r hacc h
    simp only [collectTop] at h
    split at h
    · cases h
    · rename_i t ht
      have hid := traitOf_some_ident F m t ht
      split at h
      · split at h
        · refine ih _ r ?_ h
          intro p hp m' hm'
          rw [List.mem_map] at hp
          obtain ⟨q, hq, rfl⟩ := hp
          split at hm'
          · simp only [List.mem_append, List.mem_cons, List.mem_nil_iff, or_false] at hm'
            rcases hm' with hm' | rfl
            · exact hacc q hq m' hm'
            · exact hid
          · exact hacc q hq m' hm'
        · unfold identOrPanic at h; split at h <;> cases h
      · refine ih _ r ?_ h
        intro p hp m' hm'
        rw [List.mem_append] at hp
        rcases hp with hp | hp
        · exact hacc p hp m' hm'
        · simp at hp; subst hp; simp at hm'; subst hm'; exact hid

theorem collectTop_noPanic (F : Features) : ∀ (ms : List TraitMeta) (acc : List (TraitId × List TraitMeta)),
    NoPanic (collectTop F ms acc) := by
  intro ms
  induction ms with
  | nil => intro acc; simp [collectTop]
  | cons m ms ih =>
    intro acc
    simp only [collectTop]
    split
    · simp
    · rename_i t ht
      split
      · split
        · exact ih _
        · exact identOrPanic_noPanic m _ (traitOf_some_ident F m t ht)
      · exact ih _

theorem collectTopAttrs_noPanic (F : Features) : ∀ (as : List Attribute) (acc : List (TraitId × List TraitMeta)),
    NoPanic (collectTopAttrs F as acc) := by
  intro as
  induction as with
  | nil => intro acc; simp [collectTopAttrs]
  | cons a as ih =>
    intro acc
    simp only [collectTopAttrs]
    split
    · split
      · split
        · simp
        · rename_i ms _
          have := collectTop_noPanic F ms acc
          split
          · exact ih _
          · simp
          · rename_i s hs; rw [hs] at this; exact absurd this (by simp [NoPanic, Res.isPanic])
      · simp
    · exact ih _

/-- Every vector stored in the trait map is non-empty: `meta[0]` is safe. -/
theorem collectTop_nonempty (F : Features) : ∀ (ms : List TraitMeta) (acc r : List (TraitId × List TraitMeta)),
    (∀ p ∈ acc, p.2 ≠ []) → collectTop F ms acc = .ok r → ∀ p ∈ r, p.2 ≠ [] := by
  intro ms
  induction ms with
  | nil => intro acc r hacc h; simp [collectTop] at h; cases h; exact hacc
  | cons m ms ih =>
    intro acc r hacc h
    simp only [collectTop] at h
    split at h
    · cases h
    · split at h
      · split at h
        · refine ih _ r ?_ h
          intro p hp
          rw [List.mem_map] at hp
          obtain ⟨q, hq, rfl⟩ := hp
          split
          · simp
          · exact hacc q hq
        · unfold identOrPanic at h; split at h <;> cases h
      · refine ih _ r ?_ h
        intro p hp
        rw [List.mem_append] at hp
        rcases hp with hp | hp
        · exact hacc p hp
        · simp at hp; subst hp; simp

/-! ### the regenerated site table -/

/-- The panic-capable expressions of /repo/src, by shape. Shapes whose safety depends on the input
    are exactly the ones the model carries as explicit `panic` branches (`unwrap_get_ident`,
    `index_0`); `unwrap_parse_const` / `unwrap_field_ident` / `unwrap_first_field` are input-independent
    (constant templates; `Fields::Named`; `len() == 1`); `unwrap_parse_spliced` re-parses a printed
    user type / literal (syn round-trip, exercised by the malformed stream); `debug_assert` restates the
    dispatch; `macro_unreachable` in lib.rs is guarded by `_Nothing` never being produced. Any other
    shape, or a new site of a listed shape in an unlisted function, breaks this lemma. -/
def allowedShapes : List String :=
  ["unwrap_get_ident", "unwrap_parse_const", "unwrap_parse_spliced", "unwrap_field_ident", "unwrap_first_field",
   "index_0", "index_range", "debug_assert", "macro_unreachable", "insert_str"]

theorem panicSites_known_shapes :
    Generated.panicSites.all (fun s => allowedShapes.contains s.2.2.1) = true := by decide

/-- Input-dependent shapes outside the places the model covers: none. `index_0` occurs only in
    lib.rs (`meta[0]`), the default handlers (`variants[0]` / `fields[0]` after `len() == 1`) and the
    enum Deref handlers (`variants[0]` after the emptiness check); `macro_unreachable` only in
    lib.rs and `unwrap_parse_spliced` only in the five helpers listed. -/
def siteAllowedIn (shape : String) (file : String) : Bool :=
  if shape == "index_0" then
    ["lib.rs", "trait_handlers/default/default_enum.rs", "trait_handlers/default/default_union.rs",
     "trait_handlers/deref/deref_enum.rs", "trait_handlers/into/mod.rs", "trait_handlers/into/into_enum.rs"].contains file
  else if shape == "macro_unreachable" then file == "lib.rs"
  -- the Debug suggestion inserts after the 6 ASCII bytes `Debug(` / `Debug ` of a string of length > 7
  else if shape == "insert_str" then file == "trait_handlers/debug/panic.rs"
  else if shape == "index_range" then file == "panic.rs"
  else if shape == "unwrap_parse_spliced" then
    ["common/expr.rs", "common/tools/hash_type.rs", "common/where_predicates_bool.rs", "trait_handlers/into/common.rs",
     "trait_handlers/debug/debug_enum.rs", "trait_handlers/into/into_enum.rs", "trait_handlers/into/into_struct.rs"].contains file
  else true

theorem panicSites_placed :
    Generated.panicSites.all (fun s => siteAllowedIn s.2.2.1 s.1) = true := by decide

/-- Termination of the code itself: the only recursions in /repo/src are `dereference` calling itself
    once on the referent of a `Type::Reference`, and `ungroup` (added by the repair of the macro-fragment
    defect, `fix:` commit in /repo) calling itself once on the element of a `Type::Group` — both on a
    strictly smaller type that syn has already parsed - and `printable` (`common/tools/hash_type.rs`, added by the
    repair of the `Into(&'static $t)` panic), which calls itself on the content of a token group, a strictly smaller
    token stream; and there is no `loop` / `while`; every other iteration is a `for` over a finite collection. -/
theorem recursion_sites :
    Generated.selfCalls = [("common/tools/hash_type.rs", "printable"), ("common/type.rs", "ungroup"), ("common/type.rs", "dereference")]
      ∧ Generated.openLoops = [] := by decide

/-! ### the handlers and `derive_input_handler` as a whole

Every handler is a composition of the scanners and builders above; `np_step` walks such a
composition (binds, `mapRes`, branches) and closes every leaf with the matching lemma. -/

theorem noPanic_mapRes {α β : Type} (f : α → Res β) (l : List α) (h : ∀ x ∈ l, NoPanic (f x)) : NoPanic (mapRes f l) := by
  induction l with
  | nil => simp [mapRes]
  | cons x xs ih =>
    unfold mapRes
    have hx := h x (by simp)
    have ih' := ih (fun y hy => h y (by simp [hy]))
    split
    · split
      · simp
      · simp
      · rename_i s hs; rw [hs] at ih'; exact absurd ih' (by simp [NoPanic, Res.isPanic])
    · simp
    · rename_i s hs; rw [hs] at hx; exact absurd hx (by simp [NoPanic, Res.isPanic])

theorem noPanic_ite {α : Type} (c : Prop) [Decidable c] (a b : Res α) (ha : NoPanic a) (hb : NoPanic b) : NoPanic (if c then a else b) := by
  split <;> assumption

theorem collectMetas_noPanic (F : Features) (traits : TraitId → Bool) (t0 : TraitId) :
    ∀ (ms acc : List TraitMeta), NoPanic (collectMetas F traits t0 ms acc) := by
  intro ms
  induction ms with
  | nil => intro acc; simp [collectMetas]
  | cons m ms ih =>
    intro acc
    simp only [collectMetas]
    split
    · simp
    · rename_i t ht
      split
      · exact identOrPanic_noPanic m _ (traitOf_some_ident F m t ht)
      · exact ih _

theorem collectMetas_idents (F : Features) (traits : TraitId → Bool) (t0 : TraitId) :
    ∀ (ms acc r : List TraitMeta), (∀ m ∈ acc, m.ident.isSome = true) → collectMetas F traits t0 ms acc = .ok r →
      ∀ m ∈ r, m.ident.isSome = true := by
  intro ms
  induction ms with
  | nil => intro acc r hacc h; simp [collectMetas] at h; cases h; exact hacc
  | cons m ms ih =>
    intro acc r hacc h
    simp only [collectMetas] at h
    split at h
    · cases h
    · rename_i t ht
      split at h
      · unfold identOrPanic at h; split at h <;> cases h
      · refine ih _ r ?_ h
        intro x hx
        split at hx
        · rcases List.mem_append.mp hx with hx | hx
          · exact hacc x hx
          · simp at hx; rw [hx]; exact traitOf_some_ident F m t ht
        · exact hacc x hx

theorem collectAttrs_noPanic (F : Features) (traits : TraitId → Bool) (t0 : TraitId) :
    ∀ (as : List Attribute) (acc : List TraitMeta), NoPanic (collectAttrs F traits t0 as acc) := by
  intro as
  induction as with
  | nil => intro acc; simp [collectAttrs]
  | cons a as ih =>
    intro acc
    simp only [collectAttrs]
    split
    · split
      · simp
      · rename_i ms _
        have := collectMetas_noPanic F traits t0 ms acc
        split
        · exact ih _
        · simp
        · rename_i s hs; rw [hs] at this; exact absurd this (by simp [NoPanic, Res.isPanic])
    · exact ih _

theorem collectAttrs_idents (F : Features) (traits : TraitId → Bool) (t0 : TraitId) :
    ∀ (as : List Attribute) (acc r : List TraitMeta), (∀ m ∈ acc, m.ident.isSome = true) → collectAttrs F traits t0 as acc = .ok r →
      ∀ m ∈ r, m.ident.isSome = true := by
  intro as
  induction as with
  | nil => intro acc r hacc h; simp [collectAttrs] at h; cases h; exact hacc
  | cons a as ih =>
    intro acc r hacc h
    simp only [collectAttrs] at h
    split at h
    · split at h
      · cases h
      · rename_i ms _
        cases hc : collectMetas F traits t0 ms acc with
        | ok acc' => rw [hc] at h; exact ih acc' r (collectMetas_idents F traits t0 ms acc acc' hacc hc) h
        | diag d => rw [hc] at h; cases h
        | panic s => rw [hc] at h; cases h
    · exact ih acc r hacc h

theorem intoTypeFromMetas_noPanic (en : Bool) : ∀ (ms : List TraitMeta) (acc : List (String × Bound)),
    (∀ m ∈ ms, m.ident.isSome = true) → NoPanic (intoTypeFromMetas en ms acc) := by
  intro ms
  induction ms with
  | nil => intro acc _; simp [intoTypeFromMetas]
  | cons m ms ih =>
    intro acc hm
    have hmi := hm m (by simp)
    have ih' := fun acc => ih acc (fun x hx => hm x (by simp [hx]))
    simp only [intoTypeFromMetas]
    split
    · exact identOrPanic_noPanic m _ hmi
    · exact identOrPanic_noPanic m _ hmi
    · split
      · exact identOrPanic_noPanic m _ hmi
      · split
        · simp
        · rename_i ty ps _
          have := runParams_noPanic m hmi [boundSpec true fun b (_ : Bound) => b]
            (by intro s hs f st; simp at hs; subst hs; exact boundSpec_noPanic true _ f st) ps [] Bound.auto
          split
          · simp
          · rename_i s hs; rw [hs] at this; exact absurd this (by simp [NoPanic, Res.isPanic])
          · split
            · simp
            · exact ih' _

theorem intoFieldFromMetas_noPanic (en : Bool) : ∀ (ms : List TraitMeta) (acc : List (String × Option String)),
    (∀ m ∈ ms, m.ident.isSome = true) → NoPanic (intoFieldFromMetas en ms acc) := by
  intro ms
  induction ms with
  | nil => intro acc _; simp [intoFieldFromMetas]
  | cons m ms ih =>
    intro acc hm
    have hmi := hm m (by simp)
    have ih' := fun acc => ih acc (fun x hx => hm x (by simp [hx]))
    simp only [intoFieldFromMetas]
    split
    · exact identOrPanic_noPanic m _ hmi
    · exact identOrPanic_noPanic m _ hmi
    · split
      · exact identOrPanic_noPanic m _ hmi
      · split
        · simp
        · rename_i ty ps _
          have := runParams_noPanic m hmi [ { names := ["method"], key := "method", enabled := true, apply := fun f (_ : Option String) => do let v ← meta2Path f; pure (some v) } ]
            (by intro s hs f st; simp at hs; subst hs; exact noPanic_bind _ _ (meta2Path_noPanic f) (fun _ => by simp)) ps [] none
          split
          · simp
          · rename_i s hs; rw [hs] at this; exact absurd this (by simp [NoPanic, Res.isPanic])
          · split
            · simp
            · exact ih' _

theorem noFieldAttrFromMeta_noPanic (m : TraitMeta) (hm : m.ident.isSome = true) : NoPanic (noFieldAttrFromMeta m) :=
  identOrPanic_noPanic m _ hm

theorem notUnion_noPanic (m : TraitMeta) (hm : m.ident.isSome = true) : NoPanic (notUnion m) :=
  identOrPanic_noPanic m _ hm

macro "np_step" : tactic => `(tactic| first
  | exact noPanic_ok _ | exact noPanic_diag _ | exact noPanic_pure _
  | assumption
  | (apply identOrPanic_noPanic; assumption)
  | (apply notUnion_noPanic; assumption)
  | (apply boundTypeFromMeta_noPanic; assumption)
  | (apply cmpFieldFromMeta_noPanic; assumption)
  | (apply cloneFieldFromMeta_noPanic; assumption)
  | (apply debugFieldFromMeta_noPanic; assumption)
  | (apply debugTypeFromMeta_noPanic; assumption)
  | (apply defaultTypeFromMeta_noPanic; assumption)
  | (apply defaultFieldFromMeta_noPanic; assumption)
  | (apply flagTypeFromMeta_noPanic; assumption)
  | (apply noFieldAttrFromMeta_noPanic; assumption)
  | apply collectAttrs_noPanic
  | apply fromAttrs_noPanic
  | apply noPanic_bind
  | apply noPanic_mapRes
  | intro _
  | split
  | dsimp only)

theorem variantNoAttr_noPanic (c : Ctx) (mine : TraitId → Bool) (v : Variant) : NoPanic (variantNoAttr c mine v) := by
  unfold variantNoAttr
  repeat' np_step

theorem cloneHandler_noPanic (c : Ctx) (m : TraitMeta) (hm : m.ident.isSome = true) : NoPanic (cloneHandler c m) := by
  unfold cloneHandler
  repeat' (first | apply variantNoAttr_noPanic | np_step)

theorem eqLikeHandler_noPanic (c : Ctx) (m : TraitMeta) (me : TraitId) (mine : TraitId → Bool) (tp : String)
    (comp : Option (TraitId × String)) (hm : m.ident.isSome = true) : NoPanic (eqLikeHandler c m me mine tp comp) := by
  unfold eqLikeHandler
  repeat' (first | apply variantNoAttr_noPanic | np_step)

theorem markerHandler_noPanic (c : Ctx) (m : TraitMeta) (me p : TraitId) (b s : String) (w : Bool) (hm : m.ident.isSome = true) :
    NoPanic (markerHandler c m me p b s w) := by
  unfold markerHandler
  repeat' (first | apply variantNoAttr_noPanic | np_step)

theorem discriminantType_go_noPanic (ints : List String) : ∀ (as : List Attribute) (acc : Option String),
    NoPanic (discriminantType.go ints as acc) := by
  intro as
  induction as with
  | nil => intro acc; simp [discriminantType.go]
  | cons a as ih =>
    intro acc
    simp only [discriminantType.go]
    repeat' (first | apply ih | np_step)

theorem discriminantType_noPanic (d : DeriveInput) : NoPanic (discriminantType d) := by
  unfold discriminantType
  exact discriminantType_go_noPanic _ _ _

theorem ordLikeHandler_noPanic (c : Ctx) (m : TraitMeta) (me : TraitId) (mine : TraitId → Bool) (tp : String)
    (su : List String) (co : Bool) (hm : m.ident.isSome = true) : NoPanic (ordLikeHandler c m me mine tp su co) := by
  unfold ordLikeHandler
  repeat' (first | apply variantNoAttr_noPanic | apply discriminantType_noPanic | np_step)

theorem debugHandler_noPanic (c : Ctx) (m : TraitMeta) (hm : m.ident.isSome = true) : NoPanic (debugHandler c m) := by
  unfold debugHandler
  repeat' (first | apply variantNoAttr_noPanic | np_step)

theorem derefLoop_noPanic (g : Field → Res Bool) (hg : ∀ f, NoPanic (g f)) : ∀ (fs : List Field) (i : Nat) (acc : Option (Nat × Field)),
    NoPanic (derefLoop g i fs acc) := by
  intro fs
  induction fs with
  | nil => intro i acc; simp [derefLoop]
  | cons f fs ih =>
    intro i acc
    simp only [derefLoop]
    repeat' (first | apply ih | apply hg | np_step)

theorem derefPick_noPanic (g : Field → Res Bool) (hg : ∀ f, NoPanic (g f)) (fs : List Field) : NoPanic (derefPick g fs) := by
  unfold derefPick
  repeat' (first | apply derefLoop_noPanic | apply hg | np_step)

theorem derefHandler_noPanic (c : Ctx) (m : TraitMeta) (me : TraitId) (hm : m.ident.isSome = true) : NoPanic (derefHandler c m me) := by
  unfold derefHandler
  repeat' (first | apply derefPick_noPanic | np_step)

theorem defaultFieldLoop_noPanic (fa : Bool → Bool → Field → Res (Field × DefaultFieldAttr)) (hfa : ∀ a b f, NoPanic (fa a b f)) :
    ∀ (fs : List Field) (i : Nat) (acc : Option (Nat × Field × DefaultFieldAttr)), NoPanic (defaultFieldLoop fa i fs acc) := by
  intro fs
  induction fs with
  | nil => intro i acc; simp [defaultFieldLoop]
  | cons f fs ih =>
    intro i acc
    simp only [defaultFieldLoop]
    repeat' (first | apply ih | apply hfa | np_step)

theorem defaultVariantLoop_noPanic (fa : Bool → Bool → Field → Res (Field × DefaultFieldAttr)) (va : Bool → Variant → Res DefaultTypeAttr)
    (hfa : ∀ a b f, NoPanic (fa a b f)) (hva : ∀ a v, NoPanic (va a v)) :
    ∀ (vs : List Variant) (k : Nat) (acc : Option (Nat × Variant)), NoPanic (defaultVariantLoop fa va k vs acc) := by
  intro vs
  induction vs with
  | nil => intro k acc; simp [defaultVariantLoop]
  | cons v vs ih =>
    intro k acc
    simp only [defaultVariantLoop]
    repeat' (first | apply ih | apply hfa | apply hva | np_step)

theorem defaultPickVariant_noPanic (fa : Bool → Bool → Field → Res (Field × DefaultFieldAttr)) (va : Bool → Variant → Res DefaultTypeAttr)
    (hfa : ∀ a b f, NoPanic (fa a b f)) (hva : ∀ a v, NoPanic (va a v)) (vs : List Variant) : NoPanic (defaultPickVariant fa va vs) := by
  unfold defaultPickVariant
  repeat' (first | apply defaultVariantLoop_noPanic | apply hfa | apply hva | np_step)

theorem defaultPickField_noPanic (fa : Bool → Bool → Field → Res (Field × DefaultFieldAttr))
    (hfa : ∀ a b f, NoPanic (fa a b f)) (fs : List Field) : NoPanic (defaultPickField fa fs) := by
  unfold defaultPickField
  repeat' (first | apply defaultFieldLoop_noPanic | apply hfa | np_step)

theorem defaultHandler_noPanic (c : Ctx) (m : TraitMeta) (hm : m.ident.isSome = true) : NoPanic (defaultHandler c m) := by
  unfold defaultHandler
  repeat' (first | apply defaultPickVariant_noPanic | apply defaultPickField_noPanic | np_step)

theorem intoLoop_noPanic (t : String) : ∀ (fas : List (Field × List (String × Option String))) (i : Nat)
    (acc : Option (Nat × Field × Option String)), NoPanic (intoLoop t i fas acc) := by
  intro fas
  induction fas with
  | nil => intro i acc; simp [intoLoop]
  | cons x xs ih =>
    intro i acc
    obtain ⟨f, marks⟩ := x
    simp only [intoLoop]
    repeat' (first | apply ih | np_step)

theorem intoSelect_noPanic (t : String) (fas : List (Field × List (String × Option String))) : NoPanic (intoSelect t fas) := by
  unfold intoSelect
  split
  · exact noPanic_ok _
  · split
    · exact noPanic_diag _
    · rename_i hs
      exact absurd (show NoPanic (Res.panic _) from hs ▸ intoLoop_noPanic _ _ _ _) (by simp [NoPanic, Res.isPanic])
    · exact noPanic_ok _
    · split
      · exact noPanic_ok _
      · exact noPanic_diag _

theorem noPanic_bind_eq {α β : Type} (r : Res α) (f : α → Res β) (hr : NoPanic r) (hf : ∀ a, r = .ok a → NoPanic (f a)) :
    NoPanic (r >>= f) := by
  cases r with
  | ok a => exact hf a rfl
  | diag d => rfl
  | panic s => exact absurd hr (by simp [NoPanic, Res.isPanic])

theorem collectAttrs_idents_nil {F : Features} {traits : TraitId → Bool} {t0 : TraitId} {as : List Attribute} {r : List TraitMeta}
    (h : collectAttrs F traits t0 as [] = .ok r) : ∀ m ∈ r, m.ident.isSome = true :=
  collectAttrs_idents F traits t0 as [] r (by simp) h

macro "np_into" : tactic => `(tactic| first
  | exact noPanic_ok _ | exact noPanic_diag _ | exact noPanic_pure _
  | assumption
  | (apply notUnion_noPanic; assumption)
  | (apply intoTypeFromMetas_noPanic; first | assumption | (apply collectAttrs_idents_nil; assumption))
  | (apply intoFieldFromMetas_noPanic; first | assumption | (apply collectAttrs_idents_nil; assumption))
  | apply collectAttrs_noPanic
  | apply intoSelect_noPanic
  | apply noPanic_bind_eq
  | apply noPanic_mapRes
  | intro _
  | split
  | dsimp only)

theorem intoHandler_noPanic (c : Ctx) (ms : List TraitMeta) (hne : ms ≠ []) (hm : ∀ m ∈ ms, m.ident.isSome = true) :
    NoPanic (intoHandler c ms) := by
  unfold intoHandler
  cases ms with
  | nil => exact absurd rfl hne
  | cons m0 rest =>
    have hm0 : m0.ident.isSome = true := hm m0 (by simp)
    dsimp only
    repeat' np_into

theorem handlerFor_noPanic (c : Ctx) (t : TraitId) (ms : List TraitMeta) (hne : ms ≠ []) (hm : ∀ m ∈ ms, m.ident.isSome = true) :
    NoPanic (handlerFor c t ms) := by
  unfold handlerFor
  cases ms with
  | nil => exact absurd rfl hne
  | cons m rest =>
    have hm0 : m.ident.isSome = true := hm m (by simp)
    dsimp only
    cases t <;> dsimp only
    · exact debugHandler_noPanic c m hm0
    · exact cloneHandler_noPanic c m hm0
    · exact markerHandler_noPanic c m _ _ _ _ _ hm0
    · exact eqLikeHandler_noPanic c m _ _ _ _ hm0
    · exact markerHandler_noPanic c m _ _ _ _ _ hm0
    · split
      · apply noPanic_bind
        · exact boundTypeFromMeta_noPanic _ m hm0
        · intro _; simp
      · exact ordLikeHandler_noPanic c m _ _ _ _ _ hm0
    · exact ordLikeHandler_noPanic c m _ _ _ _ _ hm0
    · exact eqLikeHandler_noPanic c m _ _ _ _ hm0
    · exact defaultHandler_noPanic c m hm0
    · exact derefHandler_noPanic c m _ hm0
    · exact derefHandler_noPanic c m _ hm0
    · exact intoHandler_noPanic c (m :: rest) hne hm

theorem collectTopAttrs_inv (F : Features) (P : List (TraitId × List TraitMeta) → Prop)
    (step : ∀ ms acc r, P acc → collectTop F ms acc = .ok r → P r) :
    ∀ (as : List Attribute) (acc r : List (TraitId × List TraitMeta)), P acc → collectTopAttrs F as acc = .ok r → P r := by
  intro as
  induction as with
  | nil => intro acc r hacc h; simp [collectTopAttrs] at h; cases h; exact hacc
  | cons a as ih =>
    intro acc r hacc h
    simp only [collectTopAttrs] at h
    split at h
    · split at h
      · split at h
        · cases h
        · rename_i ms _
          cases hc : collectTop F ms acc with
          | ok acc' => rw [hc] at h; exact ih acc' r (step ms acc acc' hacc hc) h
          | diag d => rw [hc] at h; cases h
          | panic s => rw [hc] at h; cases h
      · cases h
    · exact ih acc r hacc h

theorem collectTopAttrs_nonempty (F : Features) (as : List Attribute) (acc r : List (TraitId × List TraitMeta))
    (hacc : ∀ p ∈ acc, p.2 ≠ []) (h : collectTopAttrs F as acc = .ok r) : ∀ p ∈ r, p.2 ≠ [] :=
  collectTopAttrs_inv F (fun l => ∀ p ∈ l, p.2 ≠ []) (fun ms acc r ha hc => collectTop_nonempty F ms acc r ha hc) as acc r hacc h

theorem collectTopAttrs_idents (F : Features) (as : List Attribute) (acc r : List (TraitId × List TraitMeta))
    (hacc : ∀ p ∈ acc, ∀ m ∈ p.2, m.ident.isSome = true) (h : collectTopAttrs F as acc = .ok r) :
    ∀ p ∈ r, ∀ m ∈ p.2, m.ident.isSome = true :=
  collectTopAttrs_inv F (fun l => ∀ p ∈ l, ∀ m ∈ p.2, m.ident.isSome = true) (fun ms acc r ha hc => collectTop_idents F ms acc r ha hc) as acc r hacc h

theorem dispatch_noPanic (c : Ctx) (map : List (TraitId × List TraitMeta))
    (hne : ∀ p ∈ map, p.2 ≠ []) (hid : ∀ p ∈ map, ∀ m ∈ p.2, m.ident.isSome = true) :
    ∀ ts : List TraitId, NoPanic (dispatch c map ts) := by
  intro ts
  induction ts with
  | nil => simp [dispatch]
  | cons t ts ih =>
    simp only [dispatch]
    split
    · exact ih
    · rename_i q ms hf
      have hmem : (q, ms) ∈ map := List.mem_of_find?_eq_some hf
      have hh := handlerFor_noPanic c t ms (hne _ hmem) (hid _ hmem)
      split
      · split
        · simp
        · simp
        · rename_i s hs; rw [hs] at ih; exact absurd ih (by simp [NoPanic, Res.isPanic])
      · simp
      · rename_i s hs; rw [hs] at hh; exact absurd hh (by simp [NoPanic, Res.isPanic])

/-- **C17, model level.** For every feature set and every derive input (every oracle record), the
    expansion ends in generated items or a diagnostic - never in one of the panic sites. -/
theorem expand_noPanic (F : Features) (d : DeriveInput) : NoPanic (expand F d) := by
  unfold expand
  have hc := collectTopAttrs_noPanic F d.attrs []
  split
  · simp
  · rename_i s hs; rw [hs] at hc; exact absurd hc (by simp [NoPanic, Res.isPanic])
  · rename_i map hmap
    have hne : ∀ p ∈ map, p.2 ≠ [] := collectTopAttrs_nonempty F d.attrs [] map (by simp) hmap
    have hid : ∀ p ∈ map, ∀ m ∈ p.2, m.ident.isSome = true := collectTopAttrs_idents F d.attrs [] map (by simp) hmap
    have := dispatch_noPanic { F := F, traits := fun t => map.any fun p => p.1 == t, d := d } map hne hid (TraitId.all.filter F.contains)
    dsimp only
    split
    · simp
    · exact this

end Educe.Attr
