import EduceModel.Spec.Default
import EduceModel.Attr.Builders
import EduceModel.Generated.Templates
/-
  C08 — Default builds exactly the designated value.
-/
namespace Educe
open Gen.Default

theorem inits_eval {V : Type} (ops : DefOps V) (k : Nat) : ∀ (cs : List DefField) (i : Nat),
    (inits k i cs).map (Sem.evalInit ops) = Spec.fieldDefaults ops k i cs := by
  intro cs
  induction cs with
  | nil => intro i; simp [inits, Spec.fieldDefaults]
  | cons c cs ih =>
    intro i
    simp only [inits, List.map_cons, Spec.fieldDefaults, ih, Spec.fieldDefault]
    cases c.expr <;> rfl

theorem variantLoop_some (a : Nat) : ∀ (vs : List DefVariant) (k : Nat) (r : Option Nat),
    variantLoop k vs (some a) = .ok r → r = some a ∧ Spec.marked (·.flag) k vs = [] := by
  intro vs
  induction vs with
  | nil => intro k r h; simp [variantLoop] at h; simp [Spec.marked, h]
  | cons v vs ih =>
    intro k r h
    simp only [variantLoop] at h
    by_cases hf : v.flag = true
    · simp [hf] at h
    · simp only [hf, Bool.false_eq_true, if_false] at h
      split at h
      · cases h
      · obtain ⟨h1, h2⟩ := ih (k + 1) r h
        exact ⟨h1, by simp [Spec.marked, hf, h2]⟩

/-- The variant loop accepts with `some k` exactly when `k` is the unique marked variant (and no
    unmarked variant carries field attributes); with `none` when nothing is marked. -/
theorem variantLoop_none : ∀ (vs : List DefVariant) (k : Nat) (r : Option Nat),
    variantLoop k vs none = .ok r →
      (match r with
       | some j => Spec.marked (·.flag) k vs = [j]
       | none => Spec.marked (·.flag) k vs = []) := by
  intro vs
  induction vs with
  | nil => intro k r h; simp [variantLoop] at h; subst h; simp [Spec.marked]
  | cons v vs ih =>
    intro k r h
    simp only [variantLoop] at h
    by_cases hf : v.flag = true
    · simp only [hf, if_true] at h
      obtain ⟨h1, h2⟩ := variantLoop_some k vs (k + 1) r h
      subst h1
      simp [Spec.marked, hf, h2]
    · simp only [hf, Bool.false_eq_true, if_false] at h
      split at h
      · cases h
      · have := ih (k + 1) r h
        cases r <;> simpa [Spec.marked, hf] using this

theorem fieldLoop_some (a : Nat) : ∀ (cs : List DefField) (i : Nat) (r : Option Nat),
    fieldLoop i cs (some a) = .ok r → r = some a ∧ Spec.marked (fun c => c.expr.isSome || c.flag) i cs = [] := by
  intro cs
  induction cs with
  | nil => intro i r h; simp [fieldLoop] at h; simp [Spec.marked, h]
  | cons c cs ih =>
    intro i r h
    simp only [fieldLoop] at h
    by_cases hf : hasAttr c = true
    · simp [hf] at h
    · simp only [hf, Bool.false_eq_true, if_false] at h
      obtain ⟨h1, h2⟩ := ih (i + 1) r h
      refine ⟨h1, ?_⟩
      unfold hasAttr at hf
      simp [Spec.marked, hf, h2]

theorem fieldLoop_none : ∀ (cs : List DefField) (i : Nat) (r : Option Nat),
    fieldLoop i cs none = .ok r →
      (match r with
       | some j => Spec.marked (fun c => c.expr.isSome || c.flag) i cs = [j]
       | none => Spec.marked (fun c => c.expr.isSome || c.flag) i cs = []) := by
  intro cs
  induction cs with
  | nil => intro i r h; simp [fieldLoop] at h; subst h; simp [Spec.marked]
  | cons c cs ih =>
    intro i r h
    simp only [fieldLoop] at h
    by_cases hf : hasAttr c = true
    · simp only [hf, if_true] at h
      obtain ⟨h1, h2⟩ := fieldLoop_some i cs (i + 1) r h
      subst h1
      unfold hasAttr at hf
      simp [Spec.marked, hf, h2]
    · simp only [hf, Bool.false_eq_true, if_false] at h
      have := ih (i + 1) r h
      unfold hasAttr at hf
      cases r <;> simpa [Spec.marked, hf] using this

/-- **C08, main theorem.** Whenever the generator accepts, `T::default()` is the type-level
    expression if given; else the struct / the marked-or-only variant / the marked-or-only union
    field, every field set to its own expression or to its type's default. -/
theorem default_correct {V : Type} (ops : DefOps V) (cfg : DefCfg) (t : DefType) (bd : DefBody)
    (h : body cfg t = .ok bd) : Spec.default ops cfg t = some (Sem.evalDefault ops bd) := by
  unfold Spec.default
  cases hte : cfg.typeExpr with
  | some e =>
    cases t <;> simp only [body, hte] at h <;> (split at h <;> cases h) <;> rfl
  | none =>
    cases t with
    | struct v =>
      simp only [body, hte] at h
      split at h
      · cases h
      · cases h
        simp [Sem.evalDefault, inits_eval]
    | enum vs =>
      simp only [body, hte] at h
      match vs, h with
      | [v], h =>
        simp only at h
        split at h
        · cases h
        · cases h
          simp [Spec.designatedBy, Sem.evalDefault, inits_eval]
      | [], h =>
        simp [variantLoop] at h
      | v1 :: v2 :: rest, h =>
        simp only at h
        cases hl : variantLoop 0 (v1 :: v2 :: rest) none with
        | error e => simp [hl] at h
        | ok r =>
          simp only [hl] at h
          cases r with
          | none => cases h
          | some k =>
            have hm := variantLoop_none _ 0 (some k) hl
            simp only at hm h
            cases hv : (v1 :: v2 :: rest)[k]? with
            | none => simp [hv] at h
            | some v =>
              simp only [hv] at h
              split at h
              · cases h
              · cases h
                simp [Spec.designatedBy, hm, hv, Sem.evalDefault, inits_eval]
    | union fs =>
      simp only [body, hte] at h
      match fs, h with
      | [c], h =>
        simp only at h
        cases h
        simp only [Spec.designatedBy, List.getElem?_cons_zero, Option.map_some, Sem.evalDefault, Spec.fieldDefault]
        cases c.expr <;> rfl
      | [], h => simp [fieldLoop] at h
      | c1 :: c2 :: rest, h =>
        simp only at h
        cases hl : fieldLoop 0 (c1 :: c2 :: rest) none with
        | error e => simp [hl] at h
        | ok r =>
          simp only [hl] at h
          cases r with
          | none => cases h
          | some i =>
            have hm := fieldLoop_none _ 0 (some i) hl
            simp only at hm h
            cases hc : (c1 :: c2 :: rest)[i]? with
            | none => simp [hc] at h
            | some c =>
              simp only [hc] at h
              cases h
              simp only [Spec.designatedBy, hm, hc, Option.map_some, Sem.evalDefault, Spec.fieldDefault]
              cases c.expr <;> rfl

/-- Two marked variants (or union fields), or none among several, are refused — never resolved. -/
theorem ambiguous_refused {V : Type} (ops : DefOps V) (cfg : DefCfg) (t : DefType)
    (hs : Spec.default ops cfg t = none) : ∃ e, body cfg t = .error e := by
  cases hb : body cfg t with
  | error e => exact ⟨e, rfl⟩
  | ok bd => rw [default_correct ops cfg t bd hb] at hs; cases hs

/-- `T::new()` is emitted exactly when requested and is `<Self as Default>::default()`. -/
def newValue {V : Type} (ops : DefOps V) (cfg : DefCfg) (bd : DefBody) : Option (Val V) :=
  if cfg.new then some (Sem.evalDefault ops bd) else none

theorem new_eq_default {V : Type} (ops : DefOps V) (cfg : DefCfg) (bd : DefBody) (hn : cfg.new = true) :
    newValue ops cfg bd = some (Sem.evalDefault ops bd) := by
  simp [newValue, hn]

/-- A bare literal is wrapped in `Into::into` exactly when the field type is not its natural type;
    non-literal expressions are never wrapped. -/
theorem into_wrap_iff_not_natural (lit : LitKind) (ty : Option TyShape) :
    wrapsInto (some lit) ty = true ↔ ¬ Spec.natural lit ty := by
  unfold wrapsInto keepsBare Spec.natural
  cases lit with
  | int sfx =>
    cases ty with
    | none => simp
    | some t =>
      cases t <;> simp
      intro _
      constructor
      · intro h he; rcases h with h | h
        · exact absurd he h
        · exact h
      · intro h; by_cases he : sfx = ""
        · exact Or.inr (h he)
        · exact Or.inl he
  | float sfx =>
    cases ty with
    | none => simp
    | some t =>
      cases t <;> simp
      intro _
      constructor
      · intro h he; rcases h with h | h
        · exact absurd he h
        · exact h
      · intro h; by_cases he : sfx = ""
        · exact Or.inr (h he)
        · exact Or.inl he
  | str =>
    cases ty with
    | none => simp
    | some t =>
      cases t with
      | refTo i => cases i <;> simp
      | _ => simp
  | bool => cases ty with | none => simp | some t => cases t <;> simp
  | char => cases ty with | none => simp | some t => cases t <;> simp
  | byte => cases ty with | none => simp | some t => cases t <;> simp
  | byteStr =>
    cases ty with
    | none => simp
    | some t =>
      cases t with
      | refTo i =>
        cases i with
        | arrayOf e => cases e <;> simp
        | _ => simp
      | _ => simp
  | other => cases ty <;> simp

theorem non_literal_never_wrapped (ty : Option TyShape) : wrapsInto none ty = false := rfl

example : wrapsInto (some (.int "u8")) (some (.path "u16")) = true := by decide
example : wrapsInto (some (.int "")) (some (.path "u16")) = false := by decide
example : wrapsInto (some (.int "u16")) (some (.path "u16")) = false := by decide
example : wrapsInto (some (.int "")) (some (.path "f64")) = true := by decide
example : wrapsInto (some .str) (some (.refTo (.path "str"))) = false := by decide
example : wrapsInto (some .str) (some (.path "String")) = true := by decide
example : wrapsInto (some (.int "")) none = true := by decide

/-! ### Non-vacuity -/
def exDefType : DefType := .enum
  [ { name := "A".toList, shape := .unit },
    { name := "B".toList, shape := .tuple, flag := true, fields := [ { expr := some 3 }, {} ] },
    { name := "C".toList, shape := .named, fields := [ { name := "x".toList } ] } ]
def exDefOps : DefOps Nat := { exprVal := fun e => 100 + e, dflt := fun p => p.field, typeExprVal := fun e => ⟨9, [e]⟩ }
example : (body {} exDefType).toOption.map (Sem.evalDefault exDefOps) = some ⟨1, [103, 1]⟩ := by decide
example : (body {} (.enum [ { flag := true }, { flag := true } ])).toOption = none := by decide
example : (body {} (.enum [ {}, {} ])).toOption = none := by decide


/-! ## What the generated code calls

The absolute paths (`::core::..`) named by the `quote!` templates of the handler, regenerated from /repo/src on every run
(`vtool extract`): the functions, traits and types the generated code can reach are exactly these - a call of anything
else (`::core::ptr::eq`, `::core::fmt::Display::fmt`, `::core::convert::From::from`, ...) is a change of what the
implementation does and has to be looked at. -/

theorem generated_calls_unchanged_default :
    Generated.paths_trait_handlers_default =
      ["::core::default::Default"] := by
  decide +kernel

theorem generated_calls_unchanged_common :
    Generated.paths_common =
      ["::core::convert::Into::into"] := by
  decide +kernel


/-! ## The conversion of literals (`auto_adjust_expr`)

Rust's typing of a literal against a type *as it is spelled* (the derive sees tokens, not types): an unsuffixed integer
literal has any integer type, a suffixed one exactly its suffix type, and so on. `Attr.keepsBare` - the model of the
decision `auto_adjust_expr` takes, tied to the real tokens by the correspondence of C14 / C08 - leaves a literal bare
only where this typing holds (`keepsBare_sound`: the bare literal type-checks as the field, so the field *is* the
literal), and on the primitive names it leaves bare every literal that has the field's type (`keepsBare_complete`): the
conversion is applied exactly when the field type is not the literal's natural type. -/

section LiteralConversion

def intNames : List String := ["u8", "u16", "u32", "u64", "u128", "usize", "i8", "i16", "i32", "i64", "i128", "isize"]
def floatNames : List String := ["f32", "f64"]

/-- the literal has the type spelled `ty` -/
def litHasType : Attr.LitV → Attr.TyShape → Bool
  | .int _ sfx, .path s => if sfx.isEmpty then intNames.contains s else sfx == s
  | .float sfx, .path s => if sfx.isEmpty then floatNames.contains s else sfx == s
  | .str _, .refTo (.path s) => s == "str"
  | .bool _, .path s => s == "bool"
  | .char, .path s => s == "char"
  | .byte, .path s => s == "u8"
  | .byteStr, .refTo (.arrayOf (.path s)) => s == "u8"
  | _, _ => false

/-- a type is never spelled with an empty path -/
def spelled : Attr.TyShape → Bool
  | .path s => !s.isEmpty
  | .refTo t => spelled t
  | .arrayOf t => spelled t
  | .other => true

theorem keepsBare_sound (l : Attr.LitV) (ty : Attr.TyShape) (hs : spelled ty = true) (h : Attr.keepsBare l (some ty) = true) :
    litHasType l ty = true := by
  cases l with
  | int a sfx =>
    cases ty with
    | path s =>
      simp only [Attr.keepsBare, Bool.or_eq_true, Bool.and_eq_true, beq_iff_eq] at h
      simp only [litHasType]
      by_cases he : sfx.isEmpty = true
      · simp only [he, if_true]
        rcases h with h | h
        · subst h; simp [spelled, he] at hs
        · exact h.2
      · simp only [he, Bool.false_eq_true, if_false, beq_iff_eq]
        rcases h with h | h
        · exact h
        · exact absurd h.1 he
    | _ => simp [Attr.keepsBare] at h
  | float sfx =>
    cases ty with
    | path s =>
      simp only [Attr.keepsBare, Bool.or_eq_true, Bool.and_eq_true, beq_iff_eq] at h
      simp only [litHasType]
      by_cases he : sfx.isEmpty = true
      · simp only [he, if_true]
        rcases h with h | h
        · subst h; simp [spelled, he] at hs
        · exact h.2
      · simp only [he, Bool.false_eq_true, if_false, beq_iff_eq]
        rcases h with h | h
        · exact h
        · exact absurd h.1 he
    | _ => simp [Attr.keepsBare] at h
  | str i =>
    cases ty with
    | refTo t => cases t <;> simp_all [Attr.keepsBare, litHasType]
    | _ => simp [Attr.keepsBare] at h
  | bool b => cases ty <;> simp_all [Attr.keepsBare, litHasType]
  | char => cases ty <;> simp_all [Attr.keepsBare, litHasType]
  | byte => cases ty <;> simp_all [Attr.keepsBare, litHasType]
  | byteStr =>
    cases ty with
    | refTo t =>
      cases t with
      | arrayOf u => cases u <;> simp_all [Attr.keepsBare, litHasType]
      | _ => simp [Attr.keepsBare] at h
    | _ => simp [Attr.keepsBare] at h
  | other => simp [Attr.keepsBare] at h

theorem keepsBare_complete (l : Attr.LitV) (ty : Attr.TyShape) (h : litHasType l ty = true) : Attr.keepsBare l (some ty) = true := by
  cases l with
  | int a sfx =>
    cases ty with
    | path s =>
      simp only [litHasType] at h
      simp only [Attr.keepsBare, Bool.or_eq_true, Bool.and_eq_true, beq_iff_eq]
      by_cases he : sfx.isEmpty = true
      · simp only [he, if_true] at h; exact Or.inr ⟨he, h⟩
      · simp only [he, Bool.false_eq_true, if_false, beq_iff_eq] at h; exact Or.inl h
    | _ => simp [litHasType] at h
  | float sfx =>
    cases ty with
    | path s =>
      simp only [litHasType] at h
      simp only [Attr.keepsBare, Bool.or_eq_true, Bool.and_eq_true, beq_iff_eq]
      by_cases he : sfx.isEmpty = true
      · simp only [he, if_true] at h; exact Or.inr ⟨he, h⟩
      · simp only [he, Bool.false_eq_true, if_false, beq_iff_eq] at h; exact Or.inl h
    | _ => simp [litHasType] at h
  | str i =>
    cases ty with
    | refTo t => cases t <;> simp_all [Attr.keepsBare, litHasType]
    | _ => simp [litHasType] at h
  | bool b => cases ty <;> simp_all [Attr.keepsBare, litHasType]
  | char => cases ty <;> simp_all [Attr.keepsBare, litHasType]
  | byte => cases ty <;> simp_all [Attr.keepsBare, litHasType]
  | byteStr =>
    cases ty with
    | refTo t =>
      cases t with
      | arrayOf u => cases u <;> simp_all [Attr.keepsBare, litHasType]
      | _ => simp [litHasType] at h
    | _ => simp [litHasType] at h
  | other => simp [litHasType] at h

/-- **The conversion is applied exactly when the field type is not the literal's natural type**; anything that is not
    a bare literal is used as written, and a type-level expression (no field type) always converts a literal. -/
theorem adjust_converts_iff (text : String) (l : Attr.LitV) (ty : Attr.TyShape) (hs : spelled ty = true) :
    (Attr.adjust (text, some l) (some ty)).2 = !litHasType l ty := by
  simp only [Attr.adjust]
  cases h : litHasType l ty
  · cases h2 : Attr.keepsBare l (some ty)
    · rfl
    · rw [keepsBare_sound l ty hs h2] at h; cases h
  · rw [keepsBare_complete l ty h]

theorem adjust_non_literal (text : String) (ty : Option Attr.TyShape) : Attr.adjust (text, none) ty = (text, false) := rfl

theorem adjust_type_level (text : String) (l : Attr.LitV) : (Attr.adjust (text, some l) none).2 = true := by
  cases l <;> simp [Attr.adjust, Attr.keepsBare]

example : (Attr.adjust ("5", some (.int (some 5) "")) (some (.path "u16"))).2 = false := by decide
example : (Attr.adjust ("5u8", some (.int (some 5) "u8")) (some (.path "u16"))).2 = true := by decide
example : (Attr.adjust ("5", some (.int (some 5) "")) (some (.path "W"))).2 = true := by decide

end LiteralConversion

end Educe
