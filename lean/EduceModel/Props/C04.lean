import EduceModel.Props.C03
/-
  C04 — enum variants order by declared discriminant, never by memory layout.

  The generated body (model of ord_enum.rs / partial_ord_enum.rs after the `fix:` commit that
  replaced the pointer-cast read of the tag by a `match` on the variant) obtains each operand's
  discriminant from `Gen.Ord.discArms`: the written value, or the last written value plus the
  distance, or the position. Nothing is read from memory, so the evaluation function has no
  layout / neighbouring-bytes parameter at all: independence from layout is by construction, and
  what remains to prove is that the values compared are the *declared* discriminants.
-/
namespace Educe
open Gen.Ord

/-- Values of different variants compare as their declared discriminants, whatever their
    payloads (`xs`, `ys` are arbitrary) and for both `cmp` and `partial_cmp`. -/
theorem cross_variant_by_discriminant {V : Type} (ops : OrdOps V) (p : Bool) (vs : List OrdVariant)
    (ht : (OrdType.enum vs).WF) (bd : CmpBody) (hbd : body (.enum vs) = some bd)
    (a b : Val V) (ha : (OrdType.enum vs).Inhabits a) (hb : (OrdType.enum vs).Inhabits b)
    (hne : a.variant ≠ b.variant) :
    ∃ da db, (Spec.discValues 0 vs)[a.variant]? = some da ∧ (Spec.discValues 0 vs)[b.variant]? = some db ∧
      Sem.evalCmp ops p (.enum vs) bd a b = some (some (compareInt da db)) := by
  have h := cmp_correct ops p (.enum vs) ht bd hbd a b ha hb
  obtain ⟨va, hva, _⟩ := ha
  obtain ⟨vb, hvb, _⟩ := hb
  simp only [Spec.variantsOf] at hva hvb
  have hka : a.variant < (Spec.discValues 0 vs).length := by
    rw [discValues_length]; exact (List.getElem?_eq_some_iff.mp hva).1
  have hkb : b.variant < (Spec.discValues 0 vs).length := by
    rw [discValues_length]; exact (List.getElem?_eq_some_iff.mp hvb).1
  refine ⟨_, _, List.getElem?_eq_getElem hka, List.getElem?_eq_getElem hkb, ?_⟩
  rw [h]
  simp [Spec.cmp, hne, Spec.variantsOf, List.getElem?_eq_getElem hka, List.getElem?_eq_getElem hkb]

/-- Values of the same variant are ordered by their fields alone (discriminants play no role). -/
theorem same_variant_by_fields {V : Type} (ops : OrdOps V) (p : Bool) (vs : List OrdVariant)
    (ht : (OrdType.enum vs).WF) (bd : CmpBody) (hbd : body (.enum vs) = some bd)
    (a b : Val V) (ha : (OrdType.enum vs).Inhabits a) (hb : (OrdType.enum vs).Inhabits b)
    (heq : a.variant = b.variant) :
    ∃ v, vs[a.variant]? = some v ∧
      Sem.evalCmp ops p (.enum vs) bd a b
        = some (Spec.lexCmp ops p a.variant a.fields b.fields (Spec.visitOrder v.fields)) := by
  have h := cmp_correct ops p (.enum vs) ht bd hbd a b ha hb
  obtain ⟨va, hva, _⟩ := ha
  simp only [Spec.variantsOf] at hva
  refine ⟨va, hva, ?_⟩
  rw [h]
  unfold Spec.cmp
  rw [if_pos heq]
  simp only [Spec.variantsOf, hva]

/-- The declared discriminants: an explicit `= n` is taken as written … -/
theorem discValues_explicit (vs : List OrdVariant) (k : Nat) (v : OrdVariant) (d : Int) (n : Int)
    (hv : vs[k]? = some v) (hd : v.disc = some d) : (Spec.discValues n vs)[k]? = some d := by
  induction vs generalizing k n with
  | nil => simp at hv
  | cons w ws ih =>
    cases k with
    | zero => simp at hv; subst hv; simp [Spec.discValues, hd]
    | succ k =>
      simp at hv
      simp only [Spec.discValues]
      cases w.disc <;> simpa using ih k _ hv

/-- … and a variant without one gets its predecessor's value plus one (the first gets 0). -/
theorem discValues_implicit (vs : List OrdVariant) (k : Nat) (v w : OrdVariant) (dv : Int) (n : Int)
    (hv : vs[k]? = some v) (hw : vs[k + 1]? = some w) (hnone : w.disc = none)
    (hdv : (Spec.discValues n vs)[k]? = some dv) : (Spec.discValues n vs)[k + 1]? = some (dv + 1) := by
  induction vs generalizing k n with
  | nil => simp at hv
  | cons u us ih =>
    cases k with
    | zero =>
      simp at hv hw; subst hv
      cases us with
      | nil => simp at hw
      | cons w' us' =>
        simp at hw; subst hw
        simp only [Spec.discValues] at hdv ⊢
        cases hu : u.disc with
        | some d => simp [hu] at hdv; subst hdv; simp [Spec.discValues, hnone]
        | none => simp [hu] at hdv; subst hdv; simp [Spec.discValues, hnone]
    | succ k =>
      simp at hv hw
      simp only [Spec.discValues] at hdv ⊢
      cases hu : u.disc with
      | some d => simp [hu] at hdv ⊢; exact ih k _ hv hw hdv
      | none => simp [hu] at hdv ⊢; exact ih k _ hv hw hdv

theorem discValues_first_implicit (v : OrdVariant) (vs : List OrdVariant) (h : v.disc = none) :
    (Spec.discValues 0 (v :: vs))[0]? = some 0 := by
  simp [Spec.discValues, h]

/-- Different variants with different declared discriminants never compare `Equal`. -/
theorem cross_variant_never_equal (da db : Int) (h : da ≠ db) : compareInt da db ≠ .eq := by
  unfold compareInt
  split
  · simp
  · simp [h]

/-! ### Non-vacuity: a single-variant enum with a payload, a niche payload, explicit values -/

def exDisc : OrdType := .enum
  [ { name := "B".toList, shape := .unit, disc := some 200 },
    { name := "A".toList, shape := .tuple, fields := [ {} ] },
    { name := "N".toList, shape := .unit, disc := some (-3) } ]

example : Spec.discValues 0 (Spec.variantsOf exDisc) = [200, 201, -3] := by decide
example : (body exDisc).bind (fun bd => Sem.evalCmp exOrdOps false exDisc bd ⟨0, []⟩ ⟨1, [0]⟩) = some (some .lt) := by decide
example : (body exDisc).bind (fun bd => Sem.evalCmp exOrdOps false exDisc bd ⟨1, [5]⟩ ⟨2, []⟩) = some (some .gt) := by decide
example : (body exDisc).bind (fun bd => Sem.evalCmp exOrdOps true exDisc bd ⟨1, [200]⟩ ⟨1, [100]⟩) = some (some .gt) := by decide

end Educe
