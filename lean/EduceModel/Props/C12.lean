import EduceModel.Expand
import EduceModel.Props.C14
/-
  C12 — explicit bound modes and the type's own generics are honoured verbatim.

  In the model an impl header is `impl<implParams> Trait for Name tyGenerics where whereC ++ item.preds`:
  the type's generics and where-clause are taken from the input untouched by every handler (an
  `Item` only carries the *appended* predicates), so what has to be proved is what each bound mode
  appends. The correspondence compares the real headers (impl generics, self type, user predicates
  as a prefix, appended predicates) with this on every run.
-/
namespace Educe.Attr

/-- The header of a generated impl, as the model describes it. -/
structure Header where
  implParams : List String
  selfTy : String
  whereC : List String
  deriving DecidableEq, Repr

def headerOf (d : DeriveInput) (it : Item) : Header :=
  { implParams := d.generics.implParams, selfTy := d.name ++ d.generics.tyGenerics, whereC := d.generics.whereC.map noSpace ++ it.preds }

/-- Whatever the item (hence whatever the trait, shape and bound mode), the impl generics, the self
    type and the user's where-clause are the type's own. -/
theorem header_reproduces_generics (d : DeriveInput) (it : Item) :
    (headerOf d it).implParams = d.generics.implParams ∧ (headerOf d it).selfTy = d.name ++ d.generics.tyGenerics ∧
    (headerOf d it).whereC.take d.generics.whereC.length = d.generics.whereC.map noSpace := by
  simp [headerOf]

/-- `bound = false`, `bound(false)`, `bound = ""`, `bound()` add nothing. -/
theorem bound_disabled_adds_nothing (g : Generics) (tp : String) (types supers : List String) :
    boundPreds .disabled g tp types supers = [] ∧ boundPreds (.custom []) g tp types supers = [] := by
  simp [boundPreds]

/-- `bound(p1, p2, ...)` / `bound = "..."` add exactly the given predicates, in order. -/
theorem bound_custom_adds_given (g : Generics) (tp : String) (types supers ps : List String) :
    boundPreds (.custom ps) g tp types supers = ps.map noSpace := by
  simp [boundPreds]

/-- `bound(*)` constrains every type parameter, in declaration order, by the trait … -/
theorem bound_all_constrains_type_params (g : Generics) (tp : String) (types supers : List String) :
    boundPreds .all g tp types supers = (typeParams g).map fun p => p ++ ":" ++ tp := by
  simp [boundPreds]

/-- … and only type parameters: never a lifetime or a const parameter, whatever the field types. -/
theorem bound_all_only_type_params (g : Generics) (n : String) (hn : n ∈ typeParams g) :
    (GKind.type, n) ∈ g.params := by
  unfold typeParams at hn
  rw [List.mem_filterMap] at hn
  obtain ⟨p, hp, h⟩ := hn
  obtain ⟨k, m⟩ := p
  simp only at h
  split at h
  · rename_i hk
    cases h
    have : k = GKind.type := by simpa using hk
    subst this; exact hp
  · cases h

theorem lifetimes_and_consts_never_bound (g : Generics) (n : String)
    (hl : ∀ k, (k, n) ∈ g.params → k ≠ GKind.type) : n ∉ typeParams g := by
  intro h
  exact hl _ (bound_all_only_type_params g n h) rfl

/-- The spellings of "no bound" all parse to a mode that adds nothing (with C14's `bound_off_spellings`). -/
theorem bound_off_spellings_add_nothing (g : Generics) (tp : String) (types supers : List String) :
    ∀ b, (meta2Bound (.nv (Val.ofBool false)) = .ok b ∨ meta2Bound (.list (Val.ofBool false)) = .ok b ∨
          meta2Bound (.nv { tok := .lit (.str { isEmpty := true }) }) = .ok b ∨ meta2Bound (.list { tok := .empty }) = .ok b) →
      boundPreds b g tp types supers = [] := by
  intro b h
  have e1 := bound_off_spellings
  rcases h with h | h | h | h
  · rw [e1.1] at h; cases h; simp [boundPreds]
  · rw [e1.2.1] at h; cases h; simp [boundPreds]
  · rw [e1.2.2.1] at h; cases h; simp [boundPreds]
  · simp [meta2Bound] at h; cases h; simp [boundPreds]

example : boundPreds .all { params := [(.lifetime, "'a"), (.type, "T"), (.const, "N"), (.type, "U")] } "::core::clone::Clone" ["Vec<T>"] []
    = ["T:::core::clone::Clone", "U:::core::clone::Clone"] := by decide

end Educe.Attr
