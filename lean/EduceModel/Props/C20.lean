import EduceModel.Gen.Union
import EduceModel.Props.C07
import EduceModel.Props.C08
/-
  C20 — union impls are byte-wise and only generated behind an explicit `unsafe`.
-/
namespace Educe
open Gen.Union

/-- Debug / PartialEq / Hash for a union are generated exactly when the attribute carries `unsafe`. -/
theorem union_generated_iff_unsafe (own : Ident) (a : UnionAttr) :
    ((debug own a).toOption.isSome = a.hasUnsafe) ∧ ((bytewise a).toOption.isSome = a.hasUnsafe) := by
  unfold debug bytewise
  cases h : a.hasUnsafe
  · simp [Except.toOption]
  · simp only [Bool.not_true, Bool.false_eq_true, if_false]
    cases a.name.toIdent own <;> simp [Except.toOption]

/-- Equality compares exactly the bytes of the two values. -/
theorem union_eq_bytewise (a b : List Nat) : Sem.evalUnionEq a b = true ↔ a = b := by
  simp [Sem.evalUnionEq]

/-- Hash feeds the bytes as one slice (length prefix + all `size_of::<Self>()` bytes): equal bytes
    feed equal data, different bytes feed different data. -/
theorem union_hash_injective (a b : List Nat) : Sem.evalUnionHash a = Sem.evalUnionHash b ↔ a = b := by
  constructor
  · intro h
    simp only [Sem.evalUnionHash, List.cons.injEq, and_true] at h
    exact Sem.UWrite.bytes.inj h.2
  · intro h; rw [h]

theorem union_hash_shape (a : List Nat) : Sem.evalUnionHash a = [.usize a.length, .bytes a] := rfl

/-- Debug lists the bytes under the effective name, or bare when the name is disabled. -/
theorem union_debug_named (own : Ident) (a : UnionAttr) (n : Ident) (hu : a.hasUnsafe = true)
    (hn : Spec.effName a.name own = some n) (bytes : List Nat) (alt : Bool) :
    (debug own a).toOption.map (fun bd => Sem.evalUnionDebug bd bytes alt)
      = some (Fmt.debugTuple (String.ofList n) [Sem.bytesDebug bytes] alt) := by
  have : a.name.toIdent own = some n := by cases h : a.name <;> simp_all [NameCfg.toIdent, Spec.effName]
  simp [debug, hu, this, Except.toOption, Sem.evalUnionDebug]

theorem union_debug_bare (own : Ident) (a : UnionAttr) (hu : a.hasUnsafe = true)
    (hn : Spec.effName a.name own = none) (bytes : List Nat) (alt : Bool) :
    (debug own a).toOption.map (fun bd => Sem.evalUnionDebug bd bytes alt) = some (Sem.bytesDebug bytes alt) := by
  have : a.name.toIdent own = none := by cases h : a.name <;> simp_all [NameCfg.toIdent, Spec.effName]
  simp [debug, hu, this, Except.toOption, Sem.evalUnionDebug]

/-- Clone on a union is a bitwise copy (`*self`), with or without Copy educed. -/
theorem union_clone_bitwise {V : Type} (ops : CloneOps V) (copy : Bool) (a b : Val V) :
    Sem.evalClone ops .union (Gen.Clone.body copy .union) a = some a ∧
    Sem.evalCloneFrom ops .union (Gen.Clone.body copy .union) a b = some b := by
  simp [Gen.Clone.body, Sem.evalClone, Sem.evalCloneFrom]

/-- Default on a union initialises exactly the designated field (C08's theorem at unions). -/
theorem union_default_designated {V : Type} (ops : DefOps V) (cfg : DefCfg) (fs : List DefField) (bd : DefBody)
    (h : Gen.Default.body cfg (.union fs) = .ok bd) :
    Spec.default ops cfg (.union fs) = some (Sem.evalDefault ops bd) :=
  default_correct ops cfg (.union fs) bd h

example : Sem.evalUnionDebug (.tupleOfBytes "U".toList) [1, 2] false = "U([1, 2])" := by decide
example : (debug "U".toList { hasUnsafe := false }).toOption = none := by decide

end Educe
