import EduceModel.Lemmas.Env
import EduceModel.Spec.Deref
import EduceModel.Generated.Templates
/-
  C09 — Deref and DerefMut expose exactly the designated field.
  One model serves both traits (each has its own marker, carried by `DerefField.flag`).
-/
namespace Educe
open Gen.Deref

def DerefVariant.WF (v : DerefVariant) : Prop :=
  (v.shape = .named → (v.fields.map DerefField.name).Nodup) ∧ (v.shape = .unit → v.fields = [])

def DerefType.WF (t : DerefType) : Prop := ∀ v ∈ Sem.variantsOfDeref t, v.WF

def DerefType.Inhabits {V : Type} (t : DerefType) (a : Val V) : Prop :=
  ∃ v, (Sem.variantsOfDeref t)[a.variant]? = some v ∧ a.fields.length = v.fields.length

theorem pickLoop_some (a : Nat) : ∀ (cs : List DerefField) (i : Nat),
    pickLoop i cs (some a) = (some a, !(Spec.flagged i cs).isEmpty) := by
  intro cs
  induction cs with
  | nil => intro i; simp [pickLoop, Spec.flagged]
  | cons c cs ih =>
    intro i
    simp only [pickLoop, Spec.flagged]
    by_cases hf : c.flag = true
    · simp [hf]
    · simp [hf, ih]

theorem pickLoop_none : ∀ (cs : List DerefField) (i : Nat),
    pickLoop i cs none = (match Spec.flagged i cs with
      | [] => (none, false)
      | [j] => (some j, false)
      | j :: _ :: _ => (some j, true)) := by
  intro cs
  induction cs with
  | nil => intro i; simp [pickLoop, Spec.flagged]
  | cons c cs ih =>
    intro i
    simp only [pickLoop, Spec.flagged]
    by_cases hf : c.flag = true
    · simp only [hf, if_true, pickLoop_some]
      cases h : Spec.flagged (i + 1) cs with
      | nil => simp
      | cons j js => simp
    · simp only [hf, Bool.false_eq_true, if_false, ih]

/-- The selection loop accepts exactly when the designation is unique, and then returns it. -/
theorem pick_eq_designated (fields : List DerefField) (n m : DerefDiag) (i : Nat) :
    pick fields n m = .ok i ↔ Spec.designated fields = some i := by
  unfold pick Spec.designated
  by_cases h1 : fields.length = 1
  · simp [h1]
  · simp only [h1, if_false, pickLoop_none]
    cases h : Spec.flagged 0 fields with
    | nil => simp
    | cons j js =>
      cases js with
      | nil => simp
      | cons _ _ => simp

theorem pick_error_iff (fields : List DerefField) (n m : DerefDiag) :
    (∃ e, pick fields n m = .error e) ↔ Spec.designated fields = none := by
  unfold pick Spec.designated
  by_cases h1 : fields.length = 1
  · simp [h1]
  · simp only [h1, if_false, pickLoop_none]
    cases h : Spec.flagged 0 fields with
    | nil => simp
    | cons j js =>
      cases js with
      | nil => simp
      | cons _ _ => simp

theorem flagged_lt : ∀ (cs : List DerefField) (i : Nat), ∀ j ∈ Spec.flagged i cs, i ≤ j ∧ j < i + cs.length := by
  intro cs
  induction cs with
  | nil => intro i j h; simp [Spec.flagged] at h
  | cons c cs ih =>
    intro i j h
    simp only [Spec.flagged] at h
    split at h
    · rw [List.mem_cons] at h
      rcases h with rfl | h
      · simp
      · have := ih (i + 1) j h; simp; omega
    · have := ih (i + 1) j h; simp; omega

theorem designated_lt (fields : List DerefField) (i : Nat) (h : Spec.designated fields = some i) :
    i < fields.length := by
  unfold Spec.designated at h
  split at h
  · simp at h; omega
  · split at h
    · rename_i j hj
      simp at h; subst h
      have := flagged_lt fields 0 j (by simp [hj])
      omega
    · simp at h

/-- The wildcard-counted tuple pattern binds exactly the field at the designated index —
    the "mis-counted `_`" obligation. -/
theorem matchTuple_replicate {V : Type} (k : Nat) (x : Ident) :
    ∀ (n i : Nat) (vals : List V) (v : V), vals[n]? = some v →
      matchTuple k i (List.replicate n Pat.wild ++ [Pat.bind x]) vals = [(x, (⟨k, i + n⟩, v))] := by
  intro n
  induction n with
  | zero =>
    intro i vals v h
    cases vals with
    | nil => simp at h
    | cons w ws => simp at h; subst h; simp [matchTuple]
  | succ n ih =>
    intro i vals v h
    cases vals with
    | nil => simp at h
    | cons w ws =>
      simp at h
      simp only [List.replicate_succ, List.cons_append, matchTuple]
      rw [ih (i + 1) ws v h]
      rw [show i + 1 + n = i + (n + 1) by omega]

theorem deref_arms_get : ∀ (vs : List DerefVariant) (k0 : Nat) (as : List DerefArm), arms k0 vs = .ok as →
    as.length = vs.length ∧ ∀ (k : Nat) (v : DerefVariant), vs[k]? = some v → ∃ a, arm (k0 + k) v = .ok a ∧ as[k]? = some a := by
  intro vs
  induction vs with
  | nil => intro k0 as h; simp [arms] at h; cases h; simp
  | cons v vs ih =>
    intro k0 as h
    simp only [arms] at h
    cases ha : arm k0 v with
    | error e => simp [ha] at h
    | ok a =>
      simp only [ha] at h
      cases hr : arms (k0 + 1) vs with
      | error e => simp [hr] at h
      | ok as' =>
        simp only [hr] at h
        cases h
        obtain ⟨hl, hg⟩ := ih (k0 + 1) as' hr
        refine ⟨by simp [hl], ?_⟩
        intro k v' hk
        cases k with
        | zero => simp at hk; subst hk; exact ⟨a, by simpa using ha, by simp⟩
        | succ k =>
          simp at hk
          obtain ⟨a', h1, h2⟩ := hg k v' hk
          exact ⟨a', by rw [show k0 + (k + 1) = k0 + 1 + k by omega]; exact h1, by simpa using h2⟩

/-- **C09, main theorem.** If the generator accepts, then for every value `&*x` / `&mut *x`
    designates the designated field of the value's current variant: the sole field, else the one
    carrying the marker. -/
theorem deref_correct {V : Type} (t : DerefType) (ht : t.WF) (bd : DerefBody) (hbd : body t = .ok bd)
    (a : Val V) (ha : t.Inhabits a) :
    Sem.evalDeref t bd a = Spec.deref t a ∧ (Spec.deref t a).isSome = true := by
  obtain ⟨va, hva, hla⟩ := ha
  obtain ⟨ka, xs⟩ := a
  simp only at hva hla
  cases t with
  | struct v =>
    simp only [Sem.variantsOfDeref] at hva
    have hk0 : ka = 0 := by
      cases ka with
      | zero => rfl
      | succ n => simp at hva
    subst hk0
    simp at hva; subst hva
    simp only [body] at hbd
    cases hp : pick v.fields .noField .multipleFields with
    | error e => simp [hp] at hbd
    | ok idx =>
      simp only [hp] at hbd
      have hd := (pick_eq_designated _ _ _ idx).mp hp
      have hlt := designated_lt _ _ hd
      rw [List.getElem?_eq_getElem hlt] at hbd
      simp only at hbd
      cases hbd
      simp [Sem.evalDeref, Spec.deref, Sem.variantsOfDeref, hd, hla, hlt]
  | enum vs =>
    simp only [Sem.variantsOfDeref] at hva
    simp only [body] at hbd
    cases has : arms 0 vs with
    | error e => simp [has] at hbd
    | ok as =>
      simp only [has] at hbd
      obtain ⟨hlen, hget⟩ := deref_arms_get vs 0 as has
      obtain ⟨arma, harma, hasa⟩ := hget ka va hva
      simp only [Nat.zero_add] at harma
      cases as with
      | nil => simp at hasa
      | cons a0 as' =>
        simp only at hbd
        cases hbd
        have hwf := ht va (by simp [Sem.variantsOfDeref]; exact List.mem_of_getElem? hva)
        unfold arm at harma
        split at harma
        · cases harma
        · rename_i hnu
          cases hp : pick va.fields (.noFieldOfVariant ka) (.multipleFieldsOfVariant ka) with
          | error e => simp [hp] at harma
          | ok idx =>
            simp only [hp] at harma
            have hd := (pick_eq_designated _ _ _ idx).mp hp
            have hlt := designated_lt _ _ hd
            rw [List.getElem?_eq_getElem hlt] at harma
            simp only at harma
            have hx : xs[idx]? = some (xs[idx]'(by omega)) := List.getElem?_eq_getElem (by omega)
            simp only [Sem.evalDeref, hasa, Sem.variantsOfDeref, hva, Spec.deref, hd, Option.map_some, Option.isSome_some,
              and_true]
            split at harma
            · cases harma
              simp only [matchArm]
              rw [matchTuple_replicate ka (tupSelf idx) idx 0 xs _ hx]
              simp [Env.look]
            · rename_i hnt
              cases harma
              have hnamed : va.shape = .named := by
                cases hs : va.shape <;> simp_all
              have hnd := hwf.1 hnamed
              have hidx := fieldIndex_map_get DerefField.name va.fields idx va.fields[idx] hnd
                (List.getElem?_eq_getElem hlt)
              simp [matchArm, matchNamed, Sem.derefNames, hidx, hx, Env.look]

/-- Refusal is exactly missing / ambiguous designation (struct case). -/
theorem struct_refused_iff (v : DerefVariant) :
    (∃ e, body (.struct v) = .error e) ↔ Spec.designated v.fields = none := by
  simp only [body]
  constructor
  · intro ⟨e, he⟩
    cases hp : pick v.fields .noField .multipleFields with
    | error e' => exact (pick_error_iff _ _ _).mp ⟨e', hp⟩
    | ok idx =>
      simp only [hp] at he
      have hd := (pick_eq_designated _ _ _ idx).mp hp
      have hlt := designated_lt _ _ hd
      rw [List.getElem?_eq_getElem hlt] at he
      simp at he
  · intro h
    obtain ⟨e, he⟩ := (pick_error_iff v.fields .noField .multipleFields).mpr h
    exact ⟨e, by simp [he]⟩

/-- A variant is refused exactly when it is a unit variant or its designation is not unique. -/
theorem variant_refused_iff (k : Nat) (v : DerefVariant) :
    (∃ e, arm k v = .error e) ↔ (v.shape = .unit ∨ Spec.designated v.fields = none) := by
  unfold arm
  by_cases hu : v.shape = .unit
  · simp [hu]
  · simp only [hu, if_false, false_or]
    constructor
    · intro ⟨e, he⟩
      cases hp : pick v.fields (.noFieldOfVariant k) (.multipleFieldsOfVariant k) with
      | error e' => exact (pick_error_iff _ _ _).mp ⟨e', hp⟩
      | ok idx =>
        simp only [hp] at he
        have hd := (pick_eq_designated _ _ _ idx).mp hp
        have hlt := designated_lt _ _ hd
        rw [List.getElem?_eq_getElem hlt] at he
        simp only at he
        split at he <;> cases he
    · intro h
      obtain ⟨e, he⟩ := (pick_error_iff v.fields (.noFieldOfVariant k) (.multipleFieldsOfVariant k)).mpr h
      exact ⟨e, by simp [he]⟩

/-- Writing through `&mut *x` changes the designated field and nothing else. -/
theorem write_through_only_designated {V : Type} (a : Val V) (p : Place) (x : V) (j : Nat) (hj : j ≠ p.field) :
    (Sem.writeThrough a p x).fields[j]? = a.fields[j]? ∧ (Sem.writeThrough a p x).variant = a.variant := by
  simp [Sem.writeThrough, List.getElem?_set_ne (Ne.symm hj)]

theorem write_through_sets_designated {V : Type} (a : Val V) (p : Place) (x : V) (h : p.field < a.fields.length) :
    (Sem.writeThrough a p x).fields[p.field]? = some x := by
  simp [Sem.writeThrough, h]

/-! ### Non-vacuity -/

def exDerefType : DerefType := .enum
  [ { name := "A".toList, shape := .tuple, fields := [ {}, {}, { flag := true }, {} ] },
    { name := "B".toList, shape := .named, fields := [ { name := "x".toList }, { name := "y".toList, flag := true } ] },
    { name := "C".toList, shape := .tuple, fields := [ { isRef := true } ] } ]

example : (body exDerefType).toOption.bind (fun bd => Sem.evalDeref exDerefType bd (⟨0, [1, 2, 3, 4]⟩ : Val Nat)) = some ⟨0, 2⟩ := by decide
example : (body exDerefType).toOption.bind (fun bd => Sem.evalDeref exDerefType bd (⟨1, [1, 2]⟩ : Val Nat)) = some ⟨1, 1⟩ := by decide
example : (body exDerefType).toOption.bind (fun bd => Sem.evalDeref exDerefType bd (⟨2, [7]⟩ : Val Nat)) = some ⟨2, 0⟩ := by decide
-- two markers, or none among several fields, are refused
example : (body (.struct { shape := .tuple, fields := [ { flag := true }, { flag := true } ] })).toOption = none := by decide
example : (body (.struct { shape := .tuple, fields := [ {}, {} ] })).toOption = none := by decide


/-! ## What the generated code calls

The absolute paths (`::core::..`) named by the `quote!` templates of the handler, regenerated from /repo/src on every run
(`vtool extract`): the functions, traits and types the generated code can reach are exactly these - a call of anything
else (`::core::ptr::eq`, `::core::fmt::Display::fmt`, `::core::convert::From::from`, ...) is a change of what the
implementation does and has to be looked at. -/

theorem generated_calls_unchanged_deref :
    Generated.paths_trait_handlers_deref =
      ["::core::ops::Deref"] := by
  decide +kernel

theorem generated_calls_unchanged_deref_mut :
    Generated.paths_trait_handlers_deref_mut =
      ["::core::ops::Deref", "::core::ops::DerefMut"] := by
  decide +kernel

end Educe
