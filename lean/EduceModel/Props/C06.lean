import EduceModel.Lemmas.Env
import EduceModel.Spec.Debug
import EduceModel.Generated.Templates
/-
  C06 — Debug renders the effective shape exactly like core::fmt's builders.

  The theorem is about which builder calls the generated body makes (builder kind, name, ordered
  entries with key / formatter / value); the output string is then `DbgShape.render` on both
  sides, i.e. the same model of core::fmt's builders (Sem/FmtBuilders.lean), which is validated
  against the real std by the correspondence runs.
-/
namespace Educe
open Gen.Debug

def DbgVariant.WF (v : DbgVariant) : Prop :=
  (v.shape = .named → (v.fields.map DbgField.name).Nodup) ∧ (v.shape = .unit → v.fields = [])

def DbgType.WF : DbgType → Prop
  | .struct v _ => v.WF
  | .enum _ vs _ => ∀ v ∈ vs, v.WF

def DbgType.Inhabits {V : Type} (t : DbgType) (a : Val V) : Prop :=
  ∃ v, (Sem.variantsOfDbg t)[a.variant]? = some v ∧ a.fields.length = v.fields.length

theorem resolve_struct {V : Type} (isT : Bool) (a : List V) :
    ∀ (cs : List DbgField) (i : Nat), a.length = i + cs.length →
      Sem.resolveEntries [] a (structEntries isT i cs) = some (Spec.shownFields 0 isT i cs (a.drop i)) := by
  intro cs
  induction cs with
  | nil => intro i _; simp [structEntries, Sem.resolveEntries, Spec.shownFields]
  | cons c cs ih =>
    intro i ha
    simp only [List.length_cons] at ha
    have hia : i < a.length := by omega
    rw [List.drop_eq_getElem_cons hia]
    have ih' := ih (i + 1) (by omega)
    unfold structEntries
    by_cases hig : c.ignore = true
    · simp [hig, Spec.shownFields, ih']
    · simp only [hig, Bool.false_eq_true, if_false, Sem.resolveEntries, ih', Spec.shownFields]
      unfold arg keyOf tupSelf
      cases hm : c.method <;> cases hr : c.rename <;> cases isT <;>
        simp [evalRef, List.getElem?_eq_getElem hia]

theorem resolve_arm {V : Type} (E : Env V) (k : Nat) (posKey : Bool)
    (bs : Nat → DbgField → Option Ident) (own : Nat → DbgField → Ident)
    (hign : ∀ i c, c.ignore = true → bs i c = none)
    (hown : ∀ i c, own i c = if posKey then '_' :: digits i else c.name) :
    ∀ (cs : List DbgField) (i : Nat) (xs : List V), xs.length = cs.length →
      EnvOK1 E k DbgField.ignore bs i cs xs →
      Sem.resolveEntries E [] (armEntries bs own i cs) = some (Spec.shownFields k posKey i cs xs) := by
  intro cs
  induction cs with
  | nil => intro i xs _ _; simp [armEntries, Sem.resolveEntries, Spec.shownFields]
  | cons c cs ih =>
    intro i xs hx hok
    cases xs with
    | nil => simp at hx
    | cons x xs =>
      have ih' := ih (i + 1) xs (by simpa using hx) (EnvOK1_tail hok)
      unfold armEntries
      by_cases hig : c.ignore = true
      · simp [hign i c hig, Spec.shownFields, hig, ih']
      · have hig' : c.ignore = false := by simpa using hig
        obtain ⟨s, hs, ls⟩ := hok 0 c x (by simp) (by simp) hig'
        simp only [Nat.add_zero] at hs ls
        simp only [hs, Sem.resolveEntries, ih', Spec.shownFields, hig', Bool.false_eq_true, if_false]
        unfold arg keyOf
        rw [hown i c]
        cases hm : c.method <;> cases hr : c.rename <;> simp [evalRef, ls]

theorem builderOf_eq_styleOf (named : Bool) (name : Option Ident) :
    builderOf named name = Spec.styleOf named name := by
  unfold builderOf Spec.styleOf
  cases named <;> cases name <;> rfl

theorem nameString_eq (t v : Option Ident) : nameString t v = Spec.fullName t v := by
  cases t <;> cases v <;> rfl

theorem toIdent_eq_effName (c : NameCfg) (own : Ident) : c.toIdent own = Spec.effName c own := by
  cases c <;> rfl

theorem dbg_arms_get (tname : Option Ident) : ∀ (vs : List DbgVariant) (as : List DbgArm), arms tname vs = .ok as →
    as.length = vs.length ∧ ∀ (k : Nat) (v : DbgVariant), vs[k]? = some v → ∃ a, arm tname v = .ok a ∧ as[k]? = some a := by
  intro vs
  induction vs with
  | nil => intro as h; simp [arms] at h; cases h; simp
  | cons v vs ih =>
    intro as h
    simp only [arms] at h
    cases ha : arm tname v with
    | error e => simp [ha] at h
    | ok a =>
      simp only [ha] at h
      cases hr : arms tname vs with
      | error e => simp [hr] at h
      | ok as' =>
        simp only [hr] at h
        cases h
        obtain ⟨hl, hg⟩ := ih as' hr
        refine ⟨by simp [hl], ?_⟩
        intro k v' hk
        cases k with
        | zero => simp at hk; subst hk; exact ⟨a, ha, by simp⟩
        | succ k => simp at hk; simpa using hg k v' hk

/-- One accepted arm makes exactly the calls of the effective shape of a value of its variant. -/
theorem dbg_arm_correct {V : Type} (tname : NameCfg) (ename : Ident) (vs : List DbgVariant) (k : Nat)
    (v : DbgVariant) (hv : v.WF) (hk : vs[k]? = some v)
    (a : DbgArm) (ha : arm (tname.toIdent ename) v = .ok a)
    (xs : List V) (hx : xs.length = v.fields.length) :
    (Sem.resolveEntries (matchArm k (Sem.dbgNames v) xs a.pat) [] a.entries).map (fun r => (⟨a.builder, r⟩ : DbgShape V))
      = Spec.effectiveShape (.enum ename vs tname) ⟨k, xs⟩ := by
  simp only [Spec.effectiveShape, hk]
  rw [← toIdent_eq_effName, ← toIdent_eq_effName, ← nameString_eq]
  unfold arm at ha
  cases hsh : v.shape with
  | unit =>
    simp only [hsh] at ha ⊢
    cases hn : nameString (tname.toIdent ename) (v.vname.toIdent v.name) with
    | none => simp [hn] at ha
    | some s =>
      simp only [hn] at ha
      cases ha
      simp [Sem.resolveEntries]
  | tuple =>
    simp only [hsh] at ha ⊢
    split at ha
    · cases ha
    · cases ha
      simp only [matchArm]
      rw [matchTuple_eq_envOf, builderOf_eq_styleOf]
      rw [resolve_arm _ k true bindTup (fun i _ => tupSelf i) (by intro i c h; simp [bindTup, h])
        (by intro i c; simp [tupSelf]) v.fields 0 xs hx]
      · cases v.namedField <;> rfl
      · apply envOK1_of_envOf _ DbgField.ignore
        · intro j₁ j₂ c₁ c₂ x _ _ h1 h2
          unfold bindTup at h1 h2
          split at h1 <;> split at h2 <;> simp_all
          have := tupSelf_inj (h1.trans h2.symm); omega
        · intro j c h; simp [bindTup, h]
  | named =>
    have hnd := hv.1 hsh
    simp only [hsh] at ha ⊢
    split at ha
    · cases ha
    · cases ha
      simp only [matchArm, Sem.dbgNames]
      rw [matchNamed_eq_envOf k DbgField.name bindNamed v.fields xs hnd hx, builderOf_eq_styleOf]
      rw [resolve_arm _ k false bindNamed (fun _ c => c.name) (by intro i c h; simp [bindNamed, h])
        (by intro i c; simp) v.fields 0 xs hx]
      · cases v.namedField <;> rfl
      · apply envOK1_of_envOf _ DbgField.ignore
        · intro j₁ j₂ c₁ c₂ x g1 g2 h1 h2
          unfold bindNamed at h1 h2
          split at h1 <;> split at h2 <;> simp_all
          exact nodup_map_index DbgField.name v.fields j₁ j₂ c₁ c₂ hnd g1 g2 (namedUnderscore_inj (h1.trans h2.symm))
        · intro j c h; simp [bindNamed, h]

/-- **C06, main theorem.** Whenever the generator accepts the configuration, the calls the `fmt`
    body makes for any value — builder kind, name, and the ordered entries with their effective
    keys, formatters and values — are exactly the effective shape. -/
theorem debug_correct {V : Type} (t : DbgType) (ht : t.WF) (bd : DbgBody) (hbd : body t = .ok bd)
    (a : Val V) (ha : t.Inhabits a) :
    Sem.shapeOf t bd a = Spec.effectiveShape t a := by
  obtain ⟨va, hva, hla⟩ := ha
  obtain ⟨ka, xs⟩ := a
  simp only at hva hla
  cases t with
  | struct v tname =>
    simp only [Sem.variantsOfDbg] at hva
    have hk0 : ka = 0 := by
      cases ka with
      | zero => rfl
      | succ n => simp at hva
    subst hk0
    simp at hva; subst hva
    simp only [body, structBody] at hbd
    split at hbd
    · cases hbd
    · cases hbd
      simp only [Sem.shapeOf, Spec.effectiveShape]
      have := resolve_struct (V := V) (v.shape == .tuple) xs v.fields 0 (by omega)
      simp only [List.drop_zero] at this
      rw [this, builderOf_eq_styleOf, toIdent_eq_effName]
      cases v.namedField <;> cases hsh : v.shape <;> first | rfl | simp
  | enum ename vs tname =>
    simp only [Sem.variantsOfDbg] at hva
    simp only [body] at hbd
    cases has : arms (tname.toIdent ename) vs with
    | error e => simp [has] at hbd
    | ok as =>
      simp only [has] at hbd
      obtain ⟨hlen, hget⟩ := dbg_arms_get _ vs as has
      obtain ⟨arma, harma, hasa⟩ := hget ka va hva
      cases as with
      | nil => simp at hasa
      | cons a0 as' =>
        simp only at hbd
        cases hbd
        simp only [Sem.shapeOf, hasa, Sem.variantsOfDbg, hva]
        exact dbg_arm_correct tname ename vs ka va (ht va (List.mem_of_getElem? hva)) hva arma harma xs hla

/-- The printed text is the builders' output for the effective shape, in both formatter modes. -/
theorem debug_output {V : Type} (ops : DbgOps V) (t : DbgType) (ht : t.WF) (bd : DbgBody)
    (hbd : body t = .ok bd) (a : Val V) (ha : t.Inhabits a) (alt : Bool) :
    Sem.evalFmt ops t bd a alt = (Spec.effectiveShape t a).map fun s => s.render ops alt := by
  unfold Sem.evalFmt
  rw [debug_correct t ht bd hbd a ha]

/-- Ignored fields are absent; shown fields keep their declaration order. -/
theorem shownFields_positions {V : Type} (k : Nat) (pk : Bool) :
    ∀ (cs : List DbgField) (i : Nat) (xs : List V), xs.length = cs.length →
      (Spec.shownFields k pk i cs xs).map (fun e => e.2.2)
        = ((cs.zip xs).filter fun p => !p.1.ignore).map Prod.snd := by
  intro cs
  induction cs with
  | nil => intro i xs _; simp [Spec.shownFields]
  | cons c cs ih =>
    intro i xs h
    cases xs with
    | nil => simp at h
    | cons x xs =>
      have ih' := ih (i + 1) xs (by simpa using h)
      simp only [Spec.shownFields, List.zip_cons_cons]
      by_cases hig : c.ignore = true
      · simp [hig, ih']
      · simp [hig, ih']

/-! ### Equivalence with `#[derive(Debug)]` when no parameter is given -/

/-- No educe parameters anywhere. -/
def DbgVariant.Plain (v : DbgVariant) : Prop :=
  v.vname = .default ∧ v.namedField = none ∧ ∀ c ∈ v.fields, c.ignore = false ∧ c.method = none ∧ c.rename = none

theorem shownFields_plain_tuple {V : Type} (ops : DbgOps V) (k : Nat) :
    ∀ (cs : List DbgField) (i : Nat) (xs : List V),
      (∀ c ∈ cs, c.ignore = false ∧ c.method = none ∧ c.rename = none) →
      (Spec.shownFields k true i cs xs).map ops.out
        = (Spec.deriveShape.indexedV i cs xs).map
            (fun (e : Nat × DbgField × V) => ops.out (e.2.1.name, Formatter.own ⟨k, e.1⟩, e.2.2)) := by
  intro cs
  induction cs with
  | nil => intro i xs _; simp [Spec.shownFields, Spec.deriveShape.indexedV]
  | cons c cs ih =>
    intro i xs h
    cases xs with
    | nil => simp [Spec.shownFields, Spec.deriveShape.indexedV]
    | cons x xs =>
      obtain ⟨h1, h2, h3⟩ := h c (by simp)
      have ih' := ih (i + 1) xs (fun c' hc' => h c' (by simp [hc']))
      simp only [Spec.shownFields, Spec.deriveShape.indexedV, h1, h2, h3, ih', Bool.false_eq_true, if_false,
        List.map_cons]
      rfl

theorem shownFields_plain_named {V : Type} (k : Nat) :
    ∀ (cs : List DbgField) (i : Nat) (xs : List V),
      (∀ c ∈ cs, c.ignore = false ∧ c.method = none ∧ c.rename = none) →
      Spec.shownFields k false i cs xs
        = (Spec.deriveShape.indexedV i cs xs).map (fun (e : Nat × DbgField × V) => (e.2.1.name, Formatter.own ⟨k, e.1⟩, e.2.2)) := by
  intro cs
  induction cs with
  | nil => intro i xs _; simp [Spec.shownFields, Spec.deriveShape.indexedV]
  | cons c cs ih =>
    intro i xs h
    cases xs with
    | nil => simp [Spec.shownFields, Spec.deriveShape.indexedV]
    | cons x xs =>
      obtain ⟨h1, h2, h3⟩ := h c (by simp)
      have ih' := ih (i + 1) xs (fun c' hc' => h c' (by simp [hc']))
      simp [Spec.shownFields, Spec.deriveShape.indexedV, h1, h2, h3, ih']

/-- With no parameters, an educed Debug on an enum prints what `#[derive(Debug)]` prints, in both modes. -/
theorem derive_equiv_enum {V : Type} (ops : DbgOps V) (ename : Ident) (vs : List DbgVariant)
    (hplain : ∀ v ∈ vs, v.Plain) (hwf : ∀ v ∈ vs, v.shape = .unit → v.fields = [])
    (a : Val V) (alt : Bool) :
    (Spec.effectiveShape (.enum ename vs .disable) a).map (fun s => s.render ops alt)
      = (Spec.deriveShape (.enum ename vs .disable) a).map (fun s => s.render ops alt) := by
  simp only [Spec.effectiveShape, Spec.deriveShape]
  cases hv : vs[a.variant]? with
  | none => rfl
  | some v =>
    have hmem := List.mem_of_getElem? hv
    obtain ⟨hn, hnf, hfs⟩ := hplain v hmem
    simp only [Spec.effName, hn, hnf, Option.map_some]
    cases hsh : v.shape with
    | unit =>
      have := hwf v hmem hsh
      simp [DbgShape.render, Fmt.debugStruct, this, Spec.deriveShape.indexedV, Spec.fullName]
    | tuple =>
      simp only [Option.map_some, Spec.styleOf, DbgShape.render, Bool.false_eq_true, if_false, List.map_map,
        Spec.fullName]
      rw [shownFields_plain_tuple ops a.variant v.fields 0 a.fields hfs]
      rfl
    | named =>
      simp only [Option.map_some, Spec.styleOf, DbgShape.render, if_true, Spec.fullName]
      rw [shownFields_plain_named a.variant v.fields 0 a.fields hfs]

/-! ### Non-vacuity -/

def exDbgType : DbgType := .enum "E".toList
  [ { name := "A".toList, shape := .unit },
    { name := "B".toList, shape := .tuple, vname := .custom "Bee".toList, namedField := some true,
      fields := [ {}, { ignore := true }, { method := some 0, rename := some "third".toList } ] },
    { name := "C".toList, shape := .named, vname := .disable,
      fields := [ { name := "x".toList }, { name := "y".toList, ignore := true } ] } ] .default

def exDbgOps : DbgOps Nat :=
  { fmt := fun _ alt x => (if alt then "#" else "") ++ toString x, method := fun _ _ x => "M<" ++ toString x ++ ">" }

example : exDbgType.WF := by
  intro v hv
  simp [exDbgType] at hv
  rcases hv with rfl | rfl | rfl <;> simp [DbgVariant.WF]

example : (body exDbgType).toOption.isSome = true := by decide


/-! ## What the generated code calls

The absolute paths (`::core::..`) named by the `quote!` templates of the handler, regenerated from /repo/src on every run
(`vtool extract`): the functions, traits and types the generated code can reach are exactly these - a call of anything
else (`::core::ptr::eq`, `::core::fmt::Display::fmt`, `::core::convert::From::from`, ...) is a change of what the
implementation does and has to be looked at. -/

theorem generated_calls_unchanged_debug :
    Generated.paths_trait_handlers_debug =
      ["::core::fmt::Debug", "::core::fmt::Debug::fmt", "::core::fmt::Formatter", "::core::fmt::Result", "::core::marker::PhantomData", "::core::mem::size_of", "::core::primitive::str", "::core::primitive::u8", "::core::slice::from_raw_parts", "::core::stringify"] := by
  decide +kernel

end Educe
