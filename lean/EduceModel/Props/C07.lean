import EduceModel.Lemmas.Env
import EduceModel.Spec.Clone
import EduceModel.Generated.Templates
/-
  C07 — Clone and clone_from reproduce the source value field by field.
-/
namespace Educe
open Gen.Clone

def CloneVariant.WF (v : CloneVariant) : Prop :=
  (v.shape = .named → (v.fields.map CloneField.name).Nodup) ∧ (v.shape = .unit → v.fields = [])

def CloneType.WF : CloneType → Prop
  | .struct v => v.WF
  | .enum vs => ∀ v ∈ vs, v.WF
  | .union => True

def CloneType.Inhabits {V : Type} (t : CloneType) (a : Val V) : Prop :=
  match t with
  | .union => True
  | _ => ∃ v, Spec.cloneVariantOf t a.variant = some v ∧ a.fields.length = v.fields.length

def noIgnore (_ : CloneField) : Bool := false

def indexedFrom {α : Type} : Nat → List α → List (Nat × α)
  | _, [] => []
  | i, x :: xs => (i, x) :: indexedFrom (i + 1) xs

theorem applyUpdates_indexed {V : Type} :
    ∀ (news pre xs : List V), xs.length = news.length →
      Sem.applyUpdates (pre ++ xs) (indexedFrom pre.length news) = pre ++ news := by
  intro news
  induction news with
  | nil => intro pre xs h; simp at h; subst h; simp [indexedFrom, Sem.applyUpdates]
  | cons n news ih =>
    intro pre xs h
    cases xs with
    | nil => simp at h
    | cons x xs =>
      simp only [indexedFrom, Sem.applyUpdates]
      have hset : (pre ++ x :: xs).set pre.length n = (pre ++ [n]) ++ xs := by
        simp [List.set_append]
      rw [hset]
      have := ih (pre ++ [n]) xs (by simpa using h)
      simp only [List.length_append, List.length_cons, List.length_nil] at this
      simpa using this

theorem evalCloneExprs_struct {V : Type} (ops : CloneOps V) (a : List V) :
    ∀ (cs : List CloneField) (i : Nat), a.length = i + cs.length →
      Sem.evalCloneExprs ops [] a (structExprs i cs) = some (Spec.cloneFields ops 0 i cs (a.drop i)) := by
  intro cs
  induction cs with
  | nil => intro i _; simp [structExprs, Sem.evalCloneExprs, Spec.cloneFields]
  | cons c cs ih =>
    intro i ha
    simp only [List.length_cons] at ha
    have hia : i < a.length := by omega
    have hda : a.drop i = a[i] :: a.drop (i + 1) := List.drop_eq_getElem_cons hia
    rw [hda]
    simp only [structExprs, Sem.evalCloneExprs, ih (i + 1) (by omega), Spec.cloneFields]
    unfold expr Spec.cloneAt
    cases hm : c.method <;> simp [Sem.evalCloneExpr, evalRef, List.getElem?_eq_getElem hia]

theorem evalCloneExprs_arm {V : Type} (ops : CloneOps V) (E : Env V) (k : Nat)
    (bs : Nat → CloneField → Option Ident) :
    ∀ (cs : List CloneField) (i : Nat) (xs : List V), xs.length = cs.length →
      EnvOK1 E k noIgnore bs i cs xs →
      Sem.evalCloneExprs ops E [] (armExprs bs i cs) = some (Spec.cloneFields ops k i cs xs) := by
  intro cs
  induction cs with
  | nil => intro i xs _ _; simp [armExprs, Sem.evalCloneExprs, Spec.cloneFields]
  | cons c cs ih =>
    intro i xs hx hok
    cases xs with
    | nil => simp at hx
    | cons x xs =>
      have ih' := ih (i + 1) xs (by simpa using hx) (EnvOK1_tail hok)
      obtain ⟨s, hs, ls⟩ := hok 0 c x (by simp) (by simp) rfl
      simp only [Nat.add_zero] at hs ls
      simp only [armExprs, hs, Sem.evalCloneExprs, ih', Spec.cloneFields]
      unfold expr Spec.cloneAt
      cases hm : c.method <;> simp [Sem.evalCloneExpr, evalRef, ls]

theorem evalCF_struct {V : Type} (ops : CloneOps V) (a b : List V) :
    ∀ (cs : List CloneField) (i : Nat), a.length = i + cs.length → b.length = i + cs.length →
      Sem.evalCFStmts ops [] a b (structCF i cs)
        = some (indexedFrom i (Spec.cfFields ops 0 i cs (a.drop i) (b.drop i))) := by
  intro cs
  induction cs with
  | nil => intro i _ _; simp [structCF, Sem.evalCFStmts, Spec.cfFields, indexedFrom]
  | cons c cs ih =>
    intro i ha hb
    simp only [List.length_cons] at ha hb
    have hia : i < a.length := by omega
    have hib : i < b.length := by omega
    rw [List.drop_eq_getElem_cons hia, List.drop_eq_getElem_cons hib]
    simp only [structCF, Sem.evalCFStmts, ih (i + 1) (by omega) (by omega), Spec.cfFields, indexedFrom]
    unfold cfStmt Spec.cfAt
    cases hm : c.method <;>
      simp [Sem.evalCFStmt, evalRef, List.getElem?_eq_getElem hia, List.getElem?_eq_getElem hib]

theorem evalCF_arm {V : Type} (ops : CloneOps V) (E : Env V) (k : Nat)
    (bd bs : Nat → CloneField → Option Ident) :
    ∀ (cs : List CloneField) (i : Nat) (xs ys : List V), xs.length = cs.length → ys.length = cs.length →
      EnvOK E k noIgnore bd bs i cs xs ys →
      Sem.evalCFStmts ops E [] [] (armCF bd bs i cs)
        = some (indexedFrom i (Spec.cfFields ops k i cs xs ys)) := by
  intro cs
  induction cs with
  | nil => intro i xs ys _ _ _; simp [armCF, Sem.evalCFStmts, Spec.cfFields, indexedFrom]
  | cons c cs ih =>
    intro i xs ys hx hy hok
    cases xs with | nil => simp at hx | cons x xs =>
    cases ys with | nil => simp at hy | cons y ys =>
    have ih' := ih (i + 1) xs ys (by simpa using hx) (by simpa using hy) (EnvOK_tail hok)
    obtain ⟨d, s, hd, hs, ld, ls⟩ := hok 0 c x y (by simp) (by simp) (by simp) rfl
    simp only [Nat.add_zero] at hd hs ld ls
    simp only [armCF, hd, hs, Sem.evalCFStmts, ih', Spec.cfFields, indexedFrom]
    unfold cfStmt Spec.cfAt
    cases hm : c.method <;> simp [Sem.evalCFStmt, evalRef, ld, ls]

theorem cloneFields_length {V : Type} (ops : CloneOps V) (k : Nat) :
    ∀ (cs : List CloneField) (i : Nat) (xs : List V), xs.length = cs.length →
      (Spec.cloneFields ops k i cs xs).length = cs.length := by
  intro cs
  induction cs with
  | nil => intro i xs _; simp [Spec.cloneFields]
  | cons c cs ih =>
    intro i xs h
    cases xs with
    | nil => simp at h
    | cons x xs => simp [Spec.cloneFields, ih (i + 1) xs (by simpa using h)]

theorem cfFields_length {V : Type} (ops : CloneOps V) (k : Nat) :
    ∀ (cs : List CloneField) (i : Nat) (xs ys : List V), xs.length = cs.length → ys.length = cs.length →
      (Spec.cfFields ops k i cs xs ys).length = cs.length := by
  intro cs
  induction cs with
  | nil => intro i xs ys _ _; simp [Spec.cfFields]
  | cons c cs ih =>
    intro i xs ys h1 h2
    cases xs with | nil => simp at h1 | cons x xs =>
    cases ys with | nil => simp at h2 | cons y ys =>
    simp [Spec.cfFields, ih (i + 1) xs ys (by simpa using h1) (by simpa using h2)]

/-- The clone arm: its pattern binds every field, its constructor clones each once. -/
theorem arm_clone_correct {V : Type} (ops : CloneOps V) (k : Nat) (v : CloneVariant) (hv : v.WF)
    (xs : List V) (hx : xs.length = v.fields.length) :
    Sem.evalCloneExprs ops (matchArm k (Sem.cloneNames v) xs (arm v).srcPat) [] (arm v).fields
      = some (Spec.cloneFields ops k 0 v.fields xs) := by
  unfold arm
  cases hsh : v.shape with
  | unit => have := hv.2 hsh; simp [this, Sem.evalCloneExprs, Spec.cloneFields]
  | tuple =>
    simp only [matchArm]
    rw [matchTuple_eq_envOf]
    apply evalCloneExprs_arm ops _ k bindTupSelf v.fields 0 xs hx
    apply envOK1_of_envOf _ noIgnore
    · intro j₁ j₂ c₁ c₂ x _ _ h1 h2
      simp only [bindTupSelf, Option.some.injEq] at h1 h2
      have := tupSelf_inj (h1.trans h2.symm); omega
    · intro j c _; simp [bindTupSelf]
  | named =>
    have hnd := hv.1 hsh
    simp only [matchArm, Sem.cloneNames]
    rw [matchNamed_eq_envOf k CloneField.name bindNamedSrc v.fields xs hnd hx]
    apply evalCloneExprs_arm ops _ k bindNamedSrc v.fields 0 xs hx
    apply envOK1_of_envOf _ noIgnore
    · intro j₁ j₂ c₁ c₂ x g1 g2 h1 h2
      simp only [bindNamedSrc, Option.some.injEq] at h1 h2
      exact nodup_map_index CloneField.name v.fields j₁ j₂ c₁ c₂ hnd g1 g2 (namedSelf_inj (h1.trans h2.symm))
    · intro j c _; simp [bindNamedSrc]

/-- The same-variant path of `clone_from`. -/
theorem arm_cf_correct {V : Type} (ops : CloneOps V) (k : Nat) (v : CloneVariant) (hv : v.WF)
    (xs ys : List V) (hx : xs.length = v.fields.length) (hy : ys.length = v.fields.length) :
    Sem.evalCFStmts ops
        (matchArm k (Sem.cloneNames v) ys (arm v).cfSrcPat ++ matchArm k (Sem.cloneNames v) xs (arm v).dstPat)
        [] [] (arm v).cfBlock
      = some (indexedFrom 0 (Spec.cfFields ops k 0 v.fields xs ys)) := by
  unfold arm
  cases hsh : v.shape with
  | unit => have := hv.2 hsh; simp [this, Sem.evalCFStmts, Spec.cfFields, indexedFrom]
  | tuple =>
    simp only [matchArm]
    rw [matchTuple_eq_envOf, matchTuple_eq_envOf]
    apply evalCF_arm ops _ k bindTupSelf bindTupOther v.fields 0 xs ys hx hy
    apply envOK_of_envOf _ noIgnore
    · intro j₁ j₂ c₁ c₂ x _ _ h1 h2
      simp only [bindTupSelf, Option.some.injEq] at h1 h2
      have := tupSelf_inj (h1.trans h2.symm); omega
    · intro j₁ j₂ c₁ c₂ x _ _ h1 h2
      simp only [bindTupOther, Option.some.injEq] at h1 h2
      have := tupOther_inj (h1.trans h2.symm); omega
    · intro j₁ j₂ c₁ c₂ x h1 h2
      simp only [bindTupSelf, bindTupOther, Option.some.injEq] at h1 h2
      exact tupSelf_ne_tupOther j₁ j₂ (h1.trans h2.symm)
    · intro j c _; simp [bindTupSelf, bindTupOther]
  | named =>
    have hnd := hv.1 hsh
    simp only [matchArm, Sem.cloneNames]
    rw [matchNamed_eq_envOf k CloneField.name bindNamedSrc v.fields ys hnd hy,
        matchNamed_eq_envOf k CloneField.name bindNamedDst v.fields xs hnd hx]
    apply evalCF_arm ops _ k bindNamedDst bindNamedSrc v.fields 0 xs ys hx hy
    apply envOK_of_envOf _ noIgnore
    · intro j₁ j₂ c₁ c₂ x g1 g2 h1 h2
      simp only [bindNamedDst, Option.some.injEq] at h1 h2
      exact nodup_map_index CloneField.name v.fields j₁ j₂ c₁ c₂ hnd g1 g2 (namedDst_inj (h1.trans h2.symm))
    · intro j₁ j₂ c₁ c₂ x g1 g2 h1 h2
      simp only [bindNamedSrc, Option.some.injEq] at h1 h2
      exact nodup_map_index CloneField.name v.fields j₁ j₂ c₁ c₂ hnd g1 g2 (namedSelf_inj (h1.trans h2.symm))
    · intro j₁ j₂ c₁ c₂ x h1 h2
      simp only [bindNamedDst, bindNamedSrc, Option.some.injEq] at h1 h2
      exact namedSelf_ne_namedDst _ _ (h2.trans h1.symm)
    · intro j c _; simp [bindNamedDst, bindNamedSrc]

theorem bitwise_iff_copySelf (copy : Bool) (t : CloneType) :
    Spec.bitwise copy t = true ↔ body copy t = .copySelf := by
  cases t with
  | union => simp [Spec.bitwise, body]
  | struct v => cases copy <;> simp [Spec.bitwise, body]
  | enum vs =>
    simp only [Spec.bitwise, body, hasMethod]
    by_cases h : (copy && !(vs.any fun v => v.fields.any fun c => c.method.isSome)) = true <;> simp [h]

/-- **C07, clone.** -/
theorem clone_correct {V : Type} (ops : CloneOps V) (copy : Bool) (t : CloneType) (ht : t.WF)
    (a : Val V) (ha : t.Inhabits a) :
    Sem.evalClone ops t (body copy t) a = some (Spec.clone ops copy t a) := by
  by_cases hb : Spec.bitwise copy t = true
  · rw [(bitwise_iff_copySelf copy t).mp hb]
    simp [Sem.evalClone, Spec.clone, hb]
  · have hb' : Spec.bitwise copy t = false := by simpa using hb
    cases t with
    | union => simp [Spec.bitwise] at hb
    | struct v =>
      have hc : copy = false := by simpa [Spec.bitwise] using hb'
      obtain ⟨va, hva, hla⟩ := ha
      simp only [Spec.cloneVariantOf] at hva
      split at hva <;> simp at hva
      subst hva
      rename_i h0
      simp only [body, hc, Bool.false_eq_true, if_false, Sem.evalClone, Spec.clone, hb', Spec.cloneVariantOf, h0, if_true]
      have := evalCloneExprs_struct ops a.fields v.fields 0 (by omega)
      simp only [List.drop_zero] at this
      rw [this, ← h0]; rfl
    | enum vs =>
      obtain ⟨va, hva, hla⟩ := ha
      simp only [Spec.cloneVariantOf] at hva
      have hbody : body copy (.enum vs) = .enum (vs.map arm) := by
        simp only [body]
        have : (copy && !hasMethod vs) = false := by simpa [Spec.bitwise, hasMethod] using hb'
        simp [this]
      have harm : (vs.map arm)[a.variant]? = some (arm va) := by simp [hva]
      have hmem : va ∈ vs := List.mem_of_getElem? hva
      simp only [hbody, Sem.evalClone, harm, hva, Spec.clone, hb', Spec.cloneVariantOf, Bool.false_eq_true, if_false]
      rw [arm_clone_correct ops a.variant va (ht va hmem) a.fields hla]
      rfl

/-- **C07, clone_from.** For every prior `a`: the same-variant path rewrites each field from the
    corresponding field of `b` (method on `b`'s field, or `clone_from`), the other path assigns a
    fresh clone of `b`. -/
theorem cloneFrom_correct {V : Type} (ops : CloneOps V) (copy : Bool) (t : CloneType) (ht : t.WF)
    (a b : Val V) (ha : t.Inhabits a) (hb : t.Inhabits b) :
    Sem.evalCloneFrom ops t (body copy t) a b = some (Spec.cloneFrom ops copy t a b) := by
  by_cases hbw : Spec.bitwise copy t = true
  · rw [(bitwise_iff_copySelf copy t).mp hbw]
    simp [Sem.evalCloneFrom, Spec.cloneFrom, hbw]
  · have hbw' : Spec.bitwise copy t = false := by simpa using hbw
    cases t with
    | union => simp [Spec.bitwise] at hbw
    | struct v =>
      have hc : copy = false := by simpa [Spec.bitwise] using hbw'
      obtain ⟨va, hva, hla⟩ := ha
      obtain ⟨vb, hvb, hlb⟩ := hb
      obtain ⟨ka, xs⟩ := a
      obtain ⟨kb, ys⟩ := b
      simp only [Spec.cloneVariantOf] at hva hvb
      split at hva <;> simp at hva
      split at hvb <;> simp at hvb
      subst hva; subst hvb
      rename_i h0a h0b
      simp only at h0a h0b hla hlb
      subst h0a; subst h0b
      simp only [body, hc, Bool.false_eq_true, if_false, Sem.evalCloneFrom, Spec.cloneFrom, hbw',
        Spec.cloneVariantOf, if_true]
      have := evalCF_struct ops xs ys v.fields 0 (by omega) (by omega)
      simp only [List.drop_zero] at this
      rw [this]
      have hlen := cfFields_length ops 0 v.fields 0 xs ys hla hlb
      have hap := applyUpdates_indexed (Spec.cfFields ops 0 0 v.fields xs ys) [] xs (by omega)
      simp only [List.length_nil, List.nil_append] at hap
      subst hc
      simp [hap, Spec.bitwise]
    | enum vs =>
      obtain ⟨va, hva, hla⟩ := ha
      obtain ⟨vb, hvb, hlb⟩ := hb
      simp only [Spec.cloneVariantOf] at hva hvb
      have hbody : body copy (.enum vs) = .enum (vs.map arm) := by
        simp only [body]
        have : (copy && !hasMethod vs) = false := by simpa [Spec.bitwise, hasMethod] using hbw'
        simp [this]
      have harm : (vs.map arm)[a.variant]? = some (arm va) := by simp [hva]
      have hmem : va ∈ vs := List.mem_of_getElem? hva
      by_cases hab : b.variant = a.variant
      · have hvb2 : vb = va := by rw [hab, hva] at hvb; exact (Option.some.inj hvb).symm
        subst hvb2
        simp only [hbody, Sem.evalCloneFrom, harm, hva, hab, if_true, Spec.cloneFrom, hbw', Spec.cloneVariantOf,
          Bool.false_eq_true, if_false]
        rw [arm_cf_correct ops a.variant vb (ht vb hmem) a.fields b.fields hla hlb]
        have hlen := cfFields_length ops a.variant vb.fields 0 a.fields b.fields hla hlb
        have hap := applyUpdates_indexed (Spec.cfFields ops a.variant 0 vb.fields a.fields b.fields) [] a.fields (by omega)
        simp only [List.length_nil, List.nil_append] at hap
        simp [hap]
      · have hab' : ¬ a.variant = b.variant := fun h => hab h.symm
        have hcl := clone_correct ops copy (.enum vs) ht b ⟨vb, hvb, hlb⟩
        rw [hbody] at hcl
        simp only [hbody, Sem.evalCloneFrom, harm, hva, hab, hab', if_false, Spec.cloneFrom, hbw', Bool.false_eq_true]
        exact hcl

/-- When every leaf's `clone_from(dst, src)` leaves `dst` equal to `src.clone()` (the contract of
    `Clone::clone_from`), `a.clone_from(&b)` is `b.clone()` for every prior `a`. -/
theorem cfFields_eq_cloneFields {V : Type} (ops : CloneOps V) (k : Nat)
    (hlaw : ∀ p x y, ops.cloneFrom p x y = ops.clone p y) :
    ∀ (cs : List CloneField) (i : Nat) (xs ys : List V), xs.length = cs.length → ys.length = cs.length →
      Spec.cfFields ops k i cs xs ys = Spec.cloneFields ops k i cs ys := by
  intro cs
  induction cs with
  | nil => intro i xs ys _ _; cases ys <;> cases xs <;> simp [Spec.cfFields, Spec.cloneFields]
  | cons c cs ih =>
    intro i xs ys h1 h2
    cases xs with | nil => simp at h1 | cons x xs =>
    cases ys with | nil => simp at h2 | cons y ys =>
    simp only [Spec.cfFields, Spec.cloneFields, ih (i + 1) xs ys (by simpa using h1) (by simpa using h2)]
    unfold Spec.cfAt Spec.cloneAt
    cases c.method <;> simp [hlaw]

theorem cloneFrom_is_clone_of_source {V : Type} (ops : CloneOps V) (copy : Bool) (t : CloneType)
    (hlaw : ∀ p x y, ops.cloneFrom p x y = ops.clone p y)
    (a b : Val V) (ha : t.Inhabits a) (hb : t.Inhabits b) :
    Spec.cloneFrom ops copy t a b = Spec.clone ops copy t b := by
  unfold Spec.cloneFrom Spec.clone
  by_cases hbw : Spec.bitwise copy t = true
  · simp [hbw]
  · simp only [hbw, Bool.false_eq_true, if_false]
    by_cases hab : a.variant = b.variant
    · simp only [hab, if_true]
      cases t with
      | union => simp [Spec.bitwise] at hbw
      | struct v =>
        obtain ⟨va, hva, hla⟩ := ha
        obtain ⟨vb, hvb, hlb⟩ := hb
        rw [hab] at hva
        rw [hva] at hvb; cases hvb
        simp only [hva]
        rw [cfFields_eq_cloneFields ops b.variant hlaw va.fields 0 a.fields b.fields hla hlb]
      | enum vs =>
        obtain ⟨va, hva, hla⟩ := ha
        obtain ⟨vb, hvb, hlb⟩ := hb
        rw [hab] at hva
        rw [hva] at hvb; cases hvb
        simp only [hva]
        rw [cfFields_eq_cloneFields ops b.variant hlaw va.fields 0 a.fields b.fields hla hlb]
    · simp [hab]

/-- With Copy educed and no custom clone method in use (and for unions), `clone` is the identity on
    the value — a bitwise copy — and `clone_from` is not overridden. -/
theorem copy_clone_is_bitwise {V : Type} (ops : CloneOps V) (copy : Bool) (t : CloneType)
    (h : Spec.bitwise copy t = true) (a b : Val V) :
    Spec.clone ops copy t a = a ∧ Spec.cloneFrom ops copy t a b = b := by
  simp [Spec.clone, Spec.cloneFrom, h]

/-! ### Non-vacuity -/

def exCloneType : CloneType := .enum
  [ { name := "A".toList, shape := .unit },
    { name := "B".toList, shape := .tuple, fields := [ {}, { method := some 0 } ] },
    { name := "C".toList, shape := .named, fields := [ { name := "x".toList, method := some 0 }, { name := "y".toList } ] } ]

def exCloneOps : CloneOps Nat :=
  { clone := fun _ x => x, cloneFrom := fun _ x y => 1000 * x + y, method := fun _ x => x + 50 }

example : exCloneType.WF := by
  intro v hv
  simp [exCloneType] at hv
  rcases hv with rfl | rfl | rfl <;> simp [CloneVariant.WF]

example : Sem.evalClone exCloneOps exCloneType (body false exCloneType) ⟨1, [3, 4]⟩ = some ⟨1, [3, 54]⟩ := by decide
example : Sem.evalCloneFrom exCloneOps exCloneType (body false exCloneType) ⟨1, [1, 2]⟩ ⟨1, [3, 4]⟩ = some ⟨1, [1003, 54]⟩ := by decide
example : Sem.evalCloneFrom exCloneOps exCloneType (body false exCloneType) ⟨0, []⟩ ⟨2, [3, 4]⟩ = some ⟨2, [53, 4]⟩ := by decide
example : Sem.evalCloneFrom exCloneOps exCloneType (body true exCloneType) ⟨2, [1, 2]⟩ ⟨2, [3, 4]⟩ = some ⟨2, [53, 2004]⟩ := by decide


/-! ## What the generated code calls

The absolute paths (`::core::..`) named by the `quote!` templates of the handler, regenerated from /repo/src on every run
(`vtool extract`): the functions, traits and types the generated code can reach are exactly these - a call of anything
else (`::core::ptr::eq`, `::core::fmt::Display::fmt`, `::core::convert::From::from`, ...) is a change of what the
implementation does and has to be looked at. -/

theorem generated_calls_unchanged_clone :
    Generated.paths_trait_handlers_clone =
      ["::core::clone::Clone", "::core::clone::Clone::clone", "::core::clone::Clone::clone_from", "::core::marker::Copy", "::core::unreachable"] := by
  decide +kernel

theorem generated_calls_unchanged_copy :
    Generated.paths_trait_handlers_copy =
      ["::core::clone::Clone", "::core::marker::Copy"] := by
  decide +kernel

end Educe
