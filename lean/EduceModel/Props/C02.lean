import EduceModel.Lemmas.EqLemmas
import EduceModel.Generated.Templates
/-
  C02 — PartialEq is exactly field-wise equality over the compared fields.

  Property theorems only. Statement-level vocabulary:
  * `EqType`      the type definition with, per field, the ignore / method choice the attribute
                  layer produced (from `PartialEq(...)` or, when `Eq` is educed, `Eq(...)`);
  * `Gen.PartialEq.body`  the generated `eq` body (named binders, patterns, statements);
  * `Sem.evalEq`  its evaluation; `none` would mean an unbound binder (ill-scoped code);
  * `Spec.eq`     the reference semantics.
-/
namespace Educe
open Gen.PartialEq

/-- Well-formedness of the *user's* definition that Rust itself guarantees: field names of a
    struct-like variant are pairwise distinct; unit variants have no fields. -/
def EqVariant.WF (v : EqVariant) : Prop :=
  (v.shape = .named → (v.fields.map EqField.name).Nodup) ∧ (v.shape = .unit → v.fields = [])

def EqType.WF : EqType → Prop
  | .struct v => v.WF
  | .enum vs => ∀ v ∈ vs, v.WF

/-- A value inhabits the type: its variant exists and it has that variant's number of fields. -/
def EqType.Inhabits {V : Type} (t : EqType) (a : Val V) : Prop :=
  ∃ v, Spec.variantOf t a.variant = some v ∧ a.fields.length = v.fields.length

theorem eq_arm_correct {V : Type} (ops : EqOps V) (k : Nat) (v : EqVariant) (hv : v.WF)
    (xs ys : List V) (hx : xs.length = v.fields.length) (hy : ys.length = v.fields.length) :
    Sem.evalEqStmts ops
        (matchArm k (Sem.eqNames v) ys (arm v).otherPat ++ matchArm k (Sem.eqNames v) xs (arm v).selfPat)
        [] [] (arm v).block
      = some (Spec.fieldsEq ops k 0 v.fields xs ys) := by
  unfold arm
  cases hsh : v.shape with
  | unit =>
    have := hv.2 hsh
    simp [this, Sem.evalEqStmts, Spec.fieldsEq]
  | tuple =>
    simp only [matchArm]
    rw [matchTuple_eq_envOf, matchTuple_eq_envOf]
    apply evalEqStmts_arm ops _ k bindTupSelf bindTupOther
      (by intro i c h; simp [bindTupSelf, h]) v.fields 0 xs ys hx hy
    apply envOK_of_envOf _ EqField.ignore
    · intro j₁ j₂ c₁ c₂ x _ _ h1 h2
      unfold bindTupSelf at h1 h2
      split at h1 <;> split at h2 <;> simp_all
      have := tupSelf_inj (h1.trans h2.symm); omega
    · intro j₁ j₂ c₁ c₂ x _ _ h1 h2
      unfold bindTupOther at h1 h2
      split at h1 <;> split at h2 <;> simp_all
      have := tupOther_inj (h1.trans h2.symm); omega
    · intro j₁ j₂ c₁ c₂ x h1 h2
      unfold bindTupSelf at h1; unfold bindTupOther at h2
      split at h1 <;> split at h2 <;> simp_all
      exact tupSelf_ne_tupOther j₁ j₂ (h1.trans h2.symm)
    · intro j c h; simp [bindTupSelf, bindTupOther, h]
  | named =>
    have hnd := hv.1 hsh
    simp only [matchArm, Sem.eqNames]
    rw [matchNamed_eq_envOf k EqField.name bindNamedSelf v.fields xs hnd hx,
        matchNamed_eq_envOf k EqField.name bindNamedOther v.fields ys hnd hy]
    apply evalEqStmts_arm ops _ k bindNamedSelf bindNamedOther
      (by intro i c h; simp [bindNamedSelf, h]) v.fields 0 xs ys hx hy
    apply envOK_of_envOf _ EqField.ignore
    · intro j₁ j₂ c₁ c₂ x g1 g2 h1 h2
      unfold bindNamedSelf at h1 h2
      split at h1 <;> split at h2 <;> simp_all
      exact nodup_map_index EqField.name v.fields j₁ j₂ c₁ c₂ hnd g1 g2 (namedSelf_inj (h1.trans h2.symm))
    · intro j₁ j₂ c₁ c₂ x g1 g2 h1 h2
      unfold bindNamedOther at h1 h2
      split at h1 <;> split at h2 <;> simp_all
      exact nodup_map_index EqField.name v.fields j₁ j₂ c₁ c₂ hnd g1 g2 (namedOther_inj (h1.trans h2.symm))
    · intro j₁ j₂ c₁ c₂ x h1 h2
      unfold bindNamedSelf at h1; unfold bindNamedOther at h2
      split at h1 <;> split at h2 <;> simp_all
      exact namedSelf_ne_namedOther _ _ (h1.trans h2.symm)
    · intro j c h; simp [bindNamedSelf, bindNamedOther, h]

/-- **C02, main theorem.** For every type definition, every ignore/method assignment, every leaf
    behaviour and every pair of values, the generated `eq` evaluates (all binders resolve) and
    returns exactly: same variant ∧ every non-ignored field equal under its method / own `ne`. -/
theorem partialEq_correct {V : Type} (ops : EqOps V) (t : EqType) (ht : t.WF)
    (a b : Val V) (ha : t.Inhabits a) (hb : t.Inhabits b) :
    Sem.evalEq ops t (body t) a b = some (Spec.eq ops t a b) := by
  obtain ⟨va, hva, hla⟩ := ha
  obtain ⟨vb, hvb, hlb⟩ := hb
  cases t with
  | struct v =>
    simp only [Spec.variantOf] at hva hvb
    split at hva <;> simp at hva
    split at hvb <;> simp at hvb
    subst hva; subst hvb
    rename_i h0a h0b
    simp only [body, Sem.evalEq, Spec.eq, Spec.variantOf, h0a, h0b]
    have := evalEqStmts_struct ops a.fields b.fields v.fields 0 (by omega) (by omega)
    simpa using this
  | enum vs =>
    simp only [Spec.variantOf] at hva hvb
    simp only [body, Spec.eq, Spec.variantOf, hva]
    have harm : (vs.map arm)[a.variant]? = some (arm va) := by simp [hva]
    have hne : (vs.map arm).isEmpty = false := by
      cases vs with
      | nil => simp at hva
      | cons _ _ => simp
    simp only [Sem.evalEq, hne, harm, hva]
    by_cases hbv : b.variant = a.variant
    · have hvb' : vb = va := by rw [hbv, hva] at hvb; exact (Option.some.inj hvb).symm
      subst hvb'
      have hmem : vb ∈ vs := List.mem_of_getElem? hva
      simp only [hbv, if_true]
      rw [eq_arm_correct ops a.variant vb (ht vb hmem) a.fields b.fields hla hlb]
      simp
    · have : (a.variant == b.variant) = false := by
        simp; exact fun h => hbv h.symm
      simp [hbv, this]

/-- Ignored fields never influence the result: changing them on either side changes nothing. -/
theorem fieldsEq_ignored_irrelevant {V : Type} (ops : EqOps V) (k : Nat) :
    ∀ (cs : List EqField) (i : Nat) (xs xs' ys ys' : List V),
      xs.length = cs.length → xs'.length = cs.length → ys.length = cs.length → ys'.length = cs.length →
      (∀ (j : Nat) (c : EqField), cs[j]? = some c → c.ignore = false → xs[j]? = xs'[j]? ∧ ys[j]? = ys'[j]?) →
      Spec.fieldsEq ops k i cs xs ys = Spec.fieldsEq ops k i cs xs' ys' := by
  intro cs
  induction cs with
  | nil => intros; simp [Spec.fieldsEq]
  | cons c cs ih =>
    intro i xs xs' ys ys' h1 h2 h3 h4 hag
    cases xs with | nil => simp at h1 | cons x xs =>
    cases xs' with | nil => simp at h2 | cons x' xs' =>
    cases ys with | nil => simp at h3 | cons y ys =>
    cases ys' with | nil => simp at h4 | cons y' ys' =>
    have ih' := ih (i + 1) xs xs' ys ys' (by simpa using h1) (by simpa using h2)
      (by simpa using h3) (by simpa using h4)
      (by intro j c' hc hig; simpa using hag (j + 1) c' (by simpa using hc) hig)
    simp only [Spec.fieldsEq, ih']
    by_cases hig : c.ignore = true
    · simp [hig]
    · have hig' : c.ignore = false := by simpa using hig
      have := hag 0 c (by simp) hig'
      simp at this
      simp [hig', this.1, this.2]

theorem ignored_irrelevant {V : Type} (ops : EqOps V) (t : EqType)
    (a a' b b' : Val V) (v : EqVariant)
    (hv : Spec.variantOf t a.variant = some v)
    (hva : a'.variant = a.variant) (hvb : b'.variant = b.variant)
    (hla : a.fields.length = v.fields.length) (hla' : a'.fields.length = v.fields.length)
    (hlb : b.fields.length = v.fields.length) (hlb' : b'.fields.length = v.fields.length)
    (hag : ∀ (j : Nat) (c : EqField), v.fields[j]? = some c → c.ignore = false →
        a.fields[j]? = a'.fields[j]? ∧ b.fields[j]? = b'.fields[j]?) :
    Spec.eq ops t a b = Spec.eq ops t a' b' := by
  simp only [Spec.eq, hva, hvb, hv]
  rw [fieldsEq_ignored_irrelevant ops a.variant v.fields 0 a.fields a'.fields b.fields b'.fields
    hla hla' hlb hlb' hag]

/-! ### Laws, under the corresponding laws of the compared leaf relations -/

/-- The leaf relation the property talks about at a compared field. -/
def LeafRefl {V : Type} (ops : EqOps V) (t : EqType) : Prop :=
  ∀ k v i c x, Spec.variantOf t k = some v → v.fields[i]? = some c → c.ignore = false →
    Spec.fieldEq ops k i c x x = true
def LeafSymm {V : Type} (ops : EqOps V) (t : EqType) : Prop :=
  ∀ k v i c x y, Spec.variantOf t k = some v → v.fields[i]? = some c → c.ignore = false →
    Spec.fieldEq ops k i c x y = Spec.fieldEq ops k i c y x
def LeafTrans {V : Type} (ops : EqOps V) (t : EqType) : Prop :=
  ∀ k v i c x y z, Spec.variantOf t k = some v → v.fields[i]? = some c → c.ignore = false →
    Spec.fieldEq ops k i c x y = true → Spec.fieldEq ops k i c y z = true →
    Spec.fieldEq ops k i c x z = true

theorem fieldsEq_refl {V : Type} (ops : EqOps V) (k : Nat) :
    ∀ (cs : List EqField) (i : Nat) (xs : List V),
      (∀ j c x, cs[j]? = some c → c.ignore = false → Spec.fieldEq ops k (i + j) c x x = true) →
      Spec.fieldsEq ops k i cs xs xs = true := by
  intro cs
  induction cs with
  | nil => intros; simp [Spec.fieldsEq]
  | cons c cs ih =>
    intro i xs h
    cases xs with
    | nil => simp [Spec.fieldsEq]
    | cons x xs =>
      have ih' := ih (i + 1) xs (by
        intro j c' x' hc hig
        have := h (j + 1) c' x' (by simpa using hc) hig
        rwa [show i + (j + 1) = i + 1 + j by omega] at this)
      simp only [Spec.fieldsEq, ih', Bool.and_true]
      by_cases hig : c.ignore = true
      · simp [hig]
      · have := h 0 c x (by simp) (by simpa using hig)
        simp at this; simp [this]

theorem fieldsEq_symm {V : Type} (ops : EqOps V) (k : Nat) :
    ∀ (cs : List EqField) (i : Nat) (xs ys : List V),
      (∀ j c x y, cs[j]? = some c → c.ignore = false →
        Spec.fieldEq ops k (i + j) c x y = Spec.fieldEq ops k (i + j) c y x) →
      Spec.fieldsEq ops k i cs xs ys = Spec.fieldsEq ops k i cs ys xs := by
  intro cs
  induction cs with
  | nil => intros; simp [Spec.fieldsEq]
  | cons c cs ih =>
    intro i xs ys h
    cases xs with
    | nil => cases ys <;> simp [Spec.fieldsEq]
    | cons x xs =>
    cases ys with
    | nil => simp [Spec.fieldsEq]
    | cons y ys =>
      have ih' := ih (i + 1) xs ys (by
        intro j c' x' y' hc hig
        have := h (j + 1) c' x' y' (by simpa using hc) hig
        rwa [show i + (j + 1) = i + 1 + j by omega] at this)
      simp only [Spec.fieldsEq, ih']
      by_cases hig : c.ignore = true
      · simp [hig]
      · have := h 0 c x y (by simp) (by simpa using hig)
        simp at this; simp [this]

theorem fieldsEq_trans {V : Type} (ops : EqOps V) (k : Nat) :
    ∀ (cs : List EqField) (i : Nat) (xs ys zs : List V),
      xs.length = cs.length → ys.length = cs.length → zs.length = cs.length →
      (∀ j c x y z, cs[j]? = some c → c.ignore = false →
        Spec.fieldEq ops k (i + j) c x y = true → Spec.fieldEq ops k (i + j) c y z = true →
        Spec.fieldEq ops k (i + j) c x z = true) →
      Spec.fieldsEq ops k i cs xs ys = true → Spec.fieldsEq ops k i cs ys zs = true →
      Spec.fieldsEq ops k i cs xs zs = true := by
  intro cs
  induction cs with
  | nil => intros; simp [Spec.fieldsEq]
  | cons c cs ih =>
    intro i xs ys zs h1 h2 h3 h hxy hyz
    cases xs with | nil => simp at h1 | cons x xs =>
    cases ys with | nil => simp at h2 | cons y ys =>
    cases zs with | nil => simp at h3 | cons z zs =>
    simp only [Spec.fieldsEq, Bool.and_eq_true, Bool.or_eq_true] at hxy hyz ⊢
    refine ⟨?_, ih (i + 1) xs ys zs (by simpa using h1) (by simpa using h2) (by simpa using h3)
      (by
        intro j c' x' y' z' hc hig e1 e2
        have := h (j + 1) c' x' y' z' (by simpa using hc) hig
        rw [show i + (j + 1) = i + 1 + j by omega] at this
        exact this e1 e2) hxy.2 hyz.2⟩
    by_cases hig : c.ignore = true
    · exact Or.inl hig
    · right
      have hig' : c.ignore = false := by simpa using hig
      have e1 := hxy.1.resolve_left hig
      have e2 := hyz.1.resolve_left hig
      have := h 0 c x y z (by simp) hig'
      simp only [Nat.add_zero] at this
      exact this e1 e2

/-- Reflexivity of the educed relation under reflexive compared leaves. -/
theorem eq_refl {V : Type} (ops : EqOps V) (t : EqType) (hl : LeafRefl ops t) (a : Val V) :
    Spec.eq ops t a a = true := by
  simp only [Spec.eq, beq_self_eq_true, Bool.true_and]
  cases hv : Spec.variantOf t a.variant with
  | none => rfl
  | some v =>
    simp only
    apply fieldsEq_refl
    intro j c x hc hig
    simpa using hl a.variant v j c x hv hc hig

/-- Symmetry under symmetric compared leaves. -/
theorem eq_symm {V : Type} (ops : EqOps V) (t : EqType) (hl : LeafSymm ops t) (a b : Val V) :
    Spec.eq ops t a b = Spec.eq ops t b a := by
  simp only [Spec.eq]
  by_cases hab : a.variant = b.variant
  · rw [hab]
    cases hv : Spec.variantOf t b.variant with
    | none => rfl
    | some v =>
      simp only
      rw [fieldsEq_symm]
      intro j c x y hc hig
      simpa using hl b.variant v j c x y hv hc hig
  · have h1 : (a.variant == b.variant) = false := by simpa using hab
    have h2 : (b.variant == a.variant) = false := by simpa using fun h => hab h.symm
    simp [h1, h2]

/-- Transitivity under transitive compared leaves (values inhabiting the type). -/
theorem eq_trans {V : Type} (ops : EqOps V) (t : EqType) (hl : LeafTrans ops t)
    (a b c : Val V) (ha : t.Inhabits a) (hb : t.Inhabits b) (hc : t.Inhabits c)
    (hab : Spec.eq ops t a b = true) (hbc : Spec.eq ops t b c = true) :
    Spec.eq ops t a c = true := by
  obtain ⟨va, hva, hla⟩ := ha
  obtain ⟨vb, hvb, hlb⟩ := hb
  obtain ⟨vc, hvc, hlc⟩ := hc
  simp only [Spec.eq, Bool.and_eq_true, beq_iff_eq] at hab hbc ⊢
  obtain ⟨e1, f1⟩ := hab
  obtain ⟨e2, f2⟩ := hbc
  refine ⟨e1.trans e2, ?_⟩
  rw [← e1] at hvb e2 f2
  rw [← e2] at hvc
  rw [hva] at hvb hvc f1 f2 ⊢
  cases hvb; cases hvc
  simp only at f1 f2 ⊢
  exact fieldsEq_trans ops a.variant va.fields 0 a.fields b.fields c.fields hla hlb hlc
    (by intro j c' x y z hcj hig; simpa using hl a.variant va j c' x y z hva hcj hig) f1 f2

/-! ### Non-vacuity: a concrete non-trivial definition meets every hypothesis -/

def exType : EqType := .enum
  [ { name := "A".toList, shape := .unit, fields := [] },
    { name := "B".toList, shape := .tuple,
      fields := [ {}, { ignore := true }, { method := some 0 } ] },
    { name := "C".toList, shape := .named,
      fields := [ { name := "x".toList }, { name := "y".toList, ignore := true } ] } ]

def exOps : EqOps Nat := { ne := fun _ x y => x != y, method := fun _ x y => x + 1 == y }

example : exType.WF := by
  intro v hv
  simp [exType] at hv
  rcases hv with rfl | rfl | rfl <;> simp [EqVariant.WF]

example : exType.Inhabits (⟨1, [3, 4, 5]⟩ : Val Nat) := ⟨_, rfl, rfl⟩
example : Sem.evalEq exOps exType (body exType) ⟨1, [3, 4, 5]⟩ ⟨1, [3, 9, 6]⟩ = some true := by decide
example : Sem.evalEq exOps exType (body exType) ⟨1, [3, 4, 5]⟩ ⟨1, [3, 9, 5]⟩ = some false := by decide
example : Sem.evalEq exOps exType (body exType) ⟨2, [1, 2]⟩ ⟨2, [1, 7]⟩ = some true := by decide
example : Sem.evalEq exOps exType (body exType) ⟨0, []⟩ ⟨2, [1, 7]⟩ = some false := by decide


/-! ## What the generated code calls

The absolute paths (`::core::..`) named by the `quote!` templates of the handler, regenerated from /repo/src on every run
(`vtool extract`): the functions, traits and types the generated code can reach are exactly these - a call of anything
else (`::core::ptr::eq`, `::core::fmt::Display::fmt`, `::core::convert::From::from`, ...) is a change of what the
implementation does and has to be looked at. -/

theorem generated_calls_unchanged_partial_eq :
    Generated.paths_trait_handlers_partial_eq =
      ["::core::cmp::Eq", "::core::cmp::PartialEq", "::core::cmp::PartialEq::eq", "::core::cmp::PartialEq::ne", "::core::mem::size_of", "::core::primitive::bool", "::core::primitive::u8", "::core::slice::from_raw_parts"] := by
  decide +kernel

theorem generated_calls_unchanged_eq :
    Generated.paths_trait_handlers_eq =
      ["::core::cmp::Eq", "::core::cmp::PartialEq"] := by
  decide +kernel

end Educe
