import EduceModel.Lemmas.Env
import EduceModel.Spec.Hash
import EduceModel.Generated.Templates
/-
  C05 — hash input is a function of the variant and non-ignored fields only.
-/
namespace Educe
open Gen.Hash

def HashVariant.WF (v : HashVariant) : Prop :=
  (v.shape = .named → (v.fields.map HashField.name).Nodup) ∧ (v.shape = .unit → v.fields = [])

def HashType.WF : HashType → Prop
  | .struct v => v.WF
  | .enum vs => ∀ v ∈ vs, v.WF

def HashType.variantOf (t : HashType) (k : Nat) : Option HashVariant :=
  match t with
  | .struct v => if k = 0 then some v else none
  | .enum vs => vs[k]?

def HashType.Inhabits {V : Type} (t : HashType) (a : Val V) : Prop :=
  ∃ v, t.variantOf a.variant = some v ∧ a.fields.length = v.fields.length

theorem evalHashStmts_struct {V W : Type} (ops : HashOps V W) (a : List V) :
    ∀ (cs : List HashField) (i : Nat), a.length = i + cs.length →
      Sem.evalHashStmts ops [] a (structStmts i cs) = some (Spec.feedFields ops 0 i cs (a.drop i)) := by
  intro cs
  induction cs with
  | nil => intro i _; simp [structStmts, Sem.evalHashStmts, Spec.feedFields]
  | cons c cs ih =>
    intro i ha
    simp only [List.length_cons] at ha
    have hia : i < a.length := by omega
    have hda : a.drop i = a[i] :: a.drop (i + 1) := List.drop_eq_getElem_cons hia
    have ih' := ih (i + 1) (by omega)
    rw [hda]
    unfold structStmts
    by_cases hig : c.ignore = true
    · simp [hig, Spec.feedFields, ih']
    · simp only [hig, Bool.false_eq_true, if_false]
      unfold stmt
      cases hm : c.method <;>
        simp [Sem.evalHashStmts, evalRef, List.getElem?_eq_getElem hia, Spec.feedFields, Spec.feedAt, hm, ih', hig]

theorem evalHashStmts_arm {V W : Type} (ops : HashOps V W) (E : Env V) (k : Nat)
    (bs : Nat → HashField → Option Ident)
    (hign : ∀ i c, c.ignore = true → bs i c = none) :
    ∀ (cs : List HashField) (i : Nat) (xs : List V), xs.length = cs.length →
      EnvOK1 E k HashField.ignore bs i cs xs →
      Sem.evalHashStmts ops E [] (armStmts bs i cs) = some (Spec.feedFields ops k i cs xs) := by
  intro cs
  induction cs with
  | nil => intro i xs _ _; simp [armStmts, Sem.evalHashStmts, Spec.feedFields]
  | cons c cs ih =>
    intro i xs hx hok
    cases xs with
    | nil => simp at hx
    | cons x xs =>
      have ih' := ih (i + 1) xs (by simpa using hx) (EnvOK1_tail hok)
      unfold armStmts
      by_cases hig : c.ignore = true
      · simp [hign i c hig, Spec.feedFields, hig, ih']
      · have hig' : c.ignore = false := by simpa using hig
        obtain ⟨s, hs, ls⟩ := hok 0 c x (by simp) (by simp) hig'
        simp only [Nat.add_zero] at hs ls
        simp only [hs]
        unfold stmt
        cases hm : c.method <;>
          simp [Sem.evalHashStmts, evalRef, ls, Spec.feedFields, Spec.feedAt, hm, ih', hig']

theorem hash_arm_block_correct {V W : Type} (ops : HashOps V W) (k idx : Nat) (v : HashVariant) (hv : v.WF)
    (xs : List V) (hx : xs.length = v.fields.length) :
    Sem.evalHashStmts ops (matchArm k (Sem.hashNames v) xs (arm idx v).pat) [] (arm idx v).block
      = some (Spec.feedFields ops k 0 v.fields xs) := by
  unfold arm
  cases hsh : v.shape with
  | unit =>
    have := hv.2 hsh
    simp [this, Sem.evalHashStmts, Spec.feedFields]
  | tuple =>
    simp only [matchArm]
    rw [matchTuple_eq_envOf]
    apply evalHashStmts_arm ops _ k bindTup (by intro i c h; simp [bindTup, h]) v.fields 0 xs hx
    apply envOK1_of_envOf _ HashField.ignore
    · intro j₁ j₂ c₁ c₂ x _ _ h1 h2
      unfold bindTup at h1 h2
      split at h1 <;> split at h2 <;> simp_all
      have := tupSelf_inj (h1.trans h2.symm); omega
    · intro j c h; simp [bindTup, h]
  | named =>
    have hnd := hv.1 hsh
    simp only [matchArm, Sem.hashNames]
    rw [matchNamed_eq_envOf k HashField.name bindNamed v.fields xs hnd hx]
    apply evalHashStmts_arm ops _ k bindNamed (by intro i c h; simp [bindNamed, h]) v.fields 0 xs hx
    apply envOK1_of_envOf _ HashField.ignore
    · intro j₁ j₂ c₁ c₂ x g1 g2 h1 h2
      unfold bindNamed at h1 h2
      split at h1 <;> split at h2 <;> simp_all
      exact nodup_map_index HashField.name v.fields j₁ j₂ c₁ c₂ hnd g1 g2 (namedV_inj (h1.trans h2.symm))
    · intro j c h; simp [bindNamed, h]

theorem hash_arms_get : ∀ (vs : List HashVariant) (i k : Nat) (v : HashVariant), vs[k]? = some v →
    (arms i vs)[k]? = some (arm (i + k) v) := by
  intro vs
  induction vs with
  | nil => intro i k v h; simp at h
  | cons w ws ih =>
    intro i k v h
    cases k with
    | zero => simp at h; subst h; simp [arms]
    | succ k =>
      simp at h
      simp only [arms, List.getElem?_cons_succ]
      rw [ih (i + 1) k v h]; congr 2; omega

theorem hash_arm_index (i : Nat) (v : HashVariant) : (arm i v).index = i := by
  unfold arm; cases v.shape <;> rfl

/-- **C05, main theorem.** The generated `hash` evaluates (all binders resolve) and feeds exactly
    the reference sequence: for enums the variant index first, then every non-ignored field in
    declaration order through its method or its own `Hash`. -/
theorem hash_correct {V W : Type} (ops : HashOps V W) (t : HashType) (ht : t.WF)
    (a : Val V) (ha : t.Inhabits a) :
    Sem.evalHash ops t (body t) a = some (Spec.feed ops t a) := by
  obtain ⟨va, hva, hla⟩ := ha
  cases t with
  | struct v =>
    simp only [HashType.variantOf] at hva
    split at hva <;> simp at hva
    subst hva
    simp only [body, Sem.evalHash, Spec.feed]
    have := evalHashStmts_struct ops a.fields v.fields 0 (by omega)
    simpa using this
  | enum vs =>
    simp only [HashType.variantOf] at hva
    have harm := hash_arms_get vs 0 a.variant va hva
    have hne : (arms 0 vs).isEmpty = false := by
      cases vs with
      | nil => simp at hva
      | cons _ _ => simp [arms]
    have hmem : va ∈ vs := List.mem_of_getElem? hva
    simp only [body, Sem.evalHash, hne, harm, hva, Spec.feed, Nat.zero_add]
    rw [hash_arm_block_correct ops a.variant a.variant va (ht va hmem) a.fields hla, hash_arm_index]
    rfl

/-- Two values that agree on the variant and on every non-ignored field feed identical data. -/
theorem feedFields_agree {V W : Type} (ops : HashOps V W) (k : Nat) :
    ∀ (cs : List HashField) (i : Nat) (xs ys : List V), xs.length = cs.length → ys.length = cs.length →
      (∀ (j : Nat) (c : HashField), cs[j]? = some c → c.ignore = false → xs[j]? = ys[j]?) →
      Spec.feedFields ops k i cs xs = Spec.feedFields ops k i cs ys := by
  intro cs
  induction cs with
  | nil => intros; simp [Spec.feedFields]
  | cons c cs ih =>
    intro i xs ys hx hy hag
    cases xs with | nil => simp at hx | cons x xs =>
    cases ys with | nil => simp at hy | cons y ys =>
    have ih' := ih (i + 1) xs ys (by simpa using hx) (by simpa using hy)
      (by intro j c' hc hig; simpa using hag (j + 1) c' (by simpa using hc) hig)
    simp only [Spec.feedFields, ih']
    by_cases hig : c.ignore = true
    · simp [hig]
    · have := hag 0 c (by simp) (by simpa using hig)
      simp at this; simp [this]

theorem agree_feeds_equal {V W : Type} (ops : HashOps V W) (t : HashType) (a b : Val V) (v : HashVariant)
    (hv : t.variantOf a.variant = some v) (hvar : a.variant = b.variant)
    (hla : a.fields.length = v.fields.length) (hlb : b.fields.length = v.fields.length)
    (hag : ∀ (j : Nat) (c : HashField), v.fields[j]? = some c → c.ignore = false → a.fields[j]? = b.fields[j]?) :
    Spec.feed ops t a = Spec.feed ops t b := by
  cases t with
  | struct w =>
    simp only [HashType.variantOf] at hv
    split at hv <;> simp at hv
    subst hv
    simp only [Spec.feed]
    exact feedFields_agree ops 0 w.fields 0 a.fields b.fields hla hlb hag
  | enum vs =>
    simp only [HashType.variantOf] at hv
    simp only [Spec.feed, ← hvar, hv]
    rw [feedFields_agree ops a.variant v.fields 0 a.fields b.fields hla hlb hag]

/-- Values of different variants of an enum feed different data (the variant index comes first). -/
theorem different_variant_feeds_differ {V W : Type} (ops : HashOps V W) (vs : List HashVariant)
    (a b : Val V) (ha : (HashType.enum vs).Inhabits a) (hb : (HashType.enum vs).Inhabits b)
    (hne : a.variant ≠ b.variant) :
    Spec.feed ops (.enum vs) a ≠ Spec.feed ops (.enum vs) b := by
  obtain ⟨va, hva, _⟩ := ha
  obtain ⟨vb, hvb, _⟩ := hb
  simp only [HashType.variantOf] at hva hvb
  simp only [Spec.feed, hva, hvb]
  intro h
  have := (List.cons.inj h).1
  exact hne (Write.usize.inj this)

/-- A leaf feed function is *prefix-free* when no value's data is a proper prefix of another's —
    the precise form of "whose own hashing distinguishes them" that makes concatenation injective.
    (std's `Hash` impls are written to satisfy it: fixed-width integers, length-prefixed slices, 0xff-terminated strings.) -/
def PrefixFree {V W : Type} (f : V → List W) : Prop :=
  ∀ x y r s, f x ++ r = f y ++ s → f x = f y

theorem map_leaf_append_inj {W : Type} (l₁ l₂ : List W) (r s : List (Write W))
    (h : l₁.map Write.leaf ++ r = l₂.map Write.leaf ++ s) (hl : l₁ = l₂) : r = s := by
  subst hl; exact List.append_cancel_left h

/-- Same variant, every hashed position prefix-free, some hashed position where the two values'
    own data differ ⇒ the fed data differ. -/
theorem feedFields_differ {V W : Type} (ops : HashOps V W) (k : Nat) :
    ∀ (cs : List HashField) (i : Nat) (xs ys : List V), xs.length = cs.length → ys.length = cs.length →
      (∀ (j : Nat) (c : HashField), cs[j]? = some c → c.ignore = false → PrefixFree (Spec.feedAt ops k (i + j) c)) →
      (∃ (j : Nat) (c : HashField) (x y : V), cs[j]? = some c ∧ c.ignore = false ∧ xs[j]? = some x ∧ ys[j]? = some y ∧
          Spec.feedAt ops k (i + j) c x ≠ Spec.feedAt ops k (i + j) c y) →
      Spec.feedFields ops k i cs xs ≠ Spec.feedFields ops k i cs ys := by
  intro cs
  induction cs with
  | nil => intro i xs ys _ _ _ ⟨j, c, x, y, h, _⟩; simp at h
  | cons c cs ih =>
    intro i xs ys hx hy hpf hex
    cases xs with | nil => simp at hx | cons x xs =>
    cases ys with | nil => simp at hy | cons y ys =>
    have hpf' : ∀ (j : Nat) (c' : HashField), cs[j]? = some c' → c'.ignore = false → PrefixFree (Spec.feedAt ops k (i + 1 + j) c') := by
      intro j c' hc hig
      have := hpf (j + 1) c' (by simpa using hc) hig
      rwa [show i + (j + 1) = i + 1 + j by omega] at this
    simp only [Spec.feedFields]
    intro heq
    obtain ⟨j, c', x', y', hc, hig, hxj, hyj, hd⟩ := hex
    by_cases hcig : c.ignore = true
    · simp only [hcig, if_true, List.nil_append] at heq
      cases j with
      | zero => simp at hc; subst hc; simp [hcig] at hig
      | succ j =>
        refine ih (i + 1) xs ys (by simpa using hx) (by simpa using hy) hpf' ⟨j, c', x', y', by simpa using hc, hig,
          by simpa using hxj, by simpa using hyj, ?_⟩ heq
        rwa [show i + (j + 1) = i + 1 + j by omega] at hd
    · simp only [hcig, Bool.false_eq_true, if_false] at heq
      have hcig' : c.ignore = false := by simpa using hcig
      have hpf0 := hpf 0 c (by simp) hcig'
      simp only [Nat.add_zero] at hpf0
      -- strip the `leaf` wrapper to use prefix-freeness
      have hstrip : ∀ (l₁ l₂ : List W) (r s : List (Write W)), l₁.map Write.leaf ++ r = l₂.map Write.leaf ++ s →
          ∃ r' s' : List W, l₁ ++ r' = l₂ ++ s' := by
        intro l₁
        induction l₁ with
        | nil => intro l₂ r s _; exact ⟨l₂, [], by simp⟩
        | cons w l₁ ih2 =>
          intro l₂ r s h
          cases l₂ with
          | nil => exact ⟨[], w :: l₁, by simp⟩
          | cons w' l₂ =>
            simp only [List.map_cons, List.cons_append, List.cons.injEq] at h
            obtain ⟨r', s', h'⟩ := ih2 l₂ r s h.2
            have hw : w = w' := Write.leaf.inj h.1
            exact ⟨r', s', by simp [hw, h']⟩
      obtain ⟨r', s', hrs⟩ := hstrip _ _ _ _ heq
      have hfe := hpf0 x y r' s' hrs
      cases j with
      | zero =>
        simp at hc hxj hyj; subst hc; subst hxj; subst hyj
        simp only [Nat.add_zero] at hd
        exact hd hfe
      | succ j =>
        have hrest := map_leaf_append_inj _ _ _ _ heq hfe
        refine ih (i + 1) xs ys (by simpa using hx) (by simpa using hy) hpf' ⟨j, c', x', y', by simpa using hc, hig,
          by simpa using hxj, by simpa using hyj, ?_⟩ hrest
        rwa [show i + (j + 1) = i + 1 + j by omega] at hd

/-! ### Consistency with the educed PartialEq (same ignore / method choices) -/

/-- The PartialEq configuration with the same ignore choice per field (method ids are per trait). -/
def sameIgnore (h : HashField) (e : EqField) : Prop := h.ignore = e.ignore

/-- If every compared (= hashed) position satisfies `equal ⇒ same data`, then `a == b ⇒ same feed`. -/
theorem eq_implies_same_feed_fields {V W : Type} (hops : HashOps V W) (eops : EqOps V) (k : Nat) :
    ∀ (hs : List HashField) (es : List EqField) (i : Nat) (xs ys : List V),
      hs.length = es.length → xs.length = hs.length → ys.length = hs.length →
      (∀ (j : Nat) (h : HashField) (e : EqField), hs[j]? = some h → es[j]? = some e → sameIgnore h e) →
      (∀ (j : Nat) (h : HashField) (e : EqField) (x y : V), hs[j]? = some h → es[j]? = some e → h.ignore = false →
          Spec.fieldEq eops k (i + j) e x y = true → Spec.feedAt hops k (i + j) h x = Spec.feedAt hops k (i + j) h y) →
      Spec.fieldsEq eops k i es xs ys = true →
      Spec.feedFields hops k i hs xs = Spec.feedFields hops k i hs ys := by
  intro hs
  induction hs with
  | nil => intros; simp [Spec.feedFields]
  | cons h hs ih =>
    intro es i xs ys hl hx hy hsi hlaw heq
    cases es with | nil => simp at hl | cons e es =>
    cases xs with | nil => simp at hx | cons x xs =>
    cases ys with | nil => simp at hy | cons y ys =>
    simp only [Spec.fieldsEq, Bool.and_eq_true, Bool.or_eq_true] at heq
    have ih' := ih es (i + 1) xs ys (by simpa using hl) (by simpa using hx) (by simpa using hy)
      (by intro j h' e' a b; exact hsi (j + 1) h' e' (by simpa using a) (by simpa using b))
      (by
        intro j h' e' x' y' a b c d
        have := hlaw (j + 1) h' e' x' y' (by simpa using a) (by simpa using b) c
        rw [show i + (j + 1) = i + 1 + j by omega] at this
        exact this d) heq.2
    simp only [Spec.feedFields, ih']
    have hsame := hsi 0 h e (by simp) (by simp)
    unfold sameIgnore at hsame
    by_cases hig : h.ignore = true
    · simp [hig]
    · have hig' : h.ignore = false := by simpa using hig
      have he : e.ignore = false := by rw [← hsame]; exact hig'
      have hfe := heq.1.resolve_left (by simp [he])
      have := hlaw 0 h e x y (by simp) (by simp) hig'
      simp only [Nat.add_zero] at this
      simp [hig', this hfe]

/-! ### Non-vacuity -/

def exHashType : HashType := .enum
  [ { name := "A".toList, shape := .unit },
    { name := "B".toList, shape := .tuple, fields := [ {}, { ignore := true }, { method := some 0 } ] },
    { name := "C".toList, shape := .named, fields := [ { name := "x".toList, ignore := true }, { name := "y".toList } ] } ]

def exHashOps : HashOps Nat Nat := { hash := fun _ x => [x], method := fun _ x => [100 + x, 7] }

example : exHashType.WF := by
  intro v hv
  simp [exHashType] at hv
  rcases hv with rfl | rfl | rfl <;> simp [HashVariant.WF]

example : Sem.evalHash exHashOps exHashType (body exHashType) ⟨1, [3, 4, 5]⟩
    = some [.usize 1, .leaf 3, .leaf 105, .leaf 7] := by decide
example : Sem.evalHash exHashOps exHashType (body exHashType) ⟨2, [3, 4]⟩ = some [.usize 2, .leaf 4] := by decide
example : Sem.evalHash exHashOps exHashType (body exHashType) ⟨0, []⟩ = some [.usize 0] := by decide
-- fixed-width single writes are prefix-free
example : PrefixFree (fun x : Nat => [x]) := by
  intro x y r s h; simp at h; simp [h.1]


/-! ## What the generated code calls

The absolute paths (`::core::..`) named by the `quote!` templates of the handler, regenerated from /repo/src on every run
(`vtool extract`): the functions, traits and types the generated code can reach are exactly these - a call of anything
else (`::core::ptr::eq`, `::core::fmt::Display::fmt`, `::core::convert::From::from`, ...) is a change of what the
implementation does and has to be looked at. -/

theorem generated_calls_unchanged_hash :
    Generated.paths_trait_handlers_hash =
      ["::core::hash::Hash", "::core::hash::Hash::hash", "::core::mem::size_of", "::core::primitive::u8", "::core::slice::from_raw_parts"] := by
  decide +kernel

end Educe
