import EduceModel.Expand
import EduceModel.Generated.EnableFlags
/-
  C13 — contradictory, ambiguous or misplaced attributes are rejected, not guessed.

  One theorem per mechanism, each of the form "an input containing the offence at an arbitrary
  position is never accepted" (`≠ ok`; that it is a diagnostic rather than a panic is C17).
  Designation clauses (default variant / union field, Deref / DerefMut / Into field) are proved
  at the configuration level in Props/C08 (`ambiguous_refused`), Props/C09 (`struct_refused_iff`,
  `variant_refused_iff`) and Props/C10 (`struct_target_refused_iff`); the rank clause also in
  Props/C03 (`accepted_ranks_distinct`).
-/
namespace Educe.Attr

def IsOk {α : Type} (r : Res α) : Prop := ∃ a, r = .ok a

theorem not_ok_diag {α : Type} (d : Diag) : ¬ IsOk (Res.diag d : Res α) := by
  intro ⟨a, h⟩; cases h
theorem not_ok_panic {α : Type} (s : PanicSite) : ¬ IsOk (Res.panic s : Res α) := by
  intro ⟨a, h⟩; cases h
theorem not_ok_identOrPanic {α : Type} (m : TraitMeta) (d : Diag) : ¬ IsOk (identOrPanic m d : Res α) := by
  unfold identOrPanic; split
  · exact not_ok_diag d
  · exact not_ok_panic _

/-! ### a parameter given twice; an unknown or disabled parameter -/

/-- If some remaining parameter resolves to a switch whose `*_is_set` flag is already set, the
    parameter list is not accepted. -/
theorem runParams_seen_not_ok {σ : Type} (m : TraitMeta) (specs : List (PSpec σ)) :
    ∀ (ps : List Param) (seen : List String) (st : σ),
      (∃ p ∈ ps, ∃ n s, p.ident = some n ∧ findSpec specs n = some s ∧ seen.contains s.key = true) →
      ¬ IsOk (runParams m specs ps seen st) := by
  intro ps
  induction ps with
  | nil => intro seen st ⟨p, hp, _⟩; simp at hp
  | cons q qs ih =>
    intro seen st ⟨p, hp, n, s, hn, hs, hseen⟩
    simp only [runParams]
    split
    · exact not_ok_identOrPanic m _
    · rename_i n' hn'
      split
      · exact not_ok_identOrPanic m _
      · rename_i s' hs'
        split
        · exact not_ok_identOrPanic m _
        · split
          · exact not_ok_diag _
          · exact not_ok_panic _
          · rename_i st' _
            split
            · exact not_ok_diag _
            · rename_i hns
              rw [List.mem_cons] at hp
              rcases hp with rfl | hp
              · -- the offending parameter is this one: its flag is set
                rw [hn] at hn'; cases hn'
                rw [hs] at hs'; cases hs'
                exact absurd hseen hns
              · apply ih
                refine ⟨p, hp, n, s, hn, hs, ?_⟩
                simp only [List.contains_cons, Bool.or_eq_true]
                right; exact hseen

/-- **A parameter given twice** (in any spelling that maps to the same switch, e.g. `name` /
    `rename`, `expression` / `expr`; whatever lies between the two occurrences) is refused. -/
theorem parameter_twice_refused {σ : Type} (m : TraitMeta) (specs : List (PSpec σ))
    (pre mid post : List Param) (p₁ p₂ : Param) (n₁ n₂ : String) (s : PSpec σ)
    (h₁ : p₁.ident = some n₁) (h₂ : p₂.ident = some n₂)
    (hs₁ : findSpec specs n₁ = some s) (hs₂ : findSpec specs n₂ = some s) (seen : List String) (st : σ) :
    ¬ IsOk (runParams m specs (pre ++ p₁ :: mid ++ p₂ :: post) seen st) := by
  induction pre generalizing seen st with
  | nil =>
    simp only [List.nil_append, List.cons_append, runParams, h₁, hs₁]
    split
    · exact not_ok_identOrPanic m _
    · split
      · exact not_ok_diag _
      · exact not_ok_panic _
      · split
        · exact not_ok_diag _
        · apply runParams_seen_not_ok
          exact ⟨p₂, by simp, n₂, s, h₂, hs₂, by simp⟩
  | cons q qs ih =>
    simp only [List.cons_append, runParams]
    split
    · exact not_ok_identOrPanic m _
    · split
      · exact not_ok_identOrPanic m _
      · split
        · exact not_ok_identOrPanic m _
        · split
          · exact not_ok_diag _
          · exact not_ok_panic _
          · split
            · exact not_ok_diag _
            · exact ih _ _

/-- **An unknown parameter, or one the position does not enable**, is refused wherever it stands. -/
theorem bad_parameter_refused {σ : Type} (m : TraitMeta) (specs : List (PSpec σ))
    (pre post : List Param) (p : Param)
    (hbad : match p.ident with
            | none => True
            | some n => match findSpec specs n with
              | none => True
              | some s => s.enabled = false)
    (seen : List String) (st : σ) :
    ¬ IsOk (runParams m specs (pre ++ p :: post) seen st) := by
  induction pre generalizing seen st with
  | nil =>
    simp only [List.nil_append, runParams]
    split
    · exact not_ok_identOrPanic m _
    · rename_i n hn
      rw [hn] at hbad
      split
      · exact not_ok_identOrPanic m _
      · rename_i s hs
        simp only [hs] at hbad
        simp [hbad]
        exact not_ok_identOrPanic m _
  | cons q qs ih =>
    simp only [List.cons_append, runParams]
    split
    · exact not_ok_identOrPanic m _
    · split
      · exact not_ok_identOrPanic m _
      · split
        · exact not_ok_identOrPanic m _
        · split
          · exact not_ok_diag _
          · exact not_ok_panic _
          · split
            · exact not_ok_diag _
            · exact ih _ _

/-! ### unknown trait, trait not educed, trait given twice at one position -/

/-- What makes one meta of a field / variant attribute list an offence, given what was seen so far. -/
def MetaOffends (F : Features) (traits mine : TraitId → Bool) (m : TraitMeta) : Prop :=
  match traitOf F m with
  | none => True                          -- unknown (or disabled) trait, or a path that is not an identifier
  | some t => traits t = false            -- a trait that is not educed on the type

theorem scanMetas_offence_refused {α : Type} (F : Features) (traits mine : TraitId → Bool) (build : TraitMeta → Res α)
    (pre post : List TraitMeta) (m : TraitMeta) (h : MetaOffends F traits mine m) (out : Option α) :
    ¬ IsOk (scanMetas F traits mine build (pre ++ m :: post) out) := by
  induction pre generalizing out with
  | nil =>
    simp only [List.nil_append, scanMetas]
    unfold MetaOffends at h
    split
    · exact not_ok_diag _
    · rename_i t ht
      rw [ht] at h
      simp only at h
      simp [h]
      exact not_ok_identOrPanic m _
  | cons q qs ih =>
    simp only [List.cons_append, scanMetas]
    split
    · exact not_ok_diag _
    · split
      · exact not_ok_identOrPanic q _
      · split
        · split
          · exact not_ok_identOrPanic q _
          · split
            · exact ih _
            · exact not_ok_diag _
            · exact not_ok_panic _
        · exact ih _

/-- **The same trait (or its documented synonym) twice at one position** is refused. -/
theorem scanMetas_twice_refused {α : Type} (F : Features) (traits mine : TraitId → Bool) (build : TraitMeta → Res α)
    (pre mid post : List TraitMeta) (m₁ m₂ : TraitMeta) (t₁ t₂ : TraitId)
    (h₁ : traitOf F m₁ = some t₁) (h₂ : traitOf F m₂ = some t₂) (hm₁ : mine t₁ = true) (hm₂ : mine t₂ = true)
    (out : Option α) :
    ¬ IsOk (scanMetas F traits mine build (pre ++ m₁ :: mid ++ m₂ :: post) out) := by
  -- once an output is recorded, a later `mine` meta is refused
  have later : ∀ (l : List TraitMeta) (a : α), ¬ IsOk (scanMetas F traits mine build (l ++ m₂ :: post) (some a)) := by
    intro l
    induction l with
    | nil =>
      intro a
      simp only [List.nil_append, scanMetas, h₂, hm₂, if_true]
      split
      · exact not_ok_identOrPanic m₂ _
      · exact not_ok_identOrPanic m₂ _
    | cons q qs ih =>
      intro a
      simp only [List.cons_append, scanMetas]
      split
      · exact not_ok_diag _
      · split
        · exact not_ok_identOrPanic q _
        · split
          · exact not_ok_identOrPanic q _
          · exact ih a
  induction pre generalizing out with
  | nil =>
    simp only [List.nil_append, List.cons_append, scanMetas, h₁, hm₁, if_true]
    split
    · exact not_ok_identOrPanic m₁ _
    · split
      · exact not_ok_identOrPanic m₁ _
      · split
        · exact later mid _
        · exact not_ok_diag _
        · exact not_ok_panic _
  | cons q qs ih =>
    simp only [List.cons_append, scanMetas]
    split
    · exact not_ok_diag _
    · split
      · exact not_ok_identOrPanic q _
      · split
        · split
          · exact not_ok_identOrPanic q _
          · split
            · exact ih _
            · exact not_ok_diag _
            · exact not_ok_panic _
        · exact ih _

/-! ### a trait given twice on the type (Into exempt); an Into target given twice -/

theorem any_key_map_snd (t : TraitId) (f : TraitId × List TraitMeta → List TraitMeta) (acc : List (TraitId × List TraitMeta)) :
    ((acc.map fun p => (p.1, f p)).any fun p => p.1 == t) = (acc.any fun p => p.1 == t) := by
  induction acc with
  | nil => rfl
  | cons x xs ih => simp [List.any_cons, ih]

theorem collectTop_twice_refused (F : Features) (pre mid post : List TraitMeta) (m₁ m₂ : TraitMeta) (t : TraitId)
    (h₁ : traitOf F m₁ = some t) (h₂ : traitOf F m₂ = some t) (hni : t ≠ .into)
    (acc : List (TraitId × List TraitMeta)) :
    ¬ IsOk (collectTop F (pre ++ m₁ :: mid ++ m₂ :: post) acc) := by
  have hni' : (t == TraitId.into) = false := by simpa using hni
  have mapeq : ∀ (t' : TraitId) (q : TraitMeta) (acc : List (TraitId × List TraitMeta)),
      (acc.map fun p => if p.1 == t' then (p.1, p.2 ++ [q]) else p) = acc.map fun p => (p.1, if p.1 == t' then p.2 ++ [q] else p.2) := by
    intro t' q acc
    apply List.map_congr_left
    intro p _
    split <;> rfl
  have later : ∀ (l : List TraitMeta) (acc : List (TraitId × List TraitMeta)), (acc.any fun p => p.1 == t) = true →
      ¬ IsOk (collectTop F (l ++ m₂ :: post) acc) := by
    intro l
    induction l with
    | nil =>
      intro acc hacc
      simp only [List.nil_append, collectTop, h₂, hacc, if_true, hni', Bool.false_eq_true, if_false]
      exact not_ok_identOrPanic m₂ _
    | cons q qs ih =>
      intro acc hacc
      simp only [List.cons_append, collectTop]
      split
      · exact not_ok_diag _
      · split
        · split
          · apply ih
            rw [mapeq, any_key_map_snd]
            exact hacc
          · exact not_ok_identOrPanic q _
        · apply ih
          simp [List.any_append, hacc]
  induction pre generalizing acc with
  | nil =>
    simp only [List.nil_append, List.cons_append, collectTop, h₁]
    split
    · simp only [hni', Bool.false_eq_true, if_false]
      exact not_ok_identOrPanic m₁ _
    · apply later
      simp [List.any_append]
  | cons q qs ih =>
    simp only [List.cons_append, collectTop]
    split
    · exact not_ok_diag _
    · split
      · split
        · exact ih _
        · exact not_ok_identOrPanic q _
      · exact ih _

/-- **An Into target given twice** (compared by its normalised type string) is refused. -/
theorem into_target_twice_refused (ms : List TraitMeta) (acc : List (String × Bound)) (m : TraitMeta)
    (ty : String) (ps : List Param) (plain uns) (hm : m.form = .list plain uns (some (ty, ps)))
    (hacc : (acc.any fun p => p.1 == ty) = true) :
    ¬ IsOk (intoTypeFromMetas true (m :: ms) acc) := by
  simp only [intoTypeFromMetas, hm]
  simp only [Bool.not_true, Bool.false_eq_true, if_false]
  split
  · exact not_ok_diag _
  · exact not_ok_panic _
  · simp [hacc]; exact not_ok_diag _

/-! ### a rank given twice -/

theorem insertRank_present_none (k : Int) (x : Field × CmpFieldAttr) :
    ∀ (acc : List (Int × (Field × CmpFieldAttr))), acc.Pairwise (fun p q => p.1 < q.1) → (acc.any fun p => p.1 == k) = true →
      insertRank k x acc = none := by
  intro acc
  induction acc with
  | nil => intro _ h; simp at h
  | cons p rest ih =>
    intro hs h
    obtain ⟨k', y⟩ := p
    simp only [List.any_cons, Bool.or_eq_true, beq_iff_eq] at h
    simp only [insertRank]
    rw [List.pairwise_cons] at hs
    rcases h with h | h
    · subst h; simp
    · have hk : k' < k := by
        rw [List.any_eq_true] at h
        obtain ⟨q, hq, hqk⟩ := h
        have := hs.1 q hq
        simp at hqk this
        omega
      have h1 : ¬ k < k' := by omega
      have h2 : ¬ k = k' := by omega
      simp [h1, h2, ih hs.2 (by simpa using h)]

/-! ### unions -/

/-- Debug / PartialEq / Hash on a union without the `unsafe` marker are refused (whatever else the
    attribute says), and PartialOrd / Ord / Deref / DerefMut / Into on a union are refused outright. -/
theorem union_needs_unsafe_eqLike (c : Ctx) (m : TraitMeta) (me : TraitId) (mine : TraitId → Bool) (tp : String)
    (comp : Option (TraitId × String)) (hk : c.d.kind = .union)
    (ta : BoundTypeAttr) (hta : boundTypeFromMeta { flag := true, unsafe_ := true, bound := false } m = .ok ta)
    (hu : ta.hasUnsafe = false) :
    eqLikeHandler c m me mine tp comp = .diag .unionWithoutUnsafe := by
  unfold eqLikeHandler
  simp only [hk]
  simp [bind, hta, hu]

theorem union_unsupported_ordLike (c : Ctx) (m : TraitMeta) (me : TraitId) (mine : TraitId → Bool) (tp : String)
    (sup : List String) (comp : Bool) (hk : c.d.kind = .union) :
    ¬ IsOk (ordLikeHandler c m me mine tp sup comp) := by
  unfold ordLikeHandler
  simp only [hk]
  exact not_ok_identOrPanic m _

theorem union_unsupported_deref (c : Ctx) (m : TraitMeta) (me : TraitId) (hk : c.d.kind = .union) :
    ¬ IsOk (derefHandler c m me) := by
  unfold derefHandler
  simp only [hk]
  exact not_ok_identOrPanic m _

/-! ### designation: missing or duplicated markers are refused (Deref / DerefMut) -/

/-- How many of the fields carry the marker. -/
def markedCount (g : Field → Res Bool) (fs : List Field) : Nat :=
  (fs.filter fun f => match g f with | .ok true => true | _ => false).length

/-- The loop's result when every field's attribute is well-formed: none for no marker, the marked field
    for one, refusal for more. `acc` = what was found so far. -/
theorem derefLoop_spec (g : Field → Res Bool) (hg : ∀ f, ∃ b, g f = .ok b) :
    ∀ (fs : List Field) (i : Nat) (acc : Option (Nat × Field)),
      (markedCount g fs = 0 → derefLoop g i fs acc = .ok acc) ∧
      (acc.isSome = true → 0 < markedCount g fs → derefLoop g i fs acc = .diag .multipleDerefFields) ∧
      (1 < markedCount g fs → derefLoop g i fs acc = .diag .multipleDerefFields) := by
  intro fs
  induction fs with
  | nil => intro i acc; simp [markedCount, derefLoop]
  | cons f rest ih =>
    intro i acc
    obtain ⟨b, hb⟩ := hg f
    have ihs := fun i acc => ih i acc
    cases b with
    | false =>
      have hc : markedCount g (f :: rest) = markedCount g rest := by simp [markedCount, List.filter_cons, hb]
      simp only [derefLoop, hb, bind, hc]
      exact ih (i + 1) acc
    | true =>
      have hc : markedCount g (f :: rest) = markedCount g rest + 1 := by simp [markedCount, List.filter_cons, hb]
      simp only [derefLoop, hb, bind, hc]
      refine ⟨by omega, ?_, ?_⟩
      · intro hs _
        cases acc with
        | none => cases hs
        | some a => rfl
      · intro h1
        cases acc with
        | some a => rfl
        | none =>
          simp only []
          exact (ih (i + 1) (some (i, f))).2.1 rfl (by omega)

/-- **No marker among several fields: refused.** -/
theorem deref_no_marker_refused (g : Field → Res Bool) (hg : ∀ f, ∃ b, g f = .ok b) (fs : List Field)
    (hlen : fs.length ≠ 1) (h0 : markedCount g fs = 0) : derefPick g fs = .diag .noDerefField := by
  unfold derefPick
  split
  · simp at hlen
  · rw [(derefLoop_spec g hg fs 0 none).1 h0]; rfl

/-- **Two or more markers: refused.** -/
theorem deref_two_markers_refused (g : Field → Res Bool) (hg : ∀ f, ∃ b, g f = .ok b) (fs : List Field)
    (h2 : 1 < markedCount g fs) : derefPick g fs = .diag .multipleDerefFields := by
  unfold derefPick
  split
  · rename_i f
    have : markedCount g [f] ≤ 1 := by unfold markedCount; exact Nat.le_trans (List.length_filter_le _ _) (by simp)
    omega
  · rw [(derefLoop_spec g hg fs 0 none).2.2 h2]; rfl

/-! ### designation of the default variant (enums) and the default field (unions) -/

def flaggedVariants (va : Bool → Variant → Res DefaultTypeAttr) (vs : List Variant) : Nat :=
  (vs.filter fun v => match va true v with | .ok x => x.flag | _ => false).length

theorem defaultVariantLoop_spec (fa : Bool → Bool → Field → Res (Field × DefaultFieldAttr)) (va : Bool → Variant → Res DefaultTypeAttr)
    (hva : ∀ v, ∃ x, va true v = .ok x) (hfa : ∀ v : Variant, ∃ y, mapRes (fa false false) v.fields = .ok y) :
    ∀ (vs : List Variant) (k : Nat) (acc : Option (Nat × Variant)),
      (flaggedVariants va vs = 0 → defaultVariantLoop fa va k vs acc = .ok acc) ∧
      (acc.isSome = true → 0 < flaggedVariants va vs → defaultVariantLoop fa va k vs acc = .diag .multipleDefaultVariants) ∧
      (1 < flaggedVariants va vs → defaultVariantLoop fa va k vs acc = .diag .multipleDefaultVariants) := by
  intro vs
  induction vs with
  | nil => intro k acc; simp [flaggedVariants, defaultVariantLoop]
  | cons v rest ih =>
    intro k acc
    obtain ⟨x, hx⟩ := hva v
    obtain ⟨y, hy⟩ := hfa v
    cases hfl : x.flag with
    | false =>
      have hc : flaggedVariants va (v :: rest) = flaggedVariants va rest := by simp [flaggedVariants, hx, hfl]
      simp only [defaultVariantLoop, hx, bind, hc, hfl, hy, Bool.false_eq_true, if_false]
      exact ih (k + 1) acc
    | true =>
      have hc : flaggedVariants va (v :: rest) = flaggedVariants va rest + 1 := by simp [flaggedVariants, hx, hfl]
      simp only [defaultVariantLoop, hx, bind, hc, hfl]
      refine ⟨by omega, ?_, ?_⟩
      · intro hs _
        cases acc with
        | none => cases hs
        | some a => rfl
      · intro h1
        cases acc with
        | some a => rfl
        | none =>
          simp only []
          exact (ih (k + 1) (some (k, v))).2.1 rfl (by omega)

/-- **An enum with several variants and no `#[educe(Default)]` variant: refused.** -/
theorem default_no_variant_refused (fa : Bool → Bool → Field → Res (Field × DefaultFieldAttr)) (va : Bool → Variant → Res DefaultTypeAttr)
    (hva : ∀ v, ∃ x, va true v = .ok x) (hfa : ∀ v : Variant, ∃ y, mapRes (fa false false) v.fields = .ok y) (vs : List Variant)
    (hlen : vs.length ≠ 1) (h0 : flaggedVariants va vs = 0) : defaultPickVariant fa va vs = .diag .noDefaultVariant := by
  unfold defaultPickVariant
  split
  · simp at hlen
  · rw [(defaultVariantLoop_spec fa va hva hfa vs 0 none).1 h0]; rfl

/-- **Two default variants: refused.** -/
theorem default_two_variants_refused (fa : Bool → Bool → Field → Res (Field × DefaultFieldAttr)) (va : Bool → Variant → Res DefaultTypeAttr)
    (hva : ∀ v, ∃ x, va true v = .ok x) (hfa : ∀ v : Variant, ∃ y, mapRes (fa false false) v.fields = .ok y) (vs : List Variant)
    (h2 : 1 < flaggedVariants va vs) : defaultPickVariant fa va vs = .diag .multipleDefaultVariants := by
  unfold defaultPickVariant
  split
  · rename_i v
    have : flaggedVariants va [v] ≤ 1 := by unfold flaggedVariants; exact Nat.le_trans (List.length_filter_le _ _) (by simp)
    omega
  · rw [(defaultVariantLoop_spec fa va hva hfa vs 0 none).2.2 h2]; rfl

def markedFields (fa : Bool → Bool → Field → Res (Field × DefaultFieldAttr)) (fs : List Field) : Nat :=
  (fs.filter fun f => match fa true true f with | .ok p => p.2.flag || p.2.expression.isSome | _ => false).length

theorem defaultFieldLoop_spec (fa : Bool → Bool → Field → Res (Field × DefaultFieldAttr)) (hfa : ∀ f, ∃ p, fa true true f = .ok p) :
    ∀ (fs : List Field) (i : Nat) (acc : Option (Nat × Field × DefaultFieldAttr)),
      (markedFields fa fs = 0 → defaultFieldLoop fa i fs acc = .ok acc) ∧
      (acc.isSome = true → 0 < markedFields fa fs → defaultFieldLoop fa i fs acc = .diag .multipleDefaultFields) ∧
      (1 < markedFields fa fs → defaultFieldLoop fa i fs acc = .diag .multipleDefaultFields) := by
  intro fs
  induction fs with
  | nil => intro i acc; simp [markedFields, defaultFieldLoop]
  | cons f rest ih =>
    intro i acc
    obtain ⟨p, hp⟩ := hfa f
    obtain ⟨pf, pa⟩ := p
    cases hfl : (pa.flag || pa.expression.isSome) with
    | false =>
      have hc : markedFields fa (f :: rest) = markedFields fa rest := by simp [markedFields, hp, hfl]
      simp only [defaultFieldLoop, hp, bind, hc, hfl]
      exact ih (i + 1) acc
    | true =>
      have hc : markedFields fa (f :: rest) = markedFields fa rest + 1 := by simp [markedFields, hp, hfl]
      simp only [defaultFieldLoop, hp, bind, hc, hfl]
      refine ⟨by omega, ?_, ?_⟩
      · intro hs _
        cases acc with
        | none => cases hs
        | some a => rfl
      · intro h1
        cases acc with
        | some a => rfl
        | none =>
          simp only []
          exact (ih (i + 1) (some (i, f, pa))).2.1 rfl (by omega)

/-- **A union with several fields and none designated: refused; two designated: refused.** -/
theorem default_union_no_field_refused (fa : Bool → Bool → Field → Res (Field × DefaultFieldAttr)) (hfa : ∀ f, ∃ p, fa true true f = .ok p)
    (fs : List Field) (hlen : fs.length ≠ 1) (h0 : markedFields fa fs = 0) : defaultPickField fa fs = .diag .noDefaultField := by
  unfold defaultPickField
  split
  · simp at hlen
  · rw [(defaultFieldLoop_spec fa hfa fs 0 none).1 h0]; rfl

theorem default_union_two_fields_refused (fa : Bool → Bool → Field → Res (Field × DefaultFieldAttr)) (hfa : ∀ f, ∃ p, fa true true f = .ok p)
    (fs : List Field) (h2 : 1 < markedFields fa fs) : defaultPickField fa fs = .diag .multipleDefaultFields := by
  unfold defaultPickField
  split
  · rename_i f
    have : markedFields fa [f] ≤ 1 := by unfold markedFields; exact Nat.le_trans (List.length_filter_le _ _) (by simp)
    omega
  · rw [(defaultFieldLoop_spec fa hfa fs 0 none).2.2 h2]; rfl

/-! ### an attribute of a marker trait (Copy / Eq) on a field or a variant: misplaced, refused — also next to its partner -/

/-- A meta of this builder's trait whose builder accepts nothing is refused wherever it stands in the list. -/
theorem scanMetas_misplaced_refused {α : Type} (F : Features) (traits mine : TraitId → Bool) (build : TraitMeta → Res α)
    (pre post : List TraitMeta) (m : TraitMeta) (t : TraitId) (ht : traitOf F m = some t) (hm : mine t = true)
    (hb : ¬ IsOk (build m)) (out : Option α) :
    ¬ IsOk (scanMetas F traits mine build (pre ++ m :: post) out) := by
  induction pre generalizing out with
  | nil =>
    simp only [List.nil_append, scanMetas, ht, hm, if_true]
    split
    · exact not_ok_identOrPanic m _
    · split
      · exact not_ok_identOrPanic m _
      · split
        · rename_i a h; exact absurd ⟨a, h⟩ hb
        · exact not_ok_diag _
        · exact not_ok_panic _
  | cons q qs ih =>
    simp only [List.cons_append, scanMetas]
    split
    · exact not_ok_diag _
    · split
      · exact not_ok_identOrPanic q _
      · split
        · split
          · exact not_ok_identOrPanic q _
          · split
            · exact ih _
            · exact not_ok_diag _
            · exact not_ok_panic _
        · exact ih _

theorem scanAttrs_misplaced_refused {α : Type} (F : Features) (traits mine : TraitId → Bool) (build : TraitMeta → Res α)
    (apre apost : List Attribute) (a : Attribute) (pre post : List TraitMeta) (m : TraitMeta) (t : TraitId)
    (ha : (a.isEduce && a.isList) = true) (hms : a.metas = some (pre ++ m :: post))
    (ht : traitOf F m = some t) (hm : mine t = true) (hb : ¬ IsOk (build m)) (out : Option α) :
    ¬ IsOk (scanAttrs F traits mine build (apre ++ a :: apost) out) := by
  induction apre generalizing out with
  | nil =>
    simp only [List.nil_append, scanAttrs, ha, if_true, hms]
    split
    · rename_i o h
      exact absurd ⟨o, h⟩ (scanMetas_misplaced_refused F traits mine build pre post m t ht hm hb out)
    · exact not_ok_diag _
    · exact not_ok_panic _
  | cons q qs ih =>
    simp only [List.cons_append, scanAttrs]
    split
    · split
      · exact not_ok_diag _
      · split
        · exact ih _
        · exact not_ok_diag _
        · exact not_ok_panic _
    · exact ih _

theorem fromAttrs_misplaced_refused {α : Type} (F : Features) (traits mine : TraitId → Bool) (build : TraitMeta → Res α) (dflt : α)
    (apre apost : List Attribute) (a : Attribute) (pre post : List TraitMeta) (m : TraitMeta) (t : TraitId)
    (ha : (a.isEduce && a.isList) = true) (hms : a.metas = some (pre ++ m :: post))
    (ht : traitOf F m = some t) (hm : mine t = true) (hb : ¬ IsOk (build m)) :
    ¬ IsOk (fromAttrs F traits mine build dflt (apre ++ a :: apost)) := by
  unfold fromAttrs
  split
  · rename_i o h
    exact absurd ⟨some o, h⟩ (scanAttrs_misplaced_refused F traits mine build apre apost a pre post m t ha hms ht hm hb none)
  · rename_i h
    exact absurd ⟨none, h⟩ (scanAttrs_misplaced_refused F traits mine build apre apost a pre post m t ha hms ht hm hb none)
  · exact not_ok_diag _
  · exact not_ok_panic _

theorem mapRes_not_ok {α β : Type} (f : α → Res β) (pre post : List α) (x : α) (hx : ¬ IsOk (f x)) :
    ¬ IsOk (mapRes f (pre ++ x :: post)) := by
  induction pre with
  | nil =>
    simp only [List.nil_append, mapRes]
    split
    · rename_i y h; exact absurd ⟨y, h⟩ hx
    · exact not_ok_diag _
    · exact not_ok_panic _
  | cons q qs ih =>
    simp only [List.cons_append, mapRes]
    split
    · split
      · rename_i ys h; exact absurd ⟨ys, h⟩ ih
      · exact not_ok_diag _
      · exact not_ok_panic _
    · exact not_ok_diag _
    · exact not_ok_panic _

theorem bind_not_ok_left {α β : Type} (r : Res α) (k : α → Res β) (h : ¬ IsOk r) : ¬ IsOk (r >>= k) := by
  cases r with
  | ok a => exact absurd ⟨a, rfl⟩ h
  | diag d => exact not_ok_diag _
  | panic s => exact not_ok_panic _

theorem bind_not_ok_right {α β : Type} (r : Res α) (k : α → Res β) (h : ∀ a, ¬ IsOk (k a)) : ¬ IsOk (r >>= k) := by
  cases r with
  | ok a => exact h a
  | diag d => exact not_ok_diag _
  | panic s => exact not_ok_panic _

/-- **A marker-trait attribute (`Copy`, `Eq`) on a field is refused** by the marker handler whenever it scans —
    for `Copy` that is always (`scanWithPartner = true`), also when `Clone` writes the implementation. -/
theorem marker_attr_on_field_refused (c : Ctx) (mt : TraitMeta) (me p : TraitId) (b s : String) (w : Bool)
    (hw : (c.traits p && !w) = false)
    (vpre vpost : List Variant) (v : Variant) (hv : c.d.variants = vpre ++ v :: vpost)
    (fpre fpost : List Field) (f : Field) (hf : v.fields = fpre ++ f :: fpost)
    (apre apost : List Attribute) (a : Attribute) (hfa : f.attrs = apre ++ a :: apost)
    (pre post : List TraitMeta) (m : TraitMeta)
    (ha : (a.isEduce && a.isList) = true) (hms : a.metas = some (pre ++ m :: post)) (ht : traitOf c.F m = some me) :
    ¬ IsOk (markerHandler c mt me p b s w) := by
  unfold markerHandler
  apply bind_not_ok_right
  intro ta
  simp only [hw, Bool.false_eq_true, if_false]
  apply bind_not_ok_left
  rw [hv]
  apply mapRes_not_ok
  have hfield : ¬ IsOk (mapRes (fun f => fromAttrs c.F c.traits (· == me) noFieldAttrFromMeta () f.attrs) v.fields) := by
    rw [hf]
    apply mapRes_not_ok
    rw [hfa]
    exact fromAttrs_misplaced_refused c.F c.traits (· == me) noFieldAttrFromMeta () apre apost a pre post m me ha hms ht (by simp)
      (not_ok_identOrPanic m _)
  split
  · apply bind_not_ok_right
    intro _
    exact bind_not_ok_left _ _ hfield
  · exact bind_not_ok_left _ _ hfield

/-- The instance the repaired defect was about: `#[educe(Clone, Copy)]` with `#[educe(Copy..)]` on a field. -/
theorem copy_attr_on_field_refused_next_to_clone (c : Ctx) (mt : TraitMeta)
    (vpre vpost : List Variant) (v : Variant) (hv : c.d.variants = vpre ++ v :: vpost)
    (fpre fpost : List Field) (f : Field) (hf : v.fields = fpre ++ f :: fpost)
    (apre apost : List Attribute) (a : Attribute) (hfa : f.attrs = apre ++ a :: apost)
    (pre post : List TraitMeta) (m : TraitMeta)
    (ha : (a.isEduce && a.isList) = true) (hms : a.metas = some (pre ++ m :: post)) (ht : traitOf c.F m = some .copy) :
    ¬ IsOk (markerHandler c mt .copy .clone "::core::marker::Copy" "::core::clone::Clone" true) :=
  marker_attr_on_field_refused c mt .copy .clone _ _ true (by simp) vpre vpost v hv fpre fpost f hf apre apost a hfa pre post m ha hms ht

/-! ### `bound` (or anything else) in an attribute on a variant, for the traits that take nothing there -/

/-- A meta is *empty* when it is a list form with no parameter at all (`Trait()`): the only form the
    flag-less, bound-less builder lets through. -/
def MetaForm.isEmptyList : MetaForm → Bool
  | .list (some []) _ _ => true
  | _ => false

theorem findSpec_single {σ : Type} (s : PSpec σ) (n : String) : findSpec [s] n = none ∨ findSpec [s] n = some s := by
  unfold findSpec
  simp only [List.find?]
  cases s.names.contains n <;> simp

theorem boundType_all_off_refused (m : TraitMeta) (h : m.form.isEmptyList = false) :
    ¬ IsOk (boundTypeFromMeta { flag := false, unsafe_ := false, bound := false } m) := by
  unfold boundTypeFromMeta
  split
  · simp only [Bool.false_eq_true, if_false]; exact not_ok_identOrPanic m _
  · exact not_ok_identOrPanic m _
  · rename_i plain uns typed hform
    simp only [Bool.false_eq_true, if_false]
    split
    · exact not_ok_diag _
    · rename_i ps
      cases ps with
      | nil => rw [hform] at h; simp [MetaForm.isEmptyList] at h
      | cons p ps =>
        apply bad_parameter_refused m _ [] ps p
        split
        · trivial
        · rename_i n _
          rcases findSpec_single (boundSpec false fun b (st : BoundTypeAttr) => { st with bound := b }) n with h1 | h1
          · rw [h1]; trivial
          · rw [h1]; rfl

/-- **An attribute of the handler's own trait on a variant** — `bound(..)` included — is refused by every handler
    that reads variant attributes through `variantNoAttr` (Clone, Copy, PartialEq, Eq, Hash, PartialOrd, Ord),
    in whatever attribute and at whatever place in its list it stands. -/
theorem own_attr_on_variant_refused (c : Ctx) (mine : TraitId → Bool) (v : Variant)
    (apre apost : List Attribute) (a : Attribute) (hva : v.attrs = apre ++ a :: apost)
    (pre post : List TraitMeta) (m : TraitMeta) (t : TraitId)
    (ha : (a.isEduce && a.isList) = true) (hms : a.metas = some (pre ++ m :: post))
    (ht : traitOf c.F m = some t) (hm : mine t = true) (hne : m.form.isEmptyList = false) :
    ¬ IsOk (variantNoAttr c mine v) := by
  unfold variantNoAttr
  apply bind_not_ok_left
  rw [hva]
  exact fromAttrs_misplaced_refused c.F c.traits mine _ {} apre apost a pre post m t ha hms ht hm (boundType_all_off_refused m hne)

/-- …and so by the marker handler, for `Copy` also next to `Clone` (second half of the defect repaired in 901f6d7). -/
theorem marker_attr_on_variant_refused (c : Ctx) (mt : TraitMeta) (me p : TraitId) (b s : String) (w : Bool)
    (hw : (c.traits p && !w) = false) (hk : c.d.kind = .enum)
    (vpre vpost : List Variant) (v : Variant) (hv : c.d.variants = vpre ++ v :: vpost)
    (apre apost : List Attribute) (a : Attribute) (hva : v.attrs = apre ++ a :: apost)
    (pre post : List TraitMeta) (m : TraitMeta)
    (ha : (a.isEduce && a.isList) = true) (hms : a.metas = some (pre ++ m :: post))
    (ht : traitOf c.F m = some me) (hne : m.form.isEmptyList = false) :
    ¬ IsOk (markerHandler c mt me p b s w) := by
  unfold markerHandler
  apply bind_not_ok_right
  intro ta
  simp only [hw, Bool.false_eq_true, if_false]
  apply bind_not_ok_left
  rw [hv]
  apply mapRes_not_ok
  simp only [hk, beq_self_eq_true, if_true]
  apply bind_not_ok_left
  exact own_attr_on_variant_refused c (· == me) v apre apost a hva pre post m me ha hms ht (by simp) hne

/-- Non-vacuity: `#[educe(Clone, Copy)] struct S(#[educe(Copy)] u8);` meets the hypotheses (with `Clone` educed). -/
example :
    let m : TraitMeta := { ident := some "Copy", pathStr := "Copy", raw := "Copy", form := .path }
    let a : Attribute := { isEduce := true, isList := true, metas := some [m] }
    let f : Field := { ty := "u8", attrs := [a] }
    let v : Variant := { shape := .tuple, fields := [f] }
    let c : Ctx := { F := TraitId.all, traits := fun t => t == .clone || t == .copy, d := { name := "S", kind := .struct, variants := [v] } }
    c.traits .clone = true ∧ c.d.variants = [] ++ v :: [] ∧ v.fields = [] ++ f :: [] ∧ f.attrs = [] ++ a :: [] ∧
      (a.isEduce && a.isList) = true ∧ a.metas = some ([] ++ m :: []) ∧ traitOf c.F m = some .copy := by decide

/-- Non-vacuity: `#[educe(Clone, Copy)] enum E { #[educe(Copy(bound(*)))] A(u8) }` meets the hypotheses of
    `marker_attr_on_variant_refused` (with `Clone` educed). -/
example :
    let bp : Param := { ident := some "bound", pathStr := "bound", form := .list { text := "*" } }
    let m : TraitMeta := { ident := some "Copy", pathStr := "Copy", raw := "Copy(bound(*))", form := .list (some [bp]) none none }
    let a : Attribute := { isEduce := true, isList := true, metas := some [m] }
    let v : Variant := { name := "A", shape := .tuple, fields := [{ ty := "u8" }], attrs := [a] }
    let c : Ctx := { F := TraitId.all, traits := fun t => t == .clone || t == .copy, d := { name := "E", kind := .enum, variants := [v] } }
    c.traits .clone = true ∧ c.d.kind = .enum ∧ c.d.variants = [] ++ v :: [] ∧ v.attrs = [] ++ a :: [] ∧
      (a.isEduce && a.isList) = true ∧ a.metas = some ([] ++ m :: []) ∧ traitOf c.F m = some .copy ∧ m.form.isEmptyList = false := by decide


/-! ### the switches of every builder call in the source

`Generated.builders` is regenerated from /repo/src on every run: every `FieldAttributeBuilder { .. }` / `TypeAttributeBuilder { .. }`
literal with its `enable_*` values, in source order. The table below is what the attribute-layer model (`Expand.lean`: the flag records
each handler passes to its builders) was written from and validated against (B4); any change of a switch in the source — a parameter
accepted at a position where it was refused, or the reverse — breaks this equation by name. -/

def expectedBuilders : List (String × String × String × List (String × String)) := [
  ("trait_handlers/clone/clone_enum.rs", "trait_meta_handler", "TypeAttributeBuilder", [("enable_flag", "true"), ("enable_bound", "true")]),
  ("trait_handlers/clone/clone_enum.rs", "trait_meta_handler", "TypeAttributeBuilder", [("enable_flag", "false"), ("enable_bound", "false")]),
  ("trait_handlers/clone/clone_enum.rs", "trait_meta_handler", "FieldAttributeBuilder", [("enable_method", "true")]),
  ("trait_handlers/clone/clone_struct.rs", "trait_meta_handler", "TypeAttributeBuilder", [("enable_flag", "true"), ("enable_bound", "true")]),
  ("trait_handlers/clone/clone_struct.rs", "trait_meta_handler", "FieldAttributeBuilder", [("enable_method", "! contains_copy")]),
  ("trait_handlers/clone/clone_union.rs", "trait_meta_handler", "TypeAttributeBuilder", [("enable_flag", "true"), ("enable_bound", "true")]),
  ("trait_handlers/clone/clone_union.rs", "trait_meta_handler", "FieldAttributeBuilder", [("enable_method", "false")]),
  ("trait_handlers/copy/mod.rs", "trait_meta_handler", "TypeAttributeBuilder", [("enable_flag", "true"), ("enable_bound", "! contains_clone")]),
  ("trait_handlers/copy/mod.rs", "trait_meta_handler", "FieldAttributeBuilder", []),
  ("trait_handlers/copy/mod.rs", "trait_meta_handler", "TypeAttributeBuilder", [("enable_flag", "false"), ("enable_bound", "false")]),
  ("trait_handlers/copy/mod.rs", "trait_meta_handler", "FieldAttributeBuilder", []),
  ("trait_handlers/copy/mod.rs", "trait_meta_handler", "FieldAttributeBuilder", []),
  ("trait_handlers/debug/debug_enum.rs", "trait_meta_handler", "TypeAttributeBuilder", [("enable_flag", "true"), ("enable_unsafe", "false"), ("enable_name", "true"), ("enable_named_field", "false"), ("enable_bound", "true"), ("name", "TypeName :: Disable"), ("named_field", "false")]),
  ("trait_handlers/debug/debug_enum.rs", "trait_meta_handler", "TypeAttributeBuilder", [("enable_flag", "false"), ("enable_unsafe", "false"), ("enable_name", "true"), ("enable_named_field", "true"), ("enable_bound", "false"), ("name", "TypeName :: Default"), ("named_field", "matches ! (& variant . fields , Fields :: Named (_))")]),
  ("trait_handlers/debug/debug_enum.rs", "trait_meta_handler", "FieldAttributeBuilder", [("enable_name", "true"), ("enable_ignore", "true"), ("enable_method", "true"), ("name", "FieldName :: Default")]),
  ("trait_handlers/debug/debug_enum.rs", "trait_meta_handler", "FieldAttributeBuilder", [("enable_name", "false"), ("enable_ignore", "true"), ("enable_method", "true"), ("name", "FieldName :: Default")]),
  ("trait_handlers/debug/debug_enum.rs", "trait_meta_handler", "FieldAttributeBuilder", [("enable_name", "true"), ("enable_ignore", "true"), ("enable_method", "true"), ("name", "FieldName :: Default")]),
  ("trait_handlers/debug/debug_enum.rs", "trait_meta_handler", "FieldAttributeBuilder", [("enable_name", "false"), ("enable_ignore", "true"), ("enable_method", "true"), ("name", "FieldName :: Default")]),
  ("trait_handlers/debug/debug_struct.rs", "trait_meta_handler", "TypeAttributeBuilder", [("enable_flag", "true"), ("enable_unsafe", "false"), ("enable_name", "true"), ("enable_named_field", "true"), ("enable_bound", "true"), ("name", "TypeName :: Default"), ("named_field", "! is_tuple")]),
  ("trait_handlers/debug/debug_struct.rs", "trait_meta_handler", "FieldAttributeBuilder", [("enable_name", "true"), ("enable_ignore", "true"), ("enable_method", "true"), ("name", "FieldName :: Default")]),
  ("trait_handlers/debug/debug_struct.rs", "trait_meta_handler", "FieldAttributeBuilder", [("enable_name", "false"), ("enable_ignore", "true"), ("enable_method", "true"), ("name", "FieldName :: Default")]),
  ("trait_handlers/debug/debug_union.rs", "trait_meta_handler", "TypeAttributeBuilder", [("enable_flag", "true"), ("enable_unsafe", "true"), ("enable_name", "true"), ("enable_named_field", "false"), ("enable_bound", "false"), ("name", "TypeName :: Default"), ("named_field", "false")]),
  ("trait_handlers/debug/debug_union.rs", "trait_meta_handler", "FieldAttributeBuilder", [("enable_name", "false"), ("enable_ignore", "false"), ("enable_method", "false"), ("name", "FieldName :: Default")]),
  ("trait_handlers/default/default_enum.rs", "trait_meta_handler", "TypeAttributeBuilder", [("enable_flag", "true"), ("enable_new", "true"), ("enable_expression", "true"), ("enable_bound", "true")]),
  ("trait_handlers/default/default_enum.rs", "trait_meta_handler", "TypeAttributeBuilder", [("enable_flag", "false"), ("enable_new", "false"), ("enable_expression", "false"), ("enable_bound", "false")]),
  ("trait_handlers/default/default_enum.rs", "trait_meta_handler", "TypeAttributeBuilder", [("enable_flag", "true"), ("enable_new", "false"), ("enable_expression", "false"), ("enable_bound", "false")]),
  ("trait_handlers/default/default_enum.rs", "trait_meta_handler", "TypeAttributeBuilder", [("enable_flag", "true"), ("enable_new", "false"), ("enable_expression", "false"), ("enable_bound", "false")]),
  ("trait_handlers/default/default_enum.rs", "trait_meta_handler", "FieldAttributeBuilder", [("enable_flag", "false"), ("enable_expression", "true")]),
  ("trait_handlers/default/default_enum.rs", "trait_meta_handler", "FieldAttributeBuilder", [("enable_flag", "false"), ("enable_expression", "true")]),
  ("trait_handlers/default/default_enum.rs", "ensure_fields_no_attribute", "FieldAttributeBuilder", [("enable_flag", "false"), ("enable_expression", "false")]),
  ("trait_handlers/default/default_enum.rs", "ensure_fields_no_attribute", "FieldAttributeBuilder", [("enable_flag", "false"), ("enable_expression", "false")]),
  ("trait_handlers/default/default_struct.rs", "trait_meta_handler", "TypeAttributeBuilder", [("enable_flag", "true"), ("enable_new", "true"), ("enable_expression", "true"), ("enable_bound", "true")]),
  ("trait_handlers/default/default_struct.rs", "trait_meta_handler", "FieldAttributeBuilder", [("enable_flag", "false"), ("enable_expression", "false")]),
  ("trait_handlers/default/default_struct.rs", "trait_meta_handler", "FieldAttributeBuilder", [("enable_flag", "false"), ("enable_expression", "true")]),
  ("trait_handlers/default/default_struct.rs", "trait_meta_handler", "FieldAttributeBuilder", [("enable_flag", "false"), ("enable_expression", "true")]),
  ("trait_handlers/default/default_union.rs", "trait_meta_handler", "TypeAttributeBuilder", [("enable_flag", "true"), ("enable_new", "true"), ("enable_expression", "true"), ("enable_bound", "true")]),
  ("trait_handlers/default/default_union.rs", "trait_meta_handler", "FieldAttributeBuilder", [("enable_flag", "false"), ("enable_expression", "false")]),
  ("trait_handlers/default/default_union.rs", "trait_meta_handler", "FieldAttributeBuilder", [("enable_flag", "true"), ("enable_expression", "true")]),
  ("trait_handlers/default/default_union.rs", "trait_meta_handler", "FieldAttributeBuilder", [("enable_flag", "true"), ("enable_expression", "true")]),
  ("trait_handlers/deref/deref_enum.rs", "trait_meta_handler", "TypeAttributeBuilder", [("enable_flag", "true")]),
  ("trait_handlers/deref/deref_enum.rs", "trait_meta_handler", "TypeAttributeBuilder", [("enable_flag", "false")]),
  ("trait_handlers/deref/deref_enum.rs", "trait_meta_handler", "FieldAttributeBuilder", [("enable_flag", "true")]),
  ("trait_handlers/deref/deref_enum.rs", "trait_meta_handler", "FieldAttributeBuilder", [("enable_flag", "true")]),
  ("trait_handlers/deref/deref_struct.rs", "trait_meta_handler", "TypeAttributeBuilder", [("enable_flag", "true")]),
  ("trait_handlers/deref/deref_struct.rs", "trait_meta_handler", "FieldAttributeBuilder", [("enable_flag", "true")]),
  ("trait_handlers/deref/deref_struct.rs", "trait_meta_handler", "FieldAttributeBuilder", [("enable_flag", "true")]),
  ("trait_handlers/deref_mut/deref_mut_enum.rs", "trait_meta_handler", "TypeAttributeBuilder", [("enable_flag", "true")]),
  ("trait_handlers/deref_mut/deref_mut_enum.rs", "trait_meta_handler", "TypeAttributeBuilder", [("enable_flag", "false")]),
  ("trait_handlers/deref_mut/deref_mut_enum.rs", "trait_meta_handler", "FieldAttributeBuilder", [("enable_flag", "true")]),
  ("trait_handlers/deref_mut/deref_mut_enum.rs", "trait_meta_handler", "FieldAttributeBuilder", [("enable_flag", "true")]),
  ("trait_handlers/deref_mut/deref_mut_struct.rs", "trait_meta_handler", "TypeAttributeBuilder", [("enable_flag", "true")]),
  ("trait_handlers/deref_mut/deref_mut_struct.rs", "trait_meta_handler", "FieldAttributeBuilder", [("enable_flag", "true")]),
  ("trait_handlers/deref_mut/deref_mut_struct.rs", "trait_meta_handler", "FieldAttributeBuilder", [("enable_flag", "true")]),
  ("trait_handlers/eq/mod.rs", "trait_meta_handler", "TypeAttributeBuilder", [("enable_flag", "true"), ("enable_bound", "! contains_partial_eq")]),
  ("trait_handlers/eq/mod.rs", "trait_meta_handler", "FieldAttributeBuilder", []),
  ("trait_handlers/eq/mod.rs", "trait_meta_handler", "TypeAttributeBuilder", [("enable_flag", "false"), ("enable_bound", "false")]),
  ("trait_handlers/eq/mod.rs", "trait_meta_handler", "FieldAttributeBuilder", []),
  ("trait_handlers/eq/mod.rs", "trait_meta_handler", "FieldAttributeBuilder", []),
  ("trait_handlers/hash/hash_enum.rs", "trait_meta_handler", "TypeAttributeBuilder", [("enable_flag", "true"), ("enable_unsafe", "false"), ("enable_bound", "true")]),
  ("trait_handlers/hash/hash_enum.rs", "trait_meta_handler", "TypeAttributeBuilder", [("enable_flag", "false"), ("enable_unsafe", "false"), ("enable_bound", "false")]),
  ("trait_handlers/hash/hash_enum.rs", "trait_meta_handler", "FieldAttributeBuilder", [("enable_ignore", "true"), ("enable_method", "true")]),
  ("trait_handlers/hash/hash_enum.rs", "trait_meta_handler", "FieldAttributeBuilder", [("enable_ignore", "true"), ("enable_method", "true")]),
  ("trait_handlers/hash/hash_struct.rs", "trait_meta_handler", "TypeAttributeBuilder", [("enable_flag", "true"), ("enable_unsafe", "false"), ("enable_bound", "true")]),
  ("trait_handlers/hash/hash_struct.rs", "trait_meta_handler", "FieldAttributeBuilder", [("enable_ignore", "true"), ("enable_method", "true")]),
  ("trait_handlers/hash/hash_union.rs", "trait_meta_handler", "TypeAttributeBuilder", [("enable_flag", "true"), ("enable_unsafe", "true"), ("enable_bound", "false")]),
  ("trait_handlers/hash/hash_union.rs", "trait_meta_handler", "FieldAttributeBuilder", [("enable_ignore", "false"), ("enable_method", "false")]),
  ("trait_handlers/into/into_enum.rs", "trait_meta_handler", "TypeAttributeBuilder", [("enable_types", "true")]),
  ("trait_handlers/into/into_enum.rs", "trait_meta_handler", "TypeAttributeBuilder", [("enable_types", "false")]),
  ("trait_handlers/into/into_enum.rs", "trait_meta_handler", "FieldAttributeBuilder", [("enable_types", "true")]),
  ("trait_handlers/into/into_struct.rs", "trait_meta_handler", "TypeAttributeBuilder", [("enable_types", "true")]),
  ("trait_handlers/into/into_struct.rs", "trait_meta_handler", "FieldAttributeBuilder", [("enable_types", "true")]),
  ("trait_handlers/ord/ord_enum.rs", "trait_meta_handler", "TypeAttributeBuilder", [("enable_flag", "true"), ("enable_bound", "true")]),
  ("trait_handlers/ord/ord_enum.rs", "trait_meta_handler", "TypeAttributeBuilder", [("enable_flag", "false"), ("enable_bound", "false")]),
  ("trait_handlers/ord/ord_enum.rs", "trait_meta_handler", "FieldAttributeBuilder", [("enable_ignore", "true"), ("enable_method", "true"), ("enable_rank", "true"), ("rank", "isize :: MIN + index as isize")]),
  ("trait_handlers/ord/ord_enum.rs", "trait_meta_handler", "FieldAttributeBuilder", [("enable_ignore", "true"), ("enable_method", "true"), ("enable_rank", "true"), ("rank", "isize :: MIN + index as isize")]),
  ("trait_handlers/ord/ord_struct.rs", "trait_meta_handler", "TypeAttributeBuilder", [("enable_flag", "true"), ("enable_bound", "true")]),
  ("trait_handlers/ord/ord_struct.rs", "trait_meta_handler", "FieldAttributeBuilder", [("enable_ignore", "true"), ("enable_method", "true"), ("enable_rank", "true"), ("rank", "isize :: MIN + index as isize")]),
  ("trait_handlers/partial_eq/partial_eq_enum.rs", "trait_meta_handler", "TypeAttributeBuilder", [("enable_flag", "true"), ("enable_unsafe", "false"), ("enable_bound", "true")]),
  ("trait_handlers/partial_eq/partial_eq_enum.rs", "trait_meta_handler", "TypeAttributeBuilder", [("enable_flag", "false"), ("enable_unsafe", "false"), ("enable_bound", "false")]),
  ("trait_handlers/partial_eq/partial_eq_enum.rs", "trait_meta_handler", "FieldAttributeBuilder", [("enable_ignore", "true"), ("enable_method", "true")]),
  ("trait_handlers/partial_eq/partial_eq_enum.rs", "trait_meta_handler", "FieldAttributeBuilder", [("enable_ignore", "true"), ("enable_method", "true")]),
  ("trait_handlers/partial_eq/partial_eq_struct.rs", "trait_meta_handler", "TypeAttributeBuilder", [("enable_flag", "true"), ("enable_unsafe", "false"), ("enable_bound", "true")]),
  ("trait_handlers/partial_eq/partial_eq_struct.rs", "trait_meta_handler", "FieldAttributeBuilder", [("enable_ignore", "true"), ("enable_method", "true")]),
  ("trait_handlers/partial_eq/partial_eq_union.rs", "trait_meta_handler", "TypeAttributeBuilder", [("enable_flag", "true"), ("enable_unsafe", "true"), ("enable_bound", "false")]),
  ("trait_handlers/partial_eq/partial_eq_union.rs", "trait_meta_handler", "FieldAttributeBuilder", [("enable_ignore", "false"), ("enable_method", "false")]),
  ("trait_handlers/partial_ord/mod.rs", "trait_meta_handler", "TypeAttributeBuilder", [("enable_flag", "true"), ("enable_bound", "false")]),
  ("trait_handlers/partial_ord/partial_ord_enum.rs", "trait_meta_handler", "TypeAttributeBuilder", [("enable_flag", "true"), ("enable_bound", "true")]),
  ("trait_handlers/partial_ord/partial_ord_enum.rs", "trait_meta_handler", "TypeAttributeBuilder", [("enable_flag", "false"), ("enable_bound", "false")]),
  ("trait_handlers/partial_ord/partial_ord_enum.rs", "trait_meta_handler", "FieldAttributeBuilder", [("enable_ignore", "true"), ("enable_method", "true"), ("enable_rank", "true"), ("rank", "isize :: MIN + index as isize")]),
  ("trait_handlers/partial_ord/partial_ord_enum.rs", "trait_meta_handler", "FieldAttributeBuilder", [("enable_ignore", "true"), ("enable_method", "true"), ("enable_rank", "true"), ("rank", "isize :: MIN + index as isize")]),
  ("trait_handlers/partial_ord/partial_ord_struct.rs", "trait_meta_handler", "TypeAttributeBuilder", [("enable_flag", "true"), ("enable_bound", "true")]),
  ("trait_handlers/partial_ord/partial_ord_struct.rs", "trait_meta_handler", "FieldAttributeBuilder", [("enable_ignore", "true"), ("enable_method", "true"), ("enable_rank", "true"), ("rank", "isize :: MIN + index as isize")])
]

theorem builder_switches_unchanged : Generated.builders = expectedBuilders := by decide +kernel

end Educe.Attr
