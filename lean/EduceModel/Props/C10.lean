import EduceModel.Props.C09
import EduceModel.Spec.Into
import EduceModel.Generated.Templates
/-
  C10 — Into returns the designated field for every requested target type.
-/
namespace Educe
open Gen.Into

def IntoVariant.WF (v : IntoVariant) : Prop :=
  (v.shape = .named → (v.fields.map IntoField.name).Nodup) ∧ (v.shape = .unit → v.fields = [])

def IntoType.WF (t : IntoType) : Prop := ∀ v ∈ Sem.variantsOfInto t, v.WF

def IntoType.Inhabits {V : Type} (t : IntoType) (a : Val V) : Prop :=
  ∃ v, (Sem.variantsOfInto t)[a.variant]? = some v ∧ a.fields.length = v.fields.length

theorem markerFor_isSome (t : Nat) (c : IntoField) : (markerFor t c).isSome = Spec.hasMarker t c := by
  unfold markerFor Spec.hasMarker
  induction c.markers with
  | nil => simp
  | cons p ps ih =>
    simp only [List.find?_cons, List.any_cons]
    cases h : (p.1 == t) <;> simp [h, ih]

theorem markerFor_getD (t : Nat) (c : IntoField) : (markerFor t c).getD none = Spec.methodOf t c := by
  unfold markerFor Spec.methodOf
  cases h : c.markers.find? fun p => p.1 == t with
  | none => rfl
  | some p => obtain ⟨a, b⟩ := p; rfl

theorem markerLoop_some (t : Nat) (r : Nat × Option Nat) : ∀ (cs : List IntoField) (i : Nat),
    markerLoop t i cs (some r) = (some r, !(Spec.indicesWhere (Spec.hasMarker t) i cs).isEmpty) := by
  intro cs
  induction cs with
  | nil => intro i; simp [markerLoop, Spec.indicesWhere]
  | cons c cs ih =>
    intro i
    simp only [markerLoop, Spec.indicesWhere]
    have hm := markerFor_isSome t c
    cases h : markerFor t c with
    | none =>
      rw [h] at hm
      have hm' : Spec.hasMarker t c = false := by simpa using hm.symm
      simp [hm', ih]
    | some m =>
      rw [h] at hm
      have hm' : Spec.hasMarker t c = true := by simpa using hm.symm
      simp [hm']

/-- The marker loop: no marked field / the unique marked field with its method / "multiple". -/
theorem markerLoop_none (t : Nat) : ∀ (cs : List IntoField) (i : Nat),
    markerLoop t i cs none = (match Spec.indicesWhere (Spec.hasMarker t) i cs with
      | [] => (none, false)
      | [j] => (some (j, (markerFor t (cs[j - i]?.getD default)).getD none), false)
      | j :: _ :: _ => (some (j, (markerFor t (cs[j - i]?.getD default)).getD none), true)) := by
  intro cs
  induction cs with
  | nil => intro i; simp [markerLoop, Spec.indicesWhere]
  | cons c cs ih =>
    intro i
    simp only [markerLoop, Spec.indicesWhere]
    have hm := markerFor_isSome t c
    cases h : markerFor t c with
    | none =>
      rw [h] at hm
      have hm' : Spec.hasMarker t c = false := by simpa using hm.symm
      simp only [hm', Bool.false_eq_true, if_false, ih]
      have hlt := fun j (hj : j ∈ Spec.indicesWhere (Spec.hasMarker t) (i + 1) cs) =>
        (indicesWhere_ge (Spec.hasMarker t) cs (i + 1) j hj)
      cases hi : Spec.indicesWhere (Spec.hasMarker t) (i + 1) cs with
      | nil => rfl
      | cons j js =>
        have hj := hlt j (by simp [hi])
        have e : j - i = (j - (i + 1)) + 1 := by omega
        cases js with
        | nil => simp [e]
        | cons _ _ => simp [e]
    | some m =>
      rw [h] at hm
      have hm' : Spec.hasMarker t c = true := by simpa using hm.symm
      simp only [hm', if_true, markerLoop_some]
      cases hi : Spec.indicesWhere (Spec.hasMarker t) (i + 1) cs with
      | nil => simp [h]
      | cons j js => simp [h]
where
  indicesWhere_ge (p : IntoField → Bool) : ∀ (cs : List IntoField) (i j : Nat), j ∈ Spec.indicesWhere p i cs → i ≤ j := by
    intro cs
    induction cs with
    | nil => intro i j h; simp [Spec.indicesWhere] at h
    | cons c cs ih =>
      intro i j h
      simp only [Spec.indicesWhere] at h
      split at h
      · rw [List.mem_cons] at h
        rcases h with rfl | h
        · omega
        · have := ih (i + 1) j h; omega
      · have := ih (i + 1) j h; omega

theorem sameTypeLoop_some (t a : Nat) : ∀ (cs : List IntoField) (i : Nat),
    sameTypeLoop t i cs (some a) = if (Spec.indicesWhere (fun c => c.ty == t) i cs).isEmpty then some a else none := by
  intro cs
  induction cs with
  | nil => intro i; simp [sameTypeLoop, Spec.indicesWhere]
  | cons c cs ih =>
    intro i
    simp only [sameTypeLoop, Spec.indicesWhere]
    by_cases h : c.ty = t
    · simp [h]
    · simp [h, ih]

theorem sameTypeLoop_none (t : Nat) : ∀ (cs : List IntoField) (i : Nat),
    sameTypeLoop t i cs none = (match Spec.indicesWhere (fun c => c.ty == t) i cs with
      | [j] => some j
      | _ => none) := by
  intro cs
  induction cs with
  | nil => intro i; simp [sameTypeLoop, Spec.indicesWhere]
  | cons c cs ih =>
    intro i
    simp only [sameTypeLoop, Spec.indicesWhere]
    by_cases h : c.ty = t
    · simp only [h, if_true, sameTypeLoop_some, beq_self_eq_true]
      cases hi : Spec.indicesWhere (fun c => c.ty == t) (i + 1) cs with
      | nil => simp
      | cons j js => simp
    · simp only [h, if_false, ih]
      have : (c.ty == t) = false := by simpa using h
      simp [this]

theorem indicesWhere_spec (p : IntoField → Bool) : ∀ (cs : List IntoField) (i j : Nat),
    j ∈ Spec.indicesWhere p i cs → i ≤ j ∧ ∃ c, cs[j - i]? = some c ∧ p c = true := by
  intro cs
  induction cs with
  | nil => intro i j h; simp [Spec.indicesWhere] at h
  | cons c cs ih =>
    intro i j h
    simp only [Spec.indicesWhere] at h
    split at h
    · rename_i hp
      rw [List.mem_cons] at h
      rcases h with rfl | h
      · exact ⟨by omega, c, by simp, hp⟩
      · obtain ⟨h1, c', h2, h3⟩ := ih (i + 1) j h
        exact ⟨by omega, c', by rw [show j - i = (j - (i + 1)) + 1 by omega]; simpa using h2, h3⟩
    · obtain ⟨h1, c', h2, h3⟩ := ih (i + 1) j h
      exact ⟨by omega, c', by rw [show j - i = (j - (i + 1)) + 1 by omega]; simpa using h2, h3⟩

theorem methodOf_none_of_not_marked (t : Nat) (c : IntoField) (h : Spec.hasMarker t c = false) :
    Spec.methodOf t c = none := by
  rw [← markerFor_getD]
  have := markerFor_isSome t c
  rw [h] at this
  cases hm : markerFor t c with
  | none => rfl
  | some _ => rw [hm] at this; simp at this

theorem not_marked_of_indices_nil (t : Nat) : ∀ (cs : List IntoField) (i : Nat),
    Spec.indicesWhere (Spec.hasMarker t) i cs = [] → ∀ c ∈ cs, Spec.hasMarker t c = false := by
  intro cs
  induction cs with
  | nil => intro i _ c hc; simp at hc
  | cons c0 cs ih =>
    intro i h c hc
    simp only [Spec.indicesWhere] at h
    split at h
    · simp at h
    · rename_i hp
      rw [List.mem_cons] at hc
      rcases hc with rfl | hc
      · simpa using hp
      · exact ih (i + 1) h c hc

/-- Selection = designation: the code's two loops choose the field the property names, with the
    marker's method, and refuse exactly when there is no unique choice. -/
theorem select_ok_iff (t : Nat) (fields : List IntoField) (i : Nat) (m : Option Nat) :
    select t fields = .ok (i, m) ↔
      (Spec.designatedFor t fields = some i ∧ m = Spec.methodOf t (fields[i]?.getD default)) := by
  unfold select Spec.designatedFor
  match fields with
  | [c] =>
    simp only [markerFor_getD]
    constructor
    · intro h; cases h; simp
    · intro ⟨h1, h2⟩; cases h1; simp at h2; rw [h2]
  | [] => simp [markerLoop, sameTypeLoop, Spec.indicesWhere]
  | c1 :: c2 :: cs =>
    simp only [markerLoop_none, sameTypeLoop_none, Nat.sub_zero]
    cases hm : Spec.indicesWhere (Spec.hasMarker t) 0 (c1 :: c2 :: cs) with
    | nil =>
      simp only
      cases hs : Spec.indicesWhere (fun c => c.ty == t) 0 (c1 :: c2 :: cs) with
      | nil => simp
      | cons j js =>
        cases js with
        | cons _ _ => simp
        | nil =>
          simp only
          obtain ⟨_, c, hc, _⟩ := indicesWhere_spec _ _ 0 j (by rw [hs]; simp)
          simp only [Nat.sub_zero] at hc
          have hnm := not_marked_of_indices_nil t _ 0 hm c (List.mem_of_getElem? hc)
          have hmo := methodOf_none_of_not_marked t c hnm
          constructor
          · intro h; cases h; simp [hc, hmo]
          · intro ⟨h1, h2⟩; cases h1; simp [hc, hmo] at h2; rw [h2]
    | cons j js =>
      cases js with
      | cons _ _ => simp
      | nil =>
        simp only [markerFor_getD]
        constructor
        · intro h; cases h; simp
        · intro ⟨h1, h2⟩; cases h1; rw [h2]

theorem select_error_iff (t : Nat) (fields : List IntoField) :
    (∃ e, select t fields = .error e) ↔ Spec.designatedFor t fields = none := by
  unfold select Spec.designatedFor
  match fields with
  | [c] => simp
  | [] => simp [markerLoop, sameTypeLoop, Spec.indicesWhere]
  | c1 :: c2 :: cs =>
    simp only [markerLoop_none, sameTypeLoop_none]
    cases hm : Spec.indicesWhere (Spec.hasMarker t) 0 (c1 :: c2 :: cs) with
    | nil =>
      simp only
      cases hs : Spec.indicesWhere (fun c => c.ty == t) 0 (c1 :: c2 :: cs) with
      | nil => simp
      | cons j js => cases js <;> simp
    | cons j js => cases js <;> simp

theorem designatedFor_lt (t : Nat) (fields : List IntoField) (i : Nat) (h : Spec.designatedFor t fields = some i) :
    i < fields.length := by
  unfold Spec.designatedFor at h
  match fields with
  | [c] => simp at h; subst h; simp
  | [] => simp [Spec.indicesWhere] at h
  | c1 :: c2 :: cs =>
    simp only at h
    split at h
    · rename_i j hj
      cases h
      obtain ⟨_, c, hc, _⟩ := indicesWhere_spec _ _ 0 i (by rw [hj]; simp)
      exact (List.getElem?_eq_some_iff.mp hc).1
    · cases h
    · split at h
      · rename_i j hj
        cases h
        obtain ⟨_, c, hc, _⟩ := indicesWhere_spec _ _ 0 i (by rw [hj]; simp)
        exact (List.getElem?_eq_some_iff.mp hc).1
      · cases h

theorem into_arms_get (t : Nat) : ∀ (vs : List IntoVariant) (k0 : Nat) (as : List IntoArm), arms t k0 vs = .ok as →
    as.length = vs.length ∧ ∀ (k : Nat) (v : IntoVariant), vs[k]? = some v → ∃ a, arm t (k0 + k) v = .ok a ∧ as[k]? = some a := by
  intro vs
  induction vs with
  | nil => intro k0 as h; simp [arms] at h; cases h; simp
  | cons v vs ih =>
    intro k0 as h
    simp only [arms] at h
    cases ha : arm t k0 v with
    | error e => simp [ha] at h
    | ok a =>
      simp only [ha] at h
      cases hr : arms t (k0 + 1) vs with
      | error e => simp [hr] at h
      | ok as' =>
        simp only [hr] at h
        cases h
        obtain ⟨hl, hg⟩ := ih (k0 + 1) as' hr
        refine ⟨by simp [hl], ?_⟩
        intro k v' hk
        cases k with
        | zero => simp at hk; subst hk; exact ⟨a, by simpa using ha, by simp⟩
        | succ k =>
          simp at hk
          obtain ⟨a', h1, h2⟩ := hg k v' hk
          exact ⟨a', by rw [show k0 + (k + 1) = k0 + 1 + k by omega]; exact h1, by simpa using h2⟩

theorem applyInto_exprFor {V : Type} (ops : IntoOps V) (t : Nat) (c : IntoField) (p : Pos) (x : V) :
    Sem.applyInto ops t (exprFor t c (Spec.methodOf t c)) p x = Spec.resultOf ops t c p x := by
  unfold exprFor Sem.applyInto Spec.resultOf
  cases Spec.methodOf t c with
  | some m => rfl
  | none => by_cases h : c.ty = t <;> simp [h]

/-- **C10, main theorem.** If the impl for target `t` is generated, then for every value
    `x.into()` is the field designated for `t` in the value's variant, passed through the marker's
    method, returned unchanged when its type is `t`, converted with `Into<t>` otherwise. -/
theorem into_correct {V : Type} (ops : IntoOps V) (ty : IntoType) (hty : ty.WF) (t : Nat)
    (it : IntoItem) (hit : item ty t = .ok it) (a : Val V) (ha : ty.Inhabits a) :
    Sem.evalInto ops ty it a = Spec.into ops ty t a ∧ (Spec.into ops ty t a).isSome = true ∧ it.target = t := by
  obtain ⟨va, hva, hla⟩ := ha
  obtain ⟨ka, xs⟩ := a
  simp only at hva hla
  cases ty with
  | struct v =>
    simp only [Sem.variantsOfInto] at hva
    have hk0 : ka = 0 := by
      cases ka with
      | zero => rfl
      | succ n => simp at hva
    subst hk0
    simp at hva; subst hva
    simp only [item] at hit
    cases hs : select t v.fields with
    | error e => simp [hs] at hit
    | ok r =>
      obtain ⟨idx, m⟩ := r
      simp only [hs] at hit
      obtain ⟨hd, hm⟩ := (select_ok_iff t v.fields idx m).mp hs
      have hlt := designatedFor_lt t _ _ hd
      rw [List.getElem?_eq_getElem hlt] at hit
      simp only at hit
      cases hit
      have hx : xs[idx]? = some (xs[idx]'(by omega)) := List.getElem?_eq_getElem (by omega)
      simp only [List.getElem?_eq_getElem hlt, Option.getD_some] at hm
      subst hm
      simp only [Sem.evalInto, Spec.into, Sem.variantsOfInto, hd, List.getElem?_eq_getElem hlt, hx, applyInto_exprFor,
        List.getElem?_cons_zero, Option.map_some, Option.isSome_some, and_self, and_true]
  | enum vs =>
    simp only [Sem.variantsOfInto] at hva
    simp only [item] at hit
    cases has : arms t 0 vs with
    | error e => simp [has] at hit
    | ok as =>
      simp only [has] at hit
      obtain ⟨hlen, hget⟩ := into_arms_get t vs 0 as has
      obtain ⟨arma, harma, hasa⟩ := hget ka va hva
      simp only [Nat.zero_add] at harma
      cases as with
      | nil => simp at hasa
      | cons a0 as' =>
        simp only at hit
        cases hit
        have hwf := hty va (by simp [Sem.variantsOfInto]; exact List.mem_of_getElem? hva)
        unfold arm at harma
        split at harma
        · cases harma
        · cases hs : select t va.fields with
          | error e => simp [hs] at harma
          | ok r =>
            obtain ⟨idx, m⟩ := r
            simp only [hs] at harma
            obtain ⟨hd, hm⟩ := (select_ok_iff t va.fields idx m).mp hs
            have hlt := designatedFor_lt t _ _ hd
            rw [List.getElem?_eq_getElem hlt] at harma
            simp only at harma
            have hx : xs[idx]? = some (xs[idx]'(by omega)) := List.getElem?_eq_getElem (by omega)
            simp only [List.getElem?_eq_getElem hlt, Option.getD_some] at hm
            subst hm
            simp only [Sem.evalInto, hasa, Sem.variantsOfInto, hva, Spec.into, hd, List.getElem?_eq_getElem hlt, hx,
              Option.isSome_some, and_true]
            split at harma
            · cases harma
              simp only [matchArm]
              rw [matchTuple_replicate ka (tupSelf idx) idx 0 xs _ hx]
              simp [Env.look, applyInto_exprFor]
            · rename_i hnu hnt
              cases harma
              have hnamed : va.shape = .named := by
                cases hsh : va.shape <;> simp_all
              have hnd := hwf.1 hnamed
              have hidx := fieldIndex_map_get IntoField.name va.fields idx va.fields[idx] hnd
                (List.getElem?_eq_getElem hlt)
              simp [matchArm, matchNamed, Sem.intoNames, hidx, hx, Env.look, applyInto_exprFor]

/-- One impl per requested target and no other, in the order the targets are iterated. -/
theorem items_targets (ty : IntoType) : ∀ (targets : List Nat) (its : List IntoItem),
    items ty targets = .ok its → its.map IntoItem.target = targets := by
  intro targets
  induction targets with
  | nil => intro its h; simp [items] at h; cases h; rfl
  | cons t ts ih =>
    intro its h
    simp only [items] at h
    cases hi : item ty t with
    | error e => simp [hi] at h
    | ok it =>
      simp only [hi] at h
      cases hr : items ty ts with
      | error e => simp [hr] at h
      | ok its' =>
        simp only [hr] at h
        cases h
        have htar : it.target = t := by
          cases ty with
          | struct v =>
            simp only [item] at hi
            split at hi
            · cases hi
            · split at hi <;> cases hi; rfl
          | enum vs =>
            simp only [item] at hi
            split at hi
            · cases hi
            · cases hi
            · cases hi; rfl
        simp [htar, ih its' hr]

/-- A struct target is refused exactly when no unique field is designated for it. -/
theorem struct_target_refused_iff (v : IntoVariant) (t : Nat) :
    (∃ e, item (.struct v) t = .error e) ↔ Spec.designatedFor t v.fields = none := by
  simp only [item]
  constructor
  · intro ⟨e, he⟩
    cases hs : select t v.fields with
    | error e' => exact (select_error_iff t _).mp ⟨e', hs⟩
    | ok r =>
      obtain ⟨idx, m⟩ := r
      simp only [hs] at he
      obtain ⟨hd, _⟩ := (select_ok_iff t v.fields idx m).mp hs
      have hlt := designatedFor_lt t _ _ hd
      rw [List.getElem?_eq_getElem hlt] at he
      simp at he
  · intro h
    obtain ⟨e, he⟩ := (select_error_iff t v.fields).mpr h
    exact ⟨e, by simp [he]⟩

/-! ### Non-vacuity -/

def exIntoType : IntoType := .enum
  [ { name := "A".toList, shape := .tuple, fields := [ { ty := 1 }, { ty := 2, markers := [(7, some 0)] }, { ty := 7 } ] },
    { name := "B".toList, shape := .named, fields := [ { name := "x".toList, ty := 7 }, { name := "y".toList, ty := 1 } ] },
    { name := "C".toList, shape := .tuple, fields := [ { ty := 3 } ] } ]

def exIntoOps : IntoOps Nat := { conv := fun _ t x => 1000 * t + x, method := fun _ x => x + 50 }

example : (item exIntoType 7).toOption.bind (fun it => Sem.evalInto exIntoOps exIntoType it ⟨0, [1, 2, 3]⟩) = some 52 := by decide
example : (item exIntoType 7).toOption.bind (fun it => Sem.evalInto exIntoOps exIntoType it ⟨1, [4, 5]⟩) = some 4 := by decide
example : (item exIntoType 7).toOption.bind (fun it => Sem.evalInto exIntoOps exIntoType it ⟨2, [6]⟩) = some 7006 := by decide
-- two fields of the target type and no marker: refused
example : (item (.struct { shape := .tuple, fields := [ { ty := 7 }, { ty := 7 } ] }) 7).toOption = none := by decide


/-! ## What the generated code calls

The absolute paths (`::core::..`) named by the `quote!` templates of the handler, regenerated from /repo/src on every run
(`vtool extract`): the functions, traits and types the generated code can reach are exactly these - a call of anything
else (`::core::ptr::eq`, `::core::fmt::Display::fmt`, `::core::convert::From::from`, ...) is a change of what the
implementation does and has to be looked at. -/

theorem generated_calls_unchanged_into :
    Generated.paths_trait_handlers_into =
      ["::core::convert::Into", "::core::convert::Into::into"] := by
  decide +kernel

end Educe
