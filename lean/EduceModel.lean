import EduceModel.Basic
