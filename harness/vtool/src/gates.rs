//! Translator, feature-gate part (C18): reads every `#[cfg(..)]` of /repo/src and Cargo.toml's
//! feature table and prints Generated/Features.lean:
//!   * one *obligation* (context condition, provided condition) for every reference to a gated
//!     thing — a crate module or an item re-exported under a gate, a `Trait::X` variant, a local
//!     declared under `#[cfg]` — : whenever the referring code is compiled, the thing referred to
//!     must be compiled too;
//!   * for every gated module without `allow(dead_code)`, the conditions of the code that uses it;
//!   * the three per-trait tables (enum variants, `from_path` arms, dispatch blocks of lib.rs).
//! Fails closed on anything it cannot resolve.
use std::collections::{BTreeMap, BTreeSet};
use std::fmt::Write as _;
use std::path::Path;

use quote::ToTokens;
use syn::visit::{self, Visit};

#[derive(Clone, Debug, PartialEq, Eq, PartialOrd, Ord)]
pub enum Cond {
    T,
    F,
    Var(String),
    Not(Box<Cond>),
    And(Box<Cond>, Box<Cond>),
    Or(Box<Cond>, Box<Cond>),
}

impl Cond {
    fn and(a: Cond, b: Cond) -> Cond {
        match (a, b) {
            (Cond::T, x) | (x, Cond::T) => x,
            (a, b) if a == b => a,
            (a, b) => Cond::And(Box::new(a), Box::new(b)),
        }
    }

    fn or(a: Cond, b: Cond) -> Cond {
        match (a, b) {
            (Cond::F, x) | (x, Cond::F) => x,
            (a, b) if a == b => a,
            (a, b) => Cond::Or(Box::new(a), Box::new(b)),
        }
    }

    fn vars(&self, out: &mut BTreeSet<String>) {
        match self {
            Cond::Var(v) => {
                out.insert(v.clone());
            },
            Cond::Not(a) => a.vars(out),
            Cond::And(a, b) | Cond::Or(a, b) => {
                a.vars(out);
                b.vars(out);
            },
            _ => {},
        }
    }

    fn lean(&self, idx: &BTreeMap<String, usize>) -> String {
        match self {
            Cond::T => ".tt".into(),
            Cond::F => ".ff".into(),
            Cond::Var(v) => format!("(.var {})", idx[v]),
            Cond::Not(a) => format!("(.not {})", a.lean(idx)),
            Cond::And(a, b) => format!("(.and {} {})", a.lean(idx), b.lean(idx)),
            Cond::Or(a, b) => format!("(.or {} {})", a.lean(idx), b.lean(idx)),
        }
    }
}

fn parse_cfg_meta(m: &syn::Meta) -> Result<Cond, String> {
    match m {
        syn::Meta::Path(p) => Ok(Cond::Var(format!("cfg:{}", p.to_token_stream().to_string().replace(' ', "")))),
        syn::Meta::NameValue(nv) => {
            let k = nv.path.to_token_stream().to_string();
            let v = nv.value.to_token_stream().to_string();
            if k == "feature" {
                Ok(Cond::Var(v.trim_matches('"').to_string()))
            } else {
                Ok(Cond::Var(format!("cfg:{}={}", k, v)))
            }
        },
        syn::Meta::List(l) => {
            let name = l.path.to_token_stream().to_string();
            let inner = l
                .parse_args_with(syn::punctuated::Punctuated::<syn::Meta, syn::Token![,]>::parse_terminated)
                .map_err(|e| format!("cfg list does not parse: {}", e))?;
            let mut cs = vec![];
            for x in inner.iter() {
                cs.push(parse_cfg_meta(x)?);
            }
            match name.as_str() {
                "any" => Ok(cs.into_iter().fold(Cond::F, Cond::or)),
                "all" => Ok(cs.into_iter().fold(Cond::T, Cond::and)),
                "not" if cs.len() == 1 => Ok(Cond::Not(Box::new(cs.pop().unwrap()))),
                _ => Err(format!("unrecognised cfg predicate `{}`", name)),
            }
        },
    }
}

pub fn cfg_of(attrs: &[syn::Attribute]) -> Result<Cond, String> {
    let mut c = Cond::T;
    for a in attrs {
        if a.path().is_ident("cfg") {
            let m: syn::Meta = a.parse_args().map_err(|e| format!("cfg does not parse: {}", e))?;
            c = Cond::and(c, parse_cfg_meta(&m)?);
        } else if a.path().is_ident("cfg_attr") && a.meta.to_token_stream().to_string().contains("cfg (") {
            return Err("cfg_attr producing a cfg is not recognised".into());
        }
    }
    Ok(c)
}

fn allow_dead(attrs: &[syn::Attribute]) -> bool {
    attrs.iter().any(|a| a.path().is_ident("allow") && a.meta.to_token_stream().to_string().contains("dead_code"))
}

fn seg(i: &syn::Ident) -> String {
    i.to_string().trim_start_matches("r#").to_string()
}

#[derive(Default, Clone)]
struct UseLeaf {
    cond: Cond0,
    path: Vec<String>,
    name: Option<String>, // None = glob
}

#[derive(Clone)]
struct Cond0(Cond);
impl Default for Cond0 {
    fn default() -> Self {
        Cond0(Cond::T)
    }
}

#[derive(Default)]
struct ModInfo {
    file: String,
    own: Cond0,
    allow_dead: bool,
    items: BTreeMap<String, Vec<Cond>>,
    uses: Vec<UseLeaf>,
    children: BTreeSet<String>,
}

fn flatten_use(t: &syn::UseTree, prefix: &mut Vec<String>, cond: &Cond, out: &mut Vec<UseLeaf>) {
    match t {
        syn::UseTree::Path(p) => {
            prefix.push(seg(&p.ident));
            flatten_use(&p.tree, prefix, cond, out);
            prefix.pop();
        },
        syn::UseTree::Name(n) => {
            let mut path = prefix.clone();
            let name = seg(&n.ident);
            if name == "self" {
                let nm = path.last().cloned();
                out.push(UseLeaf { cond: Cond0(cond.clone()), path, name: nm });
            } else {
                path.push(name.clone());
                out.push(UseLeaf { cond: Cond0(cond.clone()), path, name: Some(name) });
            }
        },
        syn::UseTree::Rename(r) => {
            let mut path = prefix.clone();
            path.push(seg(&r.ident));
            out.push(UseLeaf { cond: Cond0(cond.clone()), path, name: Some(seg(&r.rename)) });
        },
        syn::UseTree::Glob(_) => out.push(UseLeaf { cond: Cond0(cond.clone()), path: prefix.clone(), name: None }),
        syn::UseTree::Group(g) => {
            for x in g.items.iter() {
                flatten_use(x, prefix, cond, out);
            }
        },
    }
}

fn mod_of_file(rel: &str) -> Vec<String> {
    let r = rel.trim_end_matches(".rs");
    let mut v: Vec<String> = r.split('/').map(|s| s.to_string()).collect();
    if v.last().map(|s| s == "mod" || s == "lib").unwrap_or(false) {
        v.pop();
    }
    v
}

enum Target {
    Mod(Vec<String>),
    Item(Cond, Vec<String>), // provided condition, module that supplies it
    External,
}

struct Crate {
    mods: BTreeMap<Vec<String>, ModInfo>,
}

impl Crate {
    fn modcond(&self, p: &[String]) -> Cond {
        let mut c = Cond::T;
        for k in 1..=p.len() {
            if let Some(m) = self.mods.get(&p[..k].to_vec()) {
                c = Cond::and(c, m.own.0.clone());
            }
        }
        c
    }

    /// condition under which `name` is nameable inside module `m` (defined, imported or globbed)
    fn lookup(&self, m: &[String], name: &str, depth: usize) -> Option<Target> {
        if depth > 8 {
            return None;
        }
        let info = self.mods.get(&m.to_vec())?;
        if info.children.contains(name) {
            let mut p = m.to_vec();
            p.push(name.to_string());
            return Some(Target::Mod(p));
        }
        let mut acc: Option<Cond> = None;
        let mut supplier = m.to_vec();
        if let Some(cs) = info.items.get(name) {
            for c in cs {
                acc = Some(Cond::or(acc.unwrap_or(Cond::F), c.clone()));
            }
        }
        for u in &info.uses {
            match &u.name {
                Some(n) if n == name => match self.resolve(m, &u.path, depth + 1) {
                    Some(Target::Mod(p)) => return Some(Target::Mod(p)),
                    Some(Target::Item(c, s)) => {
                        acc = Some(Cond::or(acc.unwrap_or(Cond::F), Cond::and(u.cond.0.clone(), c)));
                        supplier = s;
                    },
                    Some(Target::External) => return Some(Target::External),
                    None => {},
                },
                None => {
                    if let Some(Target::Mod(tm)) = self.resolve(m, &u.path, depth + 1) {
                        if let Some(Target::Item(c, s)) = self.lookup(&tm, name, depth + 1) {
                            // the glob itself, the globbed module, and the item inside it
                            let c = Cond::and(u.cond.0.clone(), Cond::and(self.modcond(&tm), c));
                            acc = Some(Cond::or(acc.unwrap_or(Cond::F), c));
                            supplier = s;
                        }
                    }
                },
                _ => {},
            }
        }
        acc.map(|c| Target::Item(c, supplier))
    }

    /// resolve a path written inside module `from`
    fn resolve(&self, from: &[String], segs: &[String], depth: usize) -> Option<Target> {
        if segs.is_empty() || depth > 8 {
            return None;
        }
        let mut cur: Vec<String>;
        let mut i = 0;
        match segs[0].as_str() {
            "crate" => {
                cur = vec![];
                i = 1;
            },
            "self" => {
                cur = from.to_vec();
                i = 1;
            },
            "super" => {
                cur = from.to_vec();
                while i < segs.len() && segs[i] == "super" {
                    cur.pop();
                    i += 1;
                }
            },
            first => match self.lookup(from, first, depth + 1) {
                Some(Target::Mod(p)) => {
                    cur = p;
                    i = 1;
                },
                Some(Target::Item(c, s)) => return Some(Target::Item(c, s)),
                Some(Target::External) | None => return Some(Target::External),
            },
        }
        while i < segs.len() {
            match self.lookup(&cur, &segs[i], depth + 1) {
                Some(Target::Mod(p)) => cur = p,
                Some(Target::Item(c, s)) => return Some(Target::Item(Cond::and(self.modcond(&cur), c), s)),
                Some(Target::External) => return Some(Target::External),
                None => return None,
            }
            i += 1;
        }
        Some(Target::Mod(cur))
    }
}

#[derive(Default)]
struct Collected {
    /// (ctx, provided) -> sites
    obligations: BTreeMap<(Cond, Cond), Vec<String>>,
    resolved: usize,
    trivial: usize,
    /// module -> contexts of outside users
    users: BTreeMap<Vec<String>, BTreeSet<Cond>>,
    local_defs: BTreeMap<(String, String, String), Vec<(Cond, bool)>>,
    local_uses: Vec<(String, String, String, Cond)>,
    variant_gates: Vec<(String, Cond)>,
    from_path_arms: Vec<(String, Cond, String)>,
    dispatch: Vec<(String, Cond)>,
    errors: Vec<String>,
}

struct GV<'a> {
    krate: &'a Crate,
    file: String,
    module: Vec<String>,
    stack: Vec<Cond>,
    fn_stack: Vec<String>,
    impl_self: Option<String>,
    reexport: bool,
    variants: &'a BTreeSet<String>,
    col: &'a mut Collected,
}

impl<'a> GV<'a> {
    fn ctx(&self) -> Cond {
        let mut c = self.krate.modcond(&self.module);
        for s in &self.stack {
            c = Cond::and(c, s.clone());
        }
        c
    }

    fn with<F: FnOnce(&mut Self)>(&mut self, attrs: &[syn::Attribute], f: F) {
        match cfg_of(attrs) {
            Ok(c) => {
                self.stack.push(c);
                f(self);
                self.stack.pop();
            },
            Err(e) => self.col.errors.push(format!("{}: {}", self.file, e)),
        }
    }

    fn oblige(&mut self, provided: Cond, what: String) {
        let ctx = self.ctx();
        self.col.resolved += 1;
        if provided == Cond::T || provided == ctx {
            self.col.trivial += 1;
            return;
        }
        self.col.obligations.entry((ctx, provided)).or_default().push(format!("{}: {}", self.file, what));
    }

    fn reference(&mut self, segs: &[String], what: &str) {
        // (a) Trait::X / Self::X inside `impl Trait`
        for w in segs.windows(2) {
            let is_trait = w[0] == "Trait" || (w[0] == "Self" && self.impl_self.as_deref() == Some("Trait"));
            if is_trait && self.variants.contains(&w[1]) {
                let c = self.col.variant_gates.iter().find(|(n, _)| *n == w[1]).map(|(_, c)| c.clone()).unwrap_or(Cond::F);
                self.oblige(c, format!("{} (variant {})", what, w[1]));
            }
        }
        // (b) modules and items of this crate
        let module = self.module.clone();
        match self.krate.resolve(&module, segs, 0) {
            Some(Target::External) => {},
            Some(Target::Mod(p)) => {
                let c = self.krate.modcond(&p);
                self.note_user(&p);
                self.oblige(c, format!("{} (module {})", what, p.join("::")));
            },
            Some(Target::Item(c, supplier)) => {
                self.note_user(&supplier);
                self.oblige(c, what.to_string());
            },
            None => {
                if matches!(segs[0].as_str(), "crate" | "super" | "self") {
                    self.col.errors.push(format!("{}: cannot resolve `{}`", self.file, segs.join("::")));
                }
            },
        }
    }

    fn note_user(&mut self, target: &[String]) {
        // a use from outside `target` (or its descendants) keeps `target` and its ancestors alive
        if self.reexport {
            return; // `pub use m::*` passes items on, it does not use them
        }
        let ctx = self.ctx();
        for k in 1..=target.len() {
            let anc = &target[..k];
            if !self.module.starts_with(anc) {
                self.col.users.entry(anc.to_vec()).or_default().insert(ctx.clone());
            }
        }
    }
}

fn expr_attrs(e: &syn::Expr) -> &[syn::Attribute] {
    use syn::Expr::*;
    match e {
        Array(x) => &x.attrs,
        Assign(x) => &x.attrs,
        Async(x) => &x.attrs,
        Await(x) => &x.attrs,
        Binary(x) => &x.attrs,
        Block(x) => &x.attrs,
        Break(x) => &x.attrs,
        Call(x) => &x.attrs,
        Cast(x) => &x.attrs,
        Closure(x) => &x.attrs,
        Const(x) => &x.attrs,
        Continue(x) => &x.attrs,
        Field(x) => &x.attrs,
        ForLoop(x) => &x.attrs,
        Group(x) => &x.attrs,
        If(x) => &x.attrs,
        Index(x) => &x.attrs,
        Infer(x) => &x.attrs,
        Let(x) => &x.attrs,
        Lit(x) => &x.attrs,
        Loop(x) => &x.attrs,
        Macro(x) => &x.attrs,
        Match(x) => &x.attrs,
        MethodCall(x) => &x.attrs,
        Paren(x) => &x.attrs,
        Path(x) => &x.attrs,
        Range(x) => &x.attrs,
        Reference(x) => &x.attrs,
        Repeat(x) => &x.attrs,
        Return(x) => &x.attrs,
        Struct(x) => &x.attrs,
        Try(x) => &x.attrs,
        TryBlock(x) => &x.attrs,
        Tuple(x) => &x.attrs,
        Unary(x) => &x.attrs,
        Unsafe(x) => &x.attrs,
        While(x) => &x.attrs,
        Yield(x) => &x.attrs,
        _ => &[],
    }
}

fn item_attrs(i: &syn::Item) -> &[syn::Attribute] {
    use syn::Item::*;
    match i {
        Const(x) => &x.attrs,
        Enum(x) => &x.attrs,
        ExternCrate(x) => &x.attrs,
        Fn(x) => &x.attrs,
        ForeignMod(x) => &x.attrs,
        Impl(x) => &x.attrs,
        Macro(x) => &x.attrs,
        Mod(x) => &x.attrs,
        Static(x) => &x.attrs,
        Struct(x) => &x.attrs,
        Trait(x) => &x.attrs,
        TraitAlias(x) => &x.attrs,
        Type(x) => &x.attrs,
        Union(x) => &x.attrs,
        Use(x) => &x.attrs,
        _ => &[],
    }
}

struct PatIdents(Vec<String>);
impl<'ast> Visit<'ast> for PatIdents {
    fn visit_pat_ident(&mut self, p: &'ast syn::PatIdent) {
        self.0.push(seg(&p.ident));
        visit::visit_pat_ident(self, p);
    }
}

impl<'a, 'ast> Visit<'ast> for GV<'a> {
    fn visit_item(&mut self, i: &'ast syn::Item) {
        let attrs = item_attrs(i).to_vec();
        self.with(&attrs, |s| {
            match i {
                syn::Item::Use(u) => {
                    s.reexport = !matches!(u.vis, syn::Visibility::Inherited);
                    let mut leaves = vec![];
                    flatten_use(&u.tree, &mut vec![], &Cond::T, &mut leaves);
                    for l in leaves {
                        let what = format!("use {}", l.path.join("::"));
                        let mut p = l.path.clone();
                        if l.name.is_none() && p.is_empty() {
                            continue;
                        }
                        if p.is_empty() {
                            continue;
                        }
                        // a use path is resolved from the crate root or relatively like any other path
                        if !matches!(p[0].as_str(), "crate" | "super" | "self") {
                            // 2018+: first segment is a local name or an external crate
                            if !s.krate.mods.get(&s.module).map(|m| m.children.contains(&p[0])).unwrap_or(false) {
                                continue;
                            }
                            p.insert(0, "self".to_string());
                        }
                        s.reference(&p, &what);
                    }
                    s.reexport = false;
                },
                syn::Item::Impl(im) => {
                    let old = s.impl_self.take();
                    s.impl_self = Some(im.self_ty.to_token_stream().to_string().replace(' ', ""));
                    visit::visit_item(s, i);
                    s.impl_self = old;
                },
                syn::Item::Fn(f) => {
                    s.fn_stack.push(f.sig.ident.to_string());
                    visit::visit_item(s, i);
                    s.fn_stack.pop();
                },
                _ => visit::visit_item(s, i),
            }
        });
    }

    fn visit_impl_item(&mut self, i: &'ast syn::ImplItem) {
        let attrs: Vec<syn::Attribute> = match i {
            syn::ImplItem::Fn(f) => f.attrs.clone(),
            syn::ImplItem::Const(c) => c.attrs.clone(),
            syn::ImplItem::Type(t) => t.attrs.clone(),
            syn::ImplItem::Macro(m) => m.attrs.clone(),
            _ => vec![],
        };
        self.with(&attrs, |s| {
            if let syn::ImplItem::Fn(f) = i {
                s.fn_stack.push(f.sig.ident.to_string());
                visit::visit_impl_item(s, i);
                s.fn_stack.pop();
            } else {
                visit::visit_impl_item(s, i);
            }
        });
    }

    fn visit_trait_item(&mut self, i: &'ast syn::TraitItem) {
        let attrs: Vec<syn::Attribute> = match i {
            syn::TraitItem::Fn(f) => f.attrs.clone(),
            syn::TraitItem::Const(c) => c.attrs.clone(),
            syn::TraitItem::Type(t) => t.attrs.clone(),
            syn::TraitItem::Macro(m) => m.attrs.clone(),
            _ => vec![],
        };
        self.with(&attrs, |s| visit::visit_trait_item(s, i));
    }

    fn visit_stmt(&mut self, st: &'ast syn::Stmt) {
        match st {
            syn::Stmt::Local(l) => {
                let attrs = l.attrs.clone();
                let own = cfg_of(&attrs).unwrap_or(Cond::T);
                self.with(&attrs, |s| {
                    let mut pi = PatIdents(vec![]);
                    pi.visit_pat(&l.pat);
                    let ctx = s.ctx();
                    let f = s.fn_stack.last().cloned().unwrap_or_default();
                    for n in pi.0 {
                        s.col.local_defs.entry((s.file.clone(), f.clone(), n)).or_default().push((ctx.clone(), own != Cond::T));
                    }
                    visit::visit_stmt(s, st);
                });
            },
            syn::Stmt::Macro(m) => {
                let attrs = m.attrs.clone();
                self.with(&attrs, |s| visit::visit_stmt(s, st));
            },
            _ => visit::visit_stmt(self, st),
        }
    }

    fn visit_expr(&mut self, e: &'ast syn::Expr) {
        let attrs = expr_attrs(e).to_vec();
        self.with(&attrs, |s| {
            if let syn::Expr::MethodCall(mc) = e {
                // lib.rs: `trait_meta_map.get(&Trait::X)` — the dispatch blocks, in source order
                if mc.method == "get" && mc.receiver.to_token_stream().to_string() == "trait_meta_map" {
                    if let Some(a) = mc.args.first() {
                        let t = a.to_token_stream().to_string().replace(' ', "");
                        if let Some(x) = t.strip_prefix("&Trait::") {
                            let c = s.ctx();
                            s.col.dispatch.push((x.to_string(), c));
                        }
                    }
                }
            }
            visit::visit_expr(s, e);
        });
    }

    fn visit_arm(&mut self, a: &'ast syn::Arm) {
        let attrs = a.attrs.clone();
        self.with(&attrs, |s| {
            if s.file == "supported_traits.rs" && s.fn_stack.last().map(|f| f == "from_path").unwrap_or(false) {
                if let syn::Pat::Lit(l) = &a.pat {
                    let lit = l.lit.to_token_stream().to_string().trim_matches('"').to_string();
                    let body = a.body.to_token_stream().to_string().replace(' ', "");
                    let x = body.trim_start_matches("Some(Self::").trim_end_matches(')').to_string();
                    let c = s.ctx();
                    s.col.from_path_arms.push((lit, c, x));
                }
            }
            visit::visit_arm(s, a);
        });
    }

    fn visit_variant(&mut self, v: &'ast syn::Variant) {
        let attrs = v.attrs.clone();
        self.with(&attrs, |s| visit::visit_variant(s, v));
    }

    fn visit_field(&mut self, f: &'ast syn::Field) {
        let attrs = f.attrs.clone();
        self.with(&attrs, |s| visit::visit_field(s, f));
    }

    fn visit_field_value(&mut self, f: &'ast syn::FieldValue) {
        let attrs = f.attrs.clone();
        self.with(&attrs, |s| visit::visit_field_value(s, f));
    }

    fn visit_path(&mut self, p: &'ast syn::Path) {
        let segs: Vec<String> = p.segments.iter().map(|s| seg(&s.ident)).collect();
        if p.leading_colon.is_none() {
            if segs.len() == 1 {
                let f = self.fn_stack.last().cloned().unwrap_or_default();
                let ctx = self.ctx();
                self.col.local_uses.push((self.file.clone(), f, segs[0].clone(), ctx));
            }
            let what = segs.join("::");
            self.reference(&segs, &what);
        }
        visit::visit_path(self, p);
    }

    fn visit_macro(&mut self, m: &'ast syn::Macro) {
        // token trees of macro calls are not paths of this crate (quote! bodies are output tokens);
        // the macro's own path is visited
        self.visit_path(&m.path);
    }
}

pub fn run(root: &str, outdir: &str, files: &[(String, syn::File)]) -> Result<String, Vec<String>> {
    let mut errors = vec![];
    // ---- Cargo.toml features
    let cargo = std::fs::read_to_string(Path::new(root).join("Cargo.toml")).map_err(|e| vec![e.to_string()])?;
    let mut in_features = false;
    let mut feats: Vec<(String, String)> = vec![];
    for line in cargo.lines() {
        let l = line.trim();
        if l.starts_with('[') {
            in_features = l == "[features]";
            continue;
        }
        if in_features {
            if let Some((k, v)) = l.split_once('=') {
                feats.push((k.trim().trim_matches('"').to_string(), v.trim().to_string()));
            }
        }
    }
    let default: Vec<String> = match feats.iter().find(|(k, _)| k == "default") {
        Some((_, v)) => v.trim_matches(|c| c == '[' || c == ']').split(',').map(|s| s.trim().trim_matches('"').to_string()).filter(|s| !s.is_empty()).collect(),
        None => {
            return Err(vec!["Cargo.toml: no `default` feature list".into()]);
        },
    };
    let mut vars: Vec<String> = default.clone();
    let mut feature_deps: Vec<(String, String)> = vec![];
    for (k, v) in &feats {
        if k != "default" {
            if !vars.contains(k) {
                vars.push(k.clone());
            }
            feature_deps.push((k.clone(), v.replace(' ', "")));
        }
    }
    let n_declared = vars.len();

    // ---- module table
    let mut krate = Crate { mods: BTreeMap::new() };
    krate.mods.insert(vec![], ModInfo { file: "lib.rs".into(), ..Default::default() });
    for (rel, file) in files {
        let m = mod_of_file(rel);
        let entry = krate.mods.entry(m.clone()).or_default();
        entry.file = rel.clone();
        let mut children = vec![];
        for it in &file.items {
            let c = match cfg_of(item_attrs(it)) {
                Ok(c) => c,
                Err(e) => {
                    errors.push(format!("{}: {}", rel, e));
                    continue;
                },
            };
            let entry = krate.mods.get_mut(&m).unwrap();
            match it {
                syn::Item::Mod(md) => {
                    if md.content.is_some() {
                        errors.push(format!("{}: inline module `{}` is not recognised", rel, md.ident));
                    }
                    entry.children.insert(seg(&md.ident));
                    children.push((seg(&md.ident), c, allow_dead(&md.attrs)));
                },
                syn::Item::Use(u) => flatten_use(&u.tree, &mut vec![], &c, &mut entry.uses),
                syn::Item::Fn(x) => entry.items.entry(seg(&x.sig.ident)).or_default().push(c),
                syn::Item::Struct(x) => entry.items.entry(seg(&x.ident)).or_default().push(c),
                syn::Item::Enum(x) => entry.items.entry(seg(&x.ident)).or_default().push(c),
                syn::Item::Union(x) => entry.items.entry(seg(&x.ident)).or_default().push(c),
                syn::Item::Trait(x) => entry.items.entry(seg(&x.ident)).or_default().push(c),
                syn::Item::Type(x) => entry.items.entry(seg(&x.ident)).or_default().push(c),
                syn::Item::Const(x) => entry.items.entry(seg(&x.ident)).or_default().push(c),
                syn::Item::Static(x) => entry.items.entry(seg(&x.ident)).or_default().push(c),
                _ => {},
            }
        }
        for (name, c, dead) in children {
            let mut p = m.clone();
            p.push(name);
            let e = krate.mods.entry(p).or_default();
            e.own = Cond0(c);
            e.allow_dead = dead;
        }
    }

    // ---- the Trait enum's variants
    let mut col = Collected::default();
    let mut variants = BTreeSet::new();
    for (rel, file) in files {
        if rel == "supported_traits.rs" {
            for it in &file.items {
                if let syn::Item::Enum(e) = it {
                    if e.ident == "Trait" {
                        for v in e.variants.iter() {
                            match cfg_of(&v.attrs) {
                                Ok(c) => {
                                    variants.insert(v.ident.to_string());
                                    col.variant_gates.push((v.ident.to_string(), c));
                                },
                                Err(e) => errors.push(format!("{}: {}", rel, e)),
                            }
                        }
                    }
                }
            }
        }
    }

    // ---- references
    for (rel, file) in files {
        let mut v = GV {
            krate: &krate,
            file: rel.clone(),
            module: mod_of_file(rel),
            stack: vec![],
            fn_stack: vec![],
            impl_self: None,
            reexport: false,
            variants: &variants,
            col: &mut col,
        };
        v.visit_file(file);
    }
    // locals declared under #[cfg]
    let mut local_obl = 0;
    for (file, f, name, ctx) in col.local_uses.clone() {
        if let Some(defs) = col.local_defs.get(&(file.clone(), f.clone(), name.clone())) {
            if defs.iter().any(|(_, gated)| *gated) {
                let provided = defs.iter().fold(Cond::F, |a, (c, _)| Cond::or(a, c.clone()));
                col.resolved += 1;
                local_obl += 1;
                if provided != ctx {
                    col.obligations.entry((ctx, provided)).or_default().push(format!("{}: local `{}` in fn {}", file, name, f));
                } else {
                    col.trivial += 1;
                }
            }
        }
    }
    errors.extend(col.errors.drain(..));
    if !errors.is_empty() {
        return Err(errors);
    }

    // ---- variables
    let mut all_vars = BTreeSet::new();
    for ((a, b), _) in &col.obligations {
        a.vars(&mut all_vars);
        b.vars(&mut all_vars);
    }
    for m in krate.mods.values() {
        m.own.0.vars(&mut all_vars);
    }
    for (_, c) in col.variant_gates.iter().chain(col.dispatch.iter()) {
        c.vars(&mut all_vars);
    }
    for (_, c, _) in &col.from_path_arms {
        c.vars(&mut all_vars);
    }
    let mut gated_items: Vec<(String, Cond, String)> = vec![];
    for (rel, file) in files {
        for it in &file.items {
            if let syn::Item::Macro(m) = it {
                if let Ok(c) = cfg_of(&m.attrs) {
                    c.vars(&mut all_vars);
                    gated_items.push((rel.clone(), c, m.mac.path.to_token_stream().to_string()));
                }
            }
        }
    }
    for v in all_vars {
        if !vars.contains(&v) {
            vars.push(v);
        }
    }
    let idx: BTreeMap<String, usize> = vars.iter().enumerate().map(|(i, v)| (v.clone(), i)).collect();

    // ---- print
    let ls = |s: &str| format!("\"{}\"", s.replace('\\', "\\\\").replace('"', "\\\""));
    let mut g = String::new();
    writeln!(g, "/- GENERATED by `vtool extract` from /repo/src and /repo/Cargo.toml on every run. Do not edit. -/").unwrap();
    writeln!(g, "import EduceModel.Features\nnamespace Educe.Generated\nopen Educe.Features\n").unwrap();
    writeln!(g, "/-- cfg variables: the `default` feature list of Cargo.toml in order, then the other declared features, then other cfg names. -/").unwrap();
    writeln!(g, "def cfgVars : List String := [{}]", vars.iter().map(|v| ls(v)).collect::<Vec<_>>().join(", ")).unwrap();
    writeln!(g, "def traitFeatures : List String := [{}]", default.iter().map(|v| ls(v)).collect::<Vec<_>>().join(", ")).unwrap();
    writeln!(g, "def declaredFeatures : Nat := {}", n_declared).unwrap();
    // conditions only mention the first `cond_vars` variables (at least the trait features)
    let mut used = BTreeSet::new();
    for ((a, b), _) in &col.obligations {
        a.vars(&mut used);
        b.vars(&mut used);
    }
    for m in krate.mods.values() {
        m.own.0.vars(&mut used);
    }
    for (_, c) in col.variant_gates.iter().chain(col.dispatch.iter()) {
        c.vars(&mut used);
    }
    for (_, c, _) in col.from_path_arms.iter().chain(gated_items.iter()) {
        c.vars(&mut used);
    }
    let cond_vars = used.iter().map(|v| idx[v] + 1).max().unwrap_or(0).max(default.len());
    writeln!(g, "/-- every condition below mentions only the first `condVars` variables -/\ndef condVars : Nat := {}", cond_vars).unwrap();
    writeln!(g, "/-- what each non-default feature enables (Cargo.toml), spaces removed -/").unwrap();
    writeln!(g, "def featureDeps : List (String × String) := [{}]", feature_deps.iter().map(|(k, v)| format!("({}, {})", ls(k), ls(v))).collect::<Vec<_>>().join(", ")).unwrap();
    writeln!(g, "\n/-- (context, provided): whenever code under `context` is compiled it refers to something compiled under `provided`. -/").unwrap();
    writeln!(g, "def obligations : List (Cond × Cond) := [").unwrap();
    let rows: Vec<String> = col.obligations.keys().map(|(a, b)| format!("  ({}, {})", a.lean(&idx), b.lean(&idx))).collect();
    writeln!(g, "{}\n]", rows.join(",\n")).unwrap();
    writeln!(g, "\n/-- where each obligation comes from (same order) -/").unwrap();
    writeln!(g, "def obligationSites : List (List String) := [").unwrap();
    let rows: Vec<String> = col
        .obligations
        .values()
        .map(|v| {
            let mut u: Vec<String> = v.clone();
            u.sort();
            u.dedup();
            format!("  [{}]", u.iter().take(6).map(|s| ls(s)).collect::<Vec<_>>().join(", "))
        })
        .collect();
    writeln!(g, "{}\n]", rows.join(",\n")).unwrap();
    writeln!(g, "\ndef referencesResolved : Nat := {}\ndef referencesTrivial : Nat := {}\ndef gatedLocalUses : Nat := {}", col.resolved, col.trivial, local_obl).unwrap();
    writeln!(g, "\n/-- gated modules without `allow(dead_code)`: (module, its condition, conditions of the code outside it that uses it). -/").unwrap();
    writeln!(g, "def moduleUsers : List (String × Cond × List Cond) := [").unwrap();
    let mut rows = vec![];
    for (p, m) in &krate.mods {
        if p.is_empty() || m.own.0 == Cond::T || m.allow_dead {
            continue;
        }
        let users = col.users.get(p).cloned().unwrap_or_default();
        rows.push(format!("  ({}, {}, [{}])", ls(&p.join("::")), krate.modcond(p).lean(&idx), users.iter().map(|c| c.lean(&idx)).collect::<Vec<_>>().join(", ")));
    }
    writeln!(g, "{}\n]", rows.join(",\n")).unwrap();
    writeln!(g, "\n/-- variants of `enum Trait` with their gates, in declaration order -/").unwrap();
    writeln!(g, "def traitVariants : List (String × Cond) := [{}]", col.variant_gates.iter().map(|(n, c)| format!("({}, {})", ls(n), c.lean(&idx))).collect::<Vec<_>>().join(", ")).unwrap();
    writeln!(g, "\n/-- arms of `Trait::from_path`: (string matched, gate, variant returned) -/").unwrap();
    writeln!(g, "def fromPathArms : List (String × Cond × String) := [{}]", col.from_path_arms.iter().map(|(l, c, x)| format!("({}, {}, {})", ls(l), c.lean(&idx), ls(x))).collect::<Vec<_>>().join(", ")).unwrap();
    writeln!(g, "\n/-- `trait_meta_map.get(&Trait::X)` blocks of `derive_input_handler`, in source order, with their gates -/").unwrap();
    writeln!(g, "def dispatchBlocks : List (String × Cond) := [{}]", col.dispatch.iter().map(|(n, c)| format!("({}, {})", ls(n), c.lean(&idx))).collect::<Vec<_>>().join(", ")).unwrap();
    writeln!(g, "\n/-- file-level macro items with their gates (the `compile_error!` of supported_traits.rs) -/").unwrap();
    writeln!(g, "def gatedMacros : List (String × Cond × String) := [{}]", gated_items.iter().map(|(f, c, m)| format!("({}, {}, {})", ls(f), c.lean(&idx), ls(m))).collect::<Vec<_>>().join(", ")).unwrap();
    writeln!(g, "\nend Educe.Generated").unwrap();
    std::fs::create_dir_all(outdir).unwrap();
    std::fs::write(Path::new(outdir).join("Features.lean"), g).unwrap();
    Ok(format!("{} references resolved ({} trivially satisfied), {} distinct obligations, {} cfg variables", col.resolved, col.trivial, col.obligations.len(), vars.len()))
}
