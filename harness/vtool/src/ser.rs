//! Oracle records: for every attribute argument, the result each syn parser educe may invoke
//! returns on it. syn is *not* re-implemented anywhere in the model; these records are its view.
use quote::{quote, ToTokens};
use serde_json::{json, Value};
use syn::parse::Parse;
use syn::{
    parse::Parser, punctuated::Punctuated, Attribute, Data, DeriveInput, Expr, Fields, GenericParam, Ident, Lit, Meta,
    Path, Token, Type, UnOp, WherePredicate,
};

fn ts(x: &impl ToTokens) -> String {
    x.to_token_stream().to_string()
}

fn lit_info(l: &Lit) -> Value {
    match l {
        Lit::Bool(b) => json!({"k": "bool", "b": b.value}),
        Lit::Str(s) => {
            let v = s.value();
            let ident = s.parse::<Ident>().ok().map(|i| i.to_string());
            let path = s.parse::<Path>().ok().map(|p| ts(&p));
            let preds = s
                .parse_with(Punctuated::<WherePredicate, Token![,]>::parse_terminated)
                .ok()
                .map(|p| p.iter().map(|x| ts(x)).collect::<Vec<_>>());
            let isize_v = v.parse::<isize>().ok().map(|i| i.to_string());
            json!({"k": "str", "s": v, "ident": ident, "path": path, "preds": preds, "isize": isize_v, "empty": v.is_empty()})
        },
        Lit::Int(i) => {
            json!({"k": "int", "digits": i.base10_digits(), "suffix": i.suffix(),
                   "isize": i.base10_parse::<isize>().ok().map(|x| x.to_string())})
        },
        Lit::Float(f) => json!({"k": "float", "suffix": f.suffix()}),
        Lit::Char(_) => json!({"k": "char"}),
        Lit::Byte(_) => json!({"k": "byte"}),
        Lit::ByteStr(_) => json!({"k": "bytestr"}),
        _ => json!({"k": "otherlit"}),
    }
}

/// Value of `param = <expr>`.
fn nv_value(e: &Expr) -> Value {
    let mut v = match e {
        Expr::Lit(l) => lit_info(&l.lit),
        Expr::Path(p) => match p.path.get_ident() {
            Some(i) => json!({"k": "ident", "i": i.to_string()}),
            None => json!({"k": "path"}),
        },
        Expr::Unary(u) => {
            let mut r = json!({"k": "expr"});
            if let UnOp::Neg(_) = u.op {
                if let Expr::Lit(l) = u.expr.as_ref() {
                    if let Lit::Int(i) = &l.lit {
                        let s = format!("-{}", i.base10_digits());
                        r = json!({"k": "neg", "digits": i.base10_digits(), "isize": s.parse::<isize>().ok().map(|x| x.to_string())});
                    }
                }
            }
            r
        },
        _ => json!({"k": "expr"}),
    };
    v["t"] = json!(ts(e));
    v
}

/// Content of `param(<tokens>)`.
fn list_value(tokens: &proc_macro2::TokenStream) -> Value {
    let mut v = if tokens.is_empty() {
        json!({"k": "empty"})
    } else if let Ok(l) = syn::parse2::<Lit>(tokens.clone()) {
        lit_info(&l)
    } else if let Ok((l, i)) = (|input: syn::parse::ParseStream| -> syn::Result<(Lit, Ident)> {
        let l: Lit = input.parse()?;
        let i: Ident = input.parse()?;
        Ok((l, i))
    })
    .parse2(tokens.clone())
    {
        json!({"k": "lit_ident", "i": i.to_string(), "lit": lit_info(&l)})
    } else if let Ok(i) = syn::parse2::<Ident>(tokens.clone()) {
        json!({"k": "ident", "i": i.to_string()})
    } else if syn::parse2::<Path>(tokens.clone()).is_ok() {
        json!({"k": "path"})
    } else if syn::parse2::<Token![*]>(tokens.clone()).is_ok() {
        json!({"k": "star"})
    } else if let Ok(p) = Punctuated::<WherePredicate, Token![,]>::parse_terminated.parse2(tokens.clone()) {
        json!({"k": "preds", "preds": p.iter().map(|x| ts(x)).collect::<Vec<_>>()})
    } else if syn::parse2::<Expr>(tokens.clone()).is_ok() {
        json!({"k": "expr"})
    } else {
        json!({"k": "bad"})
    };
    v["t"] = json!(tokens.to_string());
    // for `Default(expression(<lit>))`: the literal kind as an *expression*
    if let Ok(Expr::Lit(l)) = syn::parse2::<Expr>(tokens.clone()) {
        v["exprlit"] = lit_info(&l.lit);
    }
    v
}

fn param(m: &Meta) -> Value {
    let path = m.path();
    let mut v = json!({"path": ts(path).replace(' ', ""), "ident": path.get_ident().map(|i| i.to_string())});
    match m {
        Meta::Path(_) => v["form"] = json!("path"),
        Meta::NameValue(nv) => {
            v["form"] = json!("nv");
            v["v"] = nv_value(&nv.value);
        },
        Meta::List(l) => {
            v["form"] = json!("list");
            v["v"] = list_value(&l.tokens);
        },
    }
    v
}

fn params(p: &Punctuated<Meta, Token![,]>) -> Value {
    json!(p.iter().map(param).collect::<Vec<_>>())
}

fn dereference(ty: &Type) -> &Type {
    if let Type::Reference(r) = ty {
        dereference(r.elem.as_ref())
    } else {
        ty
    }
}

/// `into/common.rs::to_hash_type` as a string.
pub fn hash_type(ty: &Type) -> String {
    if let Type::Reference(_) = ty {
        let d = dereference(ty);
        let t: Type = syn::parse2(quote!(&'static #d)).unwrap();
        ts(&t)
    } else {
        ts(ty)
    }
}

/// The type as far as educe looks into it: kind of the outermost node, printed tokens, the type below it.
fn ty_tree(ty: &Type) -> Value {
    let (k, child): (&str, Option<&Type>) = match ty {
        Type::Path(_) => ("path", None),
        Type::Reference(r) => ("ref", Some(r.elem.as_ref())),
        Type::Array(a) => ("array", Some(a.elem.as_ref())),
        Type::Group(g) => ("group", Some(g.elem.as_ref())),
        _ => ("other", None),
    };
    json!({"k": k, "t": ts(ty), "c": child.map(ty_tree)})
}

fn ty_shape(ty: &Type) -> Value {
    match ty {
        Type::Path(p) => json!({"k": "path", "s": ts(p)}),
        Type::Reference(r) => json!({"k": "ref", "inner": ty_shape(r.elem.as_ref())}),
        Type::Array(a) => json!({"k": "array", "elem": ty_shape(a.elem.as_ref())}),
        _ => json!({"k": "other"}),
    }
}

/// The argument list of `Trait( .. )` cut into the elements educe's three list parsers (`parse_terminated(Meta)`,
/// `UnsafePunctuatedMeta`, `TypeWithPunctuatedMeta`) step over: a comma, the keyword `unsafe`, something that parses as
/// a `Meta` up to the next comma or the end, something that parses as a `Type` up to there, or anything else (which
/// ends the list). Only syn's own element parsers are used here; how the elements may follow each other is decided by
/// the model (`Attr/ListParse.lean`).
fn segs(input: syn::parse::ParseStream) -> syn::Result<Vec<Value>> {
    let mut out = vec![];
    while !input.is_empty() {
        if input.peek(Token![,]) {
            input.parse::<Token![,]>()?;
            out.push(json!({"k": "comma"}));
            continue;
        }
        let boundary = |f: &syn::parse::ParseBuffer| f.is_empty() || f.peek(Token![,]);
        if input.peek(Token![unsafe]) {
            // the bare keyword (a `Meta` reads it as the path `unsafe`), or a `Meta` / `Type` that begins with it
            let fk = input.fork();
            fk.parse::<Token![unsafe]>()?;
            if boundary(&fk) {
                syn::parse::discouraged::Speculative::advance_to(input, &fk);
                out.push(json!({"k": "unsafe"}));
                continue;
            }
            let fm = input.fork();
            if let Some(m) = fm.parse::<Meta>().ok().filter(|_| boundary(&fm)) {
                out.push(json!({"k": "unsafe_meta", "m": param(&m)}));
                syn::parse::discouraged::Speculative::advance_to(input, &fm);
                continue;
            }
        }
        let fm = input.fork();
        let m = fm.parse::<Meta>().ok().filter(|_| boundary(&fm));
        let ft = input.fork();
        let t = ft.parse::<Type>().ok().filter(|_| boundary(&ft));
        match (m, t) {
            (Some(m), t) => {
                out.push(json!({"k": "meta", "m": param(&m), "as_type": t.as_ref().map(ty_tree)}));
                syn::parse::discouraged::Speculative::advance_to(input, &fm);
            },
            (None, Some(t)) => {
                out.push(json!({"k": "type", "t": ty_tree(&t)}));
                syn::parse::discouraged::Speculative::advance_to(input, &ft);
            },
            (None, None) => {
                out.push(json!({"k": "other"}));
                let _ = input.parse::<proc_macro2::TokenStream>();
            },
        }
    }
    Ok(out)
}

/// `input.parse::<Type>()` at the head of the list and the elements behind it (`TypeWithPunctuatedMeta` starts like this).
fn head_type(input: syn::parse::ParseStream) -> syn::Result<Value> {
    let f = input.fork();
    match f.parse::<Type>() {
        Ok(t) => {
            let rest = segs(&f)?;
            let _ = input.parse::<proc_macro2::TokenStream>();
            Ok(json!({"t": ty_tree(&t), "rest": rest}))
        },
        Err(_) => {
            let _ = input.parse::<proc_macro2::TokenStream>();
            Ok(Value::Null)
        },
    }
}

fn trait_meta(m: &Meta) -> Value {
    let path = m.path();
    let mut v = json!({"path": ts(path).replace(' ', ""), "ident": path.get_ident().map(|i| i.to_string()), "raw": ts(m)});
    match m {
        Meta::Path(_) => v["form"] = json!("path"),
        Meta::NameValue(nv) => {
            v["form"] = json!("nv");
            v["v"] = nv_value(&nv.value);
        },
        Meta::List(l) => {
            v["form"] = json!("list");
            // the three list parsers educe uses, depending on trait and position
            v["segs"] = l.parse_args_with(segs).map(Value::from).unwrap_or(Value::Null);
            v["head_type"] = l.parse_args_with(head_type).unwrap_or(Value::Null);
            v["plain"] = match l.parse_args_with(Punctuated::<Meta, Token![,]>::parse_terminated) {
                Ok(p) => params(&p),
                Err(_) => Value::Null,
            };
            v["unsafe"] = match l.parse_args_with(|input: syn::parse::ParseStream| -> syn::Result<(bool, Punctuated<Meta, Token![,]>)> {
                let has = input.parse::<Token![unsafe]>().is_ok();
                if input.is_empty() {
                    return Ok((has, Punctuated::new()));
                }
                if has {
                    input.parse::<Token![,]>()?;
                }
                Ok((has, input.parse_terminated(Meta::parse, Token![,])?))
            }) {
                Ok((has, p)) => json!({"has": has, "params": params(&p)}),
                Err(_) => Value::Null,
            };
            v["typed"] = match l.parse_args_with(|input: syn::parse::ParseStream| -> syn::Result<(Type, Punctuated<Meta, Token![,]>)> {
                let ty = input.parse::<Type>()?;
                if input.is_empty() {
                    return Ok((ty, Punctuated::new()));
                }
                input.parse::<Token![,]>()?;
                Ok((ty, input.parse_terminated(Meta::parse, Token![,])?))
            }) {
                Ok((ty, p)) => json!({"ty": hash_type(&ty), "ty_tree": ty_tree(&ty), "params": params(&p)}),
                Err(_) => Value::Null,
            };
        },
    }
    v
}

fn attr(a: &Attribute) -> Value {
    let is_educe = a.path().is_ident("educe");
    let is_repr = a.path().is_ident("repr");
    let is_list = matches!(a.meta, Meta::List(_));
    let mut v = json!({"educe": is_educe, "repr": is_repr, "list": is_list});
    if is_educe {
        if let Meta::List(l) = &a.meta {
            v["metas"] = match l.parse_args_with(Punctuated::<Meta, Token![,]>::parse_terminated) {
                Ok(p) => json!(p.iter().map(trait_meta).collect::<Vec<_>>()),
                Err(_) => Value::Null,
            };
        }
    }
    if is_repr && is_list {
        // what `parse_nested_meta` with the tolerant callback sees
        let mut idents: Vec<String> = vec![];
        let ok = a
            .parse_nested_meta(|meta| {
                if let Some(i) = meta.path.get_ident() {
                    idents.push(i.to_string());
                }
                if meta.input.peek(syn::token::Paren) {
                    let content;
                    syn::parenthesized!(content in meta.input);
                    content.parse::<proc_macro2::TokenStream>()?;
                }
                Ok(())
            })
            .is_ok();
        v["repr_ok"] = json!(ok);
        v["repr_idents"] = json!(idents);
    }
    v
}

fn attrs(a: &[Attribute]) -> Value {
    json!(a.iter().map(attr).collect::<Vec<_>>())
}

fn fields(f: &Fields) -> (String, Value) {
    let shape = match f {
        Fields::Unit => "unit",
        Fields::Named(_) => "named",
        Fields::Unnamed(_) => "tuple",
    };
    let fs: Vec<Value> = f
        .iter()
        .map(|x| {
            json!({
                "name": x.ident.as_ref().map(|i| i.to_string()),
                "ty": ts(&x.ty),
                "hash_ty": hash_type(&x.ty),
                "is_ref": matches!(x.ty, Type::Reference(_)),
                "deref_ty": ts(dereference(&x.ty)),
                "tyshape": ty_shape(&x.ty),
                "ty_tree": ty_tree(&x.ty),
                "attrs": attrs(&x.attrs),
            })
        })
        .collect();
    (shape.to_string(), json!(fs))
}

pub fn derive_input(ast: &DeriveInput) -> Value {
    let (ig, tg, wc) = ast.generics.split_for_impl();
    let gparams: Vec<Value> = ast
        .generics
        .params
        .iter()
        .map(|p| match p {
            GenericParam::Lifetime(l) => json!({"kind": "lifetime", "name": l.lifetime.to_string()}),
            GenericParam::Type(t) => json!({"kind": "type", "name": t.ident.to_string()}),
            GenericParam::Const(c) => json!({"kind": "const", "name": c.ident.to_string()}),
        })
        .collect();
    // the impl-generics parameter list as syn prints it (inline bounds kept, defaults dropped)
    let impl_params: Vec<String> = {
        let t = ts(&ig);
        match syn::parse_str::<syn::Generics>(&t) {
            Ok(g) => g.params.iter().map(|p| ts(p)).collect(),
            Err(_) => vec![t],
        }
    };
    let where_preds: Vec<String> = wc.map(|w| w.predicates.iter().map(|p| ts(p)).collect()).unwrap_or_default();
    let mut v = json!({
        "name": ast.ident.to_string(),
        "generics": {"params": gparams, "impl_params": impl_params, "ty_generics": ts(&tg), "where": where_preds},
        "attrs": attrs(&ast.attrs),
    });
    match &ast.data {
        Data::Struct(s) => {
            let (shape, fs) = fields(&s.fields);
            v["kind"] = json!("struct");
            v["variants"] = json!([{"name": "", "shape": shape, "fields": fs, "attrs": [], "disc": null}]);
        },
        Data::Enum(e) => {
            v["kind"] = json!("enum");
            v["variants"] = json!(e
                .variants
                .iter()
                .map(|x| {
                    let (shape, fs) = fields(&x.fields);
                    json!({"name": x.ident.to_string(), "shape": shape, "fields": fs, "attrs": attrs(&x.attrs),
                           "disc": x.discriminant.as_ref().map(|(_, e)| ts(e))})
                })
                .collect::<Vec<_>>());
        },
        Data::Union(u) => {
            let fs: Vec<Value> = u
                .fields
                .named
                .iter()
                .map(|x| {
                    json!({
                        "name": x.ident.as_ref().map(|i| i.to_string()),
                        "ty": ts(&x.ty), "hash_ty": hash_type(&x.ty), "is_ref": matches!(x.ty, Type::Reference(_)),
                        "deref_ty": ts(dereference(&x.ty)), "tyshape": ty_shape(&x.ty), "attrs": attrs(&x.attrs),
                    })
                })
                .collect();
            v["kind"] = json!("union");
            v["variants"] = json!([{"name": "", "shape": "named", "fields": fs, "attrs": [], "disc": null}]);
        },
    }
    v
}
