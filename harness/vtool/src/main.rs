//! vtool — in-process view of /repo (built with the verification hook).
//!
//!   vtool expand   : stdin JSON lines {"id":N,"src":"<item>"} -> stdout JSON lines with
//!                    (a) the oracle-record serialisation of the DeriveInput (what each syn parser
//!                        educe may call returns on every attribute argument), and
//!                    (b) the real outcome of `derive_input_handler`: ok (impl items, canonical
//!                        headers, token strings) / err (message) / panic.
//!   vtool extract  : the translator — walks /repo/src and prints the Generated/*.lean tables.
mod extract;
mod gates;
mod ser;

use std::io::{BufRead, Write};
use std::panic;

use quote::ToTokens;
use serde_json::{json, Value};

fn canonical(ts: &proc_macro2::TokenStream) -> String {
    ts.to_string()
}

fn summarize_items(ts: proc_macro2::TokenStream) -> Value {
    // parse the expansion back; every top-level item should be an impl
    let file: syn::File = match syn::parse2(ts.clone()) {
        Ok(f) => f,
        Err(e) => return json!({"reparse_error": e.to_string()}),
    };
    let mut items = vec![];
    for it in file.items {
        if let syn::Item::Impl(im) = it {
            let trait_path = im.trait_.as_ref().map(|(_, p, _)| p.to_token_stream().to_string());
            let mut params = vec![];
            for p in im.generics.params.iter() {
                params.push(p.to_token_stream().to_string());
            }
            let mut preds = vec![];
            if let Some(w) = &im.generics.where_clause {
                for p in w.predicates.iter() {
                    preds.push(p.to_token_stream().to_string());
                }
            }
            let mut fns = vec![];
            for ii in im.items.iter() {
                if let syn::ImplItem::Fn(f) = ii {
                    fns.push(f.sig.ident.to_string());
                }
            }
            items.push(json!({
                "trait": trait_path,
                "params": params,
                "self_ty": im.self_ty.to_token_stream().to_string(),
                "where": preds,
                "fns": fns,
                "tokens": im.to_token_stream().to_string(),
            }));
        } else {
            items.push(json!({"other": it.to_token_stream().to_string()}));
        }
    }
    json!(items)
}

/// impl items nested inside the generated function bodies (helper impls such as the Debug method wrapper)
struct Nested(Vec<Value>, usize);

impl<'ast> syn::visit::Visit<'ast> for Nested {
    fn visit_item_impl(&mut self, im: &'ast syn::ItemImpl) {
        if self.1 > 0 {
            let params: Vec<String> = im.generics.params.iter().map(|p| p.to_token_stream().to_string()).collect();
            let preds: Vec<String> = im.generics.where_clause.as_ref().map(|w| w.predicates.iter().map(|p| p.to_token_stream().to_string()).collect()).unwrap_or_default();
            self.0.push(json!({
                "trait": im.trait_.as_ref().map(|(_, p, _)| p.to_token_stream().to_string()),
                "params": params,
                "self_ty": im.self_ty.to_token_stream().to_string(),
                "where": preds,
            }));
        }
        self.1 += 1;
        syn::visit::visit_item_impl(self, im);
        self.1 -= 1;
    }
}

fn nested_impls(ts: proc_macro2::TokenStream) -> Value {
    let file: syn::File = match syn::parse2(ts) {
        Ok(f) => f,
        Err(_) => return json!([]),
    };
    let mut n = Nested(vec![], 0);
    syn::visit::Visit::visit_file(&mut n, &file);
    json!(n.0)
}

fn expand_one(src: &str) -> Value {
    let ast: syn::DeriveInput = match syn::parse_str(src) {
        Ok(a) => a,
        Err(e) => return json!({"outcome": "parse_error", "message": e.to_string()}),
    };
    let record = ser::derive_input(&ast);
    let res = panic::catch_unwind(panic::AssertUnwindSafe(|| educe_inproc::derive_input_handler_verif(ast)));
    match res {
        Ok(Ok(ts)) => json!({"outcome": "ok", "tokens": canonical(&ts), "nested": nested_impls(ts.clone()), "items": summarize_items(ts), "input": record}),
        Ok(Err(e)) => {
            let msgs: Vec<String> = e.into_iter().map(|x| x.to_string()).collect();
            json!({"outcome": "err", "message": msgs.join(" | "), "input": record})
        },
        Err(p) => {
            let msg = if let Some(s) = p.downcast_ref::<&str>() {
                s.to_string()
            } else if let Some(s) = p.downcast_ref::<String>() {
                s.clone()
            } else {
                "panic".to_string()
            };
            json!({"outcome": "panic", "message": msg, "input": record})
        },
    }
}

fn main() {
    let args: Vec<String> = std::env::args().collect();
    let cmd = args.get(1).map(|s| s.as_str()).unwrap_or("");
    match cmd {
        "expand" => {
            panic::set_hook(Box::new(|_| {}));
            let stdin = std::io::stdin();
            let stdout = std::io::stdout();
            let mut out = stdout.lock();
            for line in stdin.lock().lines() {
                let line = line.unwrap();
                if line.trim().is_empty() {
                    continue;
                }
                let req: Value = serde_json::from_str(&line).unwrap();
                let src = req["src"].as_str().unwrap_or("");
                let mut v = expand_one(src);
                v["id"] = req["id"].clone();
                if let Some(r) = req.get("repeat").and_then(|x| x.as_u64()) {
                    // expand the same input again in this process (C16)
                    let mut all_same = true;
                    let first = v["tokens"].clone();
                    for _ in 0..r {
                        let w = expand_one(src);
                        if w["tokens"] != first || w["outcome"] != v["outcome"] || w["message"] != v["message"] {
                            all_same = false;
                        }
                    }
                    v["repeat_same"] = json!(all_same);
                }
                writeln!(out, "{}", v).unwrap();
                out.flush().unwrap();
            }
        },
        "extract" => {
            let root = args.get(2).map(|s| s.as_str()).unwrap_or("/repo");
            let outdir = args.get(3).map(|s| s.as_str()).unwrap_or("/verif/lean/EduceModel/Generated");
            std::process::exit(extract::run(root, outdir));
        },
        _ => {
            eprintln!("usage: vtool expand | extract [repo] [outdir]");
            std::process::exit(2);
        },
    }
}
