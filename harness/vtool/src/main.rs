//! vtool — in-process view of /repo (built with the verification hook).
//!
//!   vtool expand   : stdin JSON lines {"id":N,"src":"<item>"} -> stdout JSON lines with
//!                    (a) the oracle-record serialisation of the DeriveInput (what each syn parser
//!                        educe may call returns on every attribute argument), and
//!                    (b) the real outcome of `derive_input_handler`: ok (impl items, canonical
//!                        headers, token strings) / err (message) / panic.
//!   vtool extract  : the translator — walks /repo/src and prints the Generated/*.lean tables.
mod extract;
mod gates;
mod ser;

use std::io::{BufRead, Write};
use std::panic;

use quote::ToTokens;
use serde_json::{json, Value};

fn canonical(ts: &proc_macro2::TokenStream) -> String {
    ts.to_string()
}

fn summarize_items(ts: proc_macro2::TokenStream) -> Value {
    // parse the expansion back; every top-level item should be an impl
    let file: syn::File = match syn::parse2(ts.clone()) {
        Ok(f) => f,
        Err(e) => return json!({"reparse_error": e.to_string()}),
    };
    let mut items = vec![];
    for it in file.items {
        if let syn::Item::Impl(im) = it {
            let trait_path = im.trait_.as_ref().map(|(_, p, _)| p.to_token_stream().to_string());
            let mut params = vec![];
            for p in im.generics.params.iter() {
                params.push(p.to_token_stream().to_string());
            }
            let mut preds = vec![];
            if let Some(w) = &im.generics.where_clause {
                for p in w.predicates.iter() {
                    preds.push(p.to_token_stream().to_string());
                }
            }
            let mut fns = vec![];
            let mut assoc = serde_json::Map::new();
            for ii in im.items.iter() {
                if let syn::ImplItem::Fn(f) = ii {
                    fns.push(f.sig.ident.to_string());
                }
                if let syn::ImplItem::Type(t) = ii {
                    assoc.insert(t.ident.to_string(), json!(t.ty.to_token_stream().to_string()));
                }
            }
            items.push(json!({
                "trait": trait_path,
                "params": params,
                "self_ty": im.self_ty.to_token_stream().to_string(),
                "where": preds,
                "fns": fns,
                "assoc": assoc,
                "tokens": im.to_token_stream().to_string(),
            }));
        } else {
            items.push(json!({"other": it.to_token_stream().to_string()}));
        }
    }
    json!(items)
}

/// impl items nested inside the generated function bodies (helper impls such as the Debug method wrapper)
struct Nested(Vec<Value>, usize);

impl<'ast> syn::visit::Visit<'ast> for Nested {
    fn visit_item_impl(&mut self, im: &'ast syn::ItemImpl) {
        if self.1 > 0 {
            let params: Vec<String> = im.generics.params.iter().map(|p| p.to_token_stream().to_string()).collect();
            let preds: Vec<String> = im.generics.where_clause.as_ref().map(|w| w.predicates.iter().map(|p| p.to_token_stream().to_string()).collect()).unwrap_or_default();
            self.0.push(json!({
                "trait": im.trait_.as_ref().map(|(_, p, _)| p.to_token_stream().to_string()),
                "params": params,
                "self_ty": im.self_ty.to_token_stream().to_string(),
                "where": preds,
            }));
        }
        self.1 += 1;
        syn::visit::visit_item_impl(self, im);
        self.1 -= 1;
    }
}

fn nested_impls(ts: proc_macro2::TokenStream) -> Value {
    let file: syn::File = match syn::parse2(ts) {
        Ok(f) => f,
        Err(_) => return json!([]),
    };
    let mut n = Nested(vec![], 0);
    syn::visit::Visit::visit_file(&mut n, &file);
    json!(n.0)
}

/// Field types as a `macro_rules!` macro hands them to a derive: inside a None-delimited group (`syn::Type::Group`).
/// mode 1: every field type is one `$t:ty` fragment; mode 2: the referent of every reference type is (`&'a $t`).
fn group_type(ty: &mut syn::Type, mode: u64) {
    fn wrap(ty: syn::Type) -> syn::Type {
        syn::Type::Group(syn::TypeGroup { group_token: syn::token::Group::default(), elem: Box::new(ty) })
    }
    if mode == 2 {
        if let syn::Type::Reference(r) = ty {
            let inner = std::mem::replace(r.elem.as_mut(), syn::Type::Verbatim(proc_macro2::TokenStream::new()));
            *r.elem = wrap(inner);
            return;
        }
    }
    let old = std::mem::replace(ty, syn::Type::Verbatim(proc_macro2::TokenStream::new()));
    *ty = wrap(old);
}

/// mode 3: every parenthesised type `(T)` anywhere inside a field type becomes an invisible group around `T` - what a
/// `$t:ty` fragment looks like where the plain syntax needs the parentheses (`&'a $t` with `$t = dyn A + B`).
struct ParenToGroup;

impl syn::visit_mut::VisitMut for ParenToGroup {
    fn visit_type_mut(&mut self, ty: &mut syn::Type) {
        syn::visit_mut::visit_type_mut(self, ty);
        if let syn::Type::Paren(p) = ty {
            let inner = std::mem::replace(p.elem.as_mut(), syn::Type::Verbatim(proc_macro2::TokenStream::new()));
            *ty = syn::Type::Group(syn::TypeGroup { group_token: syn::token::Group::default(), elem: Box::new(inner) });
        }
    }
}

/// For the macro form of mode 3: the parenthesised types become `$tK` fragments.
struct ParenToPlaceholder(Vec<String>);

impl syn::visit_mut::VisitMut for ParenToPlaceholder {
    fn visit_type_mut(&mut self, ty: &mut syn::Type) {
        syn::visit_mut::visit_type_mut(self, ty);
        if let syn::Type::Paren(p) = ty {
            let k = self.0.len();
            self.0.push(p.elem.to_token_stream().to_string());
            *ty = syn::parse_str(&format!("EDUCE__FRAGMENT_{}__", k)).unwrap();
        }
    }
}

/// mode 4 (on top of mode 3): inside the `#[educe(..)]` attributes a parenthesised trait-object type `(dyn A + B)` becomes
/// an invisible group as well (`Into(&'static $t)` with `$t = dyn A + B`); with `collect` the groups become placeholders
/// for the macro form instead.
fn attr_parens(ts: proc_macro2::TokenStream, collect: &mut Option<&mut Vec<String>>) -> proc_macro2::TokenStream {
    use proc_macro2::{Delimiter, Group, Ident, Span, TokenTree};
    let mut out = proc_macro2::TokenStream::new();
    for tt in ts {
        match tt {
            TokenTree::Group(g) => {
                let inner = attr_parens(g.stream(), collect);
                let dyn_first = matches!(inner.clone().into_iter().next(), Some(TokenTree::Ident(i)) if i == "dyn");
                if g.delimiter() == Delimiter::Parenthesis && dyn_first {
                    match collect {
                        Some(v) => {
                            let k = 1000 + v.len();
                            v.push(inner.to_string());
                            out.extend([TokenTree::Ident(Ident::new(&format!("EDUCE__FRAGMENT_{}__", k), Span::call_site()))]);
                        },
                        None => out.extend([TokenTree::Group(Group::new(Delimiter::None, inner))]),
                    }
                } else {
                    let mut ng = Group::new(g.delimiter(), inner);
                    ng.set_span(g.span());
                    out.extend([TokenTree::Group(ng)]);
                }
            },
            other => out.extend([other]),
        }
    }
    out
}

fn for_each_educe_attr(ast: &mut syn::DeriveInput, f: &mut dyn FnMut(&mut syn::Attribute)) {
    let mut on = |attrs: &mut Vec<syn::Attribute>| attrs.iter_mut().filter(|a| a.path().is_ident("educe")).for_each(|a| f(a));
    on(&mut ast.attrs);
    match &mut ast.data {
        syn::Data::Struct(d) => d.fields.iter_mut().for_each(|x| on(&mut x.attrs)),
        syn::Data::Enum(d) => d.variants.iter_mut().for_each(|v| {
            on(&mut v.attrs);
            v.fields.iter_mut().for_each(|x| on(&mut x.attrs))
        }),
        syn::Data::Union(d) => d.fields.named.iter_mut().for_each(|x| on(&mut x.attrs)),
    }
}

fn attrs_parens(ast: &mut syn::DeriveInput, collect: &mut Option<&mut Vec<String>>) {
    for_each_educe_attr(ast, &mut |a| {
        if let syn::Meta::List(l) = &mut a.meta {
            l.tokens = attr_parens(l.tokens.clone(), collect);
        }
    });
}

fn for_each_field_type(ast: &mut syn::DeriveInput, f: &mut dyn FnMut(&mut syn::Type)) {
    match &mut ast.data {
        syn::Data::Struct(d) => d.fields.iter_mut().for_each(|x| f(&mut x.ty)),
        syn::Data::Enum(d) => d.variants.iter_mut().for_each(|v| v.fields.iter_mut().for_each(|x| f(&mut x.ty))),
        syn::Data::Union(d) => d.fields.named.iter_mut().for_each(|x| f(&mut x.ty)),
    }
}

/// The same item as the output of a `macro_rules!` macro (for confirmation through rustc).
fn macro_source(src: &str, mode: u64) -> Option<String> {
    let mut ast: syn::DeriveInput = syn::parse_str(src).ok()?;
    let mut tys: Vec<String> = vec![];
    let mut attr_tys: Vec<String> = vec![];
    if mode >= 3 {
        let mut v = ParenToPlaceholder(vec![]);
        for_each_field_type(&mut ast, &mut |ty| syn::visit_mut::VisitMut::visit_type_mut(&mut v, ty));
        tys = v.0;
    }
    if mode == 4 {
        attrs_parens(&mut ast, &mut Some(&mut attr_tys));
    }
    for_each_field_type(&mut ast, &mut |ty| {
        if mode >= 3 {
            return;
        }
        let k = tys.len();
        let ph: syn::Type = syn::parse_str(&format!("EDUCE__FRAGMENT_{}__", k)).unwrap();
        if mode == 2 {
            if let syn::Type::Reference(r) = ty {
                tys.push(r.elem.to_token_stream().to_string());
                *r.elem = ph;
                return;
            }
        }
        tys.push(ty.to_token_stream().to_string());
        *ty = ph;
    });
    let mut body = ast.to_token_stream().to_string();
    for k in (0..attr_tys.len()).rev() {
        body = body.replace(&format!("EDUCE__FRAGMENT_{}__", 1000 + k), &format!("$t{}", tys.len() + k));
    }
    for k in (0..tys.len()).rev() {
        body = body.replace(&format!("EDUCE__FRAGMENT_{}__", k), &format!("$t{}", k));
    }
    tys.extend(attr_tys);
    let params: Vec<String> = (0..tys.len()).map(|k| format!("$t{}:ty", k)).collect();
    Some(format!("macro_rules! educe__mk {{ ({}) => {{ {} }} }}\neduce__mk!({});", params.join(", "), body, tys.join(", ")))
}

fn expand_one(src: &str) -> Value {
    expand_grouped(src, 0)
}

fn expand_grouped(src: &str, group_mode: u64) -> Value {
    let mut ast: syn::DeriveInput = match syn::parse_str(src) {
        Ok(a) => a,
        Err(e) => return json!({"outcome": "parse_error", "message": e.to_string()}),
    };
    if group_mode >= 3 {
        for_each_field_type(&mut ast, &mut |ty| syn::visit_mut::VisitMut::visit_type_mut(&mut ParenToGroup, ty));
        if group_mode == 4 {
            attrs_parens(&mut ast, &mut None);
        }
    } else if group_mode > 0 {
        for_each_field_type(&mut ast, &mut |ty| group_type(ty, group_mode));
    }
    // the record is taken from what the macro is given (in the grouped modes: with the invisible groups in the type trees)
    let record = ser::derive_input(&ast);
    let res = panic::catch_unwind(panic::AssertUnwindSafe(|| educe_inproc::derive_input_handler_verif(ast)));
    match res {
        Ok(Ok(ts)) => json!({"outcome": "ok", "tokens": canonical(&ts), "nested": nested_impls(ts.clone()), "items": summarize_items(ts), "input": record}),
        Ok(Err(e)) => {
            let msgs: Vec<String> = e.into_iter().map(|x| x.to_string()).collect();
            json!({"outcome": "err", "message": msgs.join(" | "), "input": record})
        },
        Err(p) => {
            let msg = if let Some(s) = p.downcast_ref::<&str>() {
                s.to_string()
            } else if let Some(s) = p.downcast_ref::<String>() {
                s.clone()
            } else {
                "panic".to_string()
            };
            json!({"outcome": "panic", "message": msg, "input": record})
        },
    }
}

fn main() {
    let args: Vec<String> = std::env::args().collect();
    let cmd = args.get(1).map(|s| s.as_str()).unwrap_or("");
    match cmd {
        "expand" => {
            panic::set_hook(Box::new(|_| {}));
            let stdin = std::io::stdin();
            let stdout = std::io::stdout();
            let mut out = stdout.lock();
            for line in stdin.lock().lines() {
                let line = line.unwrap();
                if line.trim().is_empty() {
                    continue;
                }
                let req: Value = serde_json::from_str(&line).unwrap();
                let src = req["src"].as_str().unwrap_or("");
                let mut v = expand_one(src);
                v["id"] = req["id"].clone();
                if req.get("group").and_then(|x| x.as_bool()).unwrap_or(false) {
                    // the same definition with its field types inside None-delimited groups, as a macro_rules! macro
                    // hands them over: same outcome and same tokens expected
                    let mut gs = vec![];
                    for mode in [1u64, 2u64, 3u64, 4u64] {
                        let w = expand_grouped(src, mode);
                        gs.push(json!({"mode": mode, "outcome": w["outcome"], "message": w["message"], "input": w["input"],
                                       "same_tokens": w["tokens"] == v["tokens"] || mode >= 3,
                                       "macro_src": if w["outcome"] != v["outcome"] || w["tokens"] != v["tokens"] { json!(macro_source(src, mode)) } else { Value::Null }}));
                    }
                    v["group"] = json!(gs);
                }
                if let Some(r) = req.get("repeat").and_then(|x| x.as_u64()) {
                    // expand the same input again in this process (C16)
                    let mut all_same = true;
                    let first = v["tokens"].clone();
                    for _ in 0..r {
                        let w = expand_one(src);
                        if w["tokens"] != first || w["outcome"] != v["outcome"] || w["message"] != v["message"] {
                            all_same = false;
                        }
                    }
                    v["repeat_same"] = json!(all_same);
                }
                writeln!(out, "{}", v).unwrap();
                out.flush().unwrap();
            }
        },
        "extract" => {
            let root = args.get(2).map(|s| s.as_str()).unwrap_or("/repo");
            let outdir = args.get(3).map(|s| s.as_str()).unwrap_or("/verif/lean/EduceModel/Generated");
            std::process::exit(extract::run(root, outdir));
        },
        _ => {
            eprintln!("usage: vtool expand | extract [repo] [outdir]");
            std::process::exit(2);
        },
    }
}
