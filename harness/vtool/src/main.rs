fn main() { println!("vtool"); }
