//! Translator: regenerates lean/EduceModel/Generated/*.lean from /repo/src on every run.
//! Fails closed (non-zero exit) on syntax it does not recognise.
use std::collections::BTreeMap;
use std::fmt::Write as _;
use std::path::{Path, PathBuf};

use proc_macro2::{Delimiter, TokenStream, TokenTree};
use quote::ToTokens;
use syn::visit::{self, Visit};

/// Rust keywords and reserved identifiers: never references to items in scope.
const KEYWORDS: &[&str] = &[
    "as", "break", "const", "continue", "crate", "dyn", "else", "enum", "extern", "false", "fn", "for", "if", "impl", "in",
    "let", "loop", "match", "mod", "move", "mut", "pub", "ref", "return", "self", "Self", "static", "struct", "super", "trait",
    "true", "type", "unsafe", "use", "where", "while", "_",
];

#[derive(Default)]
struct Out {
    templates: Vec<(String, String, usize, Vec<Tok>)>,           // file, fn, ordinal, tokens
    sites: Vec<(String, String, String, String)>,                 // file, fn, shape, snippet
    builders: Vec<(String, String, String, Vec<(String, String)>)>, // file, fn, builder type, flags
    gates: Vec<(String, String, bool)>,                           // module path, cfg text, allow(dead_code)
    uses: Vec<(String, String, String)>,                          // file, cfg text, used path
    cfg_items: Vec<(String, String, String)>,                     // file, cfg text, what
    maps: Vec<(String, String, String)>,                          // file, fn, description of HashMap/HashSet iteration
    hash_types: Vec<(String, String)>,                            // file, printed `HashMap<..>` / `HashSet<..>` type
    self_calls: Vec<(String, String)>,                            // file, fn: one entry per call of a fn to itself
    loops: Vec<(String, String, String)>,                         // file, fn, `loop` / `while` (unbounded iteration)
    binder_formats: Vec<(String, String, String, String)>,        // file, fn, resolved prefix, kind (index / ident)
    errors: Vec<String>,
}

#[derive(Clone, Debug)]
enum Tok {
    Ident(String),
    Punct(char),
    Lit(String),
    Hole(String),
    Open(char),
    Close(char),
}

fn flatten(ts: TokenStream, out: &mut Vec<Tok>) {
    let v: Vec<TokenTree> = ts.into_iter().collect();
    let mut i = 0;
    while i < v.len() {
        match &v[i] {
            TokenTree::Punct(p) if p.as_char() == '#' => {
                if let Some(TokenTree::Ident(id)) = v.get(i + 1) {
                    out.push(Tok::Hole(id.to_string()));
                    i += 2;
                    continue;
                }
                out.push(Tok::Punct('#'));
            },
            TokenTree::Punct(p) => out.push(Tok::Punct(p.as_char())),
            TokenTree::Ident(id) => out.push(Tok::Ident(id.to_string())),
            TokenTree::Literal(l) => out.push(Tok::Lit(l.to_string())),
            TokenTree::Group(g) => {
                let (o, c) = match g.delimiter() {
                    Delimiter::Parenthesis => ('(', ')'),
                    Delimiter::Brace => ('{', '}'),
                    Delimiter::Bracket => ('[', ']'),
                    Delimiter::None => (' ', ' '),
                };
                out.push(Tok::Open(o));
                flatten(g.stream(), out);
                out.push(Tok::Close(c));
            },
        }
        i += 1;
    }
}

struct V<'a> {
    file: String,
    fn_stack: Vec<String>,
    out: &'a mut Out,
    tmpl_ord: BTreeMap<String, usize>,
    /// local variable -> (prefix, kind) when it was last assigned from `format_ident!`
    binder_vars: BTreeMap<String, (String, String)>,
    last_format: Option<(String, String)>,
}

impl<'a> V<'a> {
    fn cur_fn(&self) -> String {
        self.fn_stack.last().cloned().unwrap_or_else(|| "<top>".to_string())
    }

    fn site(&mut self, shape: &str, snippet: String) {
        let f = self.cur_fn();
        self.out.sites.push((self.file.clone(), f, shape.to_string(), snippet));
    }

    fn handle_macro(&mut self, mac: &syn::Macro) {
        let name = mac.path.segments.last().map(|s| s.ident.to_string()).unwrap_or_default();
        match name.as_str() {
            "quote" | "quote_spanned" | "parse_quote" | "parse_quote_spanned" => {
                let mut tokens: Vec<TokenTree> = mac.tokens.clone().into_iter().collect();
                if name == "quote_spanned" || name == "parse_quote_spanned" {
                    // drop `span =>`
                    let mut cut = None;
                    for i in 0..tokens.len().saturating_sub(1) {
                        if let (TokenTree::Punct(a), TokenTree::Punct(b)) = (&tokens[i], &tokens[i + 1]) {
                            if a.as_char() == '=' && b.as_char() == '>' {
                                cut = Some(i + 2);
                                break;
                            }
                        }
                    }
                    match cut {
                        Some(c) => tokens = tokens.split_off(c),
                        None => self.out.errors.push(format!("{}: quote_spanned without `=>`", self.file)),
                    }
                }
                let mut toks = vec![];
                flatten(tokens.into_iter().collect(), &mut toks);
                let f = self.cur_fn();
                let key = format!("{}::{}", self.file, f);
                let ord = *self.tmpl_ord.entry(key).and_modify(|x| *x += 1).or_insert(0);
                self.out.templates.push((self.file.clone(), f, ord, toks));
            },
            "unreachable" | "panic" | "todo" | "unimplemented" | "assert" | "assert_eq" | "assert_ne" => {
                self.site(&format!("macro_{}", name), mac.tokens.to_string());
            },
            "debug_assert" | "debug_assert_eq" | "debug_assert_ne" => {
                self.site("debug_assert", mac.tokens.to_string());
            },
            "format_ident" => {
                // `format_ident!("<prefix>{}", arg)`: the generated binder names. `arg` is an index, a user
                // identifier, or a binder made by an earlier `format_ident!` (then the prefixes compose).
                match mac.parse_body_with(syn::punctuated::Punctuated::<syn::Expr, syn::Token![,]>::parse_terminated) {
                    Ok(args) if args.len() == 2 => {
                        let fmt = args[0].to_token_stream().to_string();
                        let fmt = fmt.trim_matches('"').to_string();
                        let arg = args[1].to_token_stream().to_string();
                        match fmt.strip_suffix("{}") {
                            Some(prefix) if !prefix.contains('{') => {
                                let (prefix, kind) = if arg.contains("index") {
                                    (prefix.to_string(), "index".to_string())
                                } else if let Some((p0, k0)) = self.binder_vars.get(&arg) {
                                    (format!("{}{}", prefix, p0), k0.clone())
                                } else {
                                    (prefix.to_string(), "ident".to_string())
                                };
                                let f = self.cur_fn();
                                self.out.binder_formats.push((self.file.clone(), f, prefix.clone(), kind.clone()));
                                self.last_format = Some((prefix, kind));
                            },
                            _ => self.out.errors.push(format!("{}: unrecognised format_ident! format `{}`", self.file, fmt)),
                        }
                        self.visit_expr(&args[1]);
                    },
                    _ => self.out.errors.push(format!("{}: unrecognised format_ident! call", self.file)),
                }
            },
            "format" | "stringify" | "vec" | "matches" | "format_args" | "write" | "writeln" | "compile_error"
            | "println" | "eprintln" | "concat" | "cfg" => {
                // expression-list macros: visit the arguments that parse as expressions
                if let Ok(args) = mac.parse_body_with(syn::punctuated::Punctuated::<syn::Expr, syn::Token![,]>::parse_terminated) {
                    for a in args.iter() {
                        self.visit_expr(a);
                    }
                }
            },
            "parenthesized" | "Token" | "parse_macro_input" => {},
            other => self.out.errors.push(format!("{}: unrecognised macro `{}!`", self.file, other)),
        }
    }
}

fn is_const_template(e: &syn::Expr) -> Option<bool> {
    // syn::parse2(quote!(...)) : Some(true) if the quote body has no `#var` hole
    if let syn::Expr::Call(c) = e {
        let callee = c.func.to_token_stream().to_string().replace(' ', "");
        if callee.ends_with("parse2") {
            if let Some(syn::Expr::Macro(m)) = c.args.first() {
                let mut toks = vec![];
                flatten(m.mac.tokens.clone(), &mut toks);
                return Some(!toks.iter().any(|t| matches!(t, Tok::Hole(_))));
            }
            if let Some(syn::Expr::If(_)) = c.args.first() {
                return Some(true);
            }
            return Some(false);
        }
        if callee.ends_with("parse_str") || callee.ends_with("from_str") {
            return Some(false);
        }
    }
    None
}

impl<'a, 'ast> Visit<'ast> for V<'a> {
    fn visit_item_fn(&mut self, i: &'ast syn::ItemFn) {
        self.fn_stack.push(i.sig.ident.to_string());
        visit::visit_item_fn(self, i);
        self.fn_stack.pop();
    }

    fn visit_impl_item_fn(&mut self, i: &'ast syn::ImplItemFn) {
        self.fn_stack.push(i.sig.ident.to_string());
        visit::visit_impl_item_fn(self, i);
        self.fn_stack.pop();
    }

    fn visit_macro(&mut self, m: &'ast syn::Macro) {
        self.handle_macro(m);
    }

    fn visit_local(&mut self, l: &'ast syn::Local) {
        self.last_format = None;
        visit::visit_local(self, l);
        if let (syn::Pat::Ident(pi), Some(init)) = (&l.pat, &l.init) {
            if let syn::Expr::Macro(_) = init.expr.as_ref() {
                if let Some(fk) = self.last_format.take() {
                    self.binder_vars.insert(pi.ident.to_string(), fk);
                }
            }
        }
    }

    fn visit_expr_method_call(&mut self, e: &'ast syn::ExprMethodCall) {
        let m = e.method.to_string();
        if m == "unwrap" || m == "expect" {
            let recv = e.receiver.to_token_stream().to_string();
            let shape = if recv.replace(' ', "").ends_with("get_ident()") {
                "unwrap_get_ident".to_string()
            } else if let Some(c) = is_const_template(&e.receiver) {
                if c { "unwrap_parse_const".to_string() } else { "unwrap_parse_spliced".to_string() }
            } else if recv.replace(' ', "").ends_with("ident.as_ref()") {
                "unwrap_field_ident".to_string()
            } else if recv.replace(' ', "").ends_with("into_iter().next()") {
                "unwrap_first_field".to_string()
            } else {
                "unwrap_other".to_string()
            };
            self.site(&shape, recv);
        } else if m == "insert_str" {
            self.site("insert_str", e.to_token_stream().to_string());
        }
        visit::visit_expr_method_call(self, e);
    }

    fn visit_expr_index(&mut self, e: &'ast syn::ExprIndex) {
        let idx = e.index.to_token_stream().to_string();
        let shape = if idx == "0" { "index_0" } else if idx.starts_with("..") || idx.contains("..") { "index_range" } else { "index_other" };
        self.site(shape, e.to_token_stream().to_string());
        visit::visit_expr_index(self, e);
    }

    fn visit_expr_struct(&mut self, e: &'ast syn::ExprStruct) {
        let name = e.path.segments.last().map(|s| s.ident.to_string()).unwrap_or_default();
        if name == "FieldAttributeBuilder" || name == "TypeAttributeBuilder" {
            let mut flags = vec![];
            for f in e.fields.iter() {
                let k = f.member.to_token_stream().to_string();
                let v = f.expr.to_token_stream().to_string();
                flags.push((k, v));
            }
            let fname = self.cur_fn();
            self.out.builders.push((self.file.clone(), fname, name, flags));
        }
        visit::visit_expr_struct(self, e);
    }

    fn visit_expr_path(&mut self, e: &'ast syn::ExprPath) {
        // unit-like builders (`FieldAttributeBuilder.build_from_attributes(..)`)
        if let Some(s) = e.path.segments.last() {
            let n = s.ident.to_string();
            if n == "FieldAttributeBuilder" || n == "TypeAttributeBuilder" {
                let fname = self.cur_fn();
                self.out.builders.push((self.file.clone(), fname, n, vec![]));
            }
        }
        visit::visit_expr_path(self, e);
    }

    fn visit_expr_call(&mut self, e: &'ast syn::ExprCall) {
        if let syn::Expr::Path(p) = e.func.as_ref() {
            // an unqualified call `f(..)` inside `fn f` (qualified calls name another impl's method)
            if let (1, Some(seg)) = (p.path.segments.len(), p.path.segments.last()) {
                if Some(&seg.ident.to_string()) == self.fn_stack.last() {
                    let f = self.cur_fn();
                    self.out.self_calls.push((self.file.clone(), f));
                }
            }
        }
        visit::visit_expr_call(self, e);
    }

    fn visit_expr_loop(&mut self, e: &'ast syn::ExprLoop) {
        let f = self.cur_fn();
        self.out.loops.push((self.file.clone(), f, "loop".to_string()));
        visit::visit_expr_loop(self, e);
    }

    fn visit_expr_while(&mut self, e: &'ast syn::ExprWhile) {
        let f = self.cur_fn();
        self.out.loops.push((self.file.clone(), f, "while".to_string()));
        visit::visit_expr_while(self, e);
    }

    fn visit_type_path(&mut self, t: &'ast syn::TypePath) {
        if let Some(seg) = t.path.segments.last() {
            let n = seg.ident.to_string();
            if (n == "HashMap" || n == "HashSet") && !seg.arguments.is_empty() {
                self.out.hash_types.push((self.file.clone(), t.to_token_stream().to_string().replace(' ', "")));
            }
        }
        visit::visit_type_path(self, t);
    }

    fn visit_expr_for_loop(&mut self, e: &'ast syn::ExprForLoop) {
        let it = e.expr.to_token_stream().to_string().replace(' ', "");
        if it.contains("types") || it.contains(".keys()") || it.contains("trait_meta_map") {
            let fname = self.cur_fn();
            self.out.maps.push((self.file.clone(), fname, it));
        }
        visit::visit_expr_for_loop(self, e);
    }
}

fn cfg_of(attrs: &[syn::Attribute]) -> (String, bool) {
    let mut cfg = String::new();
    let mut allow_dead = false;
    for a in attrs {
        if a.path().is_ident("cfg") {
            if let syn::Meta::List(l) = &a.meta {
                cfg = l.tokens.to_string();
            }
        }
        if a.path().is_ident("allow") {
            if a.meta.to_token_stream().to_string().contains("dead_code") {
                allow_dead = true;
            }
        }
    }
    (cfg, allow_dead)
}

fn collect_files(dir: &Path, out: &mut Vec<PathBuf>) {
    let mut entries: Vec<_> = std::fs::read_dir(dir).unwrap().map(|e| e.unwrap().path()).collect();
    entries.sort();
    for p in entries {
        if p.is_dir() {
            collect_files(&p, out);
        } else if p.extension().map(|e| e == "rs").unwrap_or(false) {
            out.push(p);
        }
    }
}

fn lean_str(s: &str) -> String {
    let mut o = String::from("\"");
    for c in s.chars() {
        match c {
            '"' => o.push_str("\\\""),
            '\\' => o.push_str("\\\\"),
            '\n' => o.push_str("\\n"),
            c => o.push(c),
        }
    }
    o.push('"');
    o
}

pub fn run(root: &str, outdir: &str) -> i32 {
    let src = Path::new(root).join("src");
    let mut files = vec![];
    collect_files(&src, &mut files);
    let mut out = Out::default();
    let mut parsed: Vec<(String, syn::File)> = vec![];
    for p in &files {
        let rel = p.strip_prefix(&src).unwrap().to_string_lossy().to_string();
        let text = std::fs::read_to_string(p).unwrap();
        let file = match syn::parse_file(&text) {
            Ok(f) => f,
            Err(e) => {
                out.errors.push(format!("{}: does not parse: {}", rel, e));
                continue;
            },
        };
        // module gates, gated uses and gated items at file level
        for it in &file.items {
            match it {
                syn::Item::Mod(m) => {
                    let (cfg, dead) = cfg_of(&m.attrs);
                    let modpath = format!("{}::{}", rel.trim_end_matches("mod.rs").trim_end_matches(".rs").trim_end_matches('/'), m.ident);
                    out.gates.push((modpath, cfg, dead));
                },
                syn::Item::Use(u) => {
                    let (cfg, _) = cfg_of(&u.attrs);
                    out.uses.push((rel.clone(), cfg, u.tree.to_token_stream().to_string().replace(' ', "")));
                },
                syn::Item::Macro(m) => {
                    let (cfg, _) = cfg_of(&m.attrs);
                    out.cfg_items.push((rel.clone(), cfg, format!("macro {}", m.mac.path.to_token_stream())));
                },
                _ => {},
            }
        }
        let mut v = V { file: rel.clone(), fn_stack: vec![], out: &mut out, tmpl_ord: BTreeMap::new(), binder_vars: BTreeMap::new(), last_format: None };
        v.visit_file(&file);
        parsed.push((rel, file));
    }
    let gates_log = match crate::gates::run(root, outdir, &parsed) {
        Ok(l) => l,
        Err(es) => {
            out.errors.extend(es.into_iter().map(|e| format!("feature gates: {}", e)));
            String::new()
        },
    };
    if !out.errors.is_empty() {
        for e in &out.errors {
            eprintln!("extract: {}", e);
        }
        return 1;
    }
    std::fs::create_dir_all(outdir).unwrap();

    // ---------------- identifier interning for templates
    let mut names: Vec<String> = vec![];
    let mut idx: BTreeMap<String, usize> = BTreeMap::new();
    let mut intern = |s: &str, names: &mut Vec<String>| -> usize {
        if let Some(i) = idx.get(s) {
            return *i;
        }
        let i = names.len();
        names.push(s.to_string());
        idx.insert(s.to_string(), i);
        i
    };
    let mut t = String::new();
    writeln!(t, "/- GENERATED by `vtool extract` from /repo/src on every run. Do not edit. -/").unwrap();
    writeln!(t, "import EduceModel.Names").unwrap();
    writeln!(t, "namespace Educe.Generated\nopen Educe.Names\n").unwrap();
    let mut tmpl_names = vec![];
    for (k, (file, f, ord, toks)) in out.templates.iter().enumerate() {
        let mut s = String::new();
        for tk in toks {
            match tk {
                Tok::Ident(i) if ["let", "fn", "struct", "type", "ref"].contains(&i.as_str()) => write!(s, ".bkw, ").unwrap(),
                Tok::Ident(i) if i == "mut" => write!(s, ".kwmut, ").unwrap(),
                Tok::Ident(i) if KEYWORDS.contains(&i.as_str()) => write!(s, ".kw, ").unwrap(),
                Tok::Ident(i) => write!(s, ".id {}, ", intern(i, &mut names)).unwrap(),
                Tok::Punct(c) => write!(s, ".p {}, ", *c as u32).unwrap(),
                Tok::Lit(_) => write!(s, ".lit, ").unwrap(),
                Tok::Hole(_) => write!(s, ".hole, ").unwrap(),
                Tok::Open(c) => write!(s, ".open {}, ", *c as u32).unwrap(),
                Tok::Close(c) => write!(s, ".close {}, ", *c as u32).unwrap(),
            }
        }
        let s = s.trim_end_matches(", ").to_string();
        writeln!(t, "/-- {} :: {} #{} -/\ndef t{} : List Tok := [{}]", file, f, ord, k, s).unwrap();
        tmpl_names.push(format!("t{}", k));
    }
    writeln!(t, "\ndef templates : List (List Tok) := [{}]", tmpl_names.join(", ")).unwrap();
    writeln!(t, "\ndef templateKeys : List String := [{}]",
        out.templates.iter().map(|(f, g, o, _)| lean_str(&format!("{}::{}#{}", f, g, o))).collect::<Vec<_>>().join(", ")).unwrap();
    // group = directory of the file: templates of one handler are composed with each other
    let mut dirs: Vec<String> = out.templates.iter().map(|(f, _, _, _)| f.rsplit_once('/').map(|x| x.0.to_string()).unwrap_or_default()).collect();
    dirs.sort();
    dirs.dedup();
    writeln!(t, "\n/-- per template: index of the directory (handler) it belongs to -/\ndef templateGroups : List Nat := [{}]",
        out.templates.iter().map(|(f, _, _, _)| {
            let d = f.rsplit_once('/').map(|x| x.0.to_string()).unwrap_or_default();
            dirs.iter().position(|x| *x == d).unwrap().to_string()
        }).collect::<Vec<_>>().join(", ")).unwrap();
    writeln!(t, "def templateGroupNames : List String := [{}]", dirs.iter().map(|d| lean_str(d)).collect::<Vec<_>>().join(", ")).unwrap();
    let mut bf: Vec<(String, String, String)> = out.binder_formats.iter().map(|(f, _, p, k)| (f.clone(), p.clone(), k.clone())).collect();
    bf.sort();
    bf.dedup();
    writeln!(t, "\n/-- `format_ident!` binder formats: (file, prefix as code points, kind: 0 = tuple index, 1 = identifier) -/").unwrap();
    writeln!(t, "def binderFormats : List (String × List Nat × Nat) := [").unwrap();
    let rows: Vec<String> = bf.iter().map(|(f, p, k)| format!("  ({}, [{}], {})", lean_str(f), p.chars().map(|c| (c as u32).to_string()).collect::<Vec<_>>().join(", "), if k == "index" { 0 } else { 1 })).collect();
    writeln!(t, "{}\n]", rows.join(",\n")).unwrap();
    writeln!(t, "\ndef identNames : List String := [{}]", names.iter().map(|n| lean_str(n)).collect::<Vec<_>>().join(", ")).unwrap();
    // ---- absolute paths (`::core::..`) named by the templates of each handler directory: what the generated code calls
    let mut paths: BTreeMap<String, std::collections::BTreeSet<String>> = BTreeMap::new();
    for (f, _, _, toks) in &out.templates {
        let d = f.rsplit_once('/').map(|x| x.0.to_string()).unwrap_or_default();
        let set = paths.entry(d).or_default();
        let mut i = 0;
        while i + 2 < toks.len() {
            let colons = |k: usize| matches!((toks.get(k), toks.get(k + 1)), (Some(Tok::Punct(':')), Some(Tok::Punct(':'))));
            // `::core::..` / `::std::..` / `::alloc::..` that does not continue a path (`a::core`, `<T>::core`)
            let root = matches!(toks.get(i + 2), Some(Tok::Ident(id)) if id == "core" || id == "std" || id == "alloc");
            let continues = i > 0 && match &toks[i - 1] {
                Tok::Ident(id) => !KEYWORDS.contains(&id.as_str()),
                Tok::Punct('>') => !(i > 1 && matches!(&toks[i - 2], Tok::Punct('-'))),
                Tok::Punct(':') => true,
                _ => false,
            };
            let abs = colons(i) && root && !continues;
            if abs {
                let mut j = i;
                let mut p = String::new();
                while colons(j) {
                    if let Some(Tok::Ident(id)) = toks.get(j + 2) {
                        p.push_str("::");
                        p.push_str(id);
                        j += 3;
                    } else {
                        break;
                    }
                }
                if !p.is_empty() {
                    set.insert(p);
                }
                i = j.max(i + 1);
            } else {
                i += 1;
            }
        }
    }
    for (d, set) in &paths {
        let name = if d.is_empty() { "root".to_string() } else { d.replace('/', "_") };
        writeln!(t, "\n/-- absolute paths named by the `quote!` templates of `{}` (sorted) -/\ndef paths_{} : List String := [{}]",
            d, name, set.iter().map(|x| lean_str(x)).collect::<Vec<_>>().join(", ")).unwrap();
    }
    writeln!(t, "\n/-- the same names as code points (the kernel compares numbers, not string literals) -/\ndef identCodes : List (List Nat) := [{}]",
        names.iter().map(|n| format!("[{}]", n.chars().map(|c| (c as u32).to_string()).collect::<Vec<_>>().join(", "))).collect::<Vec<_>>().join(", ")).unwrap();
    writeln!(t, "\nend Educe.Generated").unwrap();
    std::fs::write(Path::new(outdir).join("Templates.lean"), t).unwrap();

    // ---------------- panic sites: counts per (file, fn, shape)
    let mut counts: BTreeMap<(String, String, String), usize> = BTreeMap::new();
    for (file, f, shape, _) in &out.sites {
        *counts.entry((file.clone(), f.clone(), shape.clone())).or_insert(0) += 1;
    }
    let mut p = String::new();
    writeln!(p, "/- GENERATED by `vtool extract` from /repo/src on every run. Do not edit. -/").unwrap();
    writeln!(p, "namespace Educe.Generated\n").unwrap();
    writeln!(p, "/-- Every panic-capable expression of the source: (file, enclosing fn, shape, count). -/").unwrap();
    writeln!(p, "def panicSites : List (String × String × String × Nat) := [").unwrap();
    let rows: Vec<String> = counts
        .iter()
        .map(|((a, b, c), n)| format!("  ({}, {}, {}, {})", lean_str(a), lean_str(b), lean_str(c), n))
        .collect();
    writeln!(p, "{}\n]", rows.join(",\n")).unwrap();
    writeln!(p, "\n/-- The expressions themselves (for replay files and review). -/").unwrap();
    writeln!(p, "def panicSnippets : List (String × String × String × String) := [").unwrap();
    let rows: Vec<String> = out
        .sites
        .iter()
        .filter(|(_, _, s, _)| s != "unwrap_get_ident" && s != "unwrap_parse_const")
        .map(|(a, b, c, d)| format!("  ({}, {}, {}, {})", lean_str(a), lean_str(b), lean_str(c), lean_str(d)))
        .collect();
    writeln!(p, "{}\n]", rows.join(",\n")).unwrap();
    writeln!(p, "\n/-- Functions that call themselves: (file, fn), one entry per self-call. -/").unwrap();
    writeln!(p, "def selfCalls : List (String × String) := [{}]",
        out.self_calls.iter().map(|(a, b)| format!("({}, {})", lean_str(a), lean_str(b))).collect::<Vec<_>>().join(", ")).unwrap();
    writeln!(p, "\n/-- `loop` / `while` expressions (iteration not bounded by a collection): (file, fn, kind). -/").unwrap();
    writeln!(p, "def openLoops : List (String × String × String) := [{}]",
        out.loops.iter().map(|(a, b, c)| format!("({}, {}, {})", lean_str(a), lean_str(b), lean_str(c))).collect::<Vec<_>>().join(", ")).unwrap();
    // `debug_assert!`s whose argument does something: compiled out when the proc-macro is built without debug assertions
    // (cargo's release profile), so the macro would behave differently there
    let effects: Vec<String> = out
        .sites
        .iter()
        .filter(|(_, _, shape, _)| shape == "debug_assert")
        .filter(|(_, _, _, snippet)| {
            let t: String = snippet.split_whitespace().collect::<Vec<_>>().join(" ");
            let calls = [". insert (", ". push (", ". push_str (", ". pop (", ". remove (", ". extend (", ". entry (", ". take (", ". replace (",
                         ". retain (", ". clear (", ". append (", ". truncate (", ". drain (", ". next (", ". set (", ". swap (", ". get_or_insert",
                         ". insert_with", ". fetch_add (", ". store (", "& mut "];
            let assigns = {
                // `=` that is not part of `==`, `!=`, `<=`, `>=`, `=>`
                let b = t.as_bytes();
                (0..b.len()).any(|i| b[i] == b'=' && !(i > 0 && matches!(b[i - 1], b'=' | b'!' | b'<' | b'>'))
                    && !(i + 1 < b.len() && matches!(b[i + 1], b'=' | b'>'))
                    && !(i > 1 && b[i - 1] == b' ' && matches!(b[i - 2], b'=' | b'!' | b'<' | b'>'))
                    && !(i + 2 < b.len() && b[i + 1] == b' ' && matches!(b[i + 2], b'=' | b'>')))
            };
            calls.iter().any(|c| t.contains(c)) || assigns
        })
        .map(|(file, f, _, snippet)| format!("({}, {}, {})", lean_str(file), lean_str(f), lean_str(&snippet.chars().take(120).collect::<String>())))
        .collect();
    writeln!(p, "\n/-- `debug_assert!`s whose argument mutates something (file, fn, argument): they vanish in a build without debug assertions -/").unwrap();
    writeln!(p, "def debugAssertEffects : List (String × String × String) := [{}]", effects.join(", ")).unwrap();
    writeln!(p, "def debugAssertCount : Nat := {}", out.sites.iter().filter(|(_, _, shape, _)| shape == "debug_assert").count()).unwrap();
    writeln!(p, "\nend Educe.Generated").unwrap();
    std::fs::write(Path::new(outdir).join("PanicSites.lean"), p).unwrap();

    // ---------------- builder literals (enable_* switches)
    let mut b = String::new();
    writeln!(b, "/- GENERATED by `vtool extract` from /repo/src on every run. Do not edit. -/").unwrap();
    writeln!(b, "namespace Educe.Generated\n").unwrap();
    writeln!(b, "/-- Every `FieldAttributeBuilder {{..}}` / `TypeAttributeBuilder {{..}}` literal, in source order:").unwrap();
    writeln!(b, "    (file, enclosing fn, builder, [(switch, value text)]). -/").unwrap();
    writeln!(b, "def builders : List (String × String × String × List (String × String)) := [").unwrap();
    let rows: Vec<String> = out
        .builders
        .iter()
        .filter(|(f, _, _, _)| !f.contains("/models/"))
        .map(|(a, f, n, fl)| {
            let fl: Vec<String> = fl.iter().map(|(k, v)| format!("({}, {})", lean_str(k), lean_str(v))).collect();
            format!("  ({}, {}, {}, [{}])", lean_str(a), lean_str(f), lean_str(n), fl.join(", "))
        })
        .collect();
    writeln!(b, "{}\n]", rows.join(",\n")).unwrap();
    writeln!(b, "\nend Educe.Generated").unwrap();
    std::fs::write(Path::new(outdir).join("EnableFlags.lean"), b).unwrap();

    // ---------------- cfg gates, uses, iterated maps
    let mut g = String::new();
    writeln!(g, "/- GENERATED by `vtool extract` from /repo/src on every run. Do not edit. -/").unwrap();
    writeln!(g, "namespace Educe.Generated\n").unwrap();
    writeln!(g, "/-- `mod` declarations: (module, cfg condition tokens, allow(dead_code)). -/").unwrap();
    writeln!(g, "def modGates : List (String × String × Bool) := [").unwrap();
    let rows: Vec<String> = out.gates.iter().map(|(m, c, d)| format!("  ({}, {}, {})", lean_str(m), lean_str(c), d)).collect();
    writeln!(g, "{}\n]", rows.join(",\n")).unwrap();
    writeln!(g, "\n/-- `use` items: (file, cfg condition tokens, path). -/").unwrap();
    writeln!(g, "def useItems : List (String × String × String) := [").unwrap();
    let rows: Vec<String> = out
        .uses
        .iter()
        .filter(|(_, _, u)| u.contains("crate::") || u.contains("super::") || !u.contains("::"))
        .map(|(f, c, u)| format!("  ({}, {}, {})", lean_str(f), lean_str(c), lean_str(u)))
        .collect();
    writeln!(g, "{}\n]", rows.join(",\n")).unwrap();
    writeln!(g, "\n/-- Gated macro items at file level (the `compile_error!` of supported_traits.rs). -/").unwrap();
    writeln!(g, "def gatedItems : List (String × String × String) := [").unwrap();
    let rows: Vec<String> = out.cfg_items.iter().map(|(f, c, u)| format!("  ({}, {}, {})", lean_str(f), lean_str(c), lean_str(u))).collect();
    writeln!(g, "{}\n]", rows.join(",\n")).unwrap();
    writeln!(g, "\n/-- `for` loops over maps whose order may be unspecified: (file, fn, iterated expression). -/").unwrap();
    writeln!(g, "def iteratedMaps : List (String × String × String) := [").unwrap();
    let rows: Vec<String> = out.maps.iter().map(|(f, c, u)| format!("  ({}, {}, {})", lean_str(f), lean_str(c), lean_str(u))).collect();
    writeln!(g, "{}\n]", rows.join(",\n")).unwrap();
    writeln!(g, "\n/-- Every hash-ordered collection type written in the source: (file, type). -/").unwrap();
    writeln!(g, "def hashCollections : List (String × String) := [").unwrap();
    let rows: Vec<String> = out.hash_types.iter().map(|(f, t)| format!("  ({}, {})", lean_str(f), lean_str(t))).collect();
    writeln!(g, "{}\n]", rows.join(",\n")).unwrap();
    writeln!(g, "\nend Educe.Generated").unwrap();
    std::fs::write(Path::new(outdir).join("CfgGates.lean"), g).unwrap();

    eprintln!("extract: feature gates: {}", gates_log);
    eprintln!(
        "extract: {} files, {} templates, {} panic-capable expressions, {} builder literals, {} mod gates",
        files.len(), out.templates.len(), out.sites.len(), out.builders.len(), out.gates.len()
    );
    0
}
