fn main() {
    println!("cargo:rustc-cfg=magiclen_educe_verif");
    println!("cargo:rerun-if-changed=build.rs");
}
