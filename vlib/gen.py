"""Type-directed generator of derive inputs.

An *abstract request* (which fields are ignored, which method, which rank, ...) is drawn first and
then rendered in one of its documented spellings; the abstract request is what the reference
semantics (Spec) is fed, the rendered attribute is what the real macro sees.
All random choices come from one `random.Random(seed)`.
"""
import itertools, json, random, re

# ------------------------------------------------------------------ leaf types (see PRELUDE)
INTO_TYPES = ["A8", "B8", "X16", "X32"]          # type ids used by the Into model
INTO_CONV = [("A8", "X16"), ("B8", "X16"), ("X32", "X16"), ("A8", "X32"), ("B8", "X32"), ("X16", "X32")]

# name -> (domain size, traits implemented)
LEAVES = {
    "A8": {"n": 3, "traits": {"PartialEq", "Clone", "Copy", "Debug"}, "plain": True},
    "B8": {"n": 3, "traits": {"PartialEq", "Clone", "Copy", "Debug"}, "plain": True},
    "X16": {"n": 3, "traits": {"PartialEq", "Clone", "Copy", "Debug"}, "plain": True},
    "X32": {"n": 3, "traits": {"PartialEq", "Clone", "Copy", "Debug"}, "plain": True},
    "L": {"n": 3, "traits": {"PartialEq", "Eq", "PartialOrd", "Ord", "Hash", "Clone", "Copy", "Debug", "Default"}},
    "F": {"n": 3, "traits": {"PartialEq", "PartialOrd", "Clone", "Copy", "Debug", "Default"}},   # 2 = NaN
    "S": {"n": 3, "traits": {"PartialEq", "Eq", "PartialOrd", "Ord", "Hash", "Clone", "Debug", "Default"}},
    # instrumented Clone: `clone` and `clone_from` are observably different and counted
    "K": {"n": 6, "traits": {"PartialEq", "Clone", "Debug"}},
    "KC": {"n": 6, "traits": {"PartialEq", "Clone", "Copy", "Debug"}, "clone_table": True},
    # a user's type called `PhantomData` (alias PD; written `tagged::PhantomData<L>` where the derive reads it)
    "PD": {"n": 3, "traits": {"PartialEq", "Eq", "PartialOrd", "Ord", "Hash", "Clone", "Copy", "Debug", "Default"}, "clone_table": True,
           "ty_src": "tagged::PhantomData<L>"},
    # payload types with niches / zero size (C04); no methods are defined for them
    "bool": {"n": 2, "traits": {"PartialEq", "Eq", "PartialOrd", "Ord", "Hash", "Clone", "Copy", "Debug", "Default"}},
    "char": {"n": 3, "traits": {"PartialEq", "Eq", "PartialOrd", "Ord", "Hash", "Clone", "Copy", "Debug", "Default"}},
    "NZ": {"n": 3, "traits": {"PartialEq", "Eq", "PartialOrd", "Ord", "Hash", "Clone", "Copy", "Debug"}},
    "RefU8": {"n": 3, "traits": {"PartialEq", "Eq", "PartialOrd", "Ord", "Hash", "Clone", "Copy", "Debug"}},
    "OptBox": {"n": 3, "traits": {"PartialEq", "Eq", "PartialOrd", "Ord", "Hash", "Clone", "Debug", "Default"}},
    "Inner": {"n": 3, "traits": {"PartialEq", "Eq", "PartialOrd", "Ord", "Hash", "Clone", "Copy", "Debug"}},
    "Zst": {"n": 1, "traits": {"PartialEq", "Eq", "PartialOrd", "Ord", "Hash", "Clone", "Copy", "Debug", "Default"}},
    "u8": {"n": 3, "traits": {"PartialEq", "Eq", "PartialOrd", "Ord", "Hash", "Clone", "Copy", "Debug", "Default"}},
}

PRELUDE = r'''
#![allow(dead_code, unused_variables, unused_imports, unused_mut, non_snake_case, non_camel_case_types)]
#![allow(clippy::all)]
pub mod prelude {
    pub use educe::Educe;
    pub use core::cmp::Ordering;
    pub use core::hash::{Hash, Hasher};
    pub use core::fmt;

    pub trait Leaf: Sized { const N: usize; fn d(i: usize) -> Self; fn id(&self) -> usize; }

    #[derive(Clone, Copy, Debug, PartialEq, Eq, PartialOrd, Ord, Hash, Default)]
    pub struct L(pub u8);
    impl Leaf for L { const N: usize = 3; fn d(i: usize) -> L { L(i as u8) } fn id(&self) -> usize { self.0 as usize } }

    #[derive(Clone, Copy, Debug, PartialEq, PartialOrd, Default)]
    pub struct F(pub f32);
    impl Leaf for F { const N: usize = 3;
        fn d(i: usize) -> F { F([0.0f32, 1.0, f32::NAN][i]) }
        fn id(&self) -> usize { if self.0.is_nan() { 2 } else { self.0 as usize } } }

    #[derive(Clone, Debug, PartialEq, Eq, PartialOrd, Ord, Hash, Default)]
    pub struct S(pub String);
    impl Leaf for S { const N: usize = 3;
        fn d(i: usize) -> S { S(["", "a", "b\nc"][i].to_string()) }
        fn id(&self) -> usize { match self.0.as_str() { "" => 0, "a" => 1, _ => 2 } } }

    impl Leaf for bool { const N: usize = 2; fn d(i: usize) -> bool { i == 1 } fn id(&self) -> usize { *self as usize } }
    impl Leaf for char { const N: usize = 3; fn d(i: usize) -> char { ['a', 'z', '\u{10ffff}'][i] }
        fn id(&self) -> usize { match *self { 'a' => 0, 'z' => 1, _ => 2 } } }
    pub type NZ = core::num::NonZeroU8;
    impl Leaf for NZ { const N: usize = 3; fn d(i: usize) -> NZ { NZ::new([1u8, 2, 255][i]).unwrap() }
        fn id(&self) -> usize { match self.get() { 1 => 0, 2 => 1, _ => 2 } } }
    pub type RefU8 = &'static u8;
    pub static REFS: [u8; 3] = [0, 1, 2];
    impl Leaf for RefU8 { const N: usize = 3; fn d(i: usize) -> RefU8 { &REFS[i] } fn id(&self) -> usize { **self as usize } }
    pub type OptBox = Option<Box<u8>>;
    impl Leaf for OptBox { const N: usize = 3; fn d(i: usize) -> OptBox { [None, Some(Box::new(0)), Some(Box::new(9))][i].clone() }
        fn id(&self) -> usize { match self { None => 0, Some(b) if **b == 0 => 1, _ => 2 } } }
    #[derive(Clone, Copy, Debug, PartialEq, Eq, PartialOrd, Ord, Hash)]
    pub enum Inner { X, Y(bool), Z }
    impl Leaf for Inner { const N: usize = 3; fn d(i: usize) -> Inner { [Inner::X, Inner::Y(true), Inner::Z][i] }
        fn id(&self) -> usize { match self { Inner::X => 0, Inner::Y(_) => 1, Inner::Z => 2 } } }
    #[derive(Clone, Copy, Debug, PartialEq, Eq, PartialOrd, Ord, Hash, Default)]
    pub struct Zst;
    impl Leaf for Zst { const N: usize = 1; fn d(_: usize) -> Zst { Zst } fn id(&self) -> usize { 0 } }
    impl Leaf for u8 { const N: usize = 3; fn d(i: usize) -> u8 { [0u8, 100, 200][i] } fn id(&self) -> usize { (*self / 100) as usize } }

    // C10: source / target types whose conversions are all distinguishable
    macro_rules! numleaf { ($($t:ident),*) => { $(
        #[derive(Clone, Copy, Debug, PartialEq)] pub struct $t(pub u32);
        impl Leaf for $t { const N: usize = 3; fn d(i: usize) -> $t { $t(i as u32) } fn id(&self) -> usize { self.0 as usize } }
    )* } }
    numleaf!(A8, B8, X16, X32);
    impl From<A8> for X16 { fn from(a: A8) -> X16 { X16(1000 + a.0) } }
    impl From<B8> for X16 { fn from(a: B8) -> X16 { X16(2000 + a.0) } }
    impl From<X32> for X16 { fn from(a: X32) -> X16 { X16(6000 + a.0) } }
    impl From<A8> for X32 { fn from(a: A8) -> X32 { X32(3000 + a.0) } }
    impl From<B8> for X32 { fn from(a: B8) -> X32 { X32(4000 + a.0) } }
    impl From<X16> for X32 { fn from(a: X16) -> X32 { X32(5000 + a.0) } }
    pub fn m_x16<X: Leaf>(x: X) -> X16 { X16(7000 + x.id() as u32) }
    pub fn m_x32<X: Leaf>(x: X) -> X32 { X32(8000 + x.id() as u32) }
    pub static LS: [[L; 3]; 16] = [[L(0), L(1), L(2)]; 16];
    pub static RS: [[&'static L; 3]; 16] = { let mut r = [[&LS[0][0]; 3]; 16]; let mut j = 0; while j < 16 { let mut i = 0; while i < 3 { r[j][i] = &LS[j][i]; i += 1; } j += 1; } r };
    pub static CALLS: core::sync::atomic::AtomicUsize = core::sync::atomic::AtomicUsize::new(0);
    pub fn calls_reset() { CALLS.store(0, core::sync::atomic::Ordering::SeqCst); }
    pub fn calls() -> usize { CALLS.load(core::sync::atomic::Ordering::SeqCst) }
    fn bump() { CALLS.fetch_add(1, core::sync::atomic::Ordering::SeqCst); }
    /// value in {0,1}, tag in {0,1,2}: `clone` resets the tag, `clone_from` records whether the
    /// destination already held the source's value, so the two (and their operand order) differ observably.
    #[derive(Debug, PartialEq)]
    pub struct K(pub u8, pub u8);
    impl Leaf for K { const N: usize = 6; fn d(i: usize) -> K { K((i / 3) as u8, (i % 3) as u8) } fn id(&self) -> usize { (self.0 * 3 + self.1) as usize } }
    impl Clone for K {
        fn clone(&self) -> K { bump(); K(self.0, 0) }
        fn clone_from(&mut self, s: &K) { bump(); let t = if self.0 == s.0 { 1 } else { 2 }; self.0 = s.0; self.1 = t; }
    }
    /// a user's own type that is called like a well-known one and carries data: the derive sees `tagged::PhantomData<L>`
    pub mod tagged {
        #[derive(Clone, Copy, Debug, PartialEq, Eq, PartialOrd, Ord, Hash, Default)]
        pub struct PhantomData<T>(pub T);
    }
    pub type PD = tagged::PhantomData<L>;
    impl Leaf for PD { const N: usize = 3; fn d(i: usize) -> PD { tagged::PhantomData(L(i as u8)) } fn id(&self) -> usize { (self.0).0 as usize } }
    /// like K, and `Copy`: a type whose own `Clone::clone` is observably not a bitwise copy (legal, if frowned upon)
    #[derive(Debug, PartialEq, Copy)]
    pub struct KC(pub u8, pub u8);
    impl Leaf for KC { const N: usize = 6; fn d(i: usize) -> KC { KC((i / 3) as u8, (i % 3) as u8) } fn id(&self) -> usize { (self.0 * 3 + self.1) as usize } }
    impl Clone for KC {
        fn clone(&self) -> KC { bump(); KC(self.0, 0) }
        fn clone_from(&mut self, s: &KC) { bump(); let t = if self.0 == s.0 { 1 } else { 2 }; self.0 = s.0; self.1 = t; }
    }
    pub fn eq_m_K(a: &K, b: &K) -> bool { a.0 == b.0 }
    pub fn cmp_m_K(a: &K, b: &K) -> Ordering { a.0.cmp(&b.0) }
    pub fn pcmp_m_K(a: &K, b: &K) -> Option<Ordering> { a.0.partial_cmp(&b.0) }
    pub fn hash_m_K<H: Hasher>(a: &K, h: &mut H) { h.write_u8(a.0); }
    pub fn clone_m_K(a: &K) -> K { bump(); K(1 - a.0, 2) }
    pub fn dbg_m_K(a: &K, f: &mut fmt::Formatter<'_>) -> fmt::Result { write!(f, "k{}", a.0) }

    pub fn ord3(o: Ordering) -> &'static str { match o { Ordering::Less => "lt", Ordering::Equal => "eq", Ordering::Greater => "gt" } }
    pub fn oord3(o: Option<Ordering>) -> &'static str { match o { Some(o) => ord3(o), None => "none" } }

    /// Recording hasher: every `write_*` call is logged, so "for all hashers" is literal.
    #[derive(Default)]
    pub struct Rec(pub Vec<String>);
    impl Hasher for Rec {
        fn finish(&self) -> u64 { 0 }
        fn write(&mut self, b: &[u8]) { self.0.push(format!("bytes:{:?}", b)); }
        fn write_u8(&mut self, i: u8) { self.0.push(format!("u8:{}", i)); }
        fn write_u16(&mut self, i: u16) { self.0.push(format!("u16:{}", i)); }
        fn write_u32(&mut self, i: u32) { self.0.push(format!("u32:{}", i)); }
        fn write_u64(&mut self, i: u64) { self.0.push(format!("u64:{}", i)); }
        fn write_u128(&mut self, i: u128) { self.0.push(format!("u128:{}", i)); }
        fn write_usize(&mut self, i: usize) { self.0.push(format!("usize:{}", i)); }
        fn write_i8(&mut self, i: i8) { self.0.push(format!("i8:{}", i)); }
        fn write_i16(&mut self, i: i16) { self.0.push(format!("i16:{}", i)); }
        fn write_i32(&mut self, i: i32) { self.0.push(format!("i32:{}", i)); }
        fn write_i64(&mut self, i: i64) { self.0.push(format!("i64:{}", i)); }
        fn write_i128(&mut self, i: i128) { self.0.push(format!("i128:{}", i)); }
        fn write_isize(&mut self, i: isize) { self.0.push(format!("isize:{}", i)); }
    }
    pub fn rec<T: Hash>(t: &T) -> Vec<String> { let mut r = Rec::default(); t.hash(&mut r); r.0 }
    pub fn js(v: &[String]) -> String {
        let mut s = String::from("[");
        for (i, x) in v.iter().enumerate() { if i > 0 { s.push(','); } s.push_str(&jstr(x)); }
        s.push(']'); s
    }
    pub fn jstr(x: &str) -> String {
        let mut s = String::from("\"");
        for c in x.chars() { match c { '"' => s.push_str("\\\""), '\\' => s.push_str("\\\\"), '\n' => s.push_str("\\n"),
            c if (c as u32) < 0x20 => s.push_str(&format!("\\u{:04x}", c as u32)), c => s.push(c) } }
        s.push('"'); s
    }
    pub fn ju(v: &[usize]) -> String { format!("{:?}", v) }

    // user functions named by `method(...)`: deliberately asymmetric / value-changing
    // (the methods of L are generic over the leaf: a reference too many or too few in the generated call is a type error)
    pub fn eq_m_L<T: Leaf>(a: &T, b: &T) -> bool { a.id() + 1 == b.id() }
    pub fn eq_m_F(a: &F, b: &F) -> bool { a.0 < b.0 }
    pub fn eq_m_S(a: &S, b: &S) -> bool { a.0.len() + 1 == b.0.len() }
    pub fn cmp_m_L<T: Leaf>(a: &T, b: &T) -> Ordering { (a.id() % 2, b.id()).cmp(&(b.id() % 2, a.id())) }
    pub fn cmp_m_S(a: &S, b: &S) -> Ordering { b.0.len().cmp(&a.0.len()) }
    pub fn cmp_m_F(a: &F, b: &F) -> Ordering { b.0.total_cmp(&a.0) }
    pub fn pcmp_m_L<T: Leaf>(a: &T, b: &T) -> Option<Ordering> { if a.id() == 2 && b.id() == 0 { None } else { Some(b.id().cmp(&a.id())) } }
    pub fn pcmp_m_S(a: &S, b: &S) -> Option<Ordering> { if a.0.is_empty() { None } else { Some(a.0.len().cmp(&b.0.len())) } }
    pub fn pcmp_m_F(a: &F, b: &F) -> Option<Ordering> { b.0.partial_cmp(&a.0) }
    pub fn clone_m_L(a: &L) -> L { L((a.0 + 1) % 3) }
    pub fn clone_m_S(a: &S) -> S { S(if a.0.is_empty() { "a".to_string() } else { String::new() }) }
    pub fn clone_m_F(a: &F) -> F { F(if a.0.is_nan() { 0.0 } else { f32::NAN }) }
    pub fn dbg_m_L<T: Leaf>(a: &T, f: &mut fmt::Formatter<'_>) -> fmt::Result { write!(f, "M<{}>", a.id()) }
    pub fn dbg_m_S(a: &S, f: &mut fmt::Formatter<'_>) -> fmt::Result { f.debug_list().entry(&a.0.len()).entry(&a.0).finish() }
    pub fn dbg_m_F(a: &F, f: &mut fmt::Formatter<'_>) -> fmt::Result { f.write_str("flt") }
    pub struct DbgM<'a, T>(pub &'a T, pub fn(&T, &mut fmt::Formatter<'_>) -> fmt::Result);
    impl<'a, T> fmt::Debug for DbgM<'a, T> { fn fmt(&self, f: &mut fmt::Formatter<'_>) -> fmt::Result { (self.1)(self.0, f) } }
    pub fn hash_m_L<T: Leaf, H: Hasher>(a: &T, h: &mut H) { h.write_u16(100 + a.id() as u16); }
    pub fn hash_m_S<H: Hasher>(a: &S, h: &mut H) { h.write_u32(a.0.len() as u32); h.write_u8(7); }
    pub fn hash_m_F<H: Hasher>(a: &F, h: &mut H) { h.write_u32(a.0.to_bits()); }
}
use prelude::*;
'''

METHOD_LEAVES = ["L", "F", "S", "K"]


def leaf_table_code():
    """Rust statements printing the measured leaf tables (relations, hash writes, methods)."""
    out = []
    for a, b in INTO_CONV:
        out.append(f'''
    for i in 0..3 {{ let r: {b} = Into::into(<{a} as Leaf>::d(i));
        println!("[\\"conv\\",{INTO_TYPES.index(a)},{INTO_TYPES.index(b)},{{}},{{}}]", i, r.0); }}''')
    out.append('''
    for i in 0..7000usize { println!("[\\"methv\\",\\"into\\",0,{},{}]", i, 7000 + i); println!("[\\"methv\\",\\"into\\",1,{},{}]", i, 8000 + i); if i >= 2 { break; } }''')
    for ty, info in LEAVES.items():
        if info.get("plain"):
            continue
        n = info["n"]
        tr = info["traits"]
        mid = METHOD_LEAVES.index(ty) if ty in METHOD_LEAVES else None
        cmp_e = "ord3(Ord::cmp(&a, &b))" if "Ord" in tr else "\"na\""
        pcmp_e = "oord3(PartialOrd::partial_cmp(&a, &b))" if "PartialOrd" in tr else "\"na\""
        out.append(f'''
    for i in 0..{n} {{ for j in 0..{n} {{ let a = <{ty} as Leaf>::d(i); let b = <{ty} as Leaf>::d(j);
        println!("[\\"rel\\",\\"{ty}\\",{{}},{{}},{{}},\\"{{}}\\",\\"{{}}\\"]", i, j, PartialEq::ne(&a, &b), {cmp_e}, {pcmp_e});
    }} }}''')
        if "Debug" in tr:
            out.append(f'''
    for i in 0..{n} {{ let a = <{ty} as Leaf>::d(i);
        println!("[\\"dbgv\\",\\"{ty}\\",{{}},{{}},{{}},{{}},{{}}]", i, jstr(&format!("{{:?}}", a)), jstr(&format!("{{:#?}}", a)), jstr(&format!("{{:7.2?}}", a)), jstr(&format!("{{:#7.2?}}", a))); }}''')
        if mid is None:
            if "Hash" in tr:
                out.append(f'''
    for i in 0..{n} {{ let a = <{ty} as Leaf>::d(i);
        println!("[\\"hashv\\",\\"{ty}\\",{{}},{{}}]", i, js(&rec(&a))); }}''')
            if info.get("clone_table"):
                out.append(f'''
    for i in 0..{n} {{ let a = <{ty} as Leaf>::d(i);
        println!("[\\"clonev\\",\\"{ty}\\",{{}},{{}}]", i, Clone::clone(&a).id());
        for j in 0..{n} {{ let mut x = <{ty} as Leaf>::d(i); let y = <{ty} as Leaf>::d(j); Clone::clone_from(&mut x, &y);
            println!("[\\"clonef\\",\\"{ty}\\",{{}},{{}},{{}}]", i, j, x.id()); }}
    }}''')
            continue
        out.append(f'''
    for i in 0..{n} {{ for j in 0..{n} {{ let a = {ty}::d(i); let b = {ty}::d(j);
        println!("[\\"methb\\",\\"eq\\",{mid},{{}},{{}},{{}}]", i, j, eq_m_{ty}(&a, &b));
        println!("[\\"metho\\",\\"cmp\\",{mid},{{}},{{}},\\"{{}}\\"]", i, j, ord3(cmp_m_{ty}(&a, &b)));
        println!("[\\"metho\\",\\"pcmp\\",{mid},{{}},{{}},\\"{{}}\\"]", i, j, oord3(pcmp_m_{ty}(&a, &b)));
    }} }}''')
        if "Hash" in tr:
            out.append(f'''
    for i in 0..{n} {{ let a = {ty}::d(i);
        println!("[\\"hashv\\",\\"{ty}\\",{{}},{{}}]", i, js(&rec(&a))); }}''')
        if "Clone" in tr:
            out.append(f'''
    for i in 0..{n} {{ let a = <{ty} as Leaf>::d(i);
        println!("[\\"clonev\\",\\"{ty}\\",{{}},{{}}]", i, Clone::clone(&a).id());
        println!("[\\"methv\\",\\"clone\\",{mid},{{}},{{}}]", i, clone_m_{ty}(&a).id());
        for j in 0..{n} {{ let mut x = <{ty} as Leaf>::d(i); let y = <{ty} as Leaf>::d(j); Clone::clone_from(&mut x, &y);
            println!("[\\"clonef\\",\\"{ty}\\",{{}},{{}},{{}}]", i, j, x.id()); }}
    }}''')
        out.append(f'''
    for i in 0..{n} {{ let a = {ty}::d(i); let w = DbgM(&a, dbg_m_{ty});
        println!("[\\"methd\\",{mid},{{}},{{}},{{}},{{}},{{}}]", i, jstr(&format!("{{:?}}", w)), jstr(&format!("{{:#?}}", w)), jstr(&format!("{{:7.2?}}", w)), jstr(&format!("{{:#7.2?}}", w))); }}''')
        out.append(f'''
    for i in 0..{n} {{ let a = {ty}::d(i); let mut r = Rec::default(); hash_m_{ty}(&a, &mut r);
        println!("[\\"methh\\",\\"hash\\",{mid},{{}},{{}}]", i, js(&r.0)); }}''')
    return "\n".join(out)


# ------------------------------------------------------------------ abstract definitions

class Field:
    def __init__(self, name, ty):
        self.name = name          # None for tuple fields
        self.ty = ty              # leaf type key
        self.req = {}             # trait -> abstract request dict
        self.metas = []           # rendered metas of the traits under test (`PartialEq(ignore)`, ...)
        self.attr_src = []        # final attributes (composed by finalize_attrs)


class Variant:
    def __init__(self, name, shape, fields, disc=None):
        self.name, self.shape, self.fields, self.disc = name, shape, fields, disc
        self.attr_src = []


class TypeDef:
    def __init__(self, id, kind, variants):
        self.id, self.kind, self.variants = id, kind, variants
        self.name = "T%d" % id
        self.traits = []          # rendered trait metas at type level, in order
        self.extra_derives = []   # std derives supplying supertraits
        self.attr_src = []        # extra type-level attributes (repr, ...)
        self.extra_items = []     # hand-written items next to the type (supertrait impls, ...)
        self.extra_json = {}      # extra keys of the driver description

    # ---------------------------------------------------------------- rendering
    def render(self, bare=False):
        """`bare`: only the derive input itself (no std derives, no hand-written companion items)."""
        out = []
        if self.extra_derives and not bare:
            out.append("#[derive(%s)]" % ", ".join(self.extra_derives))
        out.append("#[derive(Educe)]")
        # `via_macro`: the definition is the output of a macro_rules! macro whose `$t:ty` fragments are the field types, so
        # that the derive sees every field type inside a None-delimited group (`syn::Type::Group`). Not for the bare form
        # (the in-process expansion parses the item directly). In the "full" form the caller of the macro also supplies the
        # field names (`$f:ident`), the visibility of the fields that carry no attribute (`$p:vis`: the first token of such a
        # field then comes from the invocation), the custom method paths (`$m:path` / `$m:ident`) and the Into targets
        # (`$t:ty`): tokens of another hygiene context than the `#[derive(Educe)]` in the macro body.
        mode = getattr(self, "via_macro", False) if not bare else False
        macro_tys = [] if mode else None
        full = mode == "full"

        def frag(spec, text):
            macro_tys.append((spec, text))
            return "$x%d" % (len(macro_tys) - 1)

        def into_targets(a):
            """`Into(<type>` -> `Into($xN`"""
            res, pos = "", 0
            for m in re.finditer(r"\bInto\s*\(", a):
                if m.start() < pos:
                    continue
                i, depth = m.end(), 0
                while i < len(a) and not (depth == 0 and a[i] in ",)"):
                    depth += a[i] in "<([" 
                    depth -= a[i] in ">)]" and not (a[i] == ">" and a[i - 1] == "-")
                    i += 1
                ty = a[m.end():i].strip()
                if not ty or "$" in ty:
                    continue
                res += a[pos:m.end()] + frag("ty", ty)
                pos = i
            return res + a[pos:]

        def attr_frags(a):
            if not full or not a.lstrip().startswith("#[educe"):
                return a
            a = re.sub(r"\bmethod\s*\(\s*([A-Za-z_][\w]*(?:\s*::\s*[A-Za-z_]\w*)*)\s*\)", lambda m: "method(%s)" % frag("path", m.group(1)), a)
            a = re.sub(r"\bmethod\s*=\s*([A-Za-z_]\w*)(?=\s*[,)])", lambda m: "method = %s" % frag("ident", m.group(1)), a)
            return into_targets(a)

        for t in self.traits:
            out.append(attr_frags("#[educe(%s)]" % t))
        out += self.attr_src
        head_len = len(out)

        def fields_src(v):
            parts = []
            for f in v.fields:
                a = "".join(attr_frags(x) + "\n" for x in f.attr_src)
                ty = getattr(f, "ty_src", f.ty)
                if macro_tys is not None:
                    ty = frag("ty", ty)
                name = frag("ident", f.name) if (full and v.shape == "named") else f.name
                vis = "pub"
                if full and not f.attr_src and self.kind != "enum":
                    vis = frag("vis", "pub")
                if v.shape == "named":
                    parts.append("%s %s %s: %s" % (a, vis, name, ty))
                else:
                    parts.append("%s %s %s" % (a, vis, ty))
            return ", ".join(parts)

        if self.kind == "union":
            g = "<T: Copy>" if getattr(self, "generic", False) else ""
            if g and getattr(self, "generic_where", False):
                g = "<T> where T: Copy"          # the bound in a where-clause: every impl has to repeat it
            out.append("pub union %s%s { %s }" % (self.name, g, fields_src(self.variants[0])))
        elif self.kind == "struct":
            v = self.variants[0]
            if v.shape == "unit":
                out.append("pub struct %s;" % self.name)
            elif v.shape == "tuple":
                out.append("pub struct %s(%s);" % (self.name, fields_src(v)))
            else:
                out.append("pub struct %s { %s }" % (self.name, fields_src(v)))
        else:
            vs = []
            for v in self.variants:
                a = "".join(x + "\n" for x in v.attr_src)
                fs = fields_src(v).replace(" pub ", " ").replace("pub ", "")
                d = "" if v.disc is None else " = %s" % (getattr(v, "disc_src", None) or "%d" % v.disc)
                if v.shape == "unit":
                    vs.append("%s %s%s" % (a, v.name, d))
                elif v.shape == "tuple":
                    vs.append("%s %s(%s)%s" % (a, v.name, fs, d))
                else:
                    vs.append("%s %s { %s }%s" % (a, v.name, fs, d))
            out.append("pub enum %s { %s }" % (self.name, ", ".join(vs)))
        if macro_tys is not None:
            params = ", ".join("$x%d:%s" % (i, spec) for i, (spec, _) in enumerate(macro_tys))
            body = "\n".join(out)
            out = ["macro_rules! mk_%s { (%s) => {\n%s\n} }" % (self.name, params, body), "mk_%s!(%s);" % (self.name, ", ".join(t for _, t in macro_tys))]
        if not bare:
            out += self.extra_items
            if getattr(self, "decoys", False) and not getattr(self, "generic", False):
                out.append("#[allow(dead_code)] impl %s {%s}" % (self.name, DECOY_METHODS))
        return "\n".join(out)

    def render_plain(self):
        """The bare definition (no attributes), for #[derive] twins."""
        def fs(v):
            if v.shape == "named":
                return ", ".join("pub %s: %s" % (f.name, f.ty) for f in v.fields)
            return ", ".join("pub %s" % f.ty for f in v.fields)
        if self.kind == "struct":
            v = self.variants[0]
            return {"unit": "pub struct %s;" % self.name, "tuple": "pub struct %s(%s);" % (self.name, fs(v)),
                    "named": "pub struct %s { %s }" % (self.name, fs(v))}[v.shape]
        vs = []
        for v in self.variants:
            f = fs(v).replace("pub ", "")
            vs.append({"unit": v.name, "tuple": "%s(%s)" % (v.name, f), "named": "%s { %s }" % (v.name, f)}[v.shape])
        return "pub enum %s { %s }" % (self.name, ", ".join(vs))

    def value_expr(self, k, ids):
        v = self.variants[k]
        args = ["<%s as Leaf>::d(%d)" % (f.ty, i) for f, i in zip(v.fields, ids)]
        head = self.name if self.kind == "struct" else "%s::%s" % (self.name, v.name)
        if v.shape == "unit":
            return head
        if v.shape == "tuple":
            return "%s(%s)" % (head, ", ".join(args))
        return "%s { %s }" % (head, ", ".join("%s: %s" % (f.name, a) for f, a in zip(v.fields, args)))

    def to_json(self, traits):
        """Configuration-level description for the Lean driver (abstract requests)."""
        def fj(f):
            d = {"name": f.name or "", "ty": f.ty}
            for key, t in traits:
                d[key] = f.req.get(t, {})
            return d
        return {**self.extra_json, "kind": self.kind, "name": self.name,
                "variants": [{**getattr(v, "extra_json", {}), "name": v.name, "shape": v.shape, "disc": v.disc,
                              "fields": [fj(f) for f in v.fields]} for v in self.variants]}


FIELD_NAMES = ["a", "b", "c", "x", "y", "z", "left", "right", "key", "val",
               # names that look like identifiers of the generated code, start with `_`, contain digits, or are long
               "_x", "x1", "_0", "__0", "other", "state", "f", "source", "_s_a", "v_a", "k2",
               "long_field_name_with_many_characters_0123456789", "r#type", "r#fn"]
VARIANT_NAMES = ["A", "B", "C", "D", "E", "V6", "V7", "V8", "V9", "Va", "Vb", "Vc"]


def shapes_for(rng, kind, max_fields, max_variants, exhaustive_small=None):
    """Draw the skeleton (variants, shapes, field counts)."""
    def width():
        # now and then a wide shape: two-digit tuple indices, many named fields
        if max_fields >= 4 and rng.random() < 0.06:
            return rng.randint(max_fields + 1, 12)
        return rng.randint(0 if rng.random() < 0.1 else 1, max_fields)
    if kind == "struct":
        shape = rng.choice(["unit", "tuple", "named", "tuple", "named"])
        n = 0 if shape == "unit" else width()
        return [(None, shape, n)]
    nv = rng.randint(0 if rng.random() < 0.05 else 1, max_variants)
    if max_variants >= 3 and rng.random() < 0.04:
        nv = rng.randint(max_variants + 1, 11)       # many variants
    out = []
    for i in range(nv):
        shape = rng.choice(["unit", "tuple", "named", "tuple", "named"])
        n = 0 if shape == "unit" else width()
        out.append((VARIANT_NAMES[i], shape, n))
    return out


def make_skeleton(rng, id, kind, leaves, max_fields=4, max_variants=3):
    vs = []
    for name, shape, n in shapes_for(rng, kind, max_fields, max_variants):
        names = rng.sample(FIELD_NAMES, n) if shape == "named" else [None] * n
        fields = [Field(nm, rng.choice(leaves)) for nm in names]
        vs.append(Variant(name or "", shape, fields))
    return TypeDef(id, kind, vs)


# ------------------------------------------------------------------ spellings

def spell_bool_param(rng, name, value):
    """`ignore`-like parameter (meta_2_bool_allow_path)."""
    if value:
        return rng.choice([name, "%s = true" % name, "%s(true)" % name])
    return rng.choice(["%s = false" % name, "%s(false)" % name])


def spell_path_param(rng, name, path):
    return rng.choice(["%s(%s)" % (name, path), "%s = %s" % (name, path),
                       '%s = "%s"' % (name, path), '%s("%s")' % (name, path)])


def int_notation(rng, v):
    """a Rust integer literal (with sign) whose value is v, in one of the notations the language offers"""
    a = abs(v)
    forms = ["%d" % a, "%d" % a, "0x%x" % a, "0x%X" % a, "0b%s" % bin(a)[2:], "0o%o" % a, "%disize" % a, "%d_isize" % a]
    if a >= 1000:
        forms.append("{:_}".format(a))
        h = "%x" % a
        forms.append("0x" + "_".join([h[max(0, i - 4):i] for i in range(len(h), 0, -4)][::-1]))
    if a.bit_length() < 63:
        forms.append("%di64" % a)
    lit = rng.choice(forms)
    return ("-" if v < 0 else "") + lit


def spell_int_param(rng, name, v):
    forms = ["%s = %d" % (name, v), '%s = "%d"' % (name, v), '%s("%d")' % (name, v), "%s(%d)" % (name, v)]
    if rng.random() < 0.4:
        n = int_notation(rng, v)
        forms = ["%s = %s" % (name, n), "%s(%s)" % (name, n)]
    return rng.choice(forms)


def render_field_cmp_attr(rng, carrier, req, method_path, allow_rank=False):
    """Metas of a field attribute for PartialEq/Eq/PartialOrd/Ord/Hash-like traits: ignore / method / rank."""
    params = []
    if req.get("ignore"):
        if req.get("method") is None and req.get("rank") is None and rng.random() < 0.4:
            return ["%s = false" % carrier]
        params.append(spell_bool_param(rng, "ignore", True))
    elif rng.random() < 0.1:
        params.append(spell_bool_param(rng, "ignore", False))
    if req.get("method") is not None:
        params.append(spell_path_param(rng, "method", method_path))
    if allow_rank and req.get("rank") is not None:
        params.append(spell_int_param(rng, "rank", req["rank"]))
    if not params:
        if rng.random() < 0.08:
            return ["%s = true" % carrier]
        return []
    rng.shuffle(params)
    return ["%s(%s)" % (carrier, ", ".join(params))]


PLAIN_ATTRS = ["/// a documented field", "#[allow(dead_code)]", "#[cfg_attr(all(), allow(unused))]", "#[doc = \"x\"]"]


def noise_field_meta(rng, trait, f, shape):
    """A harmless attribute of another educed trait on the same field (independence, C15)."""
    has = trait in LEAVES.get(f.ty, {"traits": ()})["traits"]
    if trait == "Debug":
        opts = ["Debug(ignore)", "Debug = false", None, None]
        if shape == "named":
            opts.append("Debug(name = zz_%s)" % f.name.replace("r#", ""))
    elif trait == "Hash":
        opts = ["Hash(ignore)", "Hash = false"] + ([None, None] if has else [])
        if f.ty in METHOD_LEAVES:
            opts.append("Hash(method(hash_m_%s))" % f.ty)
    elif trait == "PartialEq":
        opts = ["PartialEq(ignore)", "PartialEq = false", None, None]
        if f.ty in METHOD_LEAVES:
            opts.append("PartialEq(method(eq_m_%s))" % f.ty)
    elif trait == "Clone":
        opts = [None]
        if f.ty in METHOD_LEAVES:
            opts.append("Clone(method(clone_m_%s))" % f.ty)
    else:
        opts = [None]
    return rng.choice(opts)


NOISE_OVERRIDE = None      # C15: force the set of additional traits (None = use the caller's choice)


VIA_MACRO_P = 0.15
# inherent methods of the user's type called like the trait methods the derive implements: generated code that wrote
# `self.cmp(other)` instead of `::core::cmp::Ord::cmp(self, other)` would reach these (the harness calls the traits by path)
DECOY_P = 0.2
DECOY_METHODS = """
    pub fn cmp(&self, _o: &Self) -> ::core::cmp::Ordering { ::core::cmp::Ordering::Equal }
    pub fn partial_cmp(&self, _o: &Self) -> ::core::option::Option<::core::cmp::Ordering> { ::core::option::Option::None }
    pub fn eq(&self, _o: &Self) -> bool { false }
    pub fn ne(&self, _o: &Self) -> bool { false }
    pub fn lt(&self, _o: &Self) -> bool { false }
    pub fn le(&self, _o: &Self) -> bool { false }
    pub fn gt(&self, _o: &Self) -> bool { false }
    pub fn ge(&self, _o: &Self) -> bool { false }
    pub fn clone(&self) -> Self { panic!("decoy inherent method called") }
    pub fn clone_from(&mut self, _o: &Self) { panic!("decoy inherent method called") }
    pub fn hash<HH: ::core::hash::Hasher>(&self, s: &mut HH) { s.write_u8(0xEE) }
    pub fn fmt(&self, f: &mut ::core::fmt::Formatter<'_>) -> ::core::fmt::Result { f.write_str("<decoy>") }
    pub fn default() -> Self { panic!("decoy inherent method called") }
    pub fn deref(&self) -> &u8 { &0xEE }
    pub fn deref_mut(&mut self) -> &mut u8 { panic!("decoy inherent method called") }
"""


def assign_discriminants(rng, td, hi=100):
    """explicit discriminants on some variants of an enum, in no particular order (decreasing runs included, so that
    `written value + position` coincides for different variants now and then); every value stays distinct and within 0..hi.
    Legal on fieldless enums, or together with a primitive #[repr] (the caller adds it)."""
    used = set()
    cur = None
    pool = list(range(0, min(hi, 24)))
    rng.shuffle(pool)
    if rng.random() < 0.4:
        pool.sort(reverse=True)            # strictly decreasing written values
    for k, v in enumerate(td.variants):
        nxt = 0 if cur is None else cur + 1
        if rng.random() < 0.6 or nxt in used or nxt > hi:
            cand = [d for d in pool if d not in used and d + (len(td.variants) - k) <= hi]
            if not cand:
                break
            d = cand[0]
            pool.remove(d)
            v.disc = d
            cur = d
        else:
            cur = nxt
        used.add(cur)


def finalize_attrs(rng, td, noise=()):
    """Compose each position's metas into #[educe(...)] attributes: one list or several stacked
    attributes, other educed traits' attributes before/after, plain attributes interleaved."""
    srng = random.Random(rng.random())             # type spellings: independent of the noise traits chosen below
    # now and then the definition is the output of a macro_rules! macro whose `$t:ty` fragments are the field types: the
    # derive then sees every field type inside a None-delimited group (syn::Type::Group)
    if not hasattr(td, "via_macro"):
        td.via_macro = srng.random() < VIA_MACRO_P and td.kind != "union" and not getattr(td, "no_macro", False)
        if td.via_macro and srng.random() < 0.6:
            td.via_macro = "full"
    if not hasattr(td, "decoys"):
        td.decoys = srng.random() < DECOY_P
    # now and then an enum carries written discriminants (and the primitive repr they need next to fields): irrelevant to
    # every trait but the ordering ones, whose generators draw their own
    if (td.kind == "enum" and len(td.variants) >= 2 and srng.random() < 0.1 and not getattr(td, "own_discriminants", False)
            and all(v.disc is None for v in td.variants) and not any("repr" in a for a in td.attr_src)):
        all_unit = all(v.shape == "unit" for v in td.variants)
        r = srng.choice([None, "u8", "i32", "isize"]) if all_unit else srng.choice(["u8", "i32", "isize"])
        assign_discriminants(srng, td)
        if r:
            td.attr_src.append("#[repr(%s)]" % r)
    if NOISE_OVERRIDE is not None:
        present = set(re.findall(r"(?:^|,)\s*([A-Z][A-Za-z]*)", ",".join(re.sub(r"\([^()]*(?:\([^()]*\)[^()]*)*\)", "", t) for t in td.traits)))
        noise = [t for t in NOISE_OVERRIDE if t not in present and not (t in ("PartialEq", "Hash") and td.kind == "union")]
        rng = random.Random(rng.random())          # the caller's stream must not depend on the noise
    if td.kind == "enum" and not td.variants:
        noise = [t for t in noise if t != "Debug"]     # Debug refuses a nameless empty enum by design
    for t in noise:
        if rng.random() < 0.5 and td.traits:
            i = rng.randrange(len(td.traits))
            td.traits[i] = rng.choice(["%s, %s" % (td.traits[i], t), "%s, %s" % (t, td.traits[i])])
        else:
            td.traits.insert(rng.randrange(len(td.traits) + 1), t)
    # a field called like the custom method another field of the same variant uses (a binding of that name in the
    # generated code would capture the call)
    for v in td.variants:
        if v.shape == "named" and len(v.fields) >= 2 and getattr(td, "type_spelling", False) and srng.random() < 0.12:
            paths = [m.group(1) for f in v.fields for x in getattr(f, "metas", [])
                     for m in [re.search(r'method\s*(?:=|\()\s*"?([A-Za-z_][A-Za-z0-9_]*)"?\s*[),]', x + ",")] if m]
            if paths:
                p = srng.choice(paths)
                others = [f for f in v.fields if not any(p in x for x in getattr(f, "metas", []))]
                if others and all(f.name != p for f in v.fields):
                    srng.choice(others).name = p
    for v in td.variants:
        for f in v.fields:
            if not hasattr(f, "ty_src") and LEAVES.get(f.ty, {}).get("ty_src"):
                f.ty_src = srng.choice([LEAVES[f.ty]["ty_src"], "super::prelude::" + LEAVES[f.ty]["ty_src"]]) if getattr(td, "type_spelling", False) else LEAVES[f.ty]["ty_src"]
            # the same type written differently (parenthesised, by path): irrelevant to what the impls do
            if getattr(td, "type_spelling", False) and not hasattr(f, "ty_src") and re.match(r"^[A-Za-z0-9]+$", f.ty) and srng.random() < 0.12:
                prim = f.ty in ("bool", "char", "u8", "u16", "u32", "u64", "i8", "i16", "i32", "i64", "usize", "isize", "f32", "f64")
                f.ty_src = srng.choice(["(%s)" % f.ty, ("::core::primitive::%s" if prim else "super::prelude::%s") % f.ty,
                                        ("::core::primitive::%s" if prim else "self::%s") % f.ty])
            metas = list(getattr(f, "metas", []))
            for t in noise:
                m = noise_field_meta(rng, t, f, v.shape)
                if m:
                    metas.insert(rng.randrange(len(metas) + 1), m)
            attrs = []
            if metas and rng.random() < 0.4:
                attrs = ["#[educe(%s)]" % ", ".join(metas)]
            else:
                attrs = ["#[educe(%s)]" % m for m in metas]
            if rng.random() < 0.3:
                attrs.insert(rng.randrange(len(attrs) + 1), rng.choice(PLAIN_ATTRS))
            f.attr_src = attrs
    # Debug is the one noise trait that takes an attribute at a variant: before, after or inside the attribute the
    # variant already carries (the other traits' variant scanners have to step over it)
    if "Debug" in noise and td.kind == "enum":
        for v in td.variants:
            if rng.random() < 0.3:
                m = rng.choice(["Debug(name = Zz%s)" % v.name, 'Debug(rename = "Zz%s")' % v.name, "Debug = Zz%s" % v.name]
                               + (["Debug(named_field = %s)" % (rng.choice(["true", "false"]) if v.shape == "tuple" else "true")] if v.shape != "unit" else []))
                # (`named_field = false` on a named variant would make a field's `Debug(name = ..)` noise an offence)
                if v.attr_src and v.attr_src[0].startswith("#[educe(") and rng.random() < 0.35:
                    inner = v.attr_src[0][len("#[educe("):-2]
                    v.attr_src[0] = "#[educe(%s)]" % rng.choice([m + ", " + inner, inner + ", " + m])
                else:
                    v.attr_src.insert(rng.randrange(len(v.attr_src) + 1), "#[educe(%s)]" % m)


def value_tuples(rng, td, cap_per_variant):
    """[(variant index, [value ids])] for a definition."""
    out = []
    for k, v in enumerate(td.variants):
        doms = [range(LEAVES[f.ty]["n"]) for f in v.fields]
        total = 1
        for d in doms:
            total *= len(d)
        if total <= cap_per_variant:
            combos = [list(c) for c in itertools.product(*doms)]
        else:
            seen = set()
            combos = []
            while len(combos) < cap_per_variant:
                c = tuple(rng.randrange(len(d)) for d in doms)
                if c not in seen:
                    seen.add(c)
                    combos.append(list(c))
        out += [(k, c) for c in combos]
    return out
