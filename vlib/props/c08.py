"""C08 — Default builds exactly the designated value."""
import time
from .. import common, gen, b1

# field type -> [(expression as written in the attribute, the same value built independently of educe)]
# The second column is the oracle: a bare literal converted with Into when the field type is not the
# literal's natural type, anything else evaluated as written.
PALETTE = {
    "u8": [("100", "100u8"), ("200u8", "200u8"), ("b'a'", "b'a'"), ("1 + 1", "2u8")],
    "u16": [("3", "3u16"), ("3u16", "3u16"), ("3u8", "u16::from(3u8)"), ("b'A'", "u16::from(b'A')")],
    "i64": [("7", "7i64"), ("7i32", "i64::from(7i32)"), ("-5", "-5i64"), ("7i64", "7i64"), ("b'z'", "i64::from(b'z')"), ("3000000000", "3000000000i64"), ("9223372036854775807", "i64::MAX"), ("-3000000000", "-3000000000i64")],
    # 0.1f32 / 2.7f32: values that are not exactly representable, so that f64::from(0.1f32) != 0.1f64
    "f64": [("1.5", "1.5f64"), ("2f32", "f64::from(2f32)"), ("3", "f64::from(3i32)"), ("1.5f64", "1.5f64"), ("b'0'", "f64::from(b'0')"),
            ("0.1f32", "f64::from(0.1f32)"), ("2.7f32", "f64::from(2.7f32)"), ("0.1", "0.1f64"), ("1e-3f32", "f64::from(1e-3f32)")],
    # aliases of primitive types: not spelled as the literal's natural type, so a bare literal is converted - and a negative
    # number, which is a negation and not a literal inside `expression(..)`, is used as it is
    "I64A": [("-5", "-5i64"), ("7", "7i64"), ("-40", "-40i64"), ("7i64", "7i64"), ("-7i64", "-7i64")],
    "F64A": [("-1.5", "-1.5f64"), ("2.5", "2.5f64"), ("-2.5f64", "-2.5f64")],
    "bool": [("true", "true")],
    "char": [("'x'", "'x'"), ("b'q'", "char::from(b'q')")],
    "&'static str": [('"hi"', '"hi"')],
    "String": [('"hi"', 'String::from("hi")'), ("String::new()", "String::new()"), ("'c'", "String::from('c')")],
    "W": [("7u8", "W::from(7u8)"), ("5", "W::from(5i32)"), ('"s"', 'W::from("s")'), ("true", "W::from(true)"),
          ("'c'", "W::from('c')"), ("1.5", "W::from(1.5f64)"), ("W(String::new())", "W(String::new())"), ('b"ab"', 'W::from(b"ab")')],
    # reachable from a literal through a hand-written `Into` only (no `From`): the conversion the documentation promises is `Into`
    # (literals other than W's: the end-to-end tie looks converted values up by the text of the expression)
    "WI": [("6", "<i32 as Into<WI>>::into(6)"), ('"t"', '<&str as Into<WI>>::into("t")'), ("WI(String::new())", "WI(String::new())")],
    "L": [("L(2)", "L(2)")],
    "&'static [u8; 2]": [('b"ab"', 'b"ab"')],
}
NO_DEFAULT = {"&'static [u8; 2]"}
UNION_PALETTE = {
    "u32": [("7", "7u32"), ("9u32", "9u32"), ("3u8", "u32::from(3u8)"), ("b'A'", "u32::from(b'A')"), ("4294967295", "u32::MAX")],
    "i32": [("-1", "-1i32"), ("5", "5i32")],
    "f32": [("1.5", "1.5f32"), ("2f32", "2f32"), ("0.1", "0.1f32"), ("0.1f32", "0.1f32")],
    "[u8; 4]": [("[1, 2, 3, 4]", "[1u8, 2, 3, 4]")],
}
PRELUDE_EXTRA = r'''
mod wtypes {
    pub type I64A = i64;
    pub type F64A = f64;
    #[derive(Debug, Default, Clone, PartialEq)] pub struct W(pub String);
    impl From<u8> for W { fn from(v: u8) -> W { W(format!("u8:{}", v)) } }
    impl From<i32> for W { fn from(v: i32) -> W { W(format!("i32:{}", v)) } }
    impl From<&str> for W { fn from(v: &str) -> W { W(format!("str:{}", v)) } }
    impl From<bool> for W { fn from(v: bool) -> W { W(format!("bool:{}", v)) } }
    impl From<char> for W { fn from(v: char) -> W { W(format!("char:{}", v)) } }
    impl From<f64> for W { fn from(v: f64) -> W { W(format!("f64:{}", v)) } }
    impl From<&[u8; 2]> for W { fn from(v: &[u8; 2]) -> W { W(format!("bytes:{:?}", v)) } }
    #[derive(Debug, Default, Clone, PartialEq)] pub struct WI(pub String);
    #[allow(clippy::from_over_into)] impl Into<WI> for i32 { fn into(self) -> WI { WI(format!("i32:{}", self)) } }
    #[allow(clippy::from_over_into)] impl Into<WI> for &str { fn into(self) -> WI { WI(format!("str:{}", self)) } }
}
'''


def spell_expr(rng, e, allow_shorthand=True):
    forms = ["Default(expression = %s)", "Default(expr = %s)", "Default(expression(%s))", "Default(expr(%s))"]
    if allow_shorthand:
        forms += ["Default = %s", "Default = %s"]
    return rng.choice(forms) % e


class Def:
    pass


class P(b1.Plugin):
    ops = ("default", "new")
    driver_traits = (("default", "Default"),)
    rule = ("struct/enum/union definitions with 0-4 fields over u8/u16/i64/f64/bool/char/&str/String/W(From-tagged wrapper)/L/&[u8;2] "
            "(unions: u32/i32/f32/[u8;4]); the default marker at every variant / union-field position (or absent for sole ones); "
            "per field no expression or a palette expression (bare literals of every kind incl. suffixed ones whose natural type "
            "differs from the field type, non-literal expressions) in every spelling (= e, expression = e, expr = e, expression(e), "
            "expr(e)); optionally a type-level expression and `new`. Oracle values are built independently of educe (Into applied "
            "iff the literal's natural type is not the field type). distinct_nontrivial = definitions with >=1 expression or marker")

    prelude_extra = PRELUDE_EXTRA + "use wtypes::*;\n"
    mod_uses = "use super::wtypes::*;"
    no_values = True
    min_distinct = 1     # one value per definition: T::default()

    def __init__(self, kinds=("struct", "enum", "enum", "union")):
        self.expr_tab = []      # (id, type, oracle expression)
        self.kinds = list(kinds)

    def expr_id(self, ty, oracle):
        self.expr_tab.append((len(self.expr_tab), ty, oracle))
        return len(self.expr_tab) - 1

    def make(self, rng, i):
        kind = rng.choice(self.kinds)
        pal = UNION_PALETTE if kind == "union" else PALETTE
        tys = list(pal)
        td = gen.TypeDef(i, "enum" if kind == "enum" else "struct", [])
        td.kind = kind if kind != "union" else "union"
        if kind == "enum":
            nv = rng.randint(1, 3)
            shapes = [rng.choice(["unit", "tuple", "named"]) for _ in range(nv)]
        elif kind == "struct":
            shapes = [rng.choice(["unit", "tuple", "named", "named"])]
        else:
            shapes = ["named"]
        names = gen.VARIANT_NAMES
        for k, sh in enumerate(shapes):
            n = 0 if sh == "unit" else rng.randint(1, 4) if kind != "union" else rng.randint(1, 3)
            fnames = rng.sample(gen.FIELD_NAMES, n) if sh == "named" else [None] * n
            fields = []
            for fn in fnames:
                f = gen.Field(fn, rng.choice(tys))
                f.ty_src = f.ty
                fields.append(f)
            td.variants.append(gen.Variant(names[k] if kind == "enum" else "", sh, fields))
        # designation
        new = rng.random() < 0.3
        type_expr = None
        chosen = 0
        if kind == "enum":
            chosen = rng.randrange(len(td.variants))
        for k, v in enumerate(td.variants):
            v.dflag = False
            for f in v.fields:
                f.req["Default"] = {"expr": None, "flag": False}
        if kind != "union" and rng.random() < 0.12:
            # type-level expression: a constructor of the chosen variant with palette oracle values
            v = td.variants[chosen]
            args = [rng.choice(PALETTE[f.ty])[1] for f in v.fields]
            head = td.name if kind == "struct" else "%s::%s" % (td.name, v.name)
            src = head if v.shape == "unit" else ("%s(%s)" % (head, ", ".join(args)) if v.shape == "tuple" else
                                                  "%s { %s }" % (head, ", ".join("%s: %s" % (f.name, a) for f, a in zip(v.fields, args))))
            type_expr = (self.expr_id("@" + td.name, src), src)
            if rng.random() < 0.4:
                # a bare literal as the type-level expression: educe converts it with Into, so the type needs `From<literal type>`;
                # the conversion is written by hand here and builds the value above from the literal it receives
                lit, lty, probe = rng.choice([("7", "i32", "v == 7"), ('"anon"', "&'static str", 'v == "anon"'), ("true", "bool", "v"),
                                              ("'c'", "char", "v == 'c'"), ("2.5", "f64", "v == 2.5"), ('b"ab"', "&'static [u8; 2]", "v[1] == b'b'"),
                                              ("7u8", "u8", "v == 7"), ("0x10", "i32", "v == 16")])      # (`-3` is a negation, not a literal)
                td.from_impl = "impl From<%s> for %s { fn from(v: %s) -> Self { assert!(%s); %s } }" % (lty, td.name, lty, probe, src)
                type_expr = (self.expr_id("@" + td.name, "<%s as From<%s>>::from(%s)" % (td.name, lty, lit)), lit)
        elif kind == "union":
            v = td.variants[0]
            ci = rng.randrange(len(v.fields))
            f = v.fields[ci]
            if len(v.fields) == 1 and rng.random() < 0.4:
                pass                                            # sole field, no marker
            elif rng.random() < 0.5:
                f.req["Default"]["flag"] = True
                f.metas = ["Default"]
            else:
                e, oracle = rng.choice(UNION_PALETTE[f.ty])
                f.req["Default"]["expr"] = self.expr_id(f.ty, oracle)
                f.metas = [spell_expr(rng, e)]
        else:
            if kind == "enum" and (len(td.variants) > 1 or rng.random() < 0.5):
                td.variants[chosen].dflag = True
                td.variants[chosen].attr_src = ["#[educe(Default)]"]
            for f in td.variants[chosen].fields:
                if rng.random() < 0.6 or f.ty in NO_DEFAULT:
                    e, oracle = rng.choice(PALETTE[f.ty])
                    f.req["Default"]["expr"] = self.expr_id(f.ty, oracle)
                    f.metas = [spell_expr(rng, e)]
        params = []
        if new:
            params.append(rng.choice(["new", "new = true", "new(true)"]))
        if type_expr:
            params.append(rng.choice(["expression = %s", "expr = %s", "expression(%s)", "expr(%s)"]) % type_expr[1])
        rng.shuffle(params)
        td.traits = ["Default(%s)" % ", ".join(params)] if params else ["Default"]
        td.extra_json = {"typeexpr": type_expr[0] if type_expr else None, "new": new, "kind": kind}
        td.new = new
        td.chosen = chosen
        for k, v in enumerate(td.variants):
            v.extra_json = {"dflag": v.dflag}
        noise = [t for t in ("Debug", "PartialEq") if kind != "union" and rng.random() < 0.35]
        td.via_macro = rng.random() < 0.25          # unions too
        gen.finalize_attrs(rng, td, noise)
        td.extra_items = [self.fp_fn(td)] + ([td.from_impl] if getattr(td, "from_impl", None) else [])
        return td

    def fp_fn(self, td):
        if td.kind == "union":
            return ("fn fp(x: &%s) -> Vec<u8> { unsafe { core::slice::from_raw_parts(x as *const %s as *const u8, core::mem::size_of::<%s>()).to_vec() } }"
                    % (td.name, td.name, td.name))
        arms = []
        for k, v in enumerate(td.variants):
            head = td.name if td.kind == "struct" else "%s::%s" % (td.name, v.name)
            names = ["f%d" % j for j in range(len(v.fields))]
            ids = "vec![%s]" % ", ".join('format!("{:?}", %s)' % n for n in names)
            if v.shape == "unit":
                arms.append("%s => (%d, vec![])," % (head, k))
            elif v.shape == "tuple":
                arms.append("%s(%s) => (%d, %s)," % (head, ", ".join(names), k, ids))
            else:
                arms.append("%s { %s } => (%d, %s)," % (head, ", ".join("%s: %s" % (f.name, n) for f, n in zip(v.fields, names)), k, ids))
        return "fn fp(x: &%s) -> (usize, Vec<String>) { match x { %s } }" % (td.name, " ".join(arms))

    def nontrivial(self, td):
        return any(f.req["Default"]["expr"] is not None or f.req["Default"]["flag"] for v in td.variants for f in v.fields) \
            or any(v.dflag for v in td.variants) or td.extra_json["typeexpr"] is not None

    def observe(self, td, vals):
        out = []
        if td.kind == "union":
            # images of `U { field_j: init_j }` for every field j
            v = td.variants[0]
            for j, f in enumerate(v.fields):
                eid = f.req["Default"]["expr"]
                init = [o for (i, t, o) in self.expr_tab if i == eid][0] if eid is not None else "<%s as Default>::default()" % f.ty
                out.append(f'        {{ let u = {td.name} {{ {f.name}: {init} }}; println!("[\\"uimg\\",{td.id},{j},{{}}]", jstr(&format!("{{:?}}", fp(&u)))); }}')
            out.append(f'        {{ let d = <{td.name} as Default>::default(); println!("[\\"default\\",{td.id},[{td.id},{{}}]]", jstr(&format!("{{:?}}", fp(&d)))); }}')
            if td.new:
                out.append(f'        {{ let d = {td.name}::new(); println!("[\\"new\\",{td.id},[{td.id},{{}}]]", jstr(&format!("{{:?}}", fp(&d)))); }}')
            return "\n".join(out)
        te = td.extra_json["typeexpr"]
        if te is not None:
            src = [o for (i, t, o) in self.expr_tab if i == te][0]
            out.append(f'        {{ let v: {td.name} = {src}; let r = fp(&v); println!("[\\"texprv\\",{te},{{}},{{}}]", r.0, js(&r.1)); }}')
        out.append(f'        {{ let d = <{td.name} as Default>::default(); let r = fp(&d); println!("[\\"default\\",{td.id},[{{}},{{}}]]", r.0, js(&r.1)); }}')
        if td.new:
            out.append(f'        {{ let d = {td.name}::new(); let r = fp(&d); println!("[\\"new\\",{td.id},[{{}},{{}}]]", r.0, js(&r.1)); }}')
        return "\n".join(out)

    def tables(self):
        """Rust statements measuring the oracle value of every expression and every type's default."""
        out = []
        for i, ty, oracle in self.expr_tab:
            if ty.startswith("@"):
                continue
            out.append(f'    {{ let v: {ty} = {oracle}; println!("[\\"exprv\\",{i},{{}}]", jstr(&format!("{{:?}}", v))); }}')
        for ty in list(PALETTE) + list(UNION_PALETTE):
            if ty in NO_DEFAULT:
                continue
            out.append(f'    {{ let v: {ty} = Default::default(); println!("[\\"dfltv\\",{gen_json(ty)},{{}}]", jstr(&format!("{{:?}}", v))); }}')
        return "\n".join(out)

    def prepare(self, tables):
        self.uimg = {}
        for l in tables:
            if l[0] == "uimg":
                self.uimg.setdefault(l[1], {})[l[2]] = l[3]

    def canon(self, r):
        # union observation: [def id, image] -> the set of fields whose initialisation gives that image
        if isinstance(r, list) and len(r) == 2 and isinstance(r[1], str):
            imgs = self.uimg.get(r[0], {})
            return {"union_fields_matching_image": sorted(j for j, im in imgs.items() if im == r[1])}
        return r

    def agree(self, impl, other):
        if isinstance(impl, dict):
            return isinstance(other, list) and other[0] in impl["union_fields_matching_image"]
        return impl == other


def gen_json(s):
    import json
    return json.dumps(json.dumps(s))[1:-1]


def main(tier):
    t0 = time.time()
    proof = common.proof_obligations("C08", modules=["EduceModel.Props.C08", "EduceModel.Props.E2E", "EduceModel.Props.Profile"])
    n_defs = 300 if tier == "quick" else 4000
    tie = b1.run_b1("C08", P(), n_defs, 1, common.seed())
    return common.finish("C08", tier, t0, proof, tie)
