from .c11 import run


def main(tier):
    return run("C12", tier, {"all", "custom", "custom2", "disabled", "disabled2", "auto"})
