"""C06 — Debug renders the effective shape exactly like core::fmt's builders."""
import time
from .. import common, gen, b1


def spell_name_custom(rng, n, allow_shorthand=True):
    forms = ["Debug(name = %s)" % n, "Debug(name(%s))" % n, "Debug(rename = %s)" % n, 'Debug(name = "%s")' % n,
             'Debug(rename("%s"))' % n]
    if allow_shorthand:
        forms += ["Debug = %s" % n, 'Debug = "%s"' % n]
    return rng.choice(forms)


def name_param(rng, cfg):
    """`name`-parameter text for a NameCfg (kind, name), or None when it is the position's default."""
    kind, n = cfg
    if kind == "custom":
        return rng.choice(["name = %s" % n, "name(%s)" % n, "rename = %s" % n, 'name = "%s"' % n, 'rename("%s")' % n])
    if kind == "disable":
        return rng.choice(["name = false", "name(false)", 'name = ""', "rename = false"])
    return rng.choice(["name = true", "name(true)"])


class P(b1.Plugin):
    ops = ("dbg", "dbgd")
    driver_traits = (("debug", "Debug"),)
    rule = ("struct/enum definitions with 0-3 fields of leaf types L/S(multi-line pretty output)/F/K; name settings at type and "
            "variant level (default / custom in every spelling / disabled / enabled), named_field at struct and variant level, per "
            "field ignore / method / rename (only where keys are shown); every value printed with {:?} and {:#?}, and with {:7.2?} and {:#7.2?} (the builders hand width and precision on to the "
            "values only: the model is evaluated with the leaf texts measured under the same specification); parameter-free "
            "definitions are also printed next to a #[derive(Debug)] twin (op dbgd). distinct_nontrivial = definitions with a "
            "non-default setting on which at least two different strings were observed")

    def make(self, rng, i):
        self.rng = rng
        kind = rng.choice(["struct", "enum", "enum"])
        plain = rng.random() < 0.15
        # a third of the definitions draw every knob uniformly, so that rare conjunctions (named_field on a tuple
        # variant + name disabled + method, ...) occur often enough
        u = rng.random() < 0.35
        # every third enum definition walks the product of the type- and variant-level settings systematically
        # (shape x named_field x variant name x enum name), with one field carrying method + rename
        sysk = None
        if kind == "enum" and i % 3 == 0:
            sysk = (i // 3) % 54
            plain = False
        td = gen.make_skeleton(rng, i, kind, ["L", "L", "S", "F", "K"], max_fields=3)
        if sysk is not None:
            shape = ["tuple", "named"][sysk % 2]
            names = rng.sample(gen.FIELD_NAMES[:10], 2) if shape == "named" else [None, None]
            td.variants = [gen.Variant("A", shape, [gen.Field(names[0], "L"), gen.Field(names[1], rng.choice(["L", "S"]))])] + td.variants[1:3]
            for k, v in enumerate(td.variants):
                v.name = gen.VARIANT_NAMES[k]
        # identifiers outside ASCII (legal since Rust 1.53): names are handled as text in several places of the handler
        if rng.random() < 0.15:
            td.name = "Tß%d" % i
        if kind == "enum" and rng.random() < 0.2:
            for v in td.variants:
                v.name = v.name + rng.choice(["é", "ß", "Ω", ""])
        for v in td.variants:
            for f in v.fields:
                if f.name and f.name.startswith("r#"):
                    f.name = "raw_" + f.name[2:]     # educe prints `r#type`, #[derive(Debug)] prints `type`: outside the property ("ordinary identifiers")
        td.plain = plain
        params = []
        tdef = "default" if kind == "struct" else "disable"
        tname = (tdef, None)
        if not plain:
            r = rng.random()
            if sysk is not None:
                r = [0.1, 0.4, 0.9][(sysk // 18) % 3]
            if r < (0.33 if u else 0.25):
                tname = ("custom", rng.choice(["Ren%d", "Ren%d", "Größe%d"]) % i)
            elif r < (0.5 if u else 0.45):
                tname = ("disable", None) if kind == "struct" else ("default", None)
        for v in td.variants:
            named_default = (v.shape != "tuple") if kind == "struct" else (v.shape == "named")
            v.nf = None
            vname = ("default", None)
            if not plain:
                if rng.random() < (0.67 if u else 0.35) and (kind == "struct" or v.shape != "unit"):
                    v.nf = rng.random() < 0.5
                if kind == "enum":
                    r = rng.random()
                    if r < (0.33 if u else 0.25):
                        vname = ("custom", rng.choice(["V%s", "V%s", "Üv%s"]) % v.name)
                    elif r < (0.67 if u else 0.4):
                        vname = ("disable", None)
            if sysk is not None and v is td.variants[0]:
                v.nf = [None, True, False][(sysk // 2) % 3]
                vname = [("default", None), ("custom", "V%s" % v.name), ("disable", None)][(sysk // 6) % 3]
            named = named_default if v.nf is None else v.nf
            all_method = u and rng.random() < 0.25        # every shown field through a custom method
            for f in v.fields:
                req = {"ignore": False, "method": None, "rename": None}
                if not plain and all_method:
                    req["ignore"] = rng.random() < 0.3
                    if not req["ignore"]:
                        req["method"] = gen.METHOD_LEAVES.index(f.ty)
                elif not plain:
                    r = rng.random()
                    req["ignore"] = r < (0.2 if u else 0.25)
                    if (0.2 if u else 0.25) <= r < (0.6 if u else 0.5):
                        req["method"] = gen.METHOD_LEAVES.index(f.ty)
                    if req["ignore"] and rng.random() < 0.2:
                        req["method"] = gen.METHOD_LEAVES.index(f.ty)  # both: a field switched off that still names its method
                    if named and not req["ignore"] and rng.random() < (0.45 if u else 0.3):
                        req["rename"] = "k_%s" % (f.name or "t")
                if sysk is not None and v is td.variants[0] and f is v.fields[0]:
                    req = {"ignore": False, "method": gen.METHOD_LEAVES.index(f.ty), "rename": ("k_%s" % (f.name or "t")) if named else None}
                f.req["Debug"] = req
            # refused when nothing would be shown: keep a name in that case
            shown = any(not f.req["Debug"]["ignore"] for f in v.fields)
            if kind == "struct":
                if not shown and tname[0] == "disable":
                    tname = ("default", None)
            else:
                eff_t = tname[0] != "disable"
                if not shown and not eff_t and vname[0] == "disable":
                    vname = ("default", None)
            v.vname = vname
        if kind == "enum" and not td.variants and tname[0] == "disable":
            tname = ("default", None)
        # ---- render
        if kind == "struct":
            v = td.variants[0]
            if tname[0] != "default":
                params.append(name_param(rng, tname))
            if v.nf is not None:
                params.append(rng.choice(["named_field = %s", "named_field(%s)"]) % ("true" if v.nf else "false"))
        else:
            if tname[0] != "disable":
                params.append(name_param(rng, tname))
        rng.shuffle(params)
        if len(params) == 1 and tname[0] == "custom" and params[0].startswith(("name =", "rename =")) and rng.random() < 0.4:
            td.traits = ["Debug = %s" % tname[1]]
        elif params:
            td.traits = ["Debug(%s)" % ", ".join(params)]
        else:
            td.traits = ["Debug"]
        td.extra_json = {"tname": {"kind": tname[0], "name": tname[1]}}
        for v in td.variants:
            v.extra_json = {"vname": {"kind": v.vname[0], "name": v.vname[1]}, "named_field": v.nf if kind == "enum" else None}
            if kind == "struct":
                v.extra_json["named_field"] = v.nf
            if kind == "enum":
                vp = []
                if v.vname[0] != "default":
                    vp.append(name_param(rng, v.vname))
                if v.nf is not None:
                    vp.append(rng.choice(["named_field = %s", "named_field(%s)"]) % ("true" if v.nf else "false"))
                rng.shuffle(vp)
                if len(vp) == 1 and v.vname[0] == "custom" and vp[0].startswith("name =") and rng.random() < 0.3:
                    v.attr_src = ["#[educe(Debug = %s)]" % v.vname[1]]
                elif vp:
                    v.attr_src = ["#[educe(Debug(%s))]" % ", ".join(vp)]
            named_default = (v.shape != "tuple") if kind == "struct" else (v.shape == "named")
            named = named_default if v.nf is None else v.nf
            for f in v.fields:
                req = f.req["Debug"]
                ps = []
                if req["ignore"]:
                    if rng.random() < 0.4:
                        f.metas = ["Debug = false"]
                        continue
                    ps.append(gen.spell_bool_param(rng, "ignore", True))
                if req["method"] is not None:
                    ps.append(gen.spell_path_param(rng, "method", "dbg_m_%s" % f.ty))
                if req["rename"]:
                    if not ps and rng.random() < 0.4:
                        f.metas = [rng.choice(["Debug = %s", 'Debug = "%s"']) % req["rename"]]
                        continue
                    ps.append(rng.choice(["name = %s", "name(%s)", "rename = %s", 'rename("%s")', 'name = "%s"']) % req["rename"])
                rng.shuffle(ps)
                f.metas = ["Debug(%s)" % ", ".join(ps)] if ps else []
        noise = [] if plain else [t for t in ("PartialEq", "Clone") if rng.random() < 0.25]
        td.type_spelling = True
        gen.finalize_attrs(rng, td, noise)
        if kind == "enum" and td.variants and not plain and rng.random() < 0.3:
            # Default educed as well: the only other trait that takes an attribute at a variant, so the Debug attribute of
            # the designated variant stands before, after or inside the attribute that carries the marker
            cands = [v for v in td.variants if all("Default" in gen.LEAVES[f.ty]["traits"] for f in v.fields)]
            if cands:
                v = rng.choice(cands)
                td.traits.insert(rng.randrange(len(td.traits) + 1), "Default")
                if v.attr_src and rng.random() < 0.35:
                    inner = v.attr_src[0][len("#[educe("):-2]
                    v.attr_src[0] = "#[educe(%s)]" % rng.choice(["Default, " + inner, inner + ", Default"])
                else:
                    v.attr_src.insert(rng.randrange(len(v.attr_src) + 1), "#[educe(Default)]")
        if plain:
            td.extra_items = ["pub mod twin { use super::super::prelude::*; #[derive(Debug)] %s }" % td.render_plain()]
        return td

    def nontrivial(self, td):
        return not td.plain

    def observe(self, td, vals):
        if not vals:
            return "        let _ = 0;"
        items = ", ".join("(%d, vec!%s, %s)" % (k, ids, td.value_expr(k, ids)) for k, ids in vals)
        out = f'''
        let vs: Vec<(usize, Vec<usize>, {td.name})> = vec![{items}];
        for a in vs.iter() {{
            println!("[\\"dbg\\",{td.id},{{}},{{}},false,{{}}]", a.0, ju(&a.1), jstr(&format!("{{:?}}", a.2)));
            println!("[\\"dbg\\",{td.id},{{}},{{}},true,{{}}]", a.0, ju(&a.1), jstr(&format!("{{:#?}}", a.2)));
            println!("[\\"dbg\\",{td.id},{{}},{{}},2,{{}}]", a.0, ju(&a.1), jstr(&format!("{{:7.2?}}", a.2)));
            println!("[\\"dbg\\",{td.id},{{}},{{}},3,{{}}]", a.0, ju(&a.1), jstr(&format!("{{:#7.2?}}", a.2)));
        }}'''
        if td.plain:
            titems = ", ".join("twin::" + td.value_expr(k, ids) for k, ids in vals)
            out += f'''
        let ts: Vec<twin::{td.name}> = vec![{titems}];
        for (a, t) in vs.iter().zip(ts.iter()) {{
            println!("[\\"dbgd\\",{td.id},{{}},{{}},false,{{}}]", a.0, ju(&a.1), format!("{{:?}}", a.2) == format!("{{:?}}", t));
            println!("[\\"dbgd\\",{td.id},{{}},{{}},true,{{}}]", a.0, ju(&a.1), format!("{{:#?}}", a.2) == format!("{{:#?}}", t));
        }}'''
        return out

    def canon(self, r):
        return r


def main(tier):
    t0 = time.time()
    proof = common.proof_obligations("C06", modules=["EduceModel.Props.C06", "EduceModel.Props.E2E", "EduceModel.Props.Profile"])
    n_defs, cap_vals = (250, 8) if tier == "quick" else (2500, 27)
    tie = b1.run_b1("C06", P(), n_defs, cap_vals, common.seed())
    return common.finish("C06", tier, t0, proof, tie)
