"""C14 — alternative attribute spellings are interchangeable."""
import json, random, time
from .. import common, attr, spellings


def main(tier):
    t0 = time.time()
    proof = common.proof_obligations("C14", modules=["EduceModel.Props.C14", "EduceModel.Props.ListParse"])
    rng = random.Random(common.seed())
    tie = {"evaluations": 0, "distinct_nontrivial": 0, "failing": [], "broken": [], "broken_details": [], "known": [], "samples": [], "extra": {}}
    groups = list(spellings.generate())
    if tier == "quick":
        by = {}
        for g in groups:
            by.setdefault(g[0], []).append(g)
        groups = []
        for k, v in by.items():
            rng.shuffle(v)
            groups += v[:40]
    cases, gid = [], []
    for g, (kind, srcs) in enumerate(groups):
        for s in srcs:
            gid.append(g)
            cases.append((len(cases), s))
    try:
        real = attr.expand_real(cases)
        model = attr.expand_model(real)
    except (common.BuildError, RuntimeError) as e:
        tie["broken"].append("B3: " + str(e)[:500])
        return common.finish("C14", tier, t0, proof, tie)
    members = {}
    for (i, s), g in zip(cases, gid):
        members.setdefault(g, []).append(i)
    kinds = {}
    neg_known = []
    for g, ids in members.items():
        kind = groups[g][0]
        kinds[kind] = kinds.get(kind, 0) + 1
        tie["evaluations"] += len(ids)
        outs = {}
        for i in ids:
            r = real[i]
            key = json.dumps([r["outcome"], r.get("tokens"), attr.classify(r.get("message", "")) if r["outcome"] == "err" else None])
            outs.setdefault(key, []).append(i)
        refused = [i for i in ids if real[i]["outcome"] != "ok"]
        if kind == "negative number as expression" and len(outs) > 1 and not refused:
            known = [k for k in common.known_findings() if k.get("status") == "open" and k.get("property") == "C14"
                     and k.get("matcher", {}).get("kind") == "negative-number-default-expression"]
            toks = sorted({(real[v[0]].get("tokens") or "") for v in outs.values()}, key=len)
            # the finding: the spellings differ in exactly the Into conversion around the number
            if known and len(toks) == 2 and ":: core :: convert :: Into :: into" in toks[1] and ":: core :: convert :: Into :: into" not in toks[0]:
                neg_known.append(cases[outs[sorted(outs)[0]][0]][1].split("\n")[-1][:80])
                continue
        if len(outs) > 1 or refused:
            ex = [cases[v[0]][1] for v in outs.values()][:3]
            tie["failing"].append({"what": ("documented spellings of one request expand differently (%s)" % kind) if len(outs) > 1
                                   else ("a documented spelling is refused (%s)" % kind),
                                   "rust_source": ex[0], "other_spelling": ex[1] if len(ex) > 1 else None,
                                   "observed": [(real[v[0]]["outcome"], (real[v[0]].get("message") or real[v[0]].get("tokens") or "")[:300]) for v in outs.values()][:3],
                                   "expected_spec": "one accepted expansion for the whole group"})
            continue
        # model: equal within the group (theorem side), and equal to the implementation's headers
        mouts = {json.dumps(model.get(i)) for i in ids}
        if len(mouts) > 1:
            tie["broken"].append("B3: the model distinguishes spellings the implementation does not (%s)" % kind)
            tie["broken_details"].append({"rust_source": [cases[i][1] for i in ids[:2]]})
        bad = attr.compare(real[ids[0]], model[ids[0]]) if ids[0] in model else ["no model result"]
        if bad:
            tie["broken"].append("B3 (%s): %s" % (kind, bad[0][:200]))
            tie["broken_details"].append({"rust_source": cases[ids[0]][1], "disagreement": bad})
        tie["distinct_nontrivial"] += 1
    if neg_known:
        tie["known"].append("a negative number as Default expression is converted with Into in the `= -N` spelling at the end of its list and used "
                            "as written in the `(-N)` spelling or before another parameter (%d spelling groups)" % len(neg_known))
    tie["failing"] = tie["failing"][:3]
    tie["broken"] = tie["broken"][:3]
    tie["extra"]["groups_by_kind"] = kinds
    tie["rule"] = ("spelling groups: for each kind of request (ignore, method path, rank incl. negative and extreme values, type / variant / "
                   "field names incl. disabling, named_field, bound incl. several predicates, default expressions, new, attribute grouping and "
                   "trait order at type and field level incl. interleaved foreign attributes, parameter order, Ord/PartialOrd and PartialEq/Eq "
                   "carriers) all documented spellings x struct / enum / union x tuple / named x positions; within a group every member must be "
                   "accepted and all real token streams must be identical; the model must agree. distinct_nontrivial = groups (>=2 spellings each)")
    tie["samples"] = [{"kind": groups[g][0], "spellings": [cases[i][1] for i in ids[:3]]} for g, ids in list(members.items())[::max(1, len(members) // 4)][:4]]
    return common.finish("C14", tier, t0, proof, tie)
