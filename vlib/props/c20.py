"""C20 — union impls are byte-wise and only generated behind an explicit `unsafe`."""
import time
from .. import common, gen, b1
from .c06 import name_param

GROUPS = {1: ["u8", "i8", "[u8; 1]"], 2: ["u16", "i16", "[u8; 2]"], 4: ["u32", "i32", "f32", "[u8; 4]", "[u16; 2]"],
          8: ["u64", "i64", "f64", "[u8; 8]", "[u32; 2]"], 16: ["u128", "[u8; 16]", "[u64; 2]"]}
PATTERNS = [0x00, 0x01, 0xFF, 0x7F, 0x80, 0x2A]


class P(b1.Plugin):
    ops = ("ueq", "uhash", "udbg")
    driver_traits = ()
    no_values = True
    rule = ("union definitions with 1-3 fields of one size class (1/2/4/8/16 bytes, integers, floats, byte/word arrays, different "
            "alignments, optionally generic over a Copy parameter), Debug/PartialEq/Hash educed with the `unsafe` marker first, Debug "
            "name default / custom (every spelling) / disabled; values initialised from byte patterns over {00,01,FF,7F,80,2A} through "
            "a byte-array field; observed: == on all pairs, the recording hasher's writes, {:?} and {:#?}. "
            "distinct_nontrivial = definitions on which at least two different results were observed")

    def make(self, rng, i):
        size = rng.choice(list(GROUPS))
        td = gen.TypeDef(i, "struct", [])
        td.kind = "union"
        n = rng.randint(1, 3)
        tys = rng.sample(GROUPS[size], min(n, len(GROUPS[size])))
        generic = rng.random() < 0.2
        fields = []
        for j, ty in enumerate(tys):
            f = gen.Field(gen.FIELD_NAMES[j], ty)
            f.ty_src = ty
            fields.append(f)
        padded = not generic and rng.random() < 0.3
        if padded:
            # bytes behind the largest field: an odd-sized byte array next to an aligned scalar under repr(C), or a lone small
            # field under repr(align(..)); size_of::<Self>() exceeds every field's size
            if rng.random() < 0.6:
                al, sc = rng.choice([(2, "u16"), (4, "u32"), (4, "f32"), (8, "u64"), (2, "[u16; 2]")])
                k = rng.choice([x for x in (3, 5, 6, 7, 9, 10, 11, 13) if x % al != 0 and x > {"u16": 2, "u32": 4, "f32": 4, "u64": 8, "[u16; 2]": 4}[sc]])
                fields = [gen.Field("a", "[u8; %d]" % k), gen.Field("b", sc)]
                rng.shuffle(fields)
                size = (k + al - 1) // al * al
                td.attr_src = ["#[repr(C)]"]
            else:
                al = rng.choice([2, 4, 8, 16])
                ty, fs = rng.choice([("u8", 1), ("[u8; 3]", 3), ("u16", 2), ("[u8; 1]", 1)])
                fields = [gen.Field("a", ty)]
                size = (max(fs, 1) + al - 1) // al * al
                td.attr_src = [rng.choice(["#[repr(C, align(%d))]", "#[repr(align(%d))]"]) % al]
            for f in fields:
                f.ty_src = f.ty
        else:
            # a byte-array field that covers every byte
            raw = gen.Field("raw", "[u8; %d]" % size)
            raw.ty_src = raw.ty
            fields.insert(rng.randrange(len(fields) + 1), raw)
        td.variants = [gen.Variant("", "named", fields)]
        td.size = size
        td.padded = padded
        td.generic = generic
        td.generic_where = generic and rng.random() < 0.5
        if generic:
            fields[0 if fields[0] is not raw else -1].ty_src = "T"
            td.generic_arg = fields[0 if fields[0] is not raw else -1].ty
        traits = []
        tname = ("default", None)
        r = rng.random()
        if r < 0.3:
            tname = ("custom", "Ren%d" % i)
        elif r < 0.5:
            tname = ("disable", None)
        dparams = ["unsafe"] + ([name_param(rng, tname)] if tname[0] != "default" else [])
        traits.append("Debug(%s)" % ", ".join(dparams))
        traits.append("PartialEq(unsafe)")
        traits.append("Hash(unsafe)")
        if rng.random() < 0.3:
            traits.append("Eq")
        rng.shuffle(traits)
        td.traits = [", ".join(traits)] if rng.random() < 0.5 else traits
        td.extra_json = {"kind": "union", "uattr": {"unsafe": True, "name": {"kind": tname[0], "name": tname[1]}}}
        gen.finalize_attrs(rng, td, [])
        self.rng = rng
        return td

    def render_def(self, td):
        return td.render()

    def observe(self, td, vals):
        rng = self.rng
        size = td.size
        pats = []
        for _ in range(5):
            pats.append([rng.choice(PATTERNS) for _ in range(size)])
        pats.append(list(pats[0]))
        last = list(pats[0])
        last[-1] ^= 0x55                       # differs from the first pattern in the last byte only (a padding byte, if any)
        pats.append(last)
        ty = td.name + ("::<%s>" % td.generic_arg if td.generic else "")
        tyt = td.name + ("<%s>" % td.generic_arg if td.generic else "")
        arrs = ", ".join("[%s]" % ", ".join(str(b) for b in p) for p in pats)
        return f'''
        const _: () = assert!(core::mem::size_of::<{tyt}>() == {size});
        let pats: Vec<[u8; {size}]> = vec![{arrs}];
        let mut vs: Vec<{tyt}> = pats.iter().map(|_| unsafe {{ core::mem::zeroed::<{tyt}>() }}).collect();
        // every byte of the value, those behind the largest field included, is written in place and read in place
        for (v, p) in vs.iter_mut().zip(pats.iter()) {{ unsafe {{ core::ptr::copy_nonoverlapping(p.as_ptr(), v as *mut {tyt} as *mut u8, {size}); }} }}
        let by = |x: &{tyt}| -> Vec<usize> {{ unsafe {{ core::slice::from_raw_parts(x as *const {tyt} as *const u8, {size}).iter().map(|b| *b as usize).collect() }} }};
        for a in vs.iter() {{
            println!("[\\"uhash\\",{td.id},{{}},{{}}]", ju(&by(a)), js(&rec(a)));
            println!("[\\"udbg\\",{td.id},{{}},false,{{}}]", ju(&by(a)), jstr(&format!("{{:?}}", a)));
            println!("[\\"udbg\\",{td.id},{{}},true,{{}}]", ju(&by(a)), jstr(&format!("{{:#?}}", a)));
            for b in vs.iter() {{ println!("[\\"ueq\\",{td.id},{{}},{{}},{{}}]", ju(&by(a)), ju(&by(b)), a == b); }}
        }}'''

    def nontrivial(self, td):
        return True

    def canon(self, r):
        return r


def marker_cases(rng, n):
    """(source, must_be_accepted): unions whose Debug / PartialEq / Hash attribute carries `unsafe` first, elsewhere, or not at all"""
    out = []
    for i in range(n):
        t = rng.choice(["Debug", "PartialEq", "Hash"])
        others = {"Debug": ["name = Ren", "name(Ren)", "name = false", "rename = \"Ren\"", "name = \"Ren\""], "PartialEq": [], "Hash": []}[t]
        k = rng.random()
        if k < 0.25:
            params, ok = ["unsafe"] + rng.sample(others, min(len(others), rng.randint(0, 1))), True
        elif k < 0.5 and others:
            ps = rng.sample(others, 1)
            params, ok = ps + ["unsafe"], False                     # marker present but not first
        elif k < 0.65:
            params, ok = rng.sample(others, min(len(others), 1)), False   # no marker
        elif k < 0.8:
            params, ok = None, False                                # bare path `Debug`
        elif k < 0.9:
            params, ok = ["unsafe", "unsafe"], False
        else:
            params, ok = ["r#unsafe"] if rng.random() < 0.5 else ["Unsafe"], False
        meta = t if params is None else "%s(%s%s)" % (t, ", ".join(params), "," if params and rng.random() < 0.2 else "")
        extra = rng.choice(["", "", ", Clone, Copy", ", Eq"]) if t == "PartialEq" else rng.choice(["", ", Clone, Copy"])
        if ", Eq" in extra and not ok:
            extra = ""
        nf = rng.randint(1, 3)
        fields = ", ".join("%s: %s" % (gen.FIELD_NAMES[j], rng.choice(["u8", "[u8; 4]", "u32", "f32"])) for j in range(nf))
        out.append(("#[derive(Educe)]\n#[educe(%s%s)]\npub union U%d { %s }" % (meta, extra, i, fields), ok))
    # Default: a type-level expression leaves no room for a designated field; several designated fields are refused
    for j, (meta, fattr_pos) in enumerate([("Default(expression = U%d { a: 1 })", [(1, "Default")]), ("Default(expression = U%d { a: 1 })", [(0, "Default = 7")]),
                                           ("Default", [(0, "Default"), (1, "Default")]), ("Default", [(0, "Default = 1"), (1, "Default = 2")]), ("Default", [])]):
        k = n + j
        fs = ["a: u32", "b: u32"]
        for pos, a in fattr_pos:
            fs[pos] = "#[educe(%s)] %s" % (a, fs[pos])
        out.append(("#[derive(Educe)]\n#[educe(%s)]\npub union U%d { %s }" % ((meta % k) if "%d" in meta else meta, k, ", ".join(fs)), False))
    out.append(("#[derive(Educe)]\n#[educe(Default)]\npub union U%d { a: u32, #[educe(Default)] b: u32 }" % (n + 9), True))
    out.append(("#[derive(Educe)]\n#[educe(Default(expression = U%d { a: 1 }))]\npub union U%d { a: u32, b: u32 }" % (n + 10, n + 10), True))
    return out


def refusal_tie(tie, rng, n):
    from .. import attr
    cases = marker_cases(rng, n)
    try:
        real = attr.expand_real([(i, s) for i, (s, _) in enumerate(cases)])
        model = attr.expand_model(real)
    except (common.BuildError, RuntimeError) as e:
        tie["broken"].append("B4: " + str(e)[:400])
        return
    hist = {"accepted": 0, "refused": 0}
    for i, (src, ok) in enumerate(cases):
        r = real[i]
        tie["evaluations"] += 1
        if ok and r["outcome"] != "ok":
            tie["failing"].append({"what": "a valid union request (marker first / designated default field) is refused", "rust_source": src,
                                   "observed": r.get("message", r["outcome"])[:300], "expected_spec": "accepted"})
        elif not ok and r["outcome"] == "ok":
            tie["failing"].append({"what": "a union impl is generated although the request is invalid (`unsafe` not first, or no unique designated default field)",
                                   "rust_source": src, "observed": "accepted: " + r["tokens"][:300], "expected_spec": "refused with a diagnostic"})
        elif not ok and r["outcome"] not in ("err",):
            tie["failing"].append({"what": "a union attribute without the marker is not answered with a diagnostic", "rust_source": src,
                                   "observed": r["outcome"] + ": " + r.get("message", "")[:200], "expected_spec": "refused with a diagnostic"})
        else:
            hist["accepted" if ok else "refused"] += 1
            bad = attr.compare(r, model.get(i)) if model.get(i) else ["no model result"]
            if bad:
                tie["broken"].append("B4: " + bad[0][:200])
                tie["broken_details"].append({"rust_source": src, "disagreement": bad})
    tie["extra"]["marker_cases"] = hist
    tie["rule"] = tie.get("rule", "") + ("; marker tie (in-process): unions whose Debug / PartialEq / Hash attribute has `unsafe` first (accepted), after another "
                    "parameter, missing, doubled, or misspelt (each must be refused with a diagnostic), model outcome compared")


def clone_bound_tie(tie, rng, n):
    """educed Clone on a union is `*self`: in the automatic mode its where-clause must ask every field type to be Copy
    (with or without an educed Copy), `bound(*)` every type parameter"""
    from .. import attr
    cases = []
    for i in range(n):
        generic = rng.random() < 0.7
        tys = rng.sample(["T", "[T; 2]", "u8", "[u8; 4]", "u32", "::core::mem::ManuallyDrop<T>", "(T, u8)"] if generic else ["u8", "[u8; 4]", "u32", "f32"], rng.randint(1, 3))
        if generic and not any("T" in t for t in tys):
            tys[0] = "T"
        mode = rng.choice(["auto", "auto", "all"])
        clone = "Clone" if mode == "auto" else "Clone(bound(*))"
        traits = rng.choice([[clone], [clone, "Copy"], ["Copy", clone]])
        fields = ", ".join("%s: %s" % (gen.FIELD_NAMES[j], t) for j, t in enumerate(tys))
        src = "#[derive(Educe)]\n#[educe(%s)]\npub union U%d%s { %s }" % (", ".join(traits), i, "<T>" if generic else "", fields)
        want = [attr.nospace(t) + ":::core::marker::Copy" for t in tys] if mode == "auto" else (["T:::core::marker::Copy"] if generic else [])
        cases.append((src, want))
    try:
        real = attr.expand_real([(i, s) for i, (s, _) in enumerate(cases)])
        model = attr.expand_model(real)
    except (common.BuildError, RuntimeError) as e:
        tie["broken"].append("B2: " + str(e)[:400])
        return
    ok = 0
    for i, (src, want) in enumerate(cases):
        r = real[i]
        tie["evaluations"] += 1
        if r["outcome"] != "ok":
            tie["failing"].append({"what": "educed Clone on a union is refused", "rust_source": src, "observed": r.get("message", r["outcome"])[:300], "expected_spec": "accepted"})
            continue
        got = dict(attr.real_items(r)).get("Clone")
        if got != want:
            tie["failing"].append({"what": "the where-clause of the bitwise union Clone does not require Copy of the field types", "rust_source": src,
                                   "observed": got, "expected_spec": want})
            continue
        bad = attr.compare(r, model.get(i)) if model.get(i) else ["no model result"]
        if bad:
            tie["broken"].append("B2: " + bad[0][:200])
            tie["broken_details"].append({"rust_source": src, "disagreement": bad})
        ok += 1
    tie["extra"]["union_clone_headers"] = ok
    tie["rule"] = tie.get("rule", "") + ("; Clone tie (in-process): 1-3-field unions, generic or not, Clone alone / with Copy, automatic and bound(*) modes: the Clone "
                    "impl's appended predicates must be `FieldTy: Copy` per field (resp. `T: Copy`), model agrees")


def main(tier):
    t0 = time.time()
    proof = common.proof_obligations("C20", modules=["EduceModel.Props.C20", "EduceModel.Props.E2E", "EduceModel.Props.Profile", "EduceModel.Props.ListParse"])
    n_defs = 150 if tier == "quick" else 2000
    tie = b1.run_b1("C20", P(), n_defs, 1, common.seed())
    # Default on unions (the clause "Default initialises exactly the designated field with its expression or the field type's
    # default"): C08's generator restricted to unions - sole fields with and without marker or expression, markers and
    # expressions at every position of 2-3-field unions
    from . import c08
    tie_d = b1.run_b1("C20", c08.P(kinds=("union",)), 80 if tier == "quick" else 800, 1, common.seed() + 3)
    for k in ("failing", "broken", "broken_details"):
        tie[k] += tie_d[k]
    tie["evaluations"] += tie_d["evaluations"]
    tie["extra"]["union_default_definitions"] = tie_d["extra"].get("definitions", 0)
    tie["rule"] += "; Default tie: " + (tie_d.get("rule") or "")[:300]
    import random
    refusal_tie(tie, random.Random(common.seed() + 7), 200 if tier == "quick" else 3000)
    clone_bound_tie(tie, random.Random(common.seed() + 11), 100 if tier == "quick" else 1500)
    tie["failing"] = tie["failing"][:4]
    tie["broken"] = tie["broken"][:4]
    return common.finish("C20", tier, t0, proof, tie)
