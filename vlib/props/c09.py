"""C09 — Deref and DerefMut expose exactly the designated field."""
import time
from .. import common, gen, b1


class P(b1.Plugin):
    ops = ("deref", "derefmut", "write")
    driver_traits = (("deref", "Deref"), ("derefmut", "DerefMut"))
    rule = ("struct/enum definitions with 1-5 same-typed fields per variant (value fields `L`, and `&'static L` and `&'static &'static L` reference fields, and `Box<L>` designated fields in later variants, when "
            "only Deref is educed), named and tuple shapes, Deref alone or Deref+DerefMut with independently placed markers (possibly "
            "on different fields), sole-field variants with and without marker; observed: which field's storage (or referent) has "
            "the address of `&*x` / `&mut *x`, and which fields change after a write through `&mut *x`. "
            "distinct_nontrivial = definitions with a variant of >=2 fields")

    def make(self, rng, i):
        self.rng = rng
        kind = rng.choice(["struct", "enum", "enum"])
        with_mut = rng.random() < 0.6
        while True:
            td = gen.make_skeleton(rng, i, kind, ["L"], max_fields=5, max_variants=3)
            # no unit shapes, at least one field everywhere (refused otherwise; see C13)
            if td.variants and all(v.shape != "unit" and v.fields for v in td.variants):
                break
        metas = ["Deref"] + (["DerefMut"] if with_mut else [])
        td.traits = [", ".join(metas)] if rng.random() < 0.5 else metas
        td.with_mut = with_mut
        for vi, v in enumerate(td.variants):
            n = len(v.fields)
            di = rng.randrange(n)
            mi = rng.randrange(n) if rng.random() < 0.5 else di
            # in a later variant the designated field may be spelled differently and still coerce to the first
            # variant's target: `Box<L>` (the impl's Target is taken from the first variant)
            boxed_j = di if (kind == "enum" and vi > 0 and rng.random() < 0.25) else None
            for j, f in enumerate(v.fields):
                is_ref = (not with_mut) and rng.random() < 0.3
                f.is_ref = is_ref
                f.ref2 = is_ref and rng.random() < 0.3          # a reference to a reference: the target is still L
                if is_ref:
                    f.ty_src = "&'static &'static L" if f.ref2 else "&'static L"
                dflag = (j == di) and (n > 1 or rng.random() < 0.5)
                mflag = with_mut and (j == mi) and (n > 1 or rng.random() < 0.5)
                f.boxed = (j == boxed_j) and not is_ref and (not with_mut or mi == di)
                if f.boxed:
                    f.ty_src = "Box<L>"
                f.req["Deref"] = {"flag": dflag, "isRef": is_ref}
                f.req["DerefMut"] = {"flag": mflag, "isRef": is_ref}
                ms = (["Deref"] if dflag else []) + (["DerefMut"] if mflag else [])
                rng.shuffle(ms)
                f.metas = ms
        noise = [t for t in ("Debug",) if rng.random() < 0.3]
        gen.finalize_attrs(rng, td, noise)
        # addresses of every field's storage (or referent)
        arms = []
        for k, v in enumerate(td.variants):
            head = td.name if td.kind == "struct" else "%s::%s" % (td.name, v.name)
            names = ["f%d" % j for j in range(len(v.fields))]
            addrs = ", ".join(("(**%s) as *const L as usize" if getattr(f, "ref2", False) else "(&**%s) as *const L as usize" if getattr(f, "boxed", False) else "(*%s) as *const L as usize" if f.is_ref else "%s as *const L as usize") % n for f, n in zip(v.fields, names))
            ids = ", ".join("Leaf::id(%s%s)" % ("**" if getattr(f, "ref2", False) else "&**" if getattr(f, "boxed", False) else "*" if f.is_ref else "", n) for f, n in zip(v.fields, names))
            if v.shape == "tuple":
                arms.append("%s(%s) => (%d, vec![%s], vec![%s])," % (head, ", ".join(names), k, addrs, ids))
            else:
                arms.append("%s { %s } => (%d, vec![%s], vec![%s])," % (head, ", ".join("%s: %s" % (f.name, n) for f, n in zip(v.fields, names)), k, addrs, ids))
        td.extra_items = ["fn addrs(x: &%s) -> (usize, Vec<usize>, Vec<usize>) { match x { %s } }" % (td.name, " ".join(arms))]
        return td

    def nontrivial(self, td):
        return any(len(v.fields) >= 2 for v in td.variants)

    def observe(self, td, vals):
        out = []
        for k, ids in vals:
            v = td.variants[k]
            args = []
            for j, (f, i) in enumerate(zip(v.fields, ids)):
                args.append("&RS[%d][%d]" % (j, i) if getattr(f, "ref2", False) else "Box::new(<L as Leaf>::d(%d))" % i if getattr(f, "boxed", False) else "&LS[%d][%d]" % (j, i) if f.is_ref else "<L as Leaf>::d(%d)" % i)
            head = td.name if td.kind == "struct" else "%s::%s" % (td.name, v.name)
            e = "%s(%s)" % (head, ", ".join(args)) if v.shape == "tuple" else "%s { %s }" % (head, ", ".join("%s: %s" % (f.name, a) for f, a in zip(v.fields, args)))
            out.append(f'''
        {{ let mut x = {e}; let (k, ad, ids) = addrs(&x);
          let p = &*x as *const L as usize; let hit: Vec<usize> = (0..ad.len()).filter(|i| ad[*i] == p).collect();
          println!("[\\"deref\\",{td.id},{{}},{{}},{{}}]", k, ju(&ids), if hit.len() == 1 {{ hit[0] as i64 }} else {{ -1 }});''')
            if td.with_mut:
                out.append(f'''          let q = &mut *x as *mut L as usize; let hit: Vec<usize> = (0..ad.len()).filter(|i| ad[*i] == q).collect();
          println!("[\\"derefmut\\",{td.id},{{}},{{}},{{}}]", k, ju(&ids), if hit.len() == 1 {{ hit[0] as i64 }} else {{ -1 }});
          *(&mut *x) = L(77); let (_, _, after) = addrs(&x);
          let changed: Vec<usize> = (0..ids.len()).filter(|i| ids[*i] != after[*i]).collect();
          println!("[\\"write\\",{td.id},{{}},{{}},{{}}]", k, ju(&ids), ju(&changed));''')
            out.append("        }")
        return "\n".join(out)

    def canon(self, r):
        return r


def main(tier):
    t0 = time.time()
    proof = common.proof_obligations("C09")
    n_defs, cap_vals = (250, 3) if tier == "quick" else (3000, 6)
    tie = b1.run_b1("C09", P(), n_defs, cap_vals, common.seed())
    return common.finish("C09", tier, t0, proof, tie)
